package hostile

// core.go: case model (as emitted by spec/hostile/HostileGen.tla), the generic renderer
// (specification case -> bytes, by editing a real valid message) and the guards under which the
// code under test is called (recover / watchdog / allocation bound).

import (
	"bytes"
	"encoding/json"
	"fmt"
	"math/rand"
	"os"
	"path/filepath"
	"runtime"
	"sort"
	"strings"
	"sync/atomic"
	"time"

	"google.golang.org/protobuf/encoding/protowire"
)

type groupSpec struct {
	Ep     string            `json:"ep"`
	V      string            `json:"v"`
	Top    string            `json:"top"`
	Choice map[string]string `json:"choice"`
	St     string            `json:"st"`
	Frame  string            `json:"frame"`
}

type caseSpec struct {
	Path   []string `json:"path"`
	Kind   string   `json:"kind"`
	Op     string   `json:"op"`
	Cls    string   `json:"cls"`
	Reseal bool     `json:"reseal"`
	// harness-side expansion of "prefix-sweep": the prefix length (-1 = not a sweep instance)
	Prefix int `json:"prefix,omitempty"`
}

type emitted struct {
	Kind  string              `json:"kind"`
	Tier  string              `json:"tier"`
	Group groupSpec           `json:"group"`
	Cases []caseSpec          `json:"cases"`
	Table map[string][]string `json:"table"`
}

// magnitude orders the size-like operators of a field from mild to extreme.
func magnitude(op string) int {
	switch op {
	case "varint-2e20", "grow-64k", "pt-grow-64k", "rep-many":
		return 1
	case "varint-2e22":
		return 2
	case "varint-2e24", "frame-size-limit-plus1":
		return 3
	case "len-huge", "frame-size-huge", "snappy-len-huge", "enum-unknown":
		return 4
	case "varint-max", "len-overflow":
		return 5
	}
	return 0
}

func (g groupSpec) String() string { return g.Ep + "[" + g.V + "@" + g.St + "]" }
func (c caseSpec) String() string {
	s := strings.Join(c.Path, ".") + ":" + c.Op
	if c.Reseal {
		s += "+reseal"
	}
	if c.Op == "prefix-sweep" {
		s += fmt.Sprintf("@%d", c.Prefix)
	}
	return s
}

func loadEmitted(dir string) (groups []emitted, table map[string][]string, err error) {
	names, err := filepath.Glob(filepath.Join(dir, "*.json"))
	if err != nil {
		return
	}
	sort.Strings(names)
	for _, n := range names {
		var b []byte
		if b, err = os.ReadFile(n); err != nil {
			return
		}
		var e emitted
		if err = json.Unmarshal(b, &e); err != nil {
			return nil, nil, fmt.Errorf("%s: %w", n, err)
		}
		switch e.Kind {
		case "group":
			// by field, then by how extreme the operator is (the runner stops escalating sizes on a
			// field once the allocation guard has fired there), then by name
			sort.Slice(e.Cases, func(i, j int) bool {
				a, b := e.Cases[i], e.Cases[j]
				pa, pb := strings.Join(a.Path, "."), strings.Join(b.Path, ".")
				if pa != pb {
					return pa < pb
				}
				if magnitude(a.Op) != magnitude(b.Op) {
					return magnitude(a.Op) < magnitude(b.Op)
				}
				return a.String() < b.String()
			})
			groups = append(groups, e)
		case "coverage":
			table = e.Table
		}
	}
	sort.Slice(groups, func(i, j int) bool { return groups[i].Group.String() < groups[j].Group.String() })
	return
}

// ---------------------------------------------------------------------------------------------
// rendering

// renderEnv is what an entry point provides for a base message: how to re-seal envelopes after a
// descendant changed, symbolic values for reference operators, keys for key / ciphertext operators.
type renderEnv struct {
	rnd *rand.Rand
	// fix is called bottom-up for every message on the path (only when the case says reseal):
	// nodes already contain the changed child `field`; it returns the nodes with signatures /
	// ids recomputed.
	fix func(msgType, field string, nodes []wnode) []wnode
	// symbolic ids: "dangling", "trimmed", "ancestor", "nonsnapshot", "self", "other-cid"
	ids map[string]string
	// otherPub: marshalled public key of an unrelated identity; otherCtX/otherCtAes: valid
	// ciphertexts for keys the receiver does not hold
	otherPub   []byte
	otherCtX   []byte
	otherCtAes []byte
}

const hugeLen = uint64(0x7fffffff)

var errNA = fmt.Errorf("not applicable")

// render applies the case to the valid top-level message.
func render(top string, valid []byte, c caseSpec, env *renderEnv) ([]byte, error) {
	switch c.Kind {
	case "message":
		switch c.Op {
		case "valid":
			return valid, nil
		case "empty-message":
			return []byte{}, nil
		case "garbage-message":
			b := make([]byte, len(valid))
			env.rnd.Read(b)
			return b, nil
		case "prefix-sweep":
			if c.Prefix < 0 || c.Prefix > len(valid) {
				return nil, errNA
			}
			return valid[:c.Prefix], nil
		}
		return nil, fmt.Errorf("unknown message operator %q", c.Op)
	}
	if strings.HasPrefix(c.Op, "cut-") {
		st, at, al, en, ok := locate(top, valid, c.Path)
		if !ok {
			return nil, errNA
		}
		switch c.Op {
		case "cut-before":
			return valid[:st], nil
		case "cut-tag":
			return valid[:at], nil
		case "cut-len":
			return valid[:al], nil
		case "cut-mid":
			if en-al < 2 {
				return nil, errNA
			}
			return valid[:al+(en-al)/2], nil
		}
	}
	return mutate(top, valid, c.Path, c, env)
}

// locate returns the absolute offsets of the field at path inside the top-level bytes.
func locate(msgType string, data []byte, path []string) (start, afterTag, afterLen, end int, ok bool) {
	base := 0
	for i, name := range path {
		mi := lookupMsg(msgType)
		if mi == nil {
			return
		}
		fname, last := stepOf(name)
		f := mi.field(fname)
		if f == nil {
			return
		}
		nodes, pok := parseMsg(data)
		if !pok {
			return
		}
		idx := findNode(nodes, protowire.Number(f.Num), 0)
		if last {
			n := countNodes(nodes, protowire.Number(f.Num))
			if n < 2 {
				return
			}
			idx = findNode(nodes, protowire.Number(f.Num), n-1)
		}
		if idx < 0 {
			return
		}
		nd := nodes[idx]
		if i == len(path)-1 {
			return base + nd.start, base + nd.afterTag, base + nd.afterLen, base + nd.end, true
		}
		if nd.typ != protowire.BytesType || isCipherKind(f.Kind) {
			return // (a stream cut inside a ciphertext is a cut of the ciphertext field itself)
		}
		base += nd.afterLen
		data = nd.val
		msgType = f.Type
	}
	return
}

func lookupMsg(name string) *msgInfo {
	if m, ok := schema[name]; ok {
		return m
	}
	if m, ok := synthSchema[name]; ok {
		return m
	}
	return nil
}

var synthSchema = map[string]*msgInfo{
	"CtX25519": {Name: "CtX25519", Fields: []fieldInfo{{Name: "ct", Num: 1, Kind: "ct_x25519"}}},
	"CtAes":    {Name: "CtAes", Fields: []fieldInfo{{Name: "ct", Num: 1, Kind: "ct_aes"}}},
	"StrKey":   {Name: "StrKey", Fields: []fieldInfo{{Name: "s", Num: 1, Kind: "strkey"}}},
}

func mutate(msgType string, data []byte, path []string, c caseSpec, env *renderEnv) ([]byte, error) {
	mi := lookupMsg(msgType)
	if mi == nil {
		return nil, fmt.Errorf("unknown message type %q", msgType)
	}
	name, last := stepOf(path[0])
	f := mi.field(name)
	if f == nil {
		return nil, fmt.Errorf("unknown field %s.%s", msgType, path[0])
	}
	nodes, ok := parseMsg(data)
	if !ok {
		return nil, errNA
	}
	idx := findNode(nodes, protowire.Number(f.Num), 0)
	if last {
		// the last element of a repeated field (only if it is not also the first)
		n := countNodes(nodes, protowire.Number(f.Num))
		if n < 2 {
			return nil, errNA
		}
		idx = findNode(nodes, protowire.Number(f.Num), n-1)
	}
	if len(path) == 1 {
		var err error
		nodes, err = applyOp(nodes, idx, f, c, env)
		if err != nil {
			return nil, err
		}
	} else {
		if idx < 0 || nodes[idx].typ != protowire.BytesType {
			return nil, errNA
		}
		inner, seal := nodes[idx].val, func(b []byte) []byte { return b }
		if isCipherKind(f.Kind) {
			// the field is a ciphertext whose plaintext is a message: open it with the key it was
			// sealed for, mutate the plaintext, seal it again for the same recipient
			pt, sl, ok := openField(f.Kind, inner)
			if !ok {
				return nil, errNA
			}
			inner, seal = pt, sl
		}
		child, err := mutate(f.Type, inner, path[1:], c, env)
		if err != nil {
			return nil, err
		}
		nodes = append([]wnode{}, nodes...)
		nodes[idx].val = seal(child)
	}
	if c.Reseal && env.fix != nil {
		nodes = env.fix(msgType, name, nodes)
	}
	return encodeMsg(nodes), nil
}

// stepOf splits a path step "<field>@last" (last element of a repeated field).
func stepOf(step string) (name string, last bool) {
	if strings.HasSuffix(step, "@last") {
		return strings.TrimSuffix(step, "@last"), true
	}
	return step, false
}

func isCipherKind(k string) bool { return k == "ct_x25519" || k == "ct_aes" }

func wireTypeOf(f *fieldInfo) protowire.Type {
	switch f.Kind {
	case "varint", "enum":
		return protowire.VarintType
	}
	return protowire.BytesType
}

// applyOp applies a field-level operator to the node list of the parent message.
func applyOp(nodes []wnode, idx int, f *fieldInfo, c caseSpec, env *renderEnv) ([]wnode, error) {
	num := protowire.Number(f.Num)
	present := idx >= 0
	out := append([]wnode{}, nodes...)
	needPresent := func() error {
		if !present {
			return errNA
		}
		return nil
	}
	rawPrefix := func(nd wnode, upto string) []byte {
		b := protowire.AppendTag(nil, nd.num, nd.typ)
		if upto == "tag" {
			return b
		}
		if nd.typ == protowire.BytesType {
			b = protowire.AppendVarint(b, uint64(len(nd.val)))
			if upto == "mid" {
				b = append(b, nd.val[:len(nd.val)/2]...)
			}
		}
		return b
	}
	setVal := func(v []byte) ([]wnode, error) {
		if present {
			out[idx].val = v
			out[idx].typ = protowire.BytesType
			return out, nil
		}
		return append(out, bytesNode(num, v)), nil
	}
	cur := func() []byte {
		if present {
			return nodes[idx].val
		}
		return nil
	}
	switch c.Op {
	// ---- structural
	case "remove-field", "nil-submessage", "parents-none":
		if err := needPresent(); err != nil {
			return nil, err
		}
		return removeAll(out, num), nil
	case "empty-submessage", "empty", "ct-empty", "key-empty", "sig-empty", "id-empty", "cid-empty":
		return setVal([]byte{})
	case "duplicate-field", "parent-duplicate":
		if err := needPresent(); err != nil {
			return nil, err
		}
		res := append([]wnode{}, out[:idx+1]...)
		res = append(res, out[idx])
		return append(res, out[idx+1:]...), nil
	case "rep-many":
		if err := needPresent(); err != nil {
			return nil, err
		}
		res := append([]wnode{}, out[:idx+1]...)
		for i := 0; i < 1000; i++ {
			res = append(res, out[idx])
		}
		return append(res, out[idx+1:]...), nil
	case "trunc-before":
		if err := needPresent(); err != nil {
			return nil, err
		}
		return out[:idx], nil
	case "trunc-tag", "trunc-len", "trunc-mid":
		if err := needPresent(); err != nil {
			return nil, err
		}
		nd := out[idx]
		if c.Op != "trunc-tag" && nd.typ != protowire.BytesType {
			return nil, errNA
		}
		if c.Op == "trunc-mid" && len(nd.val) < 2 {
			return nil, errNA
		}
		return append(out[:idx:idx], wnode{raw: rawPrefix(nd, strings.TrimPrefix(c.Op, "trunc-"))}), nil
	case "tag-zero", "tag-wiretype7", "tag-group", "tag-overlong":
		// a malformed tag where the field starts (the field itself follows)
		if err := needPresent(); err != nil {
			return nil, err
		}
		var raw []byte
		switch c.Op {
		case "tag-zero":
			raw = []byte{0x00}
		case "tag-wiretype7":
			raw = []byte{byte(uint64(num)<<3|7) & 0x7f}
		case "tag-group":
			raw = []byte{byte(uint64(num)<<3|3) & 0x7f}
		case "tag-overlong":
			raw = []byte{0x80, 0x80, 0x80, 0x80, 0x80, 0x80, 0x80, 0x80, 0x80, 0x80, 0x01}
		}
		res := append([]wnode{}, out[:idx]...)
		res = append(res, wnode{raw: raw})
		return append(res, out[idx:]...), nil
	case "len-minus1", "len-plus1", "len-huge", "len-overflow":
		if err := needPresent(); err != nil {
			return nil, err
		}
		if out[idx].typ != protowire.BytesType {
			return nil, errNA
		}
		l := uint64(len(out[idx].val))
		switch c.Op {
		case "len-minus1":
			if l == 0 {
				return nil, errNA
			}
			l--
		case "len-plus1":
			l++
		case "len-huge":
			l = hugeLen
		case "len-overflow":
			l = ^uint64(0)
		}
		out[idx].lenOverride = &l
		return out, nil
	// ---- reordering of a repeated field (batch permutations)
	case "rep-reverse", "rep-rotate":
		var pos []int
		for i, nd := range out {
			if nd.num == num {
				pos = append(pos, i)
			}
		}
		if len(pos) < 2 {
			return nil, errNA
		}
		els := make([]wnode, len(pos))
		for k, i := range pos {
			els[k] = out[i]
		}
		for k, i := range pos {
			if c.Op == "rep-reverse" {
				out[i] = els[len(els)-1-k]
			} else {
				out[i] = els[(k+1)%len(els)]
			}
		}
		return out, nil
	// ---- a reference to an element of the same message that can itself never be attached
	case "ref-inbatch-orphan":
		if env.id("inbatch-orphan") == "" {
			return nil, errNA
		}
		if f.Repeated {
			out = removeAll(out, num)
			return append(out, bytesNode(num, []byte(env.id("inbatch-orphan")))), nil
		}
		return setVal([]byte(env.id("inbatch-orphan")))
	// ---- the plaintext of an encrypted field, sealed again for the same recipient
	case "pt-empty", "pt-one-byte", "pt-grow-64k", "pt-garbage":
		if err := needPresent(); err != nil {
			return nil, err
		}
		pt, seal, ok := openField(f.Kind, cur())
		if !ok {
			return nil, errNA
		}
		var np []byte
		switch c.Op {
		case "pt-empty":
			np = []byte{}
		case "pt-one-byte":
			np = []byte{0x0a}
		case "pt-grow-64k":
			np = append(append([]byte{}, pt...), make([]byte, 64*1024)...)
		case "pt-garbage":
			np = make([]byte, len(pt))
			env.rnd.Read(np)
		}
		return setVal(seal(np))
	// ---- key material inside a key blob
	case "keydata-len-0", "keydata-len-1", "keydata-len-15", "keydata-len-16", "keydata-len-24", "keydata-len-31",
		"keydata-len-33", "keydata-len-64":
		n := map[string]int{"keydata-len-0": 0, "keydata-len-1": 1, "keydata-len-15": 15, "keydata-len-16": 16,
			"keydata-len-24": 24, "keydata-len-31": 31, "keydata-len-33": 33, "keydata-len-64": 64}[c.Op]
		b := make([]byte, n)
		env.rnd.Read(b)
		copy(b, cur())
		return setVal(b)
	case "keytype-ed25519-public", "keytype-ed25519-private", "keytype-aes":
		u := map[string]uint64{"keytype-ed25519-public": 0, "keytype-ed25519-private": 1, "keytype-aes": 2}[c.Op]
		if present && nodes[idx].u == u {
			return nil, errNA
		}
		if u == 0 {
			// proto3 zero value: the field is absent
			return removeAll(out, num), nil
		}
		if present {
			out[idx].u = u
			return out, nil
		}
		return append([]wnode{varintNode(num, u)}, out...), nil
	// ---- plain bytes / strings
	case "one-byte":
		return setVal([]byte{0x7f})
	case "grow-64k":
		b := make([]byte, 64*1024+len(cur()))
		copy(b, cur())
		for i := len(cur()); i < len(b); i++ {
			b[i] = 'A'
		}
		return setVal(b)
	// ---- ciphertexts
	case "ct-short-1", "ct-short-11", "ct-exact-12", "ct-short-27", "ct-short-31", "ct-exact-32", "ct-short-47":
		n := map[string]int{"ct-short-1": 1, "ct-short-11": 11, "ct-exact-12": 12, "ct-short-27": 27,
			"ct-short-31": 31, "ct-exact-32": 32, "ct-short-47": 47}[c.Op]
		b := make([]byte, n)
		env.rnd.Read(b)
		copy(b, cur())
		return setVal(b)
	case "ct-garbage":
		n := len(cur())
		if n == 0 {
			n = 80
		}
		b := make([]byte, n)
		env.rnd.Read(b)
		return setVal(b)
	case "ct-for-other-key":
		if f.Kind == "ct_x25519" {
			return setVal(env.otherCtX)
		}
		return setVal(env.otherCtAes)
	// ---- keys
	case "key-wrong-type-aes", "key-wrong-type-priv", "key-unknown-type", "key-zero-len", "key-short-31",
		"key-long-33", "key-bad-point", "key-raw-unwrapped", "key-other":
		return setVal(keyValue(c.Op, cur(), env))
	// ---- signatures
	case "sig-short-63", "sig-long-65", "sig-garbage":
		n := map[string]int{"sig-short-63": 63, "sig-long-65": 65, "sig-garbage": 64}[c.Op]
		b := make([]byte, n)
		env.rnd.Read(b)
		if c.Op != "sig-garbage" {
			copy(b, cur())
		}
		return setVal(b)
	// ---- references
	case "id-dangling", "parent-dangling", "cid-of-other-content":
		return setVal([]byte(env.id("dangling")))
	case "id-garbage", "cid-garbage":
		return setVal([]byte("\x00\xff\xfenot-a-cid/../\x00"))
	case "parent-self":
		return setVal([]byte(env.id("self")))
	case "parent-trimmed", "snap-trimmed":
		if env.id("trimmed") == "" {
			return nil, errNA
		}
		return setVal([]byte(env.id("trimmed")))
	case "snap-nonsnapshot":
		if env.id("nonsnapshot") == "" {
			return nil, errNA
		}
		return setVal([]byte(env.id("nonsnapshot")))
	case "parent-redundant":
		// keep the parents and add an ancestor of one of them
		if env.id("ancestor") == "" {
			return nil, errNA
		}
		if err := needPresent(); err != nil {
			return nil, err
		}
		return append(out, bytesNode(num, []byte(env.id("ancestor")))), nil
	// ---- integers
	case "varint-max", "varint-zero", "varint-flip", "enum-unknown", "varint-2e20", "varint-2e22", "varint-2e24":
		var u uint64
		if present {
			u = nodes[idx].u
		}
		switch c.Op {
		case "varint-max":
			u = ^uint64(0)
		case "varint-zero":
			u = 0
		case "varint-flip":
			u ^= 1
		case "enum-unknown":
			u = 0x7ffffff0
		case "varint-2e20":
			u = 1 << 20
		case "varint-2e22":
			u = 1 << 22
		case "varint-2e24":
			u = 1 << 24
		}
		if present {
			out[idx].u = u
			return out, nil
		}
		return append(out, varintNode(num, u)), nil
	// ---- string keys
	case "str-truncated":
		if len(cur()) < 2 {
			return nil, errNA
		}
		return setVal(cur()[:len(cur())/2])
	case "str-bad-charset":
		b := append([]byte{}, cur()...)
		if len(b) == 0 {
			return nil, errNA
		}
		b[len(b)/2] = '!'
		return setVal(b)
	case "str-wrong-version":
		b := append([]byte{}, cur()...)
		if len(b) == 0 {
			return nil, errNA
		}
		if b[0] == 'Z' {
			b[0] = 'Y'
		} else {
			b[0] = 'Z'
		}
		return setVal(b)
	case "str-bad-checksum":
		b := append([]byte{}, cur()...)
		if len(b) == 0 {
			return nil, errNA
		}
		if b[len(b)-1] == 'A' {
			b[len(b)-1] = 'B'
		} else {
			b[len(b)-1] = 'A'
		}
		return setVal(b)
	}
	return nil, fmt.Errorf("unknown operator %q (kind %s)", c.Op, f.Kind)
}

func (e *renderEnv) id(name string) string {
	if e.ids == nil {
		return ""
	}
	return e.ids[name]
}

// ---------------------------------------------------------------------------------------------
// guards

type callResult struct {
	Outcome   string `json:"outcome"` // accepted | rejected | panic | hang | alloc
	Err       string `json:"err,omitempty"`
	PanicSite string `json:"panic_site,omitempty"`
	PanicVal  string `json:"panic_val,omitempty"`
	Stack     string `json:"stack,omitempty"`
	Alloc     uint64 `json:"alloc,omitempty"`
	DurMs     int64  `json:"dur_ms,omitempty"`
}

var (
	watchdog     = 90 * time.Second
	allocPerByte = uint64(1024)
	allocConst   = uint64(96 << 20)
)

// extraInput: bytes the code under test received during the call in addition to the rendered case
// (replies of a remote it keeps asking)
var extraInput atomic.Int64

func addInputBytes(n int) { extraInput.Add(int64(n)) }

// guarded calls f (the entry point under test, and nothing else) under recover, a watchdog and
// an allocation bound.
func guarded(inputLen int, f func() error) callResult {
	type done struct {
		err   error
		pv    any
		site  string
		stack string
	}
	ch := make(chan done, 1)
	extraInput.Store(0)
	var before, after runtime.MemStats
	runtime.ReadMemStats(&before)
	t0 := time.Now()
	go func() {
		var d done
		defer func() {
			if r := recover(); r != nil {
				d.pv = r
				d.site, d.stack = panicSite()
			}
			ch <- d
		}()
		d.err = f()
	}()
	var d done
	select {
	case d = <-ch:
	case <-time.After(watchdog):
		buf := make([]byte, 1<<16)
		n := runtime.Stack(buf, true)
		return callResult{Outcome: "hang", Stack: string(buf[:n]), DurMs: time.Since(t0).Milliseconds()}
	}
	runtime.ReadMemStats(&after)
	res := callResult{DurMs: time.Since(t0).Milliseconds(), Alloc: after.TotalAlloc - before.TotalAlloc}
	switch {
	case d.pv != nil:
		res.Outcome = "panic"
		res.PanicVal = fmt.Sprint(d.pv)
		res.PanicSite = d.site
		res.Stack = d.stack
	case res.Alloc > allocPerByte*(uint64(inputLen)+uint64(extraInput.Load()))+allocConst:
		res.Outcome = "alloc"
	case isHang(d.err):
		res.Outcome = "hang"
		res.Err = d.err.Error()
	case isAlloc(d.err):
		res.Outcome = "alloc"
		res.Err = d.err.Error()
	case isReaderErr(d.err):
		// the entry point accepted the input; a reader of the accepted data returned an error
		res.Outcome = "accepted"
		res.Err = d.err.Error()
	case d.err != nil:
		res.Outcome = "rejected"
		res.Err = d.err.Error()
	default:
		res.Outcome = "accepted"
	}
	return res
}

const modulePrefix = "github.com/anyproto/any-sync/"

// panicSite names the function of the code under test in which the panic was raised.
func panicSite() (site string, stack string) {
	pcs := make([]uintptr, 64)
	n := runtime.Callers(3, pcs)
	frames := runtime.CallersFrames(pcs[:n])
	var first string
	var sb strings.Builder
	for {
		fr, more := frames.Next()
		fmt.Fprintf(&sb, "%s\n\t%s:%d\n", fr.Function, fr.File, fr.Line)
		if site == "" && strings.HasPrefix(fr.Function, modulePrefix) {
			site = shortFunc(fr.Function)
		}
		if first == "" && !strings.HasPrefix(fr.Function, "runtime.") && !strings.HasPrefix(fr.Function, "verifharness/") {
			first = shortFunc(fr.Function)
		}
		if !more {
			break
		}
	}
	if site == "" {
		site = first
	}
	if site == "" {
		site = "unknown"
	}
	return site, sb.String()
}

func shortFunc(fn string) string {
	if i := strings.LastIndex(fn, "/"); i >= 0 {
		fn = fn[i+1:]
	}
	// pkg.(*T).method.func1 -> method ; pkg.Func -> Func
	parts := strings.Split(fn, ".")
	for i := len(parts) - 1; i >= 1; i-- {
		p := parts[i]
		if strings.HasPrefix(p, "func") || p == "" || (p[0] >= '0' && p[0] <= '9') {
			continue
		}
		if strings.HasPrefix(p, "(") {
			continue
		}
		return p
	}
	return fn
}

func goName(field string) string {
	if field == "" {
		return field
	}
	return strings.ToUpper(field[:1]) + field[1:]
}

func sameBytes(a, b []byte) bool { return bytes.Equal(a, b) }

func isHang(err error) bool  { _, ok := err.(*hangError); return ok }
func isAlloc(err error) bool { _, ok := err.(*allocError); return ok }

// readerErr: the input was accepted by the entry point; reading the accepted data afterwards (as the
// rest of the library does) failed with an ordinary error.
type readerErr struct{ err error }

func (e *readerErr) Error() string { return "accepted; reader: " + e.err.Error() }

func afterAccept(err error) error {
	if err == nil {
		return nil
	}
	return &readerErr{err}
}

func isReaderErr(err error) bool { _, ok := err.(*readerErr); return ok }
