package hostile

import (
	"encoding/hex"
	"encoding/json"
	"fmt"
	"hash/fnv"
	"math/rand"
	"os"
	"path/filepath"
	"sort"
	"strings"

	"verifharness/vfutil"
)

type base struct {
	valid []byte
	env   *renderEnv
	ctx   any
}

// entryPoint binds one entry point name of the specification to the real code.
type entryPoint interface {
	// base builds the valid message (and what is needed to re-seal mutations of it) for a group
	base(g groupSpec) (*base, error)
	// newReceiver builds a fresh receiver in the state the group names (not guarded: a failure
	// here is a harness failure).
	newReceiver(g groupSpec, b *base) (recv any, cleanup func(), err error)
	// call returns the call under test: it decodes data and hands it to the real entry point.
	call(g groupSpec, b *base, recv any, data []byte) func() error
}

// A receiver is used for the following cases of its group as long as every call on it was
// rejected (building a tree over a database per case is too slow); the cases delivered to it
// before are recorded in the replay object, and --replay re-delivers them in order.  An entry
// point whose calls never change the receiver implements readOnly.
type readOnly interface {
	readOnlyCall() bool
}

// cleanChecker: an entry point whose rejected calls may still leave something behind in the
// receiver tells whether the receiver is untouched.
type cleanChecker interface {
	stillClean(recv any) bool
}

// frameRenderer is implemented by entry points with a non-protobuf framing.
type frameRenderer interface {
	renderFrame(g groupSpec, b *base, c caseSpec) ([]byte, error)
}

// remoteEP: an entry point that can only be called from inside its package. The harness renders
// its cases to a file ($VERIF_RENDERED_DIR/<name>.jsonl); an overlay test in the repository
// package (harness/inpkg/...) delivers them under the same guards.
type remoteEP interface {
	remoteName() string
	setup(b *base) any
}

// postRenderer lets an entry point wrap / post-process the rendered protobuf message.
type postRenderer interface {
	postRender(g groupSpec, b *base, c caseSpec, data []byte) ([]byte, error)
}

var registry = map[string]entryPoint{}

func caseRand(g groupSpec) *rand.Rand {
	h := fnv.New64a()
	h.Write([]byte(g.String()))
	return rand.New(rand.NewSource(vfutil.Seed()*1000003 + int64(h.Sum64()&0xffffffff)))
}

type runner struct {
	rep               *vfutil.Report
	bases             map[string]*base
	outcomes          map[string]map[string]int // ep -> outcome -> n
	executed          map[string]map[string]int // ep -> class -> n
	na                int
	sampled           map[string]bool
	errs              map[string]map[string]int // ep -> error text -> n (diagnostics: how deep the cases get)
	remote            map[string]*os.File
	rendered          int
	allocFired        map[string]bool
	escalationSkipped int
	// current receiver
	recvKey     string
	recv        any
	recvCleanup func()
	prior       []caseSpec
}

func (r *runner) dropReceiver() {
	if r.recvCleanup != nil {
		r.recvCleanup()
	}
	r.recv, r.recvCleanup, r.recvKey, r.prior = nil, nil, "", nil
}

func newRunner(rep *vfutil.Report) *runner {
	return &runner{rep: rep, bases: map[string]*base{}, outcomes: map[string]map[string]int{},
		executed: map[string]map[string]int{}, sampled: map[string]bool{}, errs: map[string]map[string]int{},
		allocFired: map[string]bool{}}
}

func fieldOf(c caseSpec) string {
	if len(c.Path) == 0 {
		// whole-message and framing operators: the operator names the place
		return c.Op
	}
	name, _ := stepOf(c.Path[len(c.Path)-1])
	return goName(name)
}

// sweepPrefixes expands the "prefix-sweep" operator: every byte prefix (sampled when the message
// is long and the tier is quick).
func sweepPrefixes(n int) []int {
	limit := vfutil.Tier(160, 4096)
	var res []int
	if n <= limit {
		for i := 0; i < n; i++ {
			res = append(res, i)
		}
		return res
	}
	seen := map[int]bool{}
	for i := 0; i < limit; i++ {
		k := i * n / limit
		if !seen[k] {
			seen[k] = true
			res = append(res, k)
		}
	}
	for k := 0; k < 16 && k < n; k++ {
		if !seen[k] {
			res = append(res, k)
		}
		if !seen[n-1-k] && n-1-k >= 0 {
			res = append(res, n-1-k)
			seen[n-1-k] = true
		}
	}
	sort.Ints(res)
	return res
}

func (r *runner) runGroup(e emitted) error {
	g := e.Group
	ep := registry[g.Ep]
	if ep == nil {
		return fmt.Errorf("no binding for entry point %q", g.Ep)
	}
	key := g.Ep + "|" + g.V + "|" + g.St
	b := r.bases[key]
	if b == nil {
		var err error
		if b, err = ep.base(g); err != nil {
			return fmt.Errorf("%s: base: %w", g, err)
		}
		r.bases[key] = b
	}
	for _, c := range e.Cases {
		c.Prefix = -1
		if c.Op == "prefix-sweep" {
			for _, k := range sweepPrefixes(len(b.valid)) {
				cc := c
				cc.Prefix = k
				if err := r.runCase(ep, g, b, cc); err != nil {
					return err
				}
			}
			continue
		}
		if err := r.runCase(ep, g, b, c); err != nil {
			return err
		}
	}
	r.dropReceiver()
	return nil
}

type replayObj struct {
	Group  groupSpec  `json:"group"`
	Case   caseSpec   `json:"case"`
	Prior  []caseSpec `json:"prior_cases_on_same_receiver,omitempty"`
	Result callResult `json:"result"`
	Hex    string     `json:"rendered_hex,omitempty"`
}

func (r *runner) runCase(ep entryPoint, g groupSpec, b *base, c caseSpec) error {
	var data []byte
	var err error
	if c.Kind == "frame" {
		fr, ok := ep.(frameRenderer)
		if !ok {
			return fmt.Errorf("%s: frame operator %s but the binding has no framing", g, c.Op)
		}
		data, err = fr.renderFrame(g, b, c)
	} else {
		data, err = render(g.Top, b.valid, c, b.env)
		if err == nil {
			if pr, ok := ep.(postRenderer); ok {
				data, err = pr.postRender(g, b, c, data)
			}
		}
	}
	if err == errNA {
		r.na++
		return nil
	}
	if err != nil {
		return fmt.Errorf("%s %s: render: %w", g, c, err)
	}
	if rem, ok := ep.(remoteEP); ok {
		return r.writeRemote(rem, g, b, c, data)
	}
	// once the allocation guard has fired on a field, more extreme sizes on the same field are not
	// tried: they could exhaust memory for real (a Go fatal error cannot be recovered)
	fk := g.String() + "|" + strings.Join(c.Path, ".")
	if r.allocFired[fk] && magnitude(c.Op) > 0 {
		r.escalationSkipped++
		return nil
	}
	rk := g.Ep + "|" + g.V + "|" + g.St
	if r.recv == nil || r.recvKey != rk {
		r.dropReceiver()
		if r.recv, r.recvCleanup, err = ep.newReceiver(g, b); err != nil {
			return fmt.Errorf("%s %s: receiver: %w", g, c, err)
		}
		r.recvKey = rk
	}
	prior := r.prior
	// breadcrumb: a panic in a goroutine the code under test starts itself (the handshake functions
	// do) cannot be recovered and kills this process; the check then classifies the crash from the
	// dying goroutine's stack and this file
	if crumb := os.Getenv("VERIF_CRUMB"); crumb != "" {
		cb, _ := json.Marshal(replayObj{Group: g, Case: c, Prior: prior})
		_ = os.WriteFile(crumb, cb, 0o644)
	}
	res := guarded(len(data), ep.call(g, b, r.recv, data))
	reusable := res.Outcome == "rejected"
	if ro, ok := ep.(readOnly); ok && ro.readOnlyCall() && res.Outcome == "accepted" {
		reusable = true
	}
	if cc, ok := ep.(cleanChecker); ok && reusable && !cc.stillClean(r.recv) {
		reusable = false
	}
	if res.Outcome == "hang" && res.Err == "" {
		// the call is still running on the receiver: leak it
		r.recv, r.recvCleanup, r.recvKey, r.prior = nil, nil, "", nil
	} else if !reusable {
		r.dropReceiver()
	} else {
		r.prior = append(r.prior, c)
	}
	cls := c.Cls
	if cls == "" {
		cls = "unclassified"
	}
	r.rep.Case(g.Ep + "/" + cls + "/" + c.Kind + "/" + g.V)
	if r.outcomes[g.Ep] == nil {
		r.outcomes[g.Ep] = map[string]int{}
		r.executed[g.Ep] = map[string]int{}
	}
	r.outcomes[g.Ep][res.Outcome]++
	r.executed[g.Ep][cls]++
	if res.Outcome == "rejected" {
		if r.errs[g.Ep] == nil {
			r.errs[g.Ep] = map[string]int{}
		}
		e := res.Err
		if len(e) > 70 {
			e = e[:70]
		}
		if len(r.errs[g.Ep]) < 60 || r.errs[g.Ep][e] > 0 {
			r.errs[g.Ep][e]++
		}
	}
	if c.Op == "valid" && res.Outcome == "rejected" {
		// not a property failure, but the deeper code is not reached from a base that is refused
		r.rep.SetExtra("base_rejected:"+g.String(), res.Err)
	}
	sk := g.Ep + "/" + res.Outcome
	if !r.sampled[sk] && (res.Outcome == "accepted" || res.Outcome == "rejected") && len(c.Path) > 0 {
		r.sampled[sk] = true
		r.rep.Sample(map[string]any{"group": g.String(), "case": c.String(), "outcome": res.Outcome, "err": res.Err, "bytes": len(data)})
	}
	if res.Outcome == "alloc" {
		r.allocFired[fk] = true
	}
	switch res.Outcome {
	case "panic", "hang", "alloc":
		site := res.PanicSite
		if res.Outcome != "panic" {
			site = res.Outcome
		}
		vkey := strings.Join([]string{g.Ep, cls, fieldOf(c), site}, "/")
		desc := fmt.Sprintf("%s %s -> %s", g, c, res.Outcome)
		switch res.Outcome {
		case "panic":
			desc += fmt.Sprintf(" in %s: %s", res.PanicSite, res.PanicVal)
		case "alloc":
			if res.Err != "" {
				desc += ": " + res.Err
			} else {
				desc += fmt.Sprintf(": %d bytes allocated for %d bytes of input", res.Alloc, len(data))
			}
		case "hang":
			if res.Err != "" {
				desc += ": " + res.Err
			} else {
				desc += fmt.Sprintf(": no return after %s", watchdog)
			}
		}
		hx := ""
		if len(data) <= 4096 {
			hx = fmt.Sprintf("%x", data)
		}
		if len(res.Stack) > 6000 {
			res.Stack = res.Stack[:6000]
		}
		r.rep.Violate(vkey, desc, replayObj{Group: g, Case: c, Prior: prior, Result: res, Hex: hx})
	}
	return nil
}

type remoteCase struct {
	Setup any        `json:"setup,omitempty"`
	G     *groupSpec `json:"g,omitempty"`
	C     *caseSpec  `json:"c,omitempty"`
	Hex   string     `json:"hex,omitempty"`
}

func (r *runner) writeRemote(rem remoteEP, g groupSpec, b *base, c caseSpec, data []byte) error {
	dir := os.Getenv("VERIF_RENDERED_DIR")
	if dir == "" {
		return nil
	}
	f := r.remote[rem.remoteName()]
	if f == nil {
		var err error
		if f, err = os.Create(filepath.Join(dir, rem.remoteName()+".jsonl")); err != nil {
			return err
		}
		if r.remote == nil {
			r.remote = map[string]*os.File{}
		}
		r.remote[rem.remoteName()] = f
	}
	key := rem.remoteName() + "|" + g.String()
	if !r.sampled["setup:"+key] {
		r.sampled["setup:"+key] = true
		line, _ := json.Marshal(remoteCase{Setup: rem.setup(b), G: &g})
		f.Write(append(line, '\n'))
	}
	line, _ := json.Marshal(remoteCase{G: &g, C: &c, Hex: hex.EncodeToString(data)})
	_, err := f.Write(append(line, '\n'))
	r.rendered++
	return err
}

func (r *runner) finish() {
	for _, f := range r.remote {
		f.Close()
	}
	r.rep.SetExtra("rendered_for_overlay", r.rendered)
	r.rep.SetExtra("outcomes", r.outcomes)
	r.rep.SetExtra("executed", r.executed)
	r.rep.SetExtra("not_applicable", r.na)
	r.rep.SetExtra("skipped_after_alloc_violation", r.escalationSkipped)
	r.rep.SetExtra("rejections", r.errs)
}
