package hostile

// ep_tree.go: object tree entry points - ObjectTree.AddRawChanges / UnpackChange and the sync
// handler of a real SyncTree (HandleHeadUpdate / HandleStreamRequest / HandleResponse).  The
// receiver is a real tree over a real any-store database, either complete ("full": root + chain)
// or rebuilt from storage after a snapshot ("reduced": the in-memory tree starts at the snapshot,
// older changes exist only in storage - references to them are references to trimmed changes).

import (
	"context"
	"fmt"
	"os"
	"path/filepath"
	"strings"
	"sync"
	"sync/atomic"
	"time"

	anystore "github.com/anyproto/any-store"
	"google.golang.org/protobuf/proto"

	"github.com/anyproto/any-sync/commonspace/headsync/headstorage"
	"github.com/anyproto/any-sync/commonspace/object/acl/list"
	"github.com/anyproto/any-sync/commonspace/object/acl/recordverifier"
	"github.com/anyproto/any-sync/commonspace/object/tree/objecttree"
	"github.com/anyproto/any-sync/commonspace/object/tree/synctree"
	"github.com/anyproto/any-sync/commonspace/object/tree/synctree/response"
	"github.com/anyproto/any-sync/commonspace/object/tree/treechangeproto"
	"github.com/anyproto/any-sync/commonspace/object/tree/treestorage"
	"github.com/anyproto/any-sync/commonspace/spacestorage"
	"github.com/anyproto/any-sync/commonspace/spacesyncproto"
	"github.com/anyproto/any-sync/commonspace/sync/objectsync/objectmessages"
	"github.com/anyproto/any-sync/commonspace/sync/syncdeps"
	"github.com/anyproto/any-sync/commonspace/syncstatus"
	"github.com/anyproto/any-sync/net/peer"
	"github.com/anyproto/any-sync/util/cidutil"
	"github.com/anyproto/any-sync/util/crypto"

	"verifharness/vfutil"
)

const treeSpace = "hostile.space"

type rawCh = treechangeproto.RawTreeChangeWithId

// treeWorld: one valid tree history written by a member of the ACL world.
type treeWorld struct {
	author *aclMember // writes the changes (w1)
	root   *rawCh
	// derivedRoot: root of a derived tree (unsigned, no identity); prefixDerived: d1 d2 on it
	derivedRoot   *rawCh
	prefixDerived []*rawCh
	orphans       map[string]string // state kind -> id of the unattachable element of the orphan batches
	// prefixFull: c1 c2 ; prefixReduced: c1 c2 s3 c4 c5
	prefixFull, prefixReduced []*rawCh
	// next valid messages per state
	next map[string]map[string][]*rawCh // state kind ("full"|"reduced") -> variant -> changes
	ids  map[string]map[string]string   // state kind -> symbolic ids
}

var (
	treeWorldOnce sync.Once
	theTreeWorld  *treeWorld
	scratchDir    string
	dbSeq         atomic.Int64
)

// scratch: the databases of the receivers live on tmpfs when there is one (a database per
// receiver on a real disk costs ~0.2 s of fsyncs); removed by TestMain.
func scratch() string {
	if scratchDir == "" {
		if d, err := os.MkdirTemp("/dev/shm", "verif-hostile-db"); err == nil {
			scratchDir = d
		} else {
			scratchDir = vfutil.Scratch("hostile-db")
		}
	}
	return scratchDir
}

func newDB() (anystore.DB, string) {
	p := filepath.Join(scratch(), fmt.Sprintf("db%d", dbSeq.Add(1)))
	db, err := anystore.Open(context.Background(), p, nil)
	must0(err)
	return db, p
}

func closeDB(db anystore.DB, p string) {
	_ = db.Close()
	_ = os.Remove(p)
	_ = os.Remove(p + "-wal")
	_ = os.Remove(p + "-shm")
}

func newTreeStorage(db anystore.DB, root *rawCh) objecttree.Storage {
	hs := must(headstorage.New(context.Background(), db))
	st := must(objecttree.CreateStorage(context.Background(), root, hs, db))
	if s, ok := st.(interface{ SetAddSeq(*atomic.Uint64) }); ok {
		s.SetAddSeq(&atomic.Uint64{})
	}
	return st
}

// memberAcl builds an ACL list of the world for the given account (full validation).
func memberAcl(m *aclMember) list.AclList {
	w := getAclWorld()
	st := must(list.NewInMemoryStorage(w.root.Id, w.records))
	return must(list.BuildAclListWithIdentity(m.keys, st, recordverifier.NewValidateFull()))
}

func getTreeWorld() *treeWorld {
	treeWorldOnce.Do(func() { theTreeWorld = buildTreeWorld() })
	return theTreeWorld
}

func buildTreeWorld() *treeWorld {
	aw := getAclWorld()
	tw := &treeWorld{author: aw.members["w1"], next: map[string]map[string][]*rawCh{}, ids: map[string]map[string]string{}}
	acl := memberAcl(tw.author)
	key := tw.author.keys.SignKey
	tw.root = must(objecttree.CreateObjectTreeRoot(objecttree.ObjectTreeCreatePayload{
		PrivKey: key, ChangeType: "hostile", ChangePayload: []byte("payload"), SpaceId: treeSpace,
		IsEncrypted: true, Seed: randBytes(16), Timestamp: time.Now().Unix(),
	}, acl))
	db, p := newDB()
	defer closeDB(db, p)
	tree := must(objecttree.BuildObjectTree(newTreeStorage(db, tw.root), acl))
	ctx := context.Background()
	add := func(data string, snapshot bool) *rawCh {
		tree.Lock()
		defer tree.Unlock()
		res := must(tree.AddContent(ctx, objecttree.SignableChangeContent{
			Data: []byte(data), Key: key, IsSnapshot: snapshot, ShouldBeEncrypted: true, DataType: "text",
		}))
		if len(res.Added) != 1 {
			panic("tree world: expected one added change")
		}
		return &rawCh{RawChange: res.Added[0].RawChange, Id: res.Added[0].Id}
	}
	// a sibling built on an older head: prepare before the head moves on
	prepare := func(data string, snapshot bool) *rawCh {
		tree.Lock()
		defer tree.Unlock()
		return must(tree.PrepareChange(objecttree.SignableChangeContent{
			Data: []byte(data), Key: key, IsSnapshot: snapshot, ShouldBeEncrypted: true, DataType: "text",
		}))
	}
	c1 := add("one", false)
	branchAt1 := prepare("branch of one", false) // parent c1, snapshot base = root
	c2 := add("two", false)
	tw.prefixFull = []*rawCh{c1, c2}
	// variants on the full tree (head c2)
	f3 := prepare("three", false)
	fs3 := prepare("three as snapshot", true)
	tw.next["full"] = map[string][]*rawCh{
		"change": {f3}, "snapshot": {fs3}, "old-branch": {branchAt1}, "root": {tw.root},
	}
	s3 := add("snapshot three", true)
	c4 := add("four", false)
	c5 := add("five", false)
	tw.prefixReduced = []*rawCh{c1, c2, s3, c4, c5}
	r6 := prepare("six", false)
	rs6 := prepare("six as snapshot", true)
	c6 := add("six", false)
	c7 := prepare("seven", false)
	tw.next["reduced"] = map[string][]*rawCh{
		"change": {r6}, "snapshot": {rs6}, "old-branch": {branchAt1}, "root": {tw.root}, "chain": {c6, c7},
	}
	// chain for the full tree: f3 then a child of it, built on a scratch tree
	{
		db2, p2 := newDB()
		t2 := must(objecttree.BuildObjectTree(newTreeStorage(db2, tw.root), memberAcl(tw.author)))
		t2.Lock()
		must(t2.AddRawChanges(ctx, objecttree.RawChangesPayload{NewHeads: []string{f3.Id}, RawChanges: []*rawCh{c1, c2, f3}}))
		f4 := must(t2.PrepareChange(objecttree.SignableChangeContent{Data: []byte("four'"), Key: key, ShouldBeEncrypted: true, DataType: "text"}))
		t2.Unlock()
		closeDB(db2, p2)
		tw.next["full"]["chain"] = []*rawCh{f3, f4}
	}
	// a derived tree with the same shape as "full"
	{
		tw.derivedRoot = must(objecttree.DeriveObjectTreeRoot(objecttree.ObjectTreeDerivePayload{
			ChangeType: "hostile.derived", ChangePayload: []byte("payload"), SpaceId: treeSpace, IsEncrypted: true}, acl))
		db3, p3 := newDB()
		t3 := must(objecttree.BuildObjectTree(newTreeStorage(db3, tw.derivedRoot), memberAcl(tw.author)))
		add3 := func(data string) *rawCh {
			t3.Lock()
			defer t3.Unlock()
			res := must(t3.AddContent(ctx, objecttree.SignableChangeContent{Data: []byte(data), Key: key, ShouldBeEncrypted: true, DataType: "text"}))
			return &rawCh{RawChange: res.Added[0].RawChange, Id: res.Added[0].Id}
		}
		prep3 := func(data string, snapshot bool) *rawCh {
			t3.Lock()
			defer t3.Unlock()
			return must(t3.PrepareChange(objecttree.SignableChangeContent{Data: []byte(data), Key: key, IsSnapshot: snapshot, ShouldBeEncrypted: true, DataType: "text"}))
		}
		d1 := add3("d-one")
		dBranch := prep3("d-branch", false)
		d2 := add3("d-two")
		tw.prefixDerived = []*rawCh{d1, d2}
		d3 := prep3("d-three", false)
		ds3 := prep3("d-three snapshot", true)
		d3a := add3("d-three")
		d4 := prep3("d-four", false)
		tw.next["derived"] = map[string][]*rawCh{
			"change": {d3}, "snapshot": {ds3}, "old-branch": {dBranch}, "root": {tw.derivedRoot}, "chain": {d3a, d4},
		}
		tw.ids["derived"] = map[string]string{"ancestor": d1.Id, "nonsnapshot": d1.Id, "trimmed": ""}
		closeDB(db3, p3)
	}
	// batches with an element that can never be attached: O is a snapshot on top of a change X that
	// is never sent; P, C are the valid chain on the receiver's head. Parent-first and child-first.
	orphan := func(root *rawCh, prefix []*rawCh) *rawCh {
		dbo, po := newDB()
		defer closeDB(dbo, po)
		to := must(objecttree.BuildObjectTree(newTreeStorage(dbo, root), memberAcl(tw.author)))
		to.Lock()
		defer to.Unlock()
		must(to.AddRawChanges(ctx, objecttree.RawChangesPayload{NewHeads: []string{prefix[len(prefix)-1].Id}, RawChanges: prefix}))
		must(to.AddContent(ctx, objecttree.SignableChangeContent{Data: []byte("never sent"), Key: key, ShouldBeEncrypted: true, DataType: "text"}))
		return must(to.PrepareChange(objecttree.SignableChangeContent{Data: []byte("orphan snapshot"), Key: key, IsSnapshot: true, ShouldBeEncrypted: true, DataType: "text"}))
	}
	tw.orphans = map[string]string{}
	for kind, prefix := range map[string][]*rawCh{"full": tw.prefixFull, "reduced": tw.prefixReduced, "derived": tw.prefixDerived} {
		root := tw.root
		if kind == "derived" {
			root = tw.derivedRoot
		}
		o := orphan(root, prefix)
		chain := tw.next[kind]["chain"]
		tw.next[kind]["orphan-batch"] = []*rawCh{o, chain[0], chain[1]}
		tw.next[kind]["orphan-batch-childfirst"] = []*rawCh{chain[1], chain[0], o}
		tw.orphans[kind] = o.Id
	}
	// the keys the trees' change payloads are encrypted with (derived from the space read keys)
	for _, id := range []string{tw.root.Id, tw.derivedRoot.Id} {
		deriver := crypto.NewKeyDeriver(fmt.Sprintf(crypto.AnysyncTreePath, id))
		regDerived(func(raw []byte) (crypto.SymKey, error) { return deriver.DeriveKey(raw) })
	}
	tw.ids["full"] = map[string]string{"ancestor": c1.Id, "nonsnapshot": c1.Id, "trimmed": ""}
	tw.ids["reduced"] = map[string]string{"ancestor": s3.Id, "nonsnapshot": c4.Id, "trimmed": c1.Id}
	return tw
}

func stateKind(st string) (kind, builder string) {
	for i := 0; i < len(st); i++ {
		if st[i] == '/' {
			return st[:i], st[i+1:]
		}
	}
	return st, "objecttree"
}

// treeFix re-signs changes and recomputes their ids; the heads of the enclosing sync message
// follow the last change.
func treeFix(w *treeWorld) func(msgType, field string, nodes []wnode) []wnode {
	key := w.author.keys.SignKey
	return func(msgType, field string, nodes []wnode) []wnode {
		switch msgType {
		case "RawTreeChange", "RawTreeChangeRoot":
			if field == "payload" {
				nodes = setOrAdd(nodes, bytesNode(2, must(key.Sign(getBytes(nodes, 1)))))
			}
		case "RawTreeChangeWithId", "RawTreeChangeWithIdRoot":
			if field == "rawChange" {
				nodes = setOrAdd(nodes, bytesNode(2, []byte(must(cidutil.NewCidFromBytes(getBytes(nodes, 1))))))
			}
		case "TreeHeadUpdate", "TreeFullSyncRequest", "TreeFullSyncResponse":
			if field == "changes" {
				// heads = id of the last change
				last := -1
				for i, nd := range nodes {
					if nd.num == 2 {
						last = i
					}
				}
				if last >= 0 {
					if ch, ok := parseMsg(nodes[last].val); ok {
						id := getBytes(ch, 2)
						nodes = removeAll(nodes, 1)
						nodes = append([]wnode{bytesNode(1, id)}, nodes...)
					}
				}
			}
		}
		return nodes
	}
}

func treeEnv(g groupSpec, w *treeWorld) *renderEnv {
	kind, _ := stateKind(g.St)
	env := newRenderEnv(caseRand(g))
	for k, v := range w.ids[kind] {
		env.ids[k] = v
	}
	if strings.Contains(g.V, "orphan") {
		env.ids["inbatch-orphan"] = w.orphans[kind]
	}
	env.fix = treeFix(w)
	return env
}

// treeReceiver builds the receiving tree in the given state over a fresh database.
type treeReceiver struct {
	db   anystore.DB
	path string
	st   objecttree.Storage
	acl  list.AclList
	tree objecttree.ObjectTree
}

func (r *treeReceiver) close() { closeDB(r.db, r.path) }

func buildTreeFunc(builder string) objecttree.BuildObjectTreeFunc {
	switch builder {
	case "keyfilter":
		return objecttree.BuildKeyFilterableObjectTree
	case "emptydata":
		return objecttree.BuildEmptyDataObjectTree
	}
	return objecttree.BuildObjectTree
}

func newTreeReceiver(state string) *treeReceiver {
	w := getTreeWorld()
	aw := getAclWorld()
	kind, builder := stateKind(state)
	r := &treeReceiver{acl: memberAcl(aw.members["w2"])}
	r.db, r.path = newDB()
	root := w.root
	prefix := w.prefixFull
	switch kind {
	case "reduced":
		prefix = w.prefixReduced
	case "derived":
		root, prefix = w.derivedRoot, w.prefixDerived
	}
	r.st = newTreeStorage(r.db, root)
	build := buildTreeFunc(builder)
	t := must(build(r.st, r.acl))
	t.Lock()
	res := must(t.AddRawChanges(context.Background(), objecttree.RawChangesPayload{
		NewHeads: []string{prefix[len(prefix)-1].Id}, RawChanges: prefix,
	}))
	t.Unlock()
	if len(res.Heads) != 1 || res.Heads[0] != prefix[len(prefix)-1].Id {
		panic(fmt.Sprintf("tree receiver: prefix not applied, heads %v", res.Heads))
	}
	if kind == "reduced" {
		// a tree object opened later starts at the snapshot
		t = must(build(r.st, r.acl))
		if t.Root().Id == w.root.Id {
			panic("tree receiver: tree was not reduced to the snapshot")
		}
	}
	r.tree = t
	return r
}

func readTree(t objecttree.ObjectTree) error {
	_ = t.Heads()
	_, _ = t.SnapshotPath()
	err := t.IterateRoot(func(change *objecttree.Change, decrypted []byte) (any, error) {
		return string(decrypted), nil
	}, func(change *objecttree.Change) bool { return true })
	if err != nil && strings.HasPrefix(err.Error(), "no data in change") {
		// a tree built without change bodies (empty-data builder) has nothing to decrypt
		return t.IterateRoot(nil, func(change *objecttree.Change) bool { return true })
	}
	return err
}

// ---------------------------------------------------------------------------------------------

type treeEP struct {
	mode string // "add" | "unpack"
}

func batchHead(variant string, changes []*rawCh) string {
	if strings.HasSuffix(variant, "childfirst") {
		return changes[0].Id
	}
	return changes[len(changes)-1].Id
}

func headUpdateBytes(variant string, changes []*rawCh) []byte {
	hu := &treechangeproto.TreeHeadUpdate{Heads: []string{batchHead(variant, changes)}, Changes: changes}
	return must(hu.MarshalVT())
}

func (e *treeEP) base(g groupSpec) (*base, error) {
	w := getTreeWorld()
	kind, _ := stateKind(g.St)
	chs := w.next[kind][g.V]
	if chs == nil {
		return nil, fmt.Errorf("tree: no variant %q in state %q", g.V, kind)
	}
	b := &base{env: treeEnv(g, w)}
	if e.mode == "unpack" {
		b.valid = must(chs[0].MarshalVT())
	} else {
		b.valid = headUpdateBytes(g.V, chs)
	}
	return b, nil
}

func (e *treeEP) readOnlyCall() bool { return e.mode == "unpack" }

func (e *treeEP) newReceiver(g groupSpec, b *base) (any, func(), error) {
	r := newTreeReceiver(g.St)
	return r, r.close, nil
}

func (e *treeEP) call(g groupSpec, b *base, recv any, data []byte) func() error {
	r := recv.(*treeReceiver)
	if e.mode == "unpack" {
		return func() error {
			ch := &rawCh{}
			if err := ch.UnmarshalVT(data); err != nil {
				return err
			}
			r.tree.Lock()
			defer r.tree.Unlock()
			_, err := r.tree.UnpackChange(ch)
			return err
		}
	}
	return func() error {
		hu := &treechangeproto.TreeHeadUpdate{}
		if err := hu.UnmarshalVT(data); err != nil {
			return err
		}
		r.tree.Lock()
		defer r.tree.Unlock()
		_, err := r.tree.AddRawChanges(context.Background(), objecttree.RawChangesPayload{
			NewHeads: hu.Heads, RawChanges: hu.Changes, SnapshotPath: hu.SnapshotPath,
		})
		if err != nil {
			return err
		}
		return afterAccept(readTree(r.tree))
	}
}

// ---------------------------------------------------------------------------------------------
// sync handler of a real SyncTree

type stubSpaceStorage struct {
	spacestorage.SpaceStorage
	hs headstorage.HeadStorage
	st objecttree.Storage
}

func (s *stubSpaceStorage) HeadStorage() headstorage.HeadStorage { return s.hs }
func (s *stubSpaceStorage) CreateTreeStorage(ctx context.Context, payload treestorage.TreeStorageCreatePayload) (objecttree.Storage, error) {
	return s.st, nil
}

type stubSyncClient struct {
	synctree.RequestFactory
	broadcasts, requests int
}

func (s *stubSyncClient) Broadcast(ctx context.Context, headUpdate *objectmessages.HeadUpdate) error {
	s.broadcasts++
	return nil
}
func (s *stubSyncClient) SendTreeRequest(ctx context.Context, req syncdeps.Request, collector syncdeps.ResponseCollector) error {
	s.requests++
	return nil
}
func (s *stubSyncClient) QueueRequest(ctx context.Context, req syncdeps.Request) error {
	s.requests++
	return nil
}

type nopUpdater struct{}

func (nopUpdater) UpdateQueueSize(size uint64, msgType int, add bool) {}

type syncEP struct {
	mode string // "headupdate" | "request" | "response"
}

func wrapSync(content *treechangeproto.TreeSyncContentValue, root *rawCh) []byte {
	return must((&treechangeproto.TreeSyncMessage{Content: content, RootChange: root}).MarshalVT())
}

func (e *syncEP) base(g groupSpec) (*base, error) {
	w := getTreeWorld()
	kind, _ := stateKind(g.St)
	batch := "chain"
	if i := strings.Index(g.V, "-orphan"); i >= 0 {
		batch = "orphan-batch" + strings.TrimPrefix(g.V[i:], "-orphan")
	}
	next := w.next[kind][batch]
	heads := []string{batchHead(g.V, next)}
	prefix := w.prefixFull
	if kind == "reduced" {
		prefix = w.prefixReduced
	}
	var snapshotPath []string
	if kind == "reduced" {
		snapshotPath = []string{prefix[2].Id, w.root.Id}
	} else {
		snapshotPath = []string{w.root.Id}
	}
	b := &base{env: treeEnv(g, w)}
	v := g.V
	if i := strings.Index(v, "-orphan"); i >= 0 {
		v = v[:i]
	}
	switch v {
	case "headUpdate":
		b.valid = wrapSync(&treechangeproto.TreeSyncContentValue{Value: &treechangeproto.TreeSyncContentValue_HeadUpdate{
			HeadUpdate: &treechangeproto.TreeHeadUpdate{Heads: heads, Changes: next, SnapshotPath: snapshotPath}}}, w.root)
	case "headUpdate-nochanges":
		b.valid = wrapSync(&treechangeproto.TreeSyncContentValue{Value: &treechangeproto.TreeSyncContentValue_HeadUpdate{
			HeadUpdate: &treechangeproto.TreeHeadUpdate{Heads: heads, SnapshotPath: snapshotPath}}}, w.root)
	case "fullSyncRequest":
		// the requester is behind: it has only the first change
		b.valid = wrapSync(&treechangeproto.TreeSyncContentValue{Value: &treechangeproto.TreeSyncContentValue_FullSyncRequest{
			FullSyncRequest: &treechangeproto.TreeFullSyncRequest{Heads: []string{prefix[0].Id}, Changes: []*rawCh{prefix[0]}, SnapshotPath: []string{w.root.Id}}}}, w.root)
	case "probe":
		b.valid = wrapSync(&treechangeproto.TreeSyncContentValue{Value: &treechangeproto.TreeSyncContentValue_FullSyncRequest{
			FullSyncRequest: &treechangeproto.TreeFullSyncRequest{Probe: true}}}, w.root)
	case "fullSyncResponse":
		b.valid = wrapSync(&treechangeproto.TreeSyncContentValue{Value: &treechangeproto.TreeSyncContentValue_FullSyncResponse{
			FullSyncResponse: &treechangeproto.TreeFullSyncResponse{Heads: heads, Changes: next, SnapshotPath: snapshotPath}}}, w.root)
	case "errorResponse":
		b.valid = wrapSync(&treechangeproto.TreeSyncContentValue{Value: &treechangeproto.TreeSyncContentValue_ErrorResponse{
			ErrorResponse: &treechangeproto.TreeErrorResponse{Error: "some error", ErrCode: 401}}}, w.root)
	default:
		return nil, fmt.Errorf("synctree: unknown variant %q", g.V)
	}
	return b, nil
}

func newSyncTree(state string) (synctree.SyncTree, *treeReceiver, *stubSyncClient) {
	r := newTreeReceiver(state)
	_, builder := stateKind(state)
	client := &stubSyncClient{RequestFactory: synctree.NewRequestFactory(treeSpace)}
	hs := must(headstorage.New(context.Background(), r.db))
	w := getTreeWorld()
	t := must(synctree.PutSyncTree(context.Background(), treestorage.TreeStorageCreatePayload{RootRawChange: w.root}, synctree.BuildDeps{
		SpaceId:         treeSpace,
		SyncClient:      client,
		AclList:         r.acl,
		SpaceStorage:    &stubSpaceStorage{hs: hs, st: r.st},
		OnClose:         func(id string) {},
		SyncStatus:      syncstatus.NewNoOpSyncStatus(),
		BuildObjectTree: buildTreeFunc(builder),
	}))
	return t, r, client
}

type syncReceiver struct {
	t synctree.SyncTree
	r *treeReceiver
}

func (e *syncEP) readOnlyCall() bool { return e.mode == "request" }

func (e *syncEP) newReceiver(g groupSpec, b *base) (any, func(), error) {
	t, r, _ := newSyncTree(g.St)
	return &syncReceiver{t: t, r: r}, r.close, nil
}

func (e *syncEP) call(g groupSpec, b *base, recv any, data []byte) func() error {
	t := recv.(*syncReceiver).t
	w := getTreeWorld()
	ctx := peer.CtxWithPeerId(context.Background(), "hostile-peer")
	msg := func() *spacesyncproto.ObjectSyncMessage {
		return &spacesyncproto.ObjectSyncMessage{SpaceId: treeSpace, ObjectId: w.root.Id, Payload: data}
	}
	switch e.mode {
	case "headupdate":
		return func() error {
			hu := &objectmessages.HeadUpdate{}
			if err := hu.SetProtoMessage(msg()); err != nil {
				return err
			}
			_, err := t.HandleHeadUpdate(ctx, syncstatus.NewNoOpSyncStatus(), hu)
			if err != nil {
				return err
			}
			t.Lock()
			defer t.Unlock()
			return afterAccept(readTree(t))
		}
	case "request":
		return func() error {
			req := objectmessages.NewByteRequest("hostile-peer", treeSpace, w.root.Id, data)
			_, err := t.HandleStreamRequest(ctx, req, nopUpdater{}, func(resp proto.Message) error { return nil })
			return err
		}
	default:
		return func() error {
			resp := &response.Response{}
			if err := resp.SetProtoMessage(msg()); err != nil {
				return err
			}
			if err := t.HandleResponse(ctx, "hostile-peer", w.root.Id, resp); err != nil {
				return err
			}
			t.Lock()
			defer t.Unlock()
			return afterAccept(readTree(t))
		}
	}
}

// ---------------------------------------------------------------------------------------------
// tree.ValidateRawTree: the reply to a request for a tree the receiver does not have yet (root +
// all changes), validated before anything is stored - what synctree's response collector does
// with the first response (fullResponseCollector.CollectResponse).

type treeValidateEP struct{}

func (e *treeValidateEP) readOnlyCall() bool { return false }

func (e *treeValidateEP) base(g groupSpec) (*base, error) {
	w := getTreeWorld()
	chs := w.prefixFull
	if g.V == "newTree-snapshot" {
		chs = w.prefixReduced
	}
	b := &base{env: treeEnv(groupSpec{Ep: g.Ep, V: g.V, St: "full/objecttree"}, w)}
	b.valid = wrapSync(&treechangeproto.TreeSyncContentValue{Value: &treechangeproto.TreeSyncContentValue_FullSyncResponse{
		FullSyncResponse: &treechangeproto.TreeFullSyncResponse{Heads: []string{chs[len(chs)-1].Id}, Changes: chs, SnapshotPath: []string{w.root.Id}}}}, w.root)
	return b, nil
}

type treeValidateReceiver struct {
	db   anystore.DB
	path string
	acl  list.AclList
}

type deferredCreator struct {
	db anystore.DB
}

func (d deferredCreator) CreateTreeStorage(ctx context.Context, payload treestorage.TreeStorageCreatePayload) (objecttree.Storage, error) {
	hs, err := headstorage.New(ctx, d.db)
	if err != nil {
		return nil, err
	}
	return objecttree.CreateStorage(ctx, payload.RootRawChange, hs, d.db)
}

func (d deferredCreator) CreateStorageWithDeferredCreation(ctx context.Context, payload treestorage.TreeStorageCreatePayload) (objecttree.Storage, error) {
	hs, err := headstorage.New(ctx, d.db)
	if err != nil {
		return nil, err
	}
	st, err := objecttree.CreateStorageWithDeferredCreation(ctx, payload.RootRawChange, hs, d.db)
	if err != nil {
		return nil, err
	}
	if s, ok := st.(interface{ SetAddSeq(*atomic.Uint64) }); ok {
		s.SetAddSeq(&atomic.Uint64{})
	}
	return st, nil
}

func (e *treeValidateEP) newReceiver(g groupSpec, b *base) (any, func(), error) {
	r := &treeValidateReceiver{acl: memberAcl(getAclWorld().members["w2"])}
	r.db, r.path = newDB()
	return r, func() { closeDB(r.db, r.path) }, nil
}

// a refused tree may already have been written (validation adds the changes to a deferred
// storage): the database is reused only while it holds no tree
func (e *treeValidateEP) stillClean(recv any) bool {
	r := recv.(*treeValidateReceiver)
	ctx := context.Background()
	hs, err := headstorage.New(ctx, r.db)
	if err != nil {
		return false
	}
	n := 0
	for _, deleted := range []bool{false, true} {
		if err := hs.IterateEntries(ctx, headstorage.IterOpts{Deleted: deleted}, func(entry headstorage.HeadsEntry) (bool, error) {
			n++
			return false, nil
		}); err != nil {
			return false
		}
	}
	return n == 0
}

func (e *treeValidateEP) call(g groupSpec, b *base, recv any, data []byte) func() error {
	r := recv.(*treeValidateReceiver)
	w := getTreeWorld()
	return func() error {
		resp := &response.Response{}
		if err := resp.SetProtoMessage(&spacesyncproto.ObjectSyncMessage{SpaceId: treeSpace, ObjectId: w.root.Id, Payload: data}); err != nil {
			return err
		}
		// as fullResponseCollector.CollectResponse
		payload := treestorage.TreeStorageCreatePayload{RootRawChange: resp.Root, Changes: resp.Changes, Heads: resp.Heads}
		var (
			t   objecttree.ObjectTree
			err error
		)
		switch g.St {
		case "filter":
			t, err = objecttree.ValidateFilterRawTree(payload, deferredCreator{db: r.db}, r.acl)
		default:
			t, err = objecttree.ValidateRawTreeDefault(payload, deferredCreator{db: r.db}, r.acl)
		}
		if err != nil {
			return err
		}
		t.Lock()
		defer t.Unlock()
		return afterAccept(t.IterateRoot(nil, func(change *objecttree.Change) bool { return true }))
	}
}
