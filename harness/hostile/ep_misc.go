package hostile

// ep_misc.go: key-value decode / ingest, range requests (head sync and key-value), ldiff.Diff
// against a lying remote, space payload validation, the snappy codec and the crypto helpers.

import (
	"context"
	"errors"
	"fmt"
	"io"
	"time"

	"github.com/golang/snappy"
	"google.golang.org/protobuf/encoding/protowire"
	"storj.io/drpc"

	"github.com/anyproto/any-sync/app"
	"github.com/anyproto/any-sync/app/ldiff"
	"github.com/anyproto/any-sync/commonspace/headsync"
	"github.com/anyproto/any-sync/commonspace/headsync/headstorage"
	"github.com/anyproto/any-sync/commonspace/object/acl/list"
	"github.com/anyproto/any-sync/commonspace/object/acl/recordverifier"
	"github.com/anyproto/any-sync/commonspace/object/keyvalue"
	"github.com/anyproto/any-sync/commonspace/object/keyvalue/keyvaluestorage"
	"github.com/anyproto/any-sync/commonspace/object/keyvalue/keyvaluestorage/innerstorage"
	"github.com/anyproto/any-sync/commonspace/object/tree/treechangeproto"
	"github.com/anyproto/any-sync/commonspace/spacepayloads"
	"github.com/anyproto/any-sync/commonspace/spacestorage"
	"github.com/anyproto/any-sync/commonspace/spacesyncproto"
	"github.com/anyproto/any-sync/consensus/consensusproto"
	"github.com/anyproto/any-sync/net/rpc/encoding"
	"github.com/anyproto/any-sync/util/cidutil"
	"github.com/anyproto/any-sync/util/crypto"
)

// sentinel results of calls that detect non-termination / runaway growth themselves (so that the
// process does not have to spin or run out of memory before the watchdog notices)
type hangError struct{ msg string }

func (e *hangError) Error() string { return e.msg }

type allocError struct{ msg string }

func (e *allocError) Error() string { return e.msg }

// ---------------------------------------------------------------------------------------------
// key-value

const kvStorageId = "hostile.kv"

type kvEP struct {
	mode string // "decode" | "setraw"
}

func kvMessage(key string, ts int64, plain string) *spacesyncproto.StoreKeyValue {
	aw := getAclWorld()
	author := aw.members["w1"]
	acl := memberAcl(author)
	// as keyvaluestorage.Set: the value is encrypted with the key derived from the read key for this store
	spaceKey := must(acl.AclState().CurrentReadKey())
	readKey := regSym(must(crypto.DeriveSymmetricKey(must(spaceKey.Raw()), fmt.Sprintf(crypto.AnysyncKeyValuePath, kvStorageId))))
	inner := &spacesyncproto.StoreKeyInner{
		Peer: pubProto(author.keys.PeerKey), Identity: pubProto(author.keys.SignKey),
		Value: must(readKey.Encrypt([]byte(plain))), TimestampMicro: ts, AclHeadId: acl.Head().Id, Key: key,
	}
	ib := must(inner.MarshalVT())
	return &spacesyncproto.StoreKeyValue{
		KeyPeerId: key + "-" + author.keys.PeerKey.GetPublic().PeerId(), Value: ib,
		IdentitySignature: must(author.keys.SignKey.Sign(ib)), PeerSignature: must(author.keys.PeerKey.Sign(ib)),
		SpaceId: treeSpace,
	}
}

func (e *kvEP) base(g groupSpec) (*base, error) {
	aw := getAclWorld()
	author := aw.members["w1"]
	env := newRenderEnv(caseRand(g))
	env.ids["dangling"] = randomCid()
	env.fix = func(msgType, field string, nodes []wnode) []wnode {
		if msgType == "StoreKeyValue" && field == "value" {
			v := getBytes(nodes, 2)
			nodes = setOrAdd(nodes, bytesNode(3, must(author.keys.SignKey.Sign(v))))
			nodes = setOrAdd(nodes, bytesNode(4, must(author.keys.PeerKey.Sign(v))))
		}
		return nodes
	}
	msg := kvMessage("slot", 2_000_000, "hello")
	return &base{valid: must(msg.MarshalVT()), env: env}, nil
}

type kvIndexer struct{ decrypted, failed int }

func (k *kvIndexer) Init(a *app.App) error { return nil }
func (k *kvIndexer) Name() string          { return "hostile.indexer" }
func (k *kvIndexer) Index(dec keyvaluestorage.Decryptor, kvs ...innerstorage.KeyValue) error {
	for _, kv := range kvs {
		if _, err := dec(kv); err != nil {
			k.failed++
		} else {
			k.decrypted++
		}
	}
	return nil
}

type kvSyncClient struct{}

func (kvSyncClient) Broadcast(ctx context.Context, objectId string, keyValues ...innerstorage.KeyValue) error {
	return nil
}

type kvReceiver struct {
	db   any
	st   keyvaluestorage.Storage
	done func()
}

func (e *kvEP) readOnlyCall() bool { return e.mode == "decode" }

func (e *kvEP) newReceiver(g groupSpec, b *base) (any, func(), error) {
	if e.mode == "decode" {
		return nil, nil, nil
	}
	aw := getAclWorld()
	recv := aw.members["w2"]
	db, p := newDB()
	ctx := context.Background()
	hs, err := headstorage.New(ctx, db)
	if err != nil {
		return nil, nil, err
	}
	st, err := keyvaluestorage.New(ctx, kvStorageId, db, hs, recv.keys, kvSyncClient{}, memberAcl(recv), &kvIndexer{})
	if err != nil {
		return nil, nil, err
	}
	switch g.St {
	case "has-older":
		err = st.SetRaw(ctx, kvMessage("slot", 1_000_000, "older"))
	case "has-newer":
		err = st.SetRaw(ctx, kvMessage("slot", 3_000_000, "newer"))
	}
	if err != nil {
		return nil, nil, err
	}
	return &kvReceiver{st: st}, func() { closeDB(db, p) }, nil
}

func (e *kvEP) call(g groupSpec, b *base, recv any, data []byte) func() error {
	if e.mode == "decode" {
		return func() error {
			msg := &spacesyncproto.StoreKeyValue{}
			if err := msg.UnmarshalVT(data); err != nil {
				return err
			}
			kv, err := innerstorage.KeyValueFromProto(msg, g.St == "verify")
			if err != nil {
				return err
			}
			_ = kv.Proto()
			return nil
		}
	}
	r := recv.(*kvReceiver)
	return func() error {
		msg := &spacesyncproto.StoreKeyValue{}
		if err := msg.UnmarshalVT(data); err != nil {
			return err
		}
		ctx := context.Background()
		if err := r.st.SetRaw(ctx, msg); err != nil {
			return err
		}
		// readers of the store decrypt what was accepted
		return afterAccept(r.st.Iterate(ctx, func(dec keyvaluestorage.Decryptor, key string, values []innerstorage.KeyValue) (bool, error) {
			for _, v := range values {
				_, _ = dec(v)
			}
			return true, nil
		}))
	}
}

// ---------------------------------------------------------------------------------------------
// range requests

func populatedDiff(n int) ldiff.Diff {
	d := ldiff.New(16, 16)
	els := make([]ldiff.Element, 0, n)
	for i := 0; i < n; i++ {
		els = append(els, ldiff.Element{Id: fmt.Sprintf("object-%04d", i), Head: fmt.Sprintf("head-%d", i)})
	}
	d.Set(els...)
	return d
}

type rangeEP struct {
	kv bool
}

func (e *rangeEP) readOnlyCall() bool { return true }

func (e *rangeEP) base(g groupSpec) (*base, error) {
	ranges := []*spacesyncproto.HeadSyncRange{
		{From: 0, To: ^uint64(0), Limit: 16},
		{From: 1 << 60, To: 1 << 61, Limit: 16, Elements: true},
		{From: 5, To: 5},
	}
	env := newRenderEnv(caseRand(g))
	if e.kv {
		return &base{valid: must((&spacesyncproto.StoreDiffRequest{SpaceId: treeSpace, Ranges: ranges}).MarshalVT()), env: env}, nil
	}
	return &base{valid: must((&spacesyncproto.HeadSyncRequest{SpaceId: treeSpace, Ranges: ranges, DiffType: spacesyncproto.DiffType_V3}).MarshalVT()), env: env}, nil
}

func (e *rangeEP) newReceiver(g groupSpec, b *base) (any, func(), error) {
	if g.St == "empty" {
		return ldiff.New(16, 16), nil, nil
	}
	return populatedDiff(500), nil, nil
}

func (e *rangeEP) call(g groupSpec, b *base, recv any, data []byte) func() error {
	d := recv.(ldiff.Diff)
	return func() error {
		if e.kv {
			req := &spacesyncproto.StoreDiffRequest{}
			if err := req.UnmarshalVT(data); err != nil {
				return err
			}
			resp, err := keyvalue.HandleRangeRequest(context.Background(), d, req)
			if err != nil {
				return err
			}
			_, err = resp.MarshalVT()
			return err
		}
		req := &spacesyncproto.HeadSyncRequest{}
		if err := req.UnmarshalVT(data); err != nil {
			return err
		}
		resp, err := headsync.HandleRangeRequest(context.Background(), d, req)
		if err != nil {
			return err
		}
		_, err = resp.MarshalVT()
		return err
	}
}

// ---------------------------------------------------------------------------------------------
// ldiff.Diff against a remote that lies

const (
	maxDiffRounds = 400      // an honest exchange over the 64-bit hash space needs < 20 rounds
	maxReplyBytes = 24 << 20 // the lying remote stops answering after it has sent this much
)

type lyingClient struct {
	remote ldiff.Diff
	lie    func(round int, req *spacesyncproto.HeadSyncRequest, honest *spacesyncproto.HeadSyncResponse) (*spacesyncproto.HeadSyncResponse, error)
	rounds int
	cancel context.CancelFunc
	hang   bool
	// everything the remote sent is input of the call under test: what ldiff.Diff allocates is
	// measured against it (a remote that makes the client ask for 16x more ranges each round has
	// to answer them, too)
	replyBytes int
	gaveUp     bool
}

func (c *lyingClient) HeadSync(ctx context.Context, in *spacesyncproto.HeadSyncRequest) (*spacesyncproto.HeadSyncResponse, error) {
	c.rounds++
	if c.rounds > maxDiffRounds {
		c.hang = true
		c.cancel()
		return nil, context.Canceled
	}
	if c.replyBytes > maxReplyBytes {
		c.gaveUp = true
		c.cancel()
		return nil, context.Canceled
	}
	honest, err := headsync.HandleRangeRequest(ctx, c.remote, in)
	if err != nil {
		return nil, err
	}
	resp, err := c.lie(c.rounds, in, honest)
	if resp != nil {
		n := resp.SizeVT()
		c.replyBytes += n
		addInputBytes(n)
	}
	return resp, err
}

type ldiffEP struct{}

func (e *ldiffEP) readOnlyCall() bool { return true }

func (e *ldiffEP) base(g groupSpec) (*base, error) {
	// the valid message is the honest first reply
	remote := populatedDiff(700)
	resp := must(headsync.HandleRangeRequest(context.Background(), remote, &spacesyncproto.HeadSyncRequest{
		Ranges: []*spacesyncproto.HeadSyncRange{{From: 0, To: ^uint64(0)}}}))
	return &base{valid: must(resp.MarshalVT()), env: newRenderEnv(caseRand(g))}, nil
}

// the frame operators are encoded in the delivered bytes as "LIE:<op>"; protobuf cases deliver
// the mutated first reply (later replies are honest).
func (e *ldiffEP) renderFrame(g groupSpec, b *base, c caseSpec) ([]byte, error) {
	return []byte("LIE:" + c.Op), nil
}

func (e *ldiffEP) newReceiver(g groupSpec, b *base) (any, func(), error) {
	if g.St == "empty" {
		return ldiff.New(16, 16), nil, nil
	}
	d := populatedDiff(500) // shares 500 ids with the remote's 700
	d.Set(ldiff.Element{Id: "object-0001", Head: "other-head"}, ldiff.Element{Id: "only-local", Head: "h"})
	return d, nil, nil
}

func (e *ldiffEP) call(g groupSpec, b *base, recv any, data []byte) func() error {
	local := recv.(ldiff.Diff)
	return func() error {
		ctx, cancel := context.WithCancel(context.Background())
		defer cancel()
		cl := &lyingClient{remote: populatedDiff(700), cancel: cancel}
		rnd := caseRand(g)
		if len(data) >= 4 && string(data[:4]) == "LIE:" {
			op := string(data[4:])
			cl.lie = func(round int, req *spacesyncproto.HeadSyncRequest, honest *spacesyncproto.HeadSyncResponse) (*spacesyncproto.HeadSyncResponse, error) {
				for _, r := range honest.Results {
					switch op {
					case "lie-count-plus1000":
						r.Count += 1000
					case "lie-count-minus1":
						if r.Count > 0 {
							r.Count--
						}
					case "lie-no-elements":
						r.Elements = nil
						r.Count = 17
						r.Hash = randBytesFrom(rnd, 8)
					case "lie-hash-random":
						r.Hash = randBytesFrom(rnd, 8)
					case "lie-huge-elements":
						for i := 0; i < 2000; i++ {
							r.Elements = append(r.Elements, &spacesyncproto.HeadSyncResultElement{Id: fmt.Sprintf("ghost-%d-%d", round, i), Head: "x"})
						}
						r.Count = uint32(len(r.Elements))
					case "lie-dup-elements":
						r.Elements = append(r.Elements, r.Elements...)
						r.Count = uint32(len(r.Elements))
					case "lie-nil-hash":
						r.Hash = nil
					}
				}
				switch op {
				case "lie-fewer-results":
					if len(honest.Results) > 0 {
						honest.Results = honest.Results[:len(honest.Results)-1]
					}
				case "lie-more-results":
					honest.Results = append(honest.Results, honest.Results...)
				}
				return honest, nil
			}
		} else {
			first := true
			cl.lie = func(round int, req *spacesyncproto.HeadSyncRequest, honest *spacesyncproto.HeadSyncResponse) (*spacesyncproto.HeadSyncResponse, error) {
				if !first {
					return honest, nil
				}
				first = false
				resp := &spacesyncproto.HeadSyncResponse{}
				if err := resp.UnmarshalVT(data); err != nil {
					return nil, err
				}
				return resp, nil
			}
		}
		remote := headsync.NewRemoteDiff(treeSpace, cl)
		_, _, _, err := local.Diff(ctx, remote)
		if cl.hang {
			return &hangError{fmt.Sprintf("ldiff.Diff still asking after %d rounds", maxDiffRounds)}
		}
		if cl.gaveUp {
			return fmt.Errorf("the remote stopped after sending %d bytes in %d rounds", cl.replyBytes, cl.rounds)
		}
		if err != nil {
			return err
		}
		_, err = remote.DiffTypeCheck(ctx, local)
		return err
	}
}

func randBytesFrom(r interface{ Read([]byte) (int, error) }, n int) []byte {
	b := make([]byte, n)
	_, _ = r.Read(b)
	return b
}

// ---------------------------------------------------------------------------------------------
// space payload

type spaceEP struct{}

func (e *spaceEP) readOnlyCall() bool { return true }

type spaceBase struct {
	key crypto.PrivKey
}

func (e *spaceEP) base(g groupSpec) (*base, error) {
	acc := newAccount()
	master, _, err := crypto.GenerateRandomEd25519KeyPair()
	must0(err)
	meta, _, err := crypto.GenerateRandomEd25519KeyPair()
	must0(err)
	var p spacestorage.SpaceStorageCreatePayload
	signKey := acc.SignKey
	create := spacepayloads.SpaceCreatePayload{
		SigningKey: acc.SignKey, SpaceType: "hostile.type", ReplicationKey: 77, SpacePayload: []byte("payload"),
		MasterKey: master, ReadKey: newAES(), MetadataKey: regPriv(meta), Metadata: []byte("meta"),
	}
	switch g.V {
	case "v0":
		p, err = spacepayloads.StoragePayloadForSpaceCreate(create)
	case "v1":
		p, err = spacepayloads.StoragePayloadForSpaceCreateV1(create)
	case "onetoone":
		other := newAccount()
		p, err = spacepayloads.StoragePayloadForOneToOneSpace(acc.SignKey, other.SignKey.GetPublic())
		if err == nil {
			signKey, err = crypto.GenerateSharedKey(acc.SignKey, other.SignKey.GetPublic(), crypto.AnysyncOneToOneSpacePath)
		}
	default:
		err = fmt.Errorf("space: unknown variant %q", g.V)
	}
	if err != nil {
		return nil, err
	}
	if err := spacepayloads.ValidateSpaceStorageCreatePayload(p); err != nil {
		return nil, fmt.Errorf("space: the valid payload is refused: %w", err)
	}
	msg := &spacesyncproto.SpacePayload{
		SpaceHeader: p.SpaceHeaderWithId, AclPayload: p.AclWithId.Payload, AclPayloadId: p.AclWithId.Id,
		SpaceSettingsPayload: p.SpaceSettingsWithId.RawChange, SpaceSettingsPayloadId: p.SpaceSettingsWithId.Id,
	}
	env := newRenderEnv(caseRand(g))
	env.fix = func(msgType, field string, nodes []wnode) []wnode {
		switch {
		case msgType == "RawSpaceHeader" && field == "spaceHeader":
			nodes = setOrAdd(nodes, bytesNode(2, must(signKey.Sign(getBytes(nodes, 1)))))
		case msgType == "RawSpaceHeaderWithId" && field == "rawHeader":
			old := string(getBytes(nodes, 2))
			suffix := ""
			for i := 0; i < len(old); i++ {
				if old[i] == '.' {
					suffix = old[i:]
				}
			}
			nodes = setOrAdd(nodes, bytesNode(2, []byte(must(cidutil.NewCidFromBytes(getBytes(nodes, 1)))+suffix)))
		case (msgType == "RawRecordRoot" || msgType == "RawTreeChangeRoot") && field == "payload":
			nodes = setOrAdd(nodes, bytesNode(2, must(signKey.Sign(getBytes(nodes, 1)))))
		case msgType == "SpacePayload" && field == "aclPayload":
			nodes = setOrAdd(nodes, bytesNode(3, []byte(must(cidutil.NewCidFromBytes(getBytes(nodes, 2))))))
		case msgType == "SpacePayload" && field == "spaceSettingsPayload":
			nodes = setOrAdd(nodes, bytesNode(5, []byte(must(cidutil.NewCidFromBytes(getBytes(nodes, 4))))))
		}
		return nodes
	}
	return &base{valid: must(msg.MarshalVT()), env: env, ctx: &spaceBase{key: signKey}}, nil
}

func (e *spaceEP) newReceiver(g groupSpec, b *base) (any, func(), error) { return nil, nil, nil }

func (e *spaceEP) call(g groupSpec, b *base, recv any, data []byte) func() error {
	return func() error {
		msg := &spacesyncproto.SpacePayload{}
		if err := msg.UnmarshalVT(data); err != nil {
			return err
		}
		// the conversion every receiver of a SpacePayload performs (spaceService.AddSpace /
		// spacePullWithPeer)
		return spacepayloads.ValidateSpaceStorageCreatePayload(spacestorage.SpaceStorageCreatePayload{
			AclWithId:           &consensusproto.RawRecordWithId{Payload: msg.AclPayload, Id: msg.AclPayloadId},
			SpaceSettingsWithId: &treechangeproto.RawTreeChangeWithId{RawChange: msg.SpaceSettingsPayload, Id: msg.SpaceSettingsPayloadId},
			SpaceHeaderWithId:   msg.SpaceHeader,
		})
	}
}

// ---------------------------------------------------------------------------------------------
// snappy codec, reached the way the rpc layer reaches it: encoding.WrapHandler gives the handler
// a stream whose MsgRecv decodes with the snappy encoding when the connection negotiated it.

type snappyStream struct {
	ctx  context.Context
	data []byte
	read bool
}

func (s *snappyStream) Context() context.Context { return s.ctx }
func (s *snappyStream) MsgSend(msg drpc.Message, enc drpc.Encoding) error {
	_, err := enc.Marshal(msg)
	return err
}
func (s *snappyStream) MsgRecv(msg drpc.Message, enc drpc.Encoding) error {
	if s.read {
		return io.EOF
	}
	s.read = true
	return enc.Unmarshal(s.data, msg)
}
func (s *snappyStream) CloseSend() error { return nil }
func (s *snappyStream) Close() error     { return nil }

type snappyHandler struct{ err error }

func (h *snappyHandler) HandleRPC(stream drpc.Stream, rpc string) error {
	req := &spacesyncproto.HeadSyncRequest{}
	if err := stream.MsgRecv(req, nil); err != nil {
		return err
	}
	return stream.MsgSend(req, nil)
}

type snappyEP struct{}

func (e *snappyEP) readOnlyCall() bool { return true }

func (e *snappyEP) base(g groupSpec) (*base, error) {
	req := &spacesyncproto.HeadSyncRequest{SpaceId: treeSpace, DiffType: spacesyncproto.DiffType_V3}
	for i := 0; i < 40; i++ {
		req.Ranges = append(req.Ranges, &spacesyncproto.HeadSyncRange{From: uint64(i) << 50, To: uint64(i+1) << 50, Limit: 16})
	}
	return &base{valid: must(req.MarshalVT()), env: newRenderEnv(caseRand(g))}, nil
}

// protobuf-level cases: the mutated message, properly compressed
func (e *snappyEP) postRender(g groupSpec, b *base, c caseSpec, data []byte) ([]byte, error) {
	return snappy.Encode(nil, data), nil
}

func (e *snappyEP) renderFrame(g groupSpec, b *base, c caseSpec) ([]byte, error) {
	enc := snappy.Encode(nil, b.valid)
	_, n := protowire.ConsumeVarint(enc) // the block starts with the decoded length as a varint
	body := enc[n:]
	withLen := func(l uint64) []byte { return append(protowire.AppendVarint(nil, l), body...) }
	switch c.Op {
	case "snappy-valid":
		return enc, nil
	case "snappy-empty":
		return []byte{}, nil
	case "snappy-hdr-truncated":
		return []byte{0x80, 0x80}, nil
	case "snappy-len-huge":
		return withLen(1 << 28), nil
	case "snappy-len-plus1":
		return withLen(uint64(len(b.valid)) + 1), nil
	case "snappy-len-minus1":
		return withLen(uint64(len(b.valid)) - 1), nil
	case "snappy-body-truncated":
		return enc[:n+len(body)/2], nil
	case "snappy-garbage":
		g := make([]byte, len(body))
		b.env.rnd.Read(g)
		return append(protowire.AppendVarint(nil, uint64(len(b.valid))), g...), nil
	case "snappy-bad-offset":
		// a copy element (tag 0b01: 1-byte offset) that points before the start of the output
		return append(protowire.AppendVarint(nil, 8), 0x01|(4<<2), 0xff), nil
	}
	return nil, fmt.Errorf("unknown snappy operator %q", c.Op)
}

func (e *snappyEP) newReceiver(g groupSpec, b *base) (any, func(), error) { return nil, nil, nil }

func (e *snappyEP) call(g groupSpec, b *base, recv any, data []byte) func() error {
	return func() error {
		h := encoding.WrapHandler(&snappyHandler{})
		return h.HandleRPC(&snappyStream{ctx: encoding.CtxWithSnappy(context.Background()), data: data}, "/hostile/rpc")
	}
}

// ---------------------------------------------------------------------------------------------
// crypto helpers

type cryptoEP struct {
	mode string // "keyproto" | "decrypt" | "string"
}

type cryptoBase struct {
	priv crypto.PrivKey
	aes  *crypto.AESKey
}

func (e *cryptoEP) readOnlyCall() bool { return true }

func (e *cryptoEP) base(g groupSpec) (*base, error) {
	acc := newAccount()
	aes := newAES()
	b := &base{env: newRenderEnv(caseRand(g)), ctx: &cryptoBase{priv: acc.SignKey, aes: aes}}
	wrap := func(v []byte) []byte { return encodeMsg([]wnode{bytesNode(1, v)}) }
	switch e.mode {
	case "keyproto":
		switch g.V {
		case "ed25519-public":
			b.valid = pubProto(acc.SignKey)
		case "ed25519-private":
			b.valid = must(acc.SignKey.Marshall())
		case "aes":
			b.valid = must(aes.Marshall())
		}
	case "decrypt":
		if g.V == "x25519" {
			b.valid = wrap(must(acc.SignKey.GetPublic().Encrypt([]byte("a secret of some length"))))
		} else {
			b.valid = wrap(must(aes.Encrypt([]byte("a secret of some length"))))
		}
	case "string":
		pub := acc.SignKey.GetPublic()
		switch g.V {
		case "account-address":
			b.valid = wrap([]byte(pub.Account()))
		case "peer-id":
			b.valid = wrap([]byte(acc.PeerId))
		case "network-id":
			b.valid = wrap([]byte(pub.Network()))
		case "base64-key":
			b.valid = wrap([]byte(must(crypto.EncodeKeyToString(pub))))
		case "aes-string":
			b.valid = wrap([]byte(aes.String()))
		}
	}
	if b.valid == nil {
		return nil, fmt.Errorf("crypto: unknown variant %q", g.V)
	}
	return b, nil
}

func (e *cryptoEP) newReceiver(g groupSpec, b *base) (any, func(), error) { return nil, nil, nil }

// blob extracts field 1 of the synthetic single-field messages (the raw bytes if it no longer
// parses: the blob then simply is the whole input).
func blob(data []byte) []byte {
	if nodes, ok := parseMsg(data); ok {
		if i := findNode(nodes, 1, 0); i >= 0 && nodes[i].typ == protowire.BytesType {
			return nodes[i].val
		}
		if len(nodes) == 0 {
			return []byte{}
		}
	}
	return data
}

func (e *cryptoEP) call(g groupSpec, b *base, recv any, data []byte) func() error {
	cb := b.ctx.(*cryptoBase)
	msg := []byte("message")
	usePub := func(k crypto.PubKey) error {
		_, _ = k.Verify(msg, make([]byte, 64))
		_, _ = k.Verify(msg, nil)
		_, _ = k.Encrypt(msg)
		_ = k.Account()
		_ = k.PeerId()
		_ = k.Network()
		_, _ = k.LibP2P()
		_, _ = k.Marshall()
		_ = k.Equals(cb.priv.GetPublic())
		return nil
	}
	switch e.mode {
	case "keyproto":
		return func() error {
			switch g.St {
			case "as-public":
				k, err := crypto.UnmarshalEd25519PublicKeyProto(data)
				if err != nil {
					return err
				}
				return usePub(k)
			case "as-private":
				k, err := crypto.UnmarshalEd25519PrivateKeyProto(data)
				if err != nil {
					return err
				}
				sig, _ := k.Sign(msg)
				_, _ = k.GetPublic().Verify(msg, sig)
				ct, _ := k.GetPublic().Encrypt(msg)
				_, _ = k.Decrypt(ct)
				_, _ = k.Decrypt(nil)
				_, _ = k.LibP2P()
				return usePub(k.GetPublic())
			default:
				k, err := crypto.UnmarshallAESKeyProto(data)
				if err != nil {
					return err
				}
				ct, _ := k.Encrypt(msg)
				_, _ = k.Decrypt(ct)
				_, _ = k.Decrypt(nil)
				return nil
			}
		}
	case "decrypt":
		return func() error {
			ct := blob(data)
			var err error
			if g.V == "x25519" {
				_, err = cb.priv.Decrypt(ct)
			} else {
				_, err = cb.aes.Decrypt(ct)
				if _, err2 := cb.aes.DecryptReuse(make([]byte, 0, 8), ct); (err == nil) != (err2 == nil) {
					return errors.New("Decrypt and DecryptReuse disagree")
				}
			}
			return err
		}
	default:
		return func() error {
			s := string(blob(data))
			switch g.V {
			case "account-address":
				k, err := crypto.DecodeAccountAddress(s)
				if err != nil {
					return err
				}
				return usePub(k)
			case "peer-id":
				k, err := crypto.DecodePeerId(s)
				if err != nil {
					return err
				}
				return usePub(k)
			case "network-id":
				k, err := crypto.DecodeNetworkId(s)
				if err != nil {
					return err
				}
				return usePub(k)
			case "base64-key":
				k, err := crypto.DecodeKeyFromString(s, crypto.UnmarshalEd25519PublicKey, nil)
				if err != nil {
					return err
				}
				return usePub(k)
			default:
				k, err := crypto.UnmarshallAESKeyString(s)
				if err != nil {
					return err
				}
				ct, _ := k.Encrypt(msg)
				_, _ = k.Decrypt(ct)
				return nil
			}
		}
	}
}

var _ = time.Second

// ---------------------------------------------------------------------------------------------
// space pull: the reply of a node to SpacePull, consumed by the unexported
// spaceService.spacePullWithPeer - rendered here, delivered by harness/inpkg/commonspace.

type spacePullEP struct{}

type spacePullSetup struct {
	VictimSign string `json:"victim_sign"` // marshalled private keys of the receiving account
	VictimPeer string `json:"victim_peer"`
	NetworkId  string `json:"network_id"`
	SpaceId    string `json:"space_id"`
}

func (e *spacePullEP) remoteName() string { return "spacepull" }
func (e *spacePullEP) setup(b *base) any  { return b.ctx }

func (e *spacePullEP) base(g groupSpec) (*base, error) {
	owner, victim, netAcc := newAccount(), newAccount(), newAccount()
	master, _, err := crypto.GenerateRandomEd25519KeyPair()
	must0(err)
	meta, _, err := crypto.GenerateRandomEd25519KeyPair()
	must0(err)
	p, err := spacepayloads.StoragePayloadForSpaceCreate(spacepayloads.SpaceCreatePayload{
		SigningKey: owner.SignKey, SpaceType: "hostile.type", ReplicationKey: 77, SpacePayload: []byte("payload"),
		MasterKey: master, ReadKey: newAES(), MetadataKey: regPriv(meta), Metadata: []byte("meta"),
	})
	if err != nil {
		return nil, err
	}
	st := must(list.NewInMemoryStorage(p.AclWithId.Id, []*consensusproto.RawRecordWithId{p.AclWithId}))
	acl := must(list.BuildAclListWithIdentity(owner, st, recordverifier.NewValidateFull()))
	raw := must(acl.RecordBuilder().BuildAccountsAdd(list.AccountsAddPayload{Additions: []list.AccountAdd{
		{Identity: victim.SignKey.GetPublic(), Permissions: list.AclPermissionsWriter, Metadata: []byte("victim")}}}))
	netPub := pubProto(netAcc.SignKey)
	raw.AcceptorIdentity = netPub
	raw.AcceptorSignature = must(netAcc.SignKey.Sign(raw.Payload))
	recPayload := must(raw.MarshalVT())
	rec1 := &consensusproto.RawRecordWithId{Payload: recPayload, Id: must(cidutil.NewCidFromBytes(recPayload))}
	must0(acl.AddRawRecord(rec1))
	// a second record (key rotation) so that the reply carries a batch
	raw2 := must(acl.RecordBuilder().BuildReadKeyChange(newKeyChange()))
	raw2.AcceptorIdentity = netPub
	raw2.AcceptorSignature = must(netAcc.SignKey.Sign(raw2.Payload))
	rec2Payload := must(raw2.MarshalVT())
	msg := &spacesyncproto.SpacePullResponse{
		Payload: &spacesyncproto.SpacePayload{
			SpaceHeader: p.SpaceHeaderWithId, AclPayload: p.AclWithId.Payload, AclPayloadId: p.AclWithId.Id,
			SpaceSettingsPayload: p.SpaceSettingsWithId.RawChange, SpaceSettingsPayloadId: p.SpaceSettingsWithId.Id,
		},
		AclRecords: []*spacesyncproto.AclRecord{{AclPayload: recPayload, Id: rec1.Id},
			{AclPayload: rec2Payload, Id: must(cidutil.NewCidFromBytes(rec2Payload))}},
	}
	env := newRenderEnv(caseRand(g))
	env.fix = func(msgType, field string, nodes []wnode) []wnode {
		switch {
		case msgType == "RawSpaceHeader" && field == "spaceHeader":
			nodes = setOrAdd(nodes, bytesNode(2, must(owner.SignKey.Sign(getBytes(nodes, 1)))))
		case msgType == "RawSpaceHeaderWithId" && field == "rawHeader":
			old := string(getBytes(nodes, 2))
			suffix := ""
			for i := 0; i < len(old); i++ {
				if old[i] == '.' {
					suffix = old[i:]
				}
			}
			nodes = setOrAdd(nodes, bytesNode(2, []byte(must(cidutil.NewCidFromBytes(getBytes(nodes, 1)))+suffix)))
		case (msgType == "RawRecordRoot" || msgType == "RawTreeChangeRoot") && field == "payload":
			nodes = setOrAdd(nodes, bytesNode(2, must(owner.SignKey.Sign(getBytes(nodes, 1)))))
		case msgType == "RawRecord" && field == "payload":
			pl := getBytes(nodes, 1)
			nodes = setOrAdd(nodes, bytesNode(2, must(owner.SignKey.Sign(pl))))
			nodes = setOrAdd(nodes, bytesNode(4, must(netAcc.SignKey.Sign(pl))))
		case msgType == "AclRecord" && field == "aclPayload":
			nodes = setOrAdd(nodes, bytesNode(2, []byte(must(cidutil.NewCidFromBytes(getBytes(nodes, 1))))))
		case msgType == "SpacePayload" && field == "aclPayload":
			nodes = setOrAdd(nodes, bytesNode(3, []byte(must(cidutil.NewCidFromBytes(getBytes(nodes, 2))))))
		case msgType == "SpacePayload" && field == "spaceSettingsPayload":
			nodes = setOrAdd(nodes, bytesNode(5, []byte(must(cidutil.NewCidFromBytes(getBytes(nodes, 4))))))
		}
		return nodes
	}
	return &base{valid: must(msg.MarshalVT()), env: env, ctx: &spacePullSetup{
		VictimSign: fmt.Sprintf("%x", must(victim.SignKey.Marshall())),
		VictimPeer: fmt.Sprintf("%x", must(victim.PeerKey.Marshall())),
		NetworkId:  netAcc.SignKey.GetPublic().Network(),
		SpaceId:    p.SpaceHeaderWithId.Id,
	}}, nil
}

func (e *spacePullEP) newReceiver(g groupSpec, b *base) (any, func(), error) { return nil, nil, nil }
func (e *spacePullEP) call(g groupSpec, b *base, recv any, data []byte) func() error {
	return func() error { return errors.New("space.SpacePull is delivered by the in-package overlay test") }
}
