package hostile

import (
	"encoding/json"
	"os"
	"strings"
	"testing"

	"go.uber.org/zap"

	"github.com/anyproto/any-sync/app/logger"

	"verifharness/vfutil"
)

func TestMain(m *testing.M) {
	// the code under test logs every rejected input; keep the run quiet
	logger.SetDefault(zap.NewNop())
	logger.SetNamedLevels(nil)
	rc := m.Run()
	if scratchDir != "" {
		os.RemoveAll(scratchDir)
	}
	os.Exit(rc)
}

func init() {
	registry["acl.AddRawRecord"] = &aclEP{mode: "add"}
	registry["acl.AddRawRecords"] = &aclEP{mode: "addmany"}
	registry["acl.ValidateRawRecord"] = &aclEP{mode: "validate"}
	registry["acl.BuildAclList"] = &aclBuildEP{}
	registry["tree.AddRawChanges"] = &treeEP{mode: "add"}
	registry["tree.UnpackChange"] = &treeEP{mode: "unpack"}
	registry["tree.ValidateRawTree"] = &treeValidateEP{}
	registry["synctree.HandleHeadUpdate"] = &syncEP{mode: "headupdate"}
	registry["synctree.HandleStreamRequest"] = &syncEP{mode: "request"}
	registry["synctree.HandleResponse"] = &syncEP{mode: "response"}
	registry["kv.KeyValueFromProto"] = &kvEP{mode: "decode"}
	registry["kv.SetRaw"] = &kvEP{mode: "setraw"}
	registry["headsync.HandleRangeRequest"] = &rangeEP{}
	registry["keyvalue.HandleRangeRequest"] = &rangeEP{kv: true}
	registry["ldiff.Diff"] = &ldiffEP{}
	registry["space.ValidateSpaceStorageCreatePayload"] = &spaceEP{}
	registry["snappy.Unmarshal"] = &snappyEP{}
	registry["crypto.UnmarshalKeyProto"] = &cryptoEP{mode: "keyproto"}
	registry["crypto.Decrypt"] = &cryptoEP{mode: "decrypt"}
	registry["crypto.DecodeString"] = &cryptoEP{mode: "string"}
	registry["handshake.readMsg"] = &hsEP{}
	registry["pubsub.HandleMessage"] = &pubEP{}
	registry["space.SpacePull"] = &spacePullEP{}
}

// TestCases executes every case TLC emitted (VERIF_CASES = directory of HostileGen output).
// VERIF_ONLY restricts to entry points with that prefix (development aid).
func TestCases(t *testing.T) {
	dir := os.Getenv("VERIF_CASES")
	if dir == "" {
		t.Skip("VERIF_CASES not set")
	}
	rep := vfutil.NewReport("C11")
	if out := os.Getenv("VERIF_GEN_SCHEMA"); out != "" {
		// the schema the repository's descriptors give now (compared with spec/hostile/HostileSchema.tla by the check)
		if err := os.WriteFile(out, []byte(schemaTLA()), 0o644); err != nil {
			rep.Save(false)
			t.Fatal(err)
		}
	}
	groups, table, err := loadEmitted(dir)
	if err != nil || len(groups) == 0 {
		rep.Save(false)
		t.Fatalf("loading cases: %v (%d groups)", err, len(groups))
	}
	only := os.Getenv("VERIF_ONLY")
	r := newRunner(rep)
	var missing []string
	for _, e := range groups {
		if only != "" && !strings.HasPrefix(e.Group.Ep, only) {
			continue
		}
		if skip := os.Getenv("VERIF_SKIP"); skip != "" && strings.HasPrefix(e.Group.Ep, skip) {
			continue
		}
		if registry[e.Group.Ep] == nil {
			missing = append(missing, e.Group.Ep)
			continue
		}
		if err := r.runGroup(e); err != nil {
			r.finish()
			rep.Save(false)
			t.Fatalf("harness failure: %v", err)
		}
		rep.AddReplayed(1)
	}
	r.finish()
	rep.SetExtra("coverage_table", table)
	rep.SetExtra("unbound_entry_points", missing)
	rep.Save(true)
	if rep.NumViolations() > 0 {
		t.Fail()
	}
}

// TestReplay re-executes the case of a reported violation.
func TestReplay(t *testing.T) {
	raw, ok := vfutil.ReplayFile()
	if !ok {
		t.Skip("not a replay run")
	}
	rep := vfutil.NewReport("C11")
	var ro replayObj
	if err := json.Unmarshal(raw, &ro); err != nil {
		rep.Save(false)
		t.Fatal(err)
	}
	r := newRunner(rep)
	ep := registry[ro.Group.Ep]
	if ep == nil {
		rep.Save(false)
		t.Fatalf("no binding for %s", ro.Group.Ep)
	}
	b, err := ep.base(ro.Group)
	for _, pc := range ro.Prior {
		// the cases delivered to the same receiver before (all were rejected)
		if err == nil {
			err = r.runCase(ep, ro.Group, b, pc)
		}
	}
	if err == nil {
		err = r.runCase(ep, ro.Group, b, ro.Case)
	}
	r.dropReceiver()
	if err != nil {
		rep.Save(false)
		t.Fatal(err)
	}
	rep.AddReplayed(1)
	r.finish()
	rep.Save(true)
	if rep.NumViolations() > 0 {
		t.Fail()
	}
}
