package hostile

import (
	"os"
	"testing"

	"verifharness/vfutil"
)

// TestGenSchema writes spec/hostile/HostileSchema.tla (to $VERIF_GEN_SCHEMA) from the protobuf
// descriptors of the repository under test and the annotations of schema.go.
func TestGenSchema(t *testing.T) {
	out := os.Getenv("VERIF_GEN_SCHEMA")
	if out == "" {
		t.Skip("VERIF_GEN_SCHEMA not set")
	}
	if err := os.WriteFile(out, []byte(schemaTLA()), 0o644); err != nil {
		t.Fatal(err)
	}
	rep := vfutil.NewReport("C11")
	rep.SetExtra("schema_messages", len(schema))
	rep.Save(true)
}
