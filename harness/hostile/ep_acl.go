package hostile

// ep_acl.go: the ACL entry points - AclList.AddRawRecord / AddRawRecords / ValidateRawRecord on a
// real record chain built with the real record builders and real keys.  The receiver is rebuilt
// from storage for every case, with the identity the state names (target of the record / another
// member) and the verifier it names (full validation, or the network-key acceptor verifier that
// clients use, which skips content validation and uses the keep-only-ours decoder).

import (
	"errors"
	"fmt"
	"sync"

	"google.golang.org/protobuf/encoding/protowire"

	"github.com/anyproto/any-sync/commonspace/object/accountdata"
	"github.com/anyproto/any-sync/commonspace/object/acl/aclrecordproto"
	"github.com/anyproto/any-sync/commonspace/object/acl/list"
	"github.com/anyproto/any-sync/commonspace/object/acl/recordverifier"
	"github.com/anyproto/any-sync/consensus/consensusproto"
	"github.com/anyproto/any-sync/util/cidutil"
	"github.com/anyproto/any-sync/util/crypto"
)

type aclMember struct {
	name string
	keys *accountdata.AccountKeys
	acl  list.AclList
}

// aclWorld is one valid ACL history plus, for every record kind, a valid next record.
type aclWorld struct {
	netKey   crypto.PrivKey
	netPub   []byte
	root     *consensusproto.RawRecordWithId
	records  []*consensusproto.RawRecordWithId // the accepted chain (root first)
	members  map[string]*aclMember
	variants map[string]*aclVariant
}

type aclVariant struct {
	rec    *consensusproto.RawRecordWithId // valid next record (not applied)
	author *accountdata.AccountKeys
	target *accountdata.AccountKeys // receiver whose keys the record addresses
	other  *accountdata.AccountKeys // a receiver the record does not address
}

func (w *aclWorld) wrap(raw *consensusproto.RawRecord) *consensusproto.RawRecordWithId {
	raw.AcceptorIdentity = w.netPub
	raw.AcceptorSignature = must(w.netKey.Sign(raw.Payload))
	payload := must(raw.MarshalVT())
	return &consensusproto.RawRecordWithId{Payload: payload, Id: must(cidutil.NewCidFromBytes(payload))}
}

func (w *aclWorld) join(name string) *aclMember {
	keys := newAccount()
	st := must(list.NewInMemoryStorage(w.root.Id, w.records))
	m := &aclMember{name: name, keys: keys, acl: must(list.BuildAclListWithIdentity(keys, st, recordverifier.NewValidateFull()))}
	w.members[name] = m
	return m
}

// freshMember is like join but the account is not tracked (it only authors a pending record).
func (w *aclWorld) freshMember() *aclMember {
	keys := newAccount()
	st := must(list.NewInMemoryStorage(w.root.Id, w.records))
	return &aclMember{keys: keys, acl: must(list.BuildAclListWithIdentity(keys, st, recordverifier.NewValidateFull()))}
}

func (w *aclWorld) apply(rec *consensusproto.RawRecordWithId) {
	for _, m := range w.members {
		if err := m.acl.AddRawRecord(rec); err != nil {
			panic(fmt.Sprintf("acl world: %s rejects a valid record: %v", m.name, err))
		}
	}
	w.records = append(w.records, rec)
}

func newKeyChange() list.ReadKeyChangePayload {
	priv, _, err := crypto.GenerateRandomEd25519KeyPair()
	must0(err)
	return list.ReadKeyChangePayload{MetadataKey: regPriv(priv), ReadKey: newAES()}
}

var (
	aclWorldOnce sync.Once
	theAclWorld  *aclWorld
)

func getAclWorld() *aclWorld {
	aclWorldOnce.Do(func() { theAclWorld = buildAclWorld() })
	return theAclWorld
}

func buildAclWorld() *aclWorld {
	w := &aclWorld{members: map[string]*aclMember{}, variants: map[string]*aclVariant{}}
	netAcc := newAccount()
	w.netKey = netAcc.SignKey
	w.netPub = pubProto(netAcc.SignKey)

	ownerKeys := newAccount()
	master, _, err := crypto.GenerateRandomEd25519KeyPair()
	must0(err)
	rootBuilder := list.NewAclRecordBuilder("", crypto.NewKeyStorage(), ownerKeys, recordverifier.NewValidateFull())
	w.root = must(rootBuilder.BuildRoot(list.RootContent{
		PrivKey: ownerKeys.SignKey, SpaceId: "hostile.space", MasterKey: master, Change: newKeyChange(), Metadata: []byte("owner"),
	}))
	w.records = []*consensusproto.RawRecordWithId{w.root}
	st := must(list.NewInMemoryStorage(w.root.Id, w.records))
	owner := &aclMember{name: "owner", keys: ownerKeys, acl: must(list.BuildAclListWithIdentity(ownerKeys, st, recordverifier.NewValidateFull()))}
	w.members["owner"] = owner
	ob := func() list.AclRecordBuilder { return owner.acl.RecordBuilder() }

	// members: writer w1, writer w2, admin adm
	w1, w2, adm := w.join("w1"), w.join("w2"), w.join("adm")
	w.apply(w.wrap(must(ob().BuildAccountsAdd(list.AccountsAddPayload{Additions: []list.AccountAdd{
		{Identity: w1.keys.SignKey.GetPublic(), Permissions: list.AclPermissionsWriter, Metadata: []byte("w1")},
		{Identity: w2.keys.SignKey.GetPublic(), Permissions: list.AclPermissionsWriter, Metadata: []byte("w2")},
		{Identity: adm.keys.SignKey.GetPublic(), Permissions: list.AclPermissionsAdmin, Metadata: []byte("adm")},
	}}))))
	// one key rotation so that unpackAllKeys has a chain to walk
	w.apply(w.wrap(must(ob().BuildReadKeyChange(newKeyChange()))))
	// invites
	inv1 := must(ob().BuildInvite())
	regPriv(inv1.InviteKey)
	inv1Rec := w.wrap(inv1.InviteRec)
	w.apply(inv1Rec)
	inv2 := must(ob().BuildInviteAnyone(list.AclPermissionsWriter))
	regPriv(inv2.InviteKey)
	inv2Rec := w.wrap(inv2.InviteRec)
	w.apply(inv2Rec)
	// pending join requests j1 (to accept), j2 (to decline), j3 (to cancel)
	reqIds := map[string]string{}
	for _, n := range []string{"j1", "j2", "j3"} {
		j := w.join(n)
		rec := w.wrap(must(j.acl.RecordBuilder().BuildRequestJoin(list.RequestJoinPayload{InviteKey: inv1.InviteKey, Metadata: []byte(n)})))
		w.apply(rec)
		reqIds[n] = rec.Id
	}
	j1, j3 := w.members["j1"], w.members["j3"]

	add := func(name string, author *aclMember, raw *consensusproto.RawRecord, target, other *aclMember) {
		w.variants[name] = &aclVariant{rec: w.wrap(raw), author: author.keys, target: target.keys, other: other.keys}
	}
	n1 := w.freshMember()
	add("accountsAdd", owner, must(ob().BuildAccountsAdd(list.AccountsAddPayload{Additions: []list.AccountAdd{
		{Identity: n1.keys.SignKey.GetPublic(), Permissions: list.AclPermissionsWriter, Metadata: []byte("n1")},
	}})), n1, w1)
	add("requestAccept", owner, must(ob().BuildRequestAccept(list.RequestAcceptPayload{RequestRecordId: reqIds["j1"], Permissions: list.AclPermissionsWriter})), j1, w1)
	k1 := w.freshMember()
	add("inviteJoin", k1, must(k1.acl.RecordBuilder().BuildInviteJoinWithoutApprove(list.InviteJoinPayload{InviteKey: inv2.InviteKey, Permissions: list.AclPermissionsWriter, Metadata: []byte("k1")})), k1, w1)
	add("accountRemove", owner, must(ob().BuildAccountRemove(list.AccountRemovePayload{Identities: []crypto.PubKey{w2.keys.SignKey.GetPublic()}, Change: newKeyChange()})), w1, w2)
	add("readKeyChange", owner, must(ob().BuildReadKeyChange(newKeyChange())), w1, j1)
	invV := must(ob().BuildInvite())
	regPriv(invV.InviteKey)
	add("invite", owner, invV.InviteRec, owner, w1)
	invA := must(ob().BuildInviteAnyone(list.AclPermissionsReader))
	regPriv(invA.InviteKey)
	add("inviteAnyone", owner, invA.InviteRec, owner, w1)
	add("inviteRevoke", owner, must(ob().BuildInviteRevoke(inv1Rec.Id)), owner, w1)
	add("inviteChange", owner, must(ob().BuildInviteChange(list.InviteChangePayload{IniviteRecordId: inv2Rec.Id, Permissions: list.AclPermissionsReader})), owner, w1)
	n2 := w.freshMember()
	add("requestJoin", n2, must(n2.acl.RecordBuilder().BuildRequestJoin(list.RequestJoinPayload{InviteKey: inv1.InviteKey, Metadata: []byte("n2")})), n2, w1)
	add("requestDecline", owner, must(ob().BuildRequestDecline(reqIds["j2"])), w.members["j2"], w1)
	add("requestCancel", j3, must(j3.acl.RecordBuilder().BuildRequestCancel(reqIds["j3"])), j3, w1)
	add("accountRequestRemove", w2, must(w2.acl.RecordBuilder().BuildRequestRemove()), w2, w1)
	add("permissionChange", owner, must(ob().BuildPermissionChange(list.PermissionChangePayload{Identity: w1.keys.SignKey.GetPublic(), Permissions: list.AclPermissionsReader})), w1, w2)
	add("permissionChanges", owner, must(ob().BuildPermissionChanges(list.PermissionChangesPayload{Changes: []list.PermissionChangePayload{
		{Identity: w1.keys.SignKey.GetPublic(), Permissions: list.AclPermissionsReader},
		{Identity: w2.keys.SignKey.GetPublic(), Permissions: list.AclPermissionsAdmin},
	}})), w1, adm)
	add("ownershipChange", owner, must(ob().BuildOwnershipChange(list.OwnershipChangePayload{NewOwner: adm.keys.SignKey.GetPublic(), OldOwnerPermissions: list.AclPermissionsAdmin})), adm, w1)
	add("spaceOptionsChange", owner, must(ob().BuildSpaceOptionsChange(&aclrecordproto.AclSpaceOptions{DeleteRestricted: true})), owner, w1)
	n3 := w.freshMember()
	add("batch", owner, must(ob().BuildBatchRequest(list.BatchRequestPayload{
		Additions: []list.AccountAdd{{Identity: n3.keys.SignKey.GetPublic(), Permissions: list.AclPermissionsReader, Metadata: []byte("n3")}},
		Changes:   []list.PermissionChangePayload{{Identity: w1.keys.SignKey.GetPublic(), Permissions: list.AclPermissionsReader}},
		Removals:  list.AccountRemovePayload{Identities: []crypto.PubKey{w2.keys.SignKey.GetPublic()}, Change: newKeyChange()},
		Approvals: []list.RequestAcceptPayload{{RequestRecordId: reqIds["j1"], Permissions: list.AclPermissionsWriter}},
		Declines:  []string{reqIds["j2"]},
	})).Rec, n3, w1)
	w.variants["root"] = &aclVariant{rec: w.root, author: ownerKeys, target: ownerKeys, other: w1.keys}
	return w
}

// ---------------------------------------------------------------------------------------------

type aclBase struct {
	v   *aclVariant
	raw bool // top-level message is RawRecord (ValidateRawRecord), not RawRecordWithId
}

type aclEP struct {
	mode string // "add" | "addmany" | "validate"
}

func (e *aclEP) readOnlyCall() bool { return e.mode == "validate" }

func (e *aclEP) base(g groupSpec) (*base, error) {
	w := getAclWorld()
	v := w.variants[g.V]
	if v == nil {
		return nil, fmt.Errorf("acl: unknown variant %q", g.V)
	}
	env := newRenderEnv(caseRand(g))
	env.ids["dangling"] = randomCid()
	author := v.author.SignKey
	env.fix = func(msgType, field string, nodes []wnode) []wnode {
		switch msgType {
		case "RawRecord", "RawRecordRoot":
			if field == "payload" {
				p := getBytes(nodes, 1)
				nodes = setOrAdd(nodes, bytesNode(2, must(author.Sign(p))))
				if msgType == "RawRecord" {
					nodes = setOrAdd(nodes, bytesNode(4, must(w.netKey.Sign(p))))
				}
			}
		case "RawRecordWithId", "RawRecordWithIdRoot":
			if field == "payload" {
				nodes = setOrAdd(nodes, bytesNode(2, []byte(must(cidutil.NewCidFromBytes(getBytes(nodes, 1))))))
			}
		}
		return nodes
	}
	b := &base{env: env, ctx: &aclBase{v: v, raw: e.mode == "validate"}}
	if e.mode == "validate" {
		b.valid = v.rec.Payload // marshalled RawRecord
	} else {
		b.valid = must(v.rec.MarshalVT())
	}
	return b, nil
}

func (e *aclEP) receiver(g groupSpec, v *aclVariant) (list.AclList, error) {
	w := getAclWorld()
	var verifier recordverifier.AcceptorVerifier = recordverifier.NewValidateFull()
	who := g.St
	switch g.St {
	case "validating/target", "validating/other":
		who = g.St[len("validating/"):]
	case "nonvalidating/target", "nonvalidating/other":
		who = g.St[len("nonvalidating/"):]
		netPub, err := crypto.UnmarshalEd25519PublicKeyProto(w.netPub)
		if err != nil {
			return nil, err
		}
		verifier = recordverifier.New(netPub)
	}
	keys := v.target
	if who == "other" {
		keys = v.other
	}
	st, err := list.NewInMemoryStorage(w.root.Id, w.records)
	if err != nil {
		return nil, err
	}
	return list.BuildAclListWithIdentity(keys, st, verifier)
}

func (e *aclEP) newReceiver(g groupSpec, b *base) (any, func(), error) {
	acl, err := e.receiver(g, b.ctx.(*aclBase).v)
	return acl, nil, err
}

func (e *aclEP) call(g groupSpec, b *base, recv any, data []byte) func() error {
	ab := b.ctx.(*aclBase)
	acl := recv.(list.AclList)
	switch e.mode {
	case "validate":
		return func() error {
			rec := &consensusproto.RawRecord{}
			if err := rec.UnmarshalVT(data); err != nil {
				return err
			}
			acl.Lock()
			defer acl.Unlock()
			return acl.ValidateRawRecord(rec, func(state *list.AclState) error { return nil })
		}
	case "addmany":
		return func() error {
			rec := &consensusproto.RawRecordWithId{}
			if err := rec.UnmarshalVT(data); err != nil {
				return err
			}
			rec2 := &consensusproto.RawRecordWithId{}
			if err := rec2.UnmarshalVT(data); err != nil {
				return err
			}
			acl.Lock()
			defer acl.Unlock()
			return acl.AddRawRecords([]*consensusproto.RawRecordWithId{rec, rec2, ab.v.rec})
		}
	default:
		return func() error {
			rec := &consensusproto.RawRecordWithId{}
			if err := rec.UnmarshalVT(data); err != nil {
				return err
			}
			acl.Lock()
			defer acl.Unlock()
			if err := acl.AddRawRecord(rec); err != nil {
				return err
			}
			// an accepted record becomes part of the state every later call reads
			return afterAccept(useAclState(acl))
		}
	}
}

// useAclState reads the state the way the rest of the library does after a record was accepted
// (no network input any more, but a poisoned state must not crash its readers either).
func useAclState(acl list.AclList) error {
	st := acl.AclState()
	_ = st.CurrentReadKeyId()
	_, _ = st.CurrentReadKey()
	_, _ = st.CurrentMetadataKey()
	_ = st.CurrentAccounts()
	_ = st.Invites()
	_, _ = st.OwnerPubKey()
	_ = st.IsEmpty()
	_, _ = st.JoinRecords(true)
	_ = st.RemoveRecords()
	_ = st.CurrentOptions()
	var noKey error
	for _, acc := range st.CurrentAccounts() {
		if acc.PubKey == nil {
			// an accepted record left an account without identity in the state (observation, shown in
			// the rejection histogram of the report; its readers outside this module may not expect it)
			noKey = errors.New("accepted, but the state now holds an account without a public key")
			continue
		}
		_, _ = st.GetMetadata(acc.PubKey, true)
		_, _ = st.PermissionsAtRecord(acl.Head().Id, acc.PubKey)
	}
	return noKey
}

var _ = protowire.BytesType

// ---------------------------------------------------------------------------------------------
// acl.BuildAclList: the root record of a space arrives with the space payload (space push / pull)
// and is the first record of the storage the list is built from; the builder decodes it, checks
// its signature and derives keys from it (also for one-to-one spaces, where the root names the
// two writers).

type aclBuildEP struct{}

type aclBuildBase struct {
	receiver map[string]*accountdata.AccountKeys // state -> receiving identity
}

func (e *aclBuildEP) readOnlyCall() bool { return true }

func (e *aclBuildEP) base(g groupSpec) (*base, error) {
	owner, peerAcc, stranger := newAccount(), newAccount(), newAccount()
	var root *consensusproto.RawRecordWithId
	signKey := owner.SignKey
	switch g.V {
	case "root":
		master, _, err := crypto.GenerateRandomEd25519KeyPair()
		must0(err)
		b := list.NewAclRecordBuilder("", crypto.NewKeyStorage(), owner, recordverifier.NewValidateFull())
		root = must(b.BuildRoot(list.RootContent{PrivKey: owner.SignKey, SpaceId: "hostile.space", MasterKey: master,
			Change: newKeyChange(), Metadata: []byte("owner"), Options: &aclrecordproto.AclSpaceOptions{DeleteRestricted: true}}))
	case "root-onetoone":
		shared := must(crypto.GenerateSharedKey(owner.SignKey, peerAcc.SignKey.GetPublic(), crypto.AnysyncOneToOneSpacePath))
		signKey = shared
		writers := [][]byte{pubProto(owner.SignKey), pubProto(peerAcc.SignKey)}
		b := list.NewAclRecordBuilder("", crypto.NewKeyStorage(), owner, recordverifier.NewValidateFull())
		root = must(b.BuildOneToOneRoot(list.RootContent{PrivKey: shared, MasterKey: shared},
			&aclrecordproto.AclOneToOneInfo{Owner: pubProto(shared), Writers: writers}))
	default:
		return nil, fmt.Errorf("acl build: unknown variant %q", g.V)
	}
	env := newRenderEnv(caseRand(g))
	env.fix = func(msgType, field string, nodes []wnode) []wnode {
		switch msgType {
		case "RawRecordRoot":
			if field == "payload" {
				nodes = setOrAdd(nodes, bytesNode(2, must(signKey.Sign(getBytes(nodes, 1)))))
			}
		case "RawRecordWithIdRoot":
			if field == "payload" {
				nodes = setOrAdd(nodes, bytesNode(2, []byte(must(cidutil.NewCidFromBytes(getBytes(nodes, 1))))))
			}
		}
		return nodes
	}
	return &base{valid: must(root.MarshalVT()), env: env, ctx: &aclBuildBase{receiver: map[string]*accountdata.AccountKeys{
		"member/validating": owner, "member/nonvalidating": owner, "stranger/validating": stranger,
	}}}, nil
}

func (e *aclBuildEP) newReceiver(g groupSpec, b *base) (any, func(), error) { return nil, nil, nil }

func (e *aclBuildEP) call(g groupSpec, b *base, recv any, data []byte) func() error {
	keys := b.ctx.(*aclBuildBase).receiver[g.St]
	w := getAclWorld()
	return func() error {
		root := &consensusproto.RawRecordWithId{}
		if err := root.UnmarshalVT(data); err != nil {
			return err
		}
		st, err := list.NewInMemoryStorage(root.Id, []*consensusproto.RawRecordWithId{root})
		if err != nil {
			return err
		}
		var verifier recordverifier.AcceptorVerifier = recordverifier.NewValidateFull()
		if g.St == "member/nonvalidating" {
			netPub, err := crypto.UnmarshalEd25519PublicKeyProto(w.netPub)
			if err != nil {
				return err
			}
			verifier = recordverifier.New(netPub)
		}
		acl, err := list.BuildAclListWithIdentity(keys, st, verifier)
		if err != nil {
			return err
		}
		return afterAccept(useAclState(acl))
	}
}
