// Package hostile binds spec/hostile/Hostile.tla to the real decoders / appliers of any-sync
// (property C11, structure-aware half).
//
// wire.go: a schema-less protobuf wire editor. A message is a list of nodes (tag + value); the
// mutation operators of the specification are edits on that list (or on the raw byte stream).
// Nothing here knows about the messages' meaning - the schema (schema.go) maps the field names of
// the specification to field numbers, and the entry points (ep_*.go) re-seal signatures and ids.
package hostile

import (
	"google.golang.org/protobuf/encoding/protowire"
)

type wnode struct {
	num protowire.Number
	typ protowire.Type
	val []byte // BytesType payload / Fixed32 / Fixed64 raw bytes
	u   uint64 // VarintType value
	// offsets inside the parent's payload, recorded at parse time
	start, afterTag, afterLen, end int
	// overrides used by the mutation operators
	lenOverride *uint64 // encode this length prefix instead of len(val)
	raw         []byte  // emit these bytes verbatim instead of tag+value
}

// parseMsg splits b into nodes; ok=false if b is not a well-formed message (then it is treated
// as an opaque value by the callers).
func parseMsg(b []byte) (nodes []wnode, ok bool) {
	i := 0
	for i < len(b) {
		num, typ, n := protowire.ConsumeTag(b[i:])
		if n < 0 {
			return nil, false
		}
		nd := wnode{num: num, typ: typ, start: i, afterTag: i + n}
		i += n
		switch typ {
		case protowire.VarintType:
			v, m := protowire.ConsumeVarint(b[i:])
			if m < 0 {
				return nil, false
			}
			nd.u = v
			nd.afterLen = i
			i += m
		case protowire.Fixed32Type:
			if len(b[i:]) < 4 {
				return nil, false
			}
			nd.val = append([]byte{}, b[i:i+4]...)
			nd.afterLen = i
			i += 4
		case protowire.Fixed64Type:
			if len(b[i:]) < 8 {
				return nil, false
			}
			nd.val = append([]byte{}, b[i:i+8]...)
			nd.afterLen = i
			i += 8
		case protowire.BytesType:
			v, m := protowire.ConsumeBytes(b[i:])
			if m < 0 {
				return nil, false
			}
			nd.val = append([]byte{}, v...)
			nd.afterLen = i + m - len(v)
			i += m
		default:
			return nil, false
		}
		nd.end = i
		nodes = append(nodes, nd)
	}
	return nodes, true
}

func encodeNode(dst []byte, nd wnode) []byte {
	if nd.raw != nil {
		return append(dst, nd.raw...)
	}
	dst = protowire.AppendTag(dst, nd.num, nd.typ)
	switch nd.typ {
	case protowire.VarintType:
		dst = protowire.AppendVarint(dst, nd.u)
	case protowire.Fixed32Type, protowire.Fixed64Type:
		dst = append(dst, nd.val...)
	case protowire.BytesType:
		l := uint64(len(nd.val))
		if nd.lenOverride != nil {
			l = *nd.lenOverride
		}
		dst = protowire.AppendVarint(dst, l)
		dst = append(dst, nd.val...)
	}
	return dst
}

func encodeMsg(nodes []wnode) []byte {
	var dst []byte
	for _, nd := range nodes {
		dst = encodeNode(dst, nd)
	}
	if dst == nil {
		dst = []byte{}
	}
	return dst
}

// findNode returns the index of the idx-th node with field number num (-1 if absent).
func findNode(nodes []wnode, num protowire.Number, idx int) int {
	k := 0
	for i, nd := range nodes {
		if nd.num == num {
			if k == idx {
				return i
			}
			k++
		}
	}
	return -1
}

func countNodes(nodes []wnode, num protowire.Number) int {
	k := 0
	for _, nd := range nodes {
		if nd.num == num {
			k++
		}
	}
	return k
}

func bytesNode(num protowire.Number, val []byte) wnode {
	return wnode{num: num, typ: protowire.BytesType, val: val}
}

func varintNode(num protowire.Number, u uint64) wnode {
	return wnode{num: num, typ: protowire.VarintType, u: u}
}

// setOrAdd replaces the first node with number num by nd or appends nd.
func setOrAdd(nodes []wnode, nd wnode) []wnode {
	if i := findNode(nodes, nd.num, 0); i >= 0 {
		out := append([]wnode{}, nodes...)
		out[i] = nd
		return out
	}
	return append(append([]wnode{}, nodes...), nd)
}

func removeAll(nodes []wnode, num protowire.Number) []wnode {
	var out []wnode
	for _, nd := range nodes {
		if nd.num != num {
			out = append(out, nd)
		}
	}
	return out
}

func getBytes(nodes []wnode, num protowire.Number) []byte {
	if i := findNode(nodes, num, 0); i >= 0 {
		return nodes[i].val
	}
	return nil
}
