package hostile

// ep_net.go: the credential / proto handshake (frames 1-4 and the two proto frames, read by
// handshake.readMsg and checked by the real peer-sign verifier of a real SecureService) and the
// pubsub frame handler (reached through Service.HandleStream, i.e. through the stream pool's read
// loop, with a scripted drpc stream).

import (
	"bytes"
	"context"
	"encoding/binary"
	"fmt"
	"io"
	"net"
	"sync"
	"time"

	"storj.io/drpc"

	"github.com/anyproto/any-sync/app"
	"github.com/anyproto/any-sync/commonspace/object/accountdata"
	"github.com/anyproto/any-sync/commonspace/pubsub"
	"github.com/anyproto/any-sync/commonspace/pubsub/pubsubproto"
	"github.com/anyproto/any-sync/net/peer"
	"github.com/anyproto/any-sync/net/secureservice"
	"github.com/anyproto/any-sync/net/secureservice/handshake"
	"github.com/anyproto/any-sync/net/secureservice/handshake/handshakeproto"
	"github.com/anyproto/any-sync/nodeconf"
	"github.com/anyproto/any-sync/testutil/accounttest"
	"github.com/anyproto/any-sync/util/crypto"
)

// ---------------------------------------------------------------------------------------------
// handshake

type stubNodeConf struct {
	nodeconf.Service
}

func (stubNodeConf) Init(a *app.App) error           { return nil }
func (stubNodeConf) Name() string                    { return nodeconf.CName }
func (stubNodeConf) Run(ctx context.Context) error   { return nil }
func (stubNodeConf) Close(ctx context.Context) error { return nil }
func (stubNodeConf) NodeTypes(string) []nodeconf.NodeType {
	return []nodeconf.NodeType{nodeconf.NodeTypeTree}
}

type secureConfig struct{}

func (secureConfig) Init(a *app.App) error { return nil }
func (secureConfig) Name() string          { return "config" }
func (secureConfig) GetSecureService() secureservice.Config {
	return secureservice.Config{RequireClientAuth: true}
}

// scriptedConn: everything the hostile side will ever send is queued up front; what the victim
// writes is dropped; when the queue is empty the peer has closed the connection.
type scriptedConn struct {
	r      *bytes.Reader
	closed bool
}

func (c *scriptedConn) Read(p []byte) (int, error) {
	if c.closed {
		return 0, io.ErrClosedPipe
	}
	return c.r.Read(p)
}
func (c *scriptedConn) Write(p []byte) (int, error) {
	if c.closed {
		return 0, io.ErrClosedPipe
	}
	return len(p), nil
}
func (c *scriptedConn) Close() error                       { c.closed = true; return nil }
func (c *scriptedConn) LocalAddr() net.Addr                { return &net.TCPAddr{} }
func (c *scriptedConn) RemoteAddr() net.Addr               { return &net.TCPAddr{} }
func (c *scriptedConn) SetDeadline(t time.Time) error      { return nil }
func (c *scriptedConn) SetReadDeadline(t time.Time) error  { return nil }
func (c *scriptedConn) SetWriteDeadline(t time.Time) error { return nil }

const (
	frameCred  = byte(1)
	frameAck   = byte(2)
	frameProto = byte(3)
	hsLimit    = 200 * 1024
)

func frame(tp byte, body []byte) []byte {
	b := make([]byte, 5, 5+len(body))
	b[0] = tp
	binary.LittleEndian.PutUint32(b[1:], uint32(len(body)))
	return append(b, body...)
}

type hsWorld struct {
	victim  secureservice.SecureService
	vAcc    *accountdata.AccountKeys
	hostile *accountdata.AccountKeys
	cred    []byte // valid Credentials of the hostile peer towards the victim
	ackOk   []byte
	proto   []byte
}

var (
	hsOnce sync.Once
	theHs  *hsWorld
)

func getHsWorld() *hsWorld {
	hsOnce.Do(func() {
		w := &hsWorld{hostile: newAccount()}
		acc := &accounttest.AccountTestService{}
		a := new(app.App)
		w.victim = secureservice.New()
		a.Register(acc).Register(secureConfig{}).Register(stubNodeConf{}).Register(w.victim)
		must0(a.Start(context.Background()))
		w.vAcc = acc.Account()
		payload := must((&handshakeproto.PayloadSignedPeerIds{
			Identity: pubProto(w.hostile.SignKey),
			Sign:     must(w.hostile.SignKey.Sign([]byte(w.hostile.PeerId + w.vAcc.PeerId))),
		}).MarshalVT())
		w.cred = must((&handshakeproto.Credentials{
			Type: handshakeproto.CredentialsType_SignedPeerIds, Payload: payload,
			Version: secureservice.ProtoVersion, ClientVersion: "hostile/1.0",
		}).MarshalVT())
		w.ackOk = must((&handshakeproto.Ack{Error: handshakeproto.Error_Null}).MarshalVT())
		w.proto = must((&handshakeproto.Proto{Proto: handshakeproto.ProtoType_DRPC, Encodings: []handshakeproto.Encoding{handshakeproto.Encoding_Snappy, handshakeproto.Encoding_None}}).MarshalVT())
		theHs = w
	})
	return theHs
}

type hsEP struct{}

func (e *hsEP) readOnlyCall() bool { return true }

func frameTypeOf(v string) byte {
	switch v {
	case "credentials":
		return frameCred
	case "ack":
		return frameAck
	}
	return frameProto
}

func (e *hsEP) base(g groupSpec) (*base, error) {
	w := getHsWorld()
	b := &base{env: newRenderEnv(caseRand(g))}
	switch g.V {
	case "credentials":
		b.valid = w.cred
	case "ack":
		// an Ack with a non-zero code: proto3 does not serialize the zero value
		b.valid = must((&handshakeproto.Ack{Error: handshakeproto.Error_InvalidCredentials}).MarshalVT())
		if g.St == "frame3" || g.St == "frame4" {
			b.valid = w.ackOk
		}
	case "proto":
		b.valid = w.proto
	default:
		return nil, fmt.Errorf("handshake: unknown variant %q", g.V)
	}
	return b, nil
}

// protobuf-level cases: the mutated message in a correct frame
func (e *hsEP) postRender(g groupSpec, b *base, c caseSpec, data []byte) ([]byte, error) {
	return frame(frameTypeOf(g.V), data), nil
}

func (e *hsEP) renderFrame(g groupSpec, b *base, c caseSpec) ([]byte, error) {
	tp := frameTypeOf(g.V)
	body := b.valid
	hdr := func(tp byte, size uint32) []byte {
		h := make([]byte, 5)
		h[0] = tp
		binary.LittleEndian.PutUint32(h[1:], size)
		return h
	}
	switch c.Op {
	case "frame-valid":
		return frame(tp, body), nil
	case "frame-hdr-truncated":
		return frame(tp, body)[:3], nil
	case "frame-type-unknown":
		return append(hdr(9, uint32(len(body))), body...), nil
	case "frame-type-other":
		other := frameProto
		if tp == frameProto {
			other = frameCred
		}
		return append(hdr(other, uint32(len(body))), body...), nil
	case "frame-size-minus1":
		if len(body) == 0 {
			return nil, errNA
		}
		return append(hdr(tp, uint32(len(body)-1)), body...), nil
	case "frame-size-plus1":
		return append(hdr(tp, uint32(len(body)+1)), body...), nil
	case "frame-size-limit-plus1":
		return append(hdr(tp, hsLimit+1), body...), nil
	case "frame-size-huge":
		return append(hdr(tp, 1<<28), body...), nil
	case "frame-body-truncated":
		if len(body) < 2 {
			return nil, errNA
		}
		return append(hdr(tp, uint32(len(body))), body[:len(body)/2]...), nil
	case "frame-empty-body":
		return hdr(tp, 0), nil
	// a well-formed frame of each type, whatever the position expects
	case "frame-other-cred":
		return frame(frameCred, getHsWorld().cred), nil
	case "frame-other-ack-null":
		return frame(frameAck, getHsWorld().ackOk), nil // 02 00 00 00 00
	case "frame-other-ack-error":
		return frame(frameAck, must((&handshakeproto.Ack{Error: handshakeproto.Error_InvalidCredentials}).MarshalVT())), nil
	case "frame-other-proto":
		return frame(frameProto, getHsWorld().proto), nil
	}
	return nil, fmt.Errorf("unknown frame operator %q", c.Op)
}

func (e *hsEP) newReceiver(g groupSpec, b *base) (any, func(), error) { return nil, nil, nil }

func (e *hsEP) call(g groupSpec, b *base, recv any, data []byte) func() error {
	w := getHsWorld()
	// everything the hostile side sends, in order; the frame under test is `data`
	var script []byte
	switch g.St {
	case "frame1", "frame2", "proto1", "proto2":
		script = data
	case "frame3":
		script = append(frame(frameCred, w.cred), data...)
	case "frame4":
		script = append(frame(frameCred, w.cred), data...)
	}
	// if the victim goes on after the frame under test, the hostile side finishes honestly
	switch g.St {
	case "frame1":
		script = append(script, frame(frameAck, w.ackOk)...)
	case "frame2":
		script = append(script, frame(frameAck, w.ackOk)...)
	}
	return func() error {
		conn := &scriptedConn{r: bytes.NewReader(script)}
		ctx := secureservice.CtxAllowAccountCheck(context.Background())
		var err error
		switch g.St {
		case "frame1", "frame3":
			_, err = w.victim.HandshakeInbound(ctx, conn, w.hostile.PeerId)
		case "frame2", "frame4":
			_, err = w.victim.HandshakeOutbound(ctx, conn, w.hostile.PeerId)
		case "proto1":
			_, err = handshake.IncomingProtoHandshake(ctx, conn, handshake.ProtoChecker{
				AllowedProtoTypes:  []handshakeproto.ProtoType{handshakeproto.ProtoType_DRPC},
				SupportedEncodings: []handshakeproto.Encoding{handshakeproto.Encoding_Snappy, handshakeproto.Encoding_None},
			})
		case "proto2":
			_, err = handshake.OutgoingProtoHandshake(ctx, conn, &handshakeproto.Proto{
				Proto: handshakeproto.ProtoType_DRPC, Encodings: []handshakeproto.Encoding{handshakeproto.Encoding_Snappy}})
		}
		return err
	}
}

// ---------------------------------------------------------------------------------------------
// pubsub

const (
	pubSpace = "pubsubspace"
	pubTopic = "chat/room1"
)

type allowAll struct{}

func (allowAll) CheckMember(ctx context.Context, spaceId string, identity crypto.PubKey) error {
	return nil
}

type pubCrypto struct{ key *crypto.AESKey }

func (p pubCrypto) Encrypt(spaceId string, payload []byte) (string, []byte, error) {
	b, err := p.key.Encrypt(payload)
	return "key1", b, err
}
func (p pubCrypto) Decrypt(spaceId, keyId string, encrypted []byte) ([]byte, error) {
	if keyId != "key1" {
		return nil, fmt.Errorf("unknown key %q", keyId)
	}
	return p.key.Decrypt(encrypted)
}

type pubRelay struct{}

func (pubRelay) IsResponsible(spaceId string) bool             { return true }
func (pubRelay) IsResponsibleNode(spaceId, peerId string) bool { return true }
func (pubRelay) OtherResponsiblePeers(ctx context.Context, spaceId string) ([]peer.Peer, error) {
	return nil, nil
}

// the bytes a Publish signature covers (commonspace/pubsub/sign.go)
func publishSignData(p *pubsubproto.Publish) []byte {
	buf := []byte("anysync:pubsub:v1")
	for _, f := range [][]byte{[]byte(p.SpaceId), []byte(p.Topic), p.MsgId, []byte(p.KeyId)} {
		buf = binary.LittleEndian.AppendUint32(buf, uint32(len(f)))
		buf = append(buf, f...)
	}
	buf = binary.LittleEndian.AppendUint64(buf, uint64(p.TimestampMilli))
	return append(buf, p.Payload...)
}

type pubWorld struct {
	hostile *accountdata.AccountKeys
	aes     *crypto.AESKey
}

var (
	pubOnce sync.Once
	thePub  *pubWorld
)

func getPubWorld() *pubWorld {
	pubOnce.Do(func() { thePub = &pubWorld{hostile: newAccount(), aes: newAES()} })
	return thePub
}

type pubEP struct{}

type pubReceiver struct {
	svc       pubsub.Service
	a         *app.App
	mu        sync.Mutex
	delivered int
}

func (w *pubWorld) sign(p *pubsubproto.Publish) {
	p.Identity = pubProto(w.hostile.SignKey)
	p.Signature = must(w.hostile.SignKey.Sign(publishSignData(p)))
}

func (e *pubEP) base(g groupSpec) (*base, error) {
	w := getPubWorld()
	env := newRenderEnv(caseRand(g))
	env.fix = func(msgType, field string, nodes []wnode) []wnode {
		if msgType == "Publish" && field != "signature" && field != "relayed" {
			p := &pubsubproto.Publish{}
			if p.UnmarshalVT(encodeMsg(nodes)) == nil {
				nodes = setOrAdd(nodes, bytesNode(7, must(w.hostile.SignKey.Sign(publishSignData(p)))))
			}
		}
		return nodes
	}
	var m *pubsubproto.PubSubMessage
	switch g.V {
	case "subscribe":
		m = &pubsubproto.PubSubMessage{Content: &pubsubproto.PubSubMessage_Subscribe{Subscribe: &pubsubproto.Subscribe{SpaceId: pubSpace, Topics: []string{pubTopic, "chat/*", "news/>"}}}}
	case "unsubscribe":
		m = &pubsubproto.PubSubMessage{Content: &pubsubproto.PubSubMessage_Unsubscribe{Unsubscribe: &pubsubproto.Unsubscribe{SpaceId: pubSpace, Topics: []string{pubTopic}}}}
	case "publish", "publish-encrypted":
		p := &pubsubproto.Publish{SpaceId: pubSpace, Topic: pubTopic, MsgId: randBytes(16), Payload: []byte("hello"), TimestampMilli: time.Now().UnixMilli()}
		if g.V == "publish-encrypted" {
			p.KeyId = "key1"
			p.Payload = must(w.aes.Encrypt([]byte("hello")))
		}
		w.sign(p)
		m = &pubsubproto.PubSubMessage{Content: &pubsubproto.PubSubMessage_Publish{Publish: p}}
	case "status":
		m = &pubsubproto.PubSubMessage{Content: &pubsubproto.PubSubMessage_Status{Status: &pubsubproto.Status{SpaceId: pubSpace, Topics: []string{pubTopic}, Code: pubsubproto.ErrCodes_RateLimited, MsgId: randBytes(16)}}}
	default:
		return nil, fmt.Errorf("pubsub: unknown variant %q", g.V)
	}
	return &base{valid: must(m.MarshalVT()), env: env}, nil
}

func (e *pubEP) newReceiver(g groupSpec, b *base) (any, func(), error) {
	w := getPubWorld()
	r := &pubReceiver{a: new(app.App)}
	deps := pubsub.Deps{Membership: allowAll{}, Crypto: pubCrypto{key: w.aes},
		OnStatus: func(peerId string, status *pubsubproto.Status) {}}
	if g.St == "relay" {
		deps.Relay = pubRelay{}
	}
	r.svc = pubsub.New(deps)
	r.a.Register(&accounttest.AccountTestService{}).Register(r.svc)
	if err := r.a.Start(context.Background()); err != nil {
		return nil, nil, err
	}
	if g.St == "client" {
		if _, err := r.svc.Subscribe(pubSpace, "chat/*", func(spaceId, topic string, identity crypto.PubKey, payload []byte) {
			r.mu.Lock()
			r.delivered++
			r.mu.Unlock()
		}); err != nil {
			return nil, nil, err
		}
	}
	return r, func() { _ = r.a.Close(context.Background()) }, nil
}

// pubStream delivers the frames of the hostile peer to the stream pool's read loop.
type pubStream struct {
	ctx    context.Context
	frames [][]byte
}

func (s *pubStream) Context() context.Context                          { return s.ctx }
func (s *pubStream) MsgSend(msg drpc.Message, enc drpc.Encoding) error { return nil }
func (s *pubStream) MsgRecv(msg drpc.Message, enc drpc.Encoding) error {
	if len(s.frames) == 0 {
		return io.EOF
	}
	f := s.frames[0]
	s.frames = s.frames[1:]
	return msg.(interface{ UnmarshalVT([]byte) error }).UnmarshalVT(f)
}
func (s *pubStream) CloseSend() error { return nil }
func (s *pubStream) Close() error     { return nil }

func (e *pubEP) call(g groupSpec, b *base, recv any, data []byte) func() error {
	w := getPubWorld()
	r := recv.(*pubReceiver)
	return func() error {
		ctx := peer.CtxWithPeerId(context.Background(), w.hostile.PeerId)
		ctx = peer.CtxWithIdentity(ctx, pubProto(w.hostile.SignKey))
		// the frame under test twice (replay), around a valid subscribe so that unsubscribe /
		// publish find interest to work on
		sub := must((&pubsubproto.PubSubMessage{Content: &pubsubproto.PubSubMessage_Subscribe{Subscribe: &pubsubproto.Subscribe{SpaceId: pubSpace, Topics: []string{pubTopic}}}}).MarshalVT())
		err := r.svc.HandleStream(&pubStream{ctx: ctx, frames: [][]byte{data, sub, data}})
		if err == io.EOF {
			return nil
		}
		return err
	}
}
