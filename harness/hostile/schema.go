package hostile

// schema.go: the message schema shared by the specification (spec/hostile/HostileSchema.tla is
// generated from it, see TestGenSchema) and the renderer. It is read from the protobuf
// descriptors of the repository under test, plus annotations that the descriptors cannot carry:
// which `bytes` fields hold another serialized message (emb), which hold keys, signatures,
// ciphertexts or references to other objects.

import (
	"fmt"
	"sort"
	"strings"

	"google.golang.org/protobuf/reflect/protoreflect"

	"github.com/anyproto/any-sync/commonspace/object/acl/aclrecordproto"
	"github.com/anyproto/any-sync/commonspace/object/tree/treechangeproto"
	"github.com/anyproto/any-sync/commonspace/pubsub/pubsubproto"
	"github.com/anyproto/any-sync/commonspace/spacesyncproto"
	"github.com/anyproto/any-sync/consensus/consensusproto"
	"github.com/anyproto/any-sync/net/secureservice/handshake/handshakeproto"
	"github.com/anyproto/any-sync/util/crypto/cryptoproto"
)

type fieldInfo struct {
	Name     string
	Num      int
	Kind     string // varint enum string bytes msg emb key_pub sig ct_x25519 ct_aes id parent_id snap_id cid
	Type     string // message type for msg / emb
	Repeated bool
	Oneof    string
}

type msgInfo struct {
	Name   string
	Fields []fieldInfo
}

func (m *msgInfo) field(name string) *fieldInfo {
	for i := range m.Fields {
		if m.Fields[i].Name == name {
			return &m.Fields[i]
		}
	}
	return nil
}

type annot struct {
	kind string
	typ  string
}

// annotations: "Message.field" -> kind (and embedded type; for a ciphertext kind: the type of the
// message that is the plaintext, "" = opaque bytes)
var annotations = map[string]annot{
	// consensus / acl envelope
	"RawRecordWithId.payload":     {"emb", "RawRecord"},
	"RawRecordWithId.id":          {"cid", ""},
	"RawRecord.payload":           {"emb", "Record"},
	"RawRecord.signature":         {"sig", ""},
	"RawRecord.acceptorIdentity":  {"key_pub", ""},
	"RawRecord.acceptorSignature": {"sig", ""},
	"Record.prevId":               {"id", ""},
	"Record.identity":             {"key_pub", ""},
	"Record.data":                 {"emb", "AclData"},
	// acl contents
	"AclAccountInvite.inviteKey":                    {"key_pub", ""},
	"AclAccountInvite.encryptedReadKey":             {"ct_x25519", "Key"},
	"AclAccountInviteChange.inviteRecordId":         {"id", ""},
	"AclOwnershipChange.newOwnerIdentity":           {"key_pub", ""},
	"AclAccountRequestJoin.inviteIdentity":          {"key_pub", ""},
	"AclAccountRequestJoin.inviteRecordId":          {"id", ""},
	"AclAccountRequestJoin.inviteIdentitySignature": {"sig", ""},
	"AclAccountInviteJoin.identity":                 {"key_pub", ""},
	"AclAccountInviteJoin.inviteRecordId":           {"id", ""},
	"AclAccountInviteJoin.inviteIdentitySignature":  {"sig", ""},
	"AclAccountInviteJoin.encryptedReadKey":         {"ct_x25519", "Key"},
	"AclAccountRequestAccept.identity":              {"key_pub", ""},
	"AclAccountRequestAccept.requestRecordId":       {"id", ""},
	"AclAccountRequestAccept.encryptedReadKey":      {"ct_x25519", "Key"},
	"AclAccountRequestDecline.requestRecordId":      {"id", ""},
	"AclAccountInviteRevoke.inviteRecordId":         {"id", ""},
	"AclAccountRequestCancel.recordId":              {"id", ""},
	"AclEncryptedReadKey.identity":                  {"key_pub", ""},
	"AclEncryptedReadKey.encryptedReadKey":          {"ct_x25519", "Key"},
	"AclAccountAdd.identity":                        {"key_pub", ""},
	"AclAccountAdd.encryptedReadKey":                {"ct_x25519", "Key"},
	"AclAccountPermissionChange.identity":           {"key_pub", ""},
	"AclReadKeyChange.metadataPubKey":               {"key_pub", ""},
	"AclReadKeyChange.encryptedMetadataPrivKey":     {"ct_aes", "Key"},
	"AclReadKeyChange.encryptedOldReadKey":          {"ct_aes", "Key"},
	"AclAccountRemove.identities":                   {"key_pub", ""},
	"AclRoot.identity":                              {"key_pub", ""},
	"AclRoot.masterKey":                             {"key_pub", ""},
	"AclRoot.encryptedReadKey":                      {"ct_x25519", "Key"},
	"AclRoot.identitySignature":                     {"sig", ""},
	"AclRoot.metadataPubKey":                        {"key_pub", ""},
	"AclRoot.encryptedMetadataPrivKey":              {"ct_aes", "Key"},
	"AclOneToOneInfo.owner":                         {"key_pub", ""},
	"AclOneToOneInfo.writers":                       {"key_pub", ""},
	// metadata: opaque bytes sealed for the space's metadata key
	"AclAccountAdd.metadata":         {"ct_x25519", ""},
	"AclAccountRequestJoin.metadata": {"ct_x25519", ""},
	"AclAccountInviteJoin.metadata":  {"ct_x25519", ""},
	"AclRoot.encryptedOwnerMetadata": {"ct_x25519", ""},
	// the key blob that travels inside the encrypted key fields
	"Key.Type": {"keytype", ""},
	"Key.Data": {"keydata", ""},
	// trees
	"RawTreeChangeWithId.rawChange":     {"emb", "RawTreeChange"},
	"RawTreeChangeWithId.id":            {"cid", ""},
	"RawTreeChange.payload":             {"emb", "TreeChange"},
	"RawTreeChange.signature":           {"sig", ""},
	"TreeChange.treeHeadIds":            {"parent_id", ""},
	"TreeChange.aclHeadId":              {"id", ""},
	"TreeChange.snapshotBaseId":         {"snap_id", ""},
	"TreeChange.changesData":            {"ct_aes", ""},
	"TreeChange.readKeyId":              {"id", ""},
	"TreeChange.identity":               {"key_pub", ""},
	"RootChange.aclHeadId":              {"id", ""},
	"RootChange.identity":               {"key_pub", ""},
	"TreeHeadUpdate.heads":              {"id", ""},
	"TreeHeadUpdate.snapshotPath":       {"id", ""},
	"TreeFullSyncRequest.heads":         {"id", ""},
	"TreeFullSyncRequest.snapshotPath":  {"id", ""},
	"TreeFullSyncResponse.heads":        {"id", ""},
	"TreeFullSyncResponse.snapshotPath": {"id", ""},
	// key-value
	"StoreKeyValue.value":             {"emb", "StoreKeyInner"},
	"StoreKeyValue.identitySignature": {"sig", ""},
	"StoreKeyValue.peerSignature":     {"sig", ""},
	"StoreKeyInner.peer":              {"key_pub", ""},
	"StoreKeyInner.identity":          {"key_pub", ""},
	"StoreKeyInner.value":             {"ct_aes", ""},
	"StoreKeyInner.aclHeadId":         {"id", ""},
	// space payload
	"SpacePayload.aclPayload":             {"emb", "RawRecordRoot"},
	"SpacePayload.aclPayloadId":           {"cid", ""},
	"SpacePayload.spaceSettingsPayload":   {"emb", "RawTreeChangeRoot"},
	"SpacePayload.spaceSettingsPayloadId": {"cid", ""},
	"RawSpaceHeaderWithId.rawHeader":      {"emb", "RawSpaceHeader"},
	"RawSpaceHeaderWithId.id":             {"cid", ""},
	"RawSpaceHeader.spaceHeader":          {"emb", "SpaceHeader"},
	"RawSpaceHeader.signature":            {"sig", ""},
	"SpaceHeader.identity":                {"key_pub", ""},
	"SpacePullResponse.aclRecords":        {"msg", "AclRecord"},
	"AclRecord.aclPayload":                {"emb", "RawRecord"},
	"AclRecord.id":                        {"cid", ""},
	// handshake
	"Credentials.payload":           {"emb", "PayloadSignedPeerIds"},
	"PayloadSignedPeerIds.identity": {"key_pub", ""},
	"PayloadSignedPeerIds.sign":     {"sig", ""},
	// pubsub
	"Publish.identity":  {"key_pub", ""},
	"Publish.signature": {"sig", ""},
	"Publish.payload":   {"ct_aes", ""},
}

// aliases: the same wire message with a different embedded payload type
type alias struct {
	name, of string
	over     map[string]annot
}

var aliases = []alias{
	{"RawRecordRoot", "RawRecord", map[string]annot{"payload": {"emb", "AclRoot"}}},
	{"RawRecordWithIdRoot", "RawRecordWithId", map[string]annot{"payload": {"emb", "RawRecordRoot"}}},
	{"RawTreeChangeRoot", "RawTreeChange", map[string]annot{"payload": {"emb", "RootChange"}}},
	{"RawTreeChangeWithIdRoot", "RawTreeChangeWithId", map[string]annot{"rawChange": {"emb", "RawTreeChangeRoot"}}},
}

var schemaRoots = []protoreflect.ProtoMessage{
	&consensusproto.RawRecordWithId{}, &consensusproto.RawRecord{}, &consensusproto.Record{},
	&aclrecordproto.AclData{}, &aclrecordproto.AclRoot{},
	&treechangeproto.RawTreeChangeWithId{}, &treechangeproto.RawTreeChange{}, &treechangeproto.TreeChange{},
	&treechangeproto.RootChange{}, &treechangeproto.TreeSyncMessage{},
	&spacesyncproto.StoreKeyValue{}, &spacesyncproto.StoreKeyInner{}, &spacesyncproto.HeadSyncRequest{},
	&spacesyncproto.StoreDiffRequest{}, &spacesyncproto.HeadSyncResponse{}, &spacesyncproto.SpacePayload{},
	&spacesyncproto.SpacePullResponse{},
	&spacesyncproto.RawSpaceHeader{}, &spacesyncproto.SpaceHeader{},
	&handshakeproto.Credentials{}, &handshakeproto.PayloadSignedPeerIds{}, &handshakeproto.Ack{}, &handshakeproto.Proto{},
	&pubsubproto.PubSubMessage{},
	&cryptoproto.Key{},
}

var schema = buildSchema()

func buildSchema() map[string]*msgInfo {
	res := map[string]*msgInfo{}
	var walk func(d protoreflect.MessageDescriptor)
	walk = func(d protoreflect.MessageDescriptor) {
		name := string(d.Name())
		if _, ok := res[name]; ok {
			return
		}
		mi := &msgInfo{Name: name}
		res[name] = mi
		fs := d.Fields()
		for i := 0; i < fs.Len(); i++ {
			f := fs.Get(i)
			fi := fieldInfo{Name: string(f.Name()), Num: int(f.Number()), Repeated: f.IsList()}
			if oo := f.ContainingOneof(); oo != nil && !oo.IsSynthetic() {
				fi.Oneof = string(oo.Name())
			}
			switch f.Kind() {
			case protoreflect.MessageKind:
				fi.Kind = "msg"
				fi.Type = string(f.Message().Name())
				walk(f.Message())
			case protoreflect.BytesKind:
				fi.Kind = "bytes"
			case protoreflect.StringKind:
				fi.Kind = "string"
			case protoreflect.EnumKind:
				fi.Kind = "enum"
			default:
				fi.Kind = "varint"
			}
			if a, ok := annotations[name+"."+fi.Name]; ok {
				fi.Kind, fi.Type = a.kind, a.typ
			}
			mi.Fields = append(mi.Fields, fi)
		}
	}
	for _, r := range schemaRoots {
		walk(r.ProtoReflect().Descriptor())
	}
	for _, al := range aliases {
		base := res[al.of]
		if base == nil {
			panic("alias of unknown message " + al.of)
		}
		mi := &msgInfo{Name: al.name}
		for _, f := range base.Fields {
			if a, ok := al.over[f.Name]; ok {
				f.Kind, f.Type = a.kind, a.typ
			}
			mi.Fields = append(mi.Fields, f)
		}
		res[al.name] = mi
	}
	for k := range annotations {
		p := strings.SplitN(k, ".", 2)
		if m := res[p[0]]; m == nil || m.field(p[1]) == nil {
			panic("annotation for unknown field " + k)
		}
	}
	return res
}

// schemaTLA renders the schema as the TLA+ module HostileSchema.
func schemaTLA() string {
	var names []string
	for n := range schema {
		names = append(names, n)
	}
	sort.Strings(names)
	var b strings.Builder
	b.WriteString("--------------------------- MODULE HostileSchema ---------------------------\n")
	b.WriteString("(* GENERATED - do not edit. Written by harness/hostile (TestGenSchema) from the protobuf  *)\n")
	b.WriteString("(* descriptors of the repository plus the annotations in harness/hostile/schema.go:      *)\n")
	b.WriteString("(* k = kind of the field (what a hostile author can do with it), t = type of the message *)\n")
	b.WriteString("(* it contains (msg: protobuf sub-message; emb: bytes that are decoded as that message), *)\n")
	b.WriteString("(* rep = repeated, oneof = name of the oneof group it belongs to.                        *)\n")
	b.WriteString("(* checks/C11.py fails (exit 2) when this file differs from the regenerated one.         *)\n")
	b.WriteString("F(n, k, t, rep, oo) == [n |-> n, k |-> k, t |-> t, rep |-> rep, oneof |-> oo]\n\n")
	b.WriteString("Schema == [\n")
	for i, n := range names {
		m := schema[n]
		fmt.Fprintf(&b, "  %s |-> <<", n)
		for j, f := range m.Fields {
			if j > 0 {
				b.WriteString(",")
			}
			rep := "FALSE"
			if f.Repeated {
				rep = "TRUE"
			}
			fmt.Fprintf(&b, "\n      F(%q, %q, %q, %s, %q)", f.Name, f.Kind, f.Type, rep, f.Oneof)
		}
		b.WriteString(" >>")
		if i < len(names)-1 {
			b.WriteString(",")
		}
		b.WriteString("\n")
	}
	b.WriteString("]\n")
	b.WriteString("=============================================================================\n")
	return b.String()
}
