package hostile

import (
	crand "crypto/rand"
	"math/rand"

	"github.com/anyproto/any-sync/commonspace/object/accountdata"
	"github.com/anyproto/any-sync/util/cidutil"
	"github.com/anyproto/any-sync/util/crypto"
	"github.com/anyproto/any-sync/util/crypto/cryptoproto"
)

func must[T any](v T, err error) T {
	if err != nil {
		panic(err)
	}
	return v
}

func must0(err error) {
	if err != nil {
		panic(err)
	}
}

func newAccount() *accountdata.AccountKeys { return must(accountdata.NewRandom()) }

func pubProto(k crypto.PrivKey) []byte { return must(k.GetPublic().Marshall()) }

func randBytes(n int) []byte {
	b := make([]byte, n)
	_, _ = crand.Read(b)
	return b
}

func randomCid() string { return must(cidutil.NewCidFromBytes(randBytes(40))) }

// badPoint: 32 bytes that do not decode as a point of the Edwards curve (found by asking the
// real decoder).
var badPoint = func() []byte {
	r := rand.New(rand.NewSource(7))
	for {
		b := make([]byte, 32)
		r.Read(b)
		if _, err := crypto.UnmarshalEd25519PublicKey(b); err != nil {
			return b
		}
	}
}()

func keyProto(tp cryptoproto.KeyType, data []byte) []byte {
	return must((&cryptoproto.Key{Type: tp, Data: data}).MarshalVT())
}

// keyValue renders the key operators: the field is expected to hold a marshalled
// cryptoproto.Key{Ed25519Public, 32 bytes}.
func keyValue(op string, cur []byte, env *renderEnv) []byte {
	var curData []byte
	k := &cryptoproto.Key{}
	if k.UnmarshalVT(cur) == nil {
		curData = k.Data
	}
	if len(curData) != 32 {
		curData = must(newAccount().SignKey.GetPublic().Raw())
	}
	switch op {
	case "key-wrong-type-aes":
		return keyProto(cryptoproto.KeyType_AES, randBytes(32))
	case "key-wrong-type-priv":
		priv := must(newAccount().SignKey.Raw())
		return keyProto(cryptoproto.KeyType_Ed25519Private, priv)
	case "key-unknown-type":
		return keyProto(cryptoproto.KeyType(77), curData)
	case "key-zero-len":
		return keyProto(cryptoproto.KeyType_Ed25519Public, []byte{})
	case "key-short-31":
		return keyProto(cryptoproto.KeyType_Ed25519Public, curData[:31])
	case "key-long-33":
		return keyProto(cryptoproto.KeyType_Ed25519Public, append(append([]byte{}, curData...), 1))
	case "key-bad-point":
		return keyProto(cryptoproto.KeyType_Ed25519Public, badPoint)
	case "key-raw-unwrapped":
		return append([]byte{}, curData...)
	case "key-other":
		return env.otherPub
	}
	panic("unknown key operator " + op)
}

func newRenderEnv(rnd *rand.Rand) *renderEnv {
	other := newAccount()
	otherPub := pubProto(other.SignKey)
	aes := crypto.NewAES()
	env := &renderEnv{
		rnd:        rnd,
		ids:        map[string]string{"dangling": randomCid(), "self": randomCid()},
		otherPub:   otherPub,
		otherCtX:   must(other.SignKey.GetPublic().Encrypt(must(crypto.NewAES().Marshall()))),
		otherCtAes: must(aes.Encrypt([]byte("some plaintext that the receiver cannot read"))),
	}
	return env
}
