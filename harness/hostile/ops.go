package hostile

import (
	crand "crypto/rand"
	"math/rand"
	"sync"

	"github.com/anyproto/any-sync/commonspace/object/accountdata"
	"github.com/anyproto/any-sync/util/cidutil"
	"github.com/anyproto/any-sync/util/crypto"
	"github.com/anyproto/any-sync/util/crypto/cryptoproto"
)

func must[T any](v T, err error) T {
	if err != nil {
		panic(err)
	}
	return v
}

func must0(err error) {
	if err != nil {
		panic(err)
	}
}

// keyring: every private / symmetric key the harness ever creates. The renderer uses it to open
// an encrypted field of a valid message (to mutate the plaintext) and to seal it again for the
// same recipient - what a hostile author, who chooses the plaintext, can do.
var keyring struct {
	sync.Mutex
	privs []crypto.PrivKey
	syms  []crypto.SymKey
}

func regPriv(k crypto.PrivKey) crypto.PrivKey {
	keyring.Lock()
	keyring.privs = append(keyring.privs, k)
	keyring.Unlock()
	return k
}

func regSym(k crypto.SymKey) crypto.SymKey {
	keyring.Lock()
	keyring.syms = append(keyring.syms, k)
	keyring.Unlock()
	return k
}

func newAES() *crypto.AESKey {
	k := crypto.NewAES()
	regSym(k)
	return k
}

func newAccount() *accountdata.AccountKeys {
	acc := must(accountdata.NewRandom())
	regPriv(acc.SignKey)
	return acc
}

// openField decrypts an encrypted field with whichever known key fits and returns a function that
// seals a (mutated) plaintext for the same recipient.
type openedField struct {
	pt   []byte
	seal func([]byte) []byte
}

var openCache = map[string]*openedField{}

func openField(kind string, ct []byte) (pt []byte, seal func([]byte) []byte, ok bool) {
	if o, hit := openCache[kind+string(ct)]; hit {
		if o == nil {
			return nil, nil, false
		}
		return o.pt, o.seal, true
	}
	pt, seal, ok = openFieldSlow(kind, ct)
	if ok {
		openCache[kind+string(ct)] = &openedField{pt, seal}
	} else {
		openCache[kind+string(ct)] = nil
	}
	return
}

func openFieldSlow(kind string, ct []byte) (pt []byte, seal func([]byte) []byte, ok bool) {
	keyring.Lock()
	privs := append([]crypto.PrivKey{}, keyring.privs...)
	syms := append([]crypto.SymKey{}, keyring.syms...)
	keyring.Unlock()
	if kind == "ct_x25519" {
		if len(ct) < 48 {
			return nil, nil, false
		}
		for _, k := range privs {
			if p, err := k.Decrypt(ct); err == nil {
				pub := k.GetPublic()
				return p, func(b []byte) []byte { return must(pub.Encrypt(b)) }, true
			}
		}
		return nil, nil, false
	}
	if len(ct) < 28 {
		return nil, nil, false
	}
	for _, k := range syms {
		if p, err := k.Decrypt(ct); err == nil {
			k := k
			return p, func(b []byte) []byte { return must(k.Encrypt(b)) }, true
		}
	}
	return nil, nil, false
}

func pubProto(k crypto.PrivKey) []byte { return must(k.GetPublic().Marshall()) }

func randBytes(n int) []byte {
	b := make([]byte, n)
	_, _ = crand.Read(b)
	return b
}

func randomCid() string { return must(cidutil.NewCidFromBytes(randBytes(40))) }

// badPoint: 32 bytes that do not decode as a point of the Edwards curve (found by asking the
// real decoder).
var badPoint = func() []byte {
	r := rand.New(rand.NewSource(7))
	for {
		b := make([]byte, 32)
		r.Read(b)
		if _, err := crypto.UnmarshalEd25519PublicKey(b); err != nil {
			return b
		}
	}
}()

func keyProto(tp cryptoproto.KeyType, data []byte) []byte {
	return must((&cryptoproto.Key{Type: tp, Data: data}).MarshalVT())
}

// keyValue renders the key operators: the field is expected to hold a marshalled
// cryptoproto.Key{Ed25519Public, 32 bytes}.
func keyValue(op string, cur []byte, env *renderEnv) []byte {
	var curData []byte
	k := &cryptoproto.Key{}
	if k.UnmarshalVT(cur) == nil {
		curData = k.Data
	}
	if len(curData) != 32 {
		curData = must(newAccount().SignKey.GetPublic().Raw())
	}
	switch op {
	case "key-wrong-type-aes":
		return keyProto(cryptoproto.KeyType_AES, randBytes(32))
	case "key-wrong-type-priv":
		priv := must(newAccount().SignKey.Raw())
		return keyProto(cryptoproto.KeyType_Ed25519Private, priv)
	case "key-unknown-type":
		return keyProto(cryptoproto.KeyType(77), curData)
	case "key-zero-len":
		return keyProto(cryptoproto.KeyType_Ed25519Public, []byte{})
	case "key-short-31":
		return keyProto(cryptoproto.KeyType_Ed25519Public, curData[:31])
	case "key-long-33":
		return keyProto(cryptoproto.KeyType_Ed25519Public, append(append([]byte{}, curData...), 1))
	case "key-bad-point":
		return keyProto(cryptoproto.KeyType_Ed25519Public, badPoint)
	case "key-raw-unwrapped":
		return append([]byte{}, curData...)
	case "key-other":
		return env.otherPub
	}
	panic("unknown key operator " + op)
}

func newRenderEnv(rnd *rand.Rand) *renderEnv {
	other := must(accountdata.NewRandom()) // not in the keyring: nobody can open what is sealed for it
	otherPub := pubProto(other.SignKey)
	aes := crypto.NewAES()
	env := &renderEnv{
		rnd:        rnd,
		ids:        map[string]string{"dangling": randomCid(), "self": randomCid()},
		otherPub:   otherPub,
		otherCtX:   must(other.SignKey.GetPublic().Encrypt(must(crypto.NewAES().Marshall()))),
		otherCtAes: must(aes.Encrypt([]byte("some plaintext that the receiver cannot read"))),
	}
	return env
}

// regDerived registers, for every symmetric key known so far, the key derived from it with the
// given function (trees and key-value stores encrypt with a key derived from the space read key).
func regDerived(derive func(raw []byte) (crypto.SymKey, error)) {
	keyring.Lock()
	syms := append([]crypto.SymKey{}, keyring.syms...)
	keyring.Unlock()
	for _, k := range syms {
		raw, err := k.Raw()
		if err != nil {
			continue
		}
		if d, err := derive(raw); err == nil {
			regSym(d)
		}
	}
}
