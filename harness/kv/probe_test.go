package kv

import (
	"fmt"
	"testing"
	"time"

	"github.com/anyproto/any-sync/commonspace/spacesyncproto"
)

func TestProbe(t *testing.T) {
	w, err := newWorld("d1", "d2")
	if err != nil {
		t.Fatal(err)
	}
	dir := t.TempDir()
	h1, err := openDB(dir, "s1")
	if err != nil {
		t.Fatal(err)
	}
	h2, _ := openDB(dir, "s2")
	t0 := time.Now()
	sp := freshSpaceId()
	s1, err := newStore(w, h1, sp, "s1", "W", "d1", 2)
	if err != nil {
		t.Fatal(err)
	}
	s2, err := newStore(w, h2, sp, "s2", "W", "d2", 2)
	if err != nil {
		t.Fatal(err)
	}
	fmt.Println("two stores in", time.Since(t0))
	show := func(s *rstore) {
		o, err := s.observe()
		if err != nil {
			t.Fatal(err)
		}
		for id, d := range o.Docs {
			fmt.Printf("  %s: %s ts=%d auth=%q idx=%x\n", s.name, id[:12], d.TimestampMicro, s.authentic(d), o.Index[id])
		}
		fmt.Printf("  %s hash=%s entry=%v observed=%v iterErr=%q fresh=%v\n", s.name, o.Hash[:8], o.HeadEntry, o.Observed, o.IterErr, freshHash(o.Index) == o.Hash)
	}
	good := mval{Key: "k1", Dev: "d1", Ts: 1, Acc: "W", Rec: "r1", SigDev: true, SigAcc: true, Label: "k1|d1"}
	relab := mval{Key: "k1", Dev: "d1", Ts: 2, Acc: "W", Rec: "r1", SigDev: true, SigAcc: true, Label: "k2|d2"}
	reader := mval{Key: "k1", Dev: "d2", Ts: 2, Acc: "R", Rec: "r1", SigDev: true, SigAcc: true, Label: "k1|d2"}
	removed := mval{Key: "k3", Dev: "d2", Ts: 2, Acc: "X", Rec: "r2", SigDev: true, SigAcc: true, Label: "k3|d2"}
	premem := mval{Key: "k4", Dev: "d2", Ts: 2, Acc: "L", Rec: "r2", SigDev: true, SigAcc: true, Label: "k4|d2"}
	unk := mval{Key: "k5", Dev: "d2", Ts: 2, Acc: "W", Rec: "r3", SigDev: true, SigAcc: true, Label: "k5|d2"}
	unkX := mval{Key: "k6", Dev: "d2", Ts: 2, Acc: "W", Rec: "rX", SigDev: true, SigAcc: true, Label: "k6|d2"}
	badDev := mval{Key: "k7", Dev: "d2", Ts: 2, Acc: "W", Rec: "r1", SigDev: false, SigAcc: true, Label: "k7|d2"}
	badAcc := mval{Key: "k8", Dev: "d2", Ts: 2, Acc: "W", Rec: "r1", SigDev: true, SigAcc: false, Label: "k8|d2"}
	flip := mval{Key: "k9", Dev: "d2", Ts: 2, Acc: "W", Rec: "r1", SigDev: false, SigAcc: false, Label: "k9|d2", Mut: "flip"}
	err = s1.st.SetRaw(ctx, w.render(good), w.render(relab), w.render(reader), w.render(removed), w.render(premem), w.render(unk), w.render(unkX), w.render(badDev), w.render(badAcc), w.render(flip))
	fmt.Println("setraw:", err)
	show(s1)
	// negative / huge timestamps: order dependence
	for _, pair := range [][2]int64{{-1, 5}, {99, 100}} {
		a := mval{Key: "n", Dev: "d1", Ts: pair[0], Acc: "W", Rec: "r1", SigDev: true, SigAcc: true, Label: "n|d1"}
		b := mval{Key: "n", Dev: "d1", Ts: pair[1], Acc: "W", Rec: "r1", SigDev: true, SigAcc: true, Label: "n|d1"}
		for _, order := range [][]mval{{a, b}, {b, a}} {
			x, err := newStore(w, h1, freshSpaceId(), "x", "W", "d1", 2)
			if err != nil {
				t.Fatal(err)
			}
			for _, v := range order {
				if err := x.st.SetRaw(ctx, w.render(v)); err != nil {
					t.Fatal(err)
				}
			}
			fmt.Println("order", order[0].Ts, order[1].Ts)
			show(x)
			// same in one batch
			y, _ := newStore(w, h1, freshSpaceId(), "y", "W", "d1", 2)
			y.st.SetRaw(ctx, []*spacesyncproto.StoreKeyValue{w.render(order[0]), w.render(order[1])}...)
			show(y)
		}
	}
	// exchange
	if err := s2.st.Set(ctx, "loc", []byte("hello")); err != nil {
		t.Fatal(err)
	}
	t0 = time.Now()
	ex, err := startExchange(s1, s2, true)
	if err != nil {
		t.Fatal(err)
	}
	fmt.Println(<-ex.reached, "pushed", len(ex.pushed), "asked", len(ex.asked))
	ex.resume <- struct{}{}
	fmt.Println(<-ex.reached, "sent", len(ex.sent), ex.srvErr)
	show(s2)
	ex.resume <- struct{}{}
	<-ex.done
	fmt.Println("exchange took", time.Since(t0))
	show(s1)
	show(s2)
	// fault
	for _, pt := range []string{"begin", "find", "upsert", "heads", "commit"} {
		v := mval{Key: "f" + pt, Dev: "d1", Ts: 3, Acc: "W", Rec: "r1", SigDev: true, SigAcc: true, Label: "f" + pt + "|d1"}
		h1.db.f.arm(pt, 1)
		err = s1.st.SetRaw(ctx, w.render(v))
		fmt.Println("fault", pt, "err:", err, "fired:", h1.db.f.disarm(), h1.db.f.calls)
	}
	show(s1)
}
