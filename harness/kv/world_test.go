// Package kv binds spec/kv/KeyValue.tla to the real key-value store (property C12).
//
// world_test.go: the fixed cast of the model rendered with real keys, a real ACL history
// and real dually signed values:
//
//	accounts  O owner, W writer (added r1), R reader (added r1), X writer added r1 / removed r2,
//	          L writer added only at r3
//	records   r0 root, r1 add{W,R,X}, r2 remove X (+ read key change), r3 add L; rX = a cid nobody holds
//	devices   d1, d2, ... independent device keys
//
// A model value [key, dev, ts, acc, rec, sigDev, sigAcc, label, flip] is rendered as a real
// spacesyncproto.StoreKeyValue (see world.render).
package kv

import (
	"context"
	"encoding/binary"
	"fmt"
	"sort"
	"sync"
	"time"

	"github.com/anyproto/any-sync/commonspace/object/accountdata"
	"github.com/anyproto/any-sync/commonspace/object/acl/list"
	"github.com/anyproto/any-sync/commonspace/object/acl/list/listtest"
	"github.com/anyproto/any-sync/commonspace/object/acl/recordverifier"
	"github.com/anyproto/any-sync/commonspace/spacesyncproto"
	"github.com/anyproto/any-sync/consensus/consensusproto"
	"github.com/anyproto/any-sync/util/cidutil"
	"github.com/anyproto/any-sync/util/crypto"
)

var ctx = context.Background()

// mval is a value of the model (spec/kv/KeyValue.tla, record `Value`).
type mval struct {
	Key    string `json:"key"`
	Dev    string `json:"dev"`
	Ts     int64  `json:"ts"`
	Acc    string `json:"acc"`
	Rec    string `json:"rec"`
	SigDev bool   `json:"sigDev"` // device signature valid over exactly the carried bytes
	SigAcc bool   `json:"sigAcc"` // account signature valid over exactly the carried bytes
	Label  string `json:"label"`  // slot the value is filed under: "<key>|<dev>"
	Mut    string `json:"mut"`    // how an invalid signature is produced: "", "flip", "swapdev", "swapacc", "swapboth"
}

func (v mval) slotInside() string { return v.Key + "|" + v.Dev }
func (v mval) name() string {
	return fmt.Sprintf("%s/%s/t%d/%s@%s/%v%v/%s/%s", v.Key, v.Dev, v.Ts, v.Acc, v.Rec, b2i(v.SigDev), b2i(v.SigAcc), v.Label, v.Mut)
}
func b2i(b bool) int {
	if b {
		return 1
	}
	return 0
}

type world struct {
	mu       sync.Mutex
	accounts map[string]crypto.PrivKey
	devices  map[string]crypto.PrivKey
	recs     []*consensusproto.RawRecordWithId // r0..r3
	recId    map[string]string                 // model record name -> real id
	recName  map[string]string
	ownerAcl list.AclList
	t0       int64 // real time of world creation (µs): model timestamps are mapped around it
	rendered map[string]*spacesyncproto.StoreKeyValue
	byBytes  map[string]mval
	back     map[int64]int64
	devOf    map[string]string
	acls     map[string]list.AclList
	payload  int
}

var accountNames = []string{"O", "W", "R", "X", "L"}

func newWorld(devs ...string) (*world, error) {
	w := &world{accounts: map[string]crypto.PrivKey{}, devices: map[string]crypto.PrivKey{}, recId: map[string]string{},
		recName: map[string]string{}, rendered: map[string]*spacesyncproto.StoreKeyValue{}, acls: map[string]list.AclList{},
		byBytes: map[string]mval{}, back: map[int64]int64{}, devOf: map[string]string{}}
	for _, a := range accountNames {
		k, _, err := crypto.GenerateRandomEd25519KeyPair()
		if err != nil {
			return nil, err
		}
		w.accounts[a] = k
	}
	for _, d := range devs {
		k, _, err := crypto.GenerateRandomEd25519KeyPair()
		if err != nil {
			return nil, err
		}
		w.devices[d] = k
		w.devOf[k.GetPublic().PeerId()] = d
	}
	odev, _, _ := crypto.GenerateRandomEd25519KeyPair()
	owner := accountdata.New(odev, w.accounts["O"])
	acl, err := list.NewInMemoryDerivedAcl("verif-kv-space", owner)
	if err != nil {
		return nil, err
	}
	w.ownerAcl = acl
	w.recs = append(w.recs, acl.Root())
	add := func(raw *consensusproto.RawRecord, err error) error {
		if err != nil {
			return err
		}
		rec := listtest.WrapAclRecord(raw)
		if err := acl.AddRawRecord(rec); err != nil {
			return err
		}
		w.recs = append(w.recs, rec)
		return nil
	}
	writer := list.AclPermissionsWriter
	reader := list.AclPermissionsReader
	if err = add(acl.RecordBuilder().BuildAccountsAdd(list.AccountsAddPayload{Additions: []list.AccountAdd{
		{Identity: w.accounts["W"].GetPublic(), Permissions: writer, Metadata: []byte("W")},
		{Identity: w.accounts["R"].GetPublic(), Permissions: reader, Metadata: []byte("R")},
		{Identity: w.accounts["X"].GetPublic(), Permissions: writer, Metadata: []byte("X")},
	}})); err != nil {
		return nil, fmt.Errorf("r1: %w", err)
	}
	mk, _, _ := crypto.GenerateRandomEd25519KeyPair()
	if err = add(acl.RecordBuilder().BuildAccountRemove(list.AccountRemovePayload{
		Identities: []crypto.PubKey{w.accounts["X"].GetPublic()},
		Change:     list.ReadKeyChangePayload{MetadataKey: mk, ReadKey: crypto.NewAES()},
	})); err != nil {
		return nil, fmt.Errorf("r2: %w", err)
	}
	if err = add(acl.RecordBuilder().BuildAccountsAdd(list.AccountsAddPayload{Additions: []list.AccountAdd{
		{Identity: w.accounts["L"].GetPublic(), Permissions: writer, Metadata: []byte("L")},
	}})); err != nil {
		return nil, fmt.Errorf("r3: %w", err)
	}
	for i, r := range w.recs {
		n := fmt.Sprintf("r%d", i)
		w.recId[n] = r.Id
		w.recName[r.Id] = n
	}
	bogus, _ := cidutil.NewCidFromBytes([]byte("verif: an acl record nobody holds"))
	w.recId["rX"] = bogus
	w.recName[bogus] = "rX"
	w.t0 = time.Now().UnixMicro()
	return w, nil
}

// writerAt is the ground truth of the ACL history above: did the account hold write
// permission at the record?
func writerAt(acc, rec string) bool {
	switch acc {
	case "O":
		return rec == "r0" || rec == "r1" || rec == "r2" || rec == "r3"
	case "W":
		return rec == "r1" || rec == "r2" || rec == "r3"
	case "X":
		return rec == "r1"
	case "L":
		return rec == "r3"
	}
	return false
}

// aclFor builds (cached) the ACL list of a store: the identity of the local account/device and the
// prefix r0..r<knows> of the record history.
func (w *world) aclFor(acc, dev string, knows int) (list.AclList, *accountdata.AccountKeys, error) {
	w.mu.Lock()
	defer w.mu.Unlock()
	keys := accountdata.New(w.devices[dev], w.accounts[acc])
	k := fmt.Sprintf("%s/%s/%d", acc, dev, knows)
	if a, ok := w.acls[k]; ok {
		return a, keys, nil
	}
	st, err := list.NewInMemoryStorage(w.recs[0].Id, w.recs[:knows+1])
	if err != nil {
		return nil, nil, err
	}
	a, err := list.BuildAclListWithIdentity(keys, st, recordverifier.NewValidateFull())
	if err != nil {
		return nil, nil, err
	}
	w.acls[k] = a
	return a, keys, nil
}

// realTs maps a model timestamp to real microseconds. Model timestamps below localBase are in the
// past, the ones above localBase+localSpan in the future of every local Set of the run (which
// stamps time.Now()); negative and huge model timestamps map to themselves.
const (
	localBase = 10 // model: local Set number n of a store gets ts localBase+n
	localSpan = 10
	tsNeg     = -1
	tsHuge    = 99 // model name of a timestamp beyond 2^53
	hugeReal  = int64(1)<<53 + 3 // 2^53+3 is stored as 2^53+4 by the float64 row field
	tsUnit    = int64(6 * 3600e6)
	localWin  = int64(5 * 3600e6) // local Sets of a run happen within this window after t0
)

func (w *world) realTs(ts int64) int64 {
	switch {
	case ts < 0:
		return ts
	case ts == tsHuge, ts == tsHuge+1:
		return hugeReal + (ts - tsHuge)
	case ts < localBase:
		return w.t0 - (localBase-ts)*tsUnit
	default:
		return w.t0 + (ts-localBase-localSpan+1)*tsUnit
	}
}

func (w *world) peerId(dev string) string { return w.devices[dev].GetPublic().PeerId() }

func (w *world) keyPeerId(label string) string {
	// label "<key>|<dev>"
	for i := len(label) - 1; i >= 0; i-- {
		if label[i] == '|' {
			return label[:i] + "-" + w.peerId(label[i+1:])
		}
	}
	panic("bad label " + label)
}

// render builds the real proto of a model value (cached: the same model value is the same bytes,
// so repetition really is repetition).
func (w *world) render(v mval) *spacesyncproto.StoreKeyValue {
	w.mu.Lock()
	defer w.mu.Unlock()
	if p, ok := w.rendered[v.name()]; ok {
		return clone(p)
	}
	dev, acc := w.devices[v.Dev], w.accounts[v.Acc]
	if dev == nil || acc == nil {
		panic("unknown device/account in " + v.name())
	}
	pd, _ := dev.GetPublic().Marshall()
	pa, _ := acc.GetPublic().Marshall()
	w.payload++
	inner := &spacesyncproto.StoreKeyInner{
		Peer: pd, Identity: pa,
		Value:          []byte(fmt.Sprintf("ciphertext-%d-%s", w.payload, v.name())),
		TimestampMicro: w.realTs(v.Ts),
		AclHeadId:      w.recId[v.Rec],
		Key:            v.Key,
	}
	raw, err := inner.MarshalVT()
	if err != nil {
		panic(err)
	}
	sd, _ := dev.Sign(raw)
	sa, _ := acc.Sign(raw)
	p := &spacesyncproto.StoreKeyValue{KeyPeerId: w.keyPeerId(v.Label), Value: raw, PeerSignature: sd, IdentitySignature: sa}
	other, _, _ := crypto.GenerateRandomEd25519KeyPair()
	switch {
	case v.Mut == "flip":
		// both signatures were made over different bytes: flip one byte of the carried value
		// (inside the ciphertext, so that the message still decodes)
		p.Value = append([]byte(nil), raw...)
		idx := bytesIndex(p.Value, []byte("ciphertext-"))
		p.Value[idx] ^= 0x01
	default:
		if !v.SigDev {
			p.PeerSignature, _ = other.Sign(raw) // a well-formed signature by somebody else
		}
		if !v.SigAcc {
			p.IdentitySignature, _ = other.Sign(raw)
		}
	}
	w.rendered[v.name()] = p
	w.byBytes[string(p.Value)+"|"+string(p.PeerSignature)+"|"+string(p.IdentitySignature)] = v
	stored := inner.TimestampMicro
	if stored >= 1<<53 {
		stored = int64(float64(stored))
	}
	m := v.Ts
	if m >= tsHuge && m%2 == 1 {
		m++
	}
	w.back[stored] = m
	return clone(p)
}

func (w *world) lookup(k string) (mval, bool) {
	w.mu.Lock()
	defer w.mu.Unlock()
	v, ok := w.byBytes[k]
	return v, ok
}

func (w *world) tsBack(real int64) (int64, bool) {
	w.mu.Lock()
	defer w.mu.Unlock()
	m, ok := w.back[real]
	return m, ok
}

// labelOf turns a real KeyPeerId into the model's label "<key>|<dev>"
func (w *world) labelOf(id string) string {
	for i := len(id) - 1; i >= 0; i-- {
		if id[i] == '-' {
			if d, ok := w.devOf[id[i+1:]]; ok {
				return id[:i] + "|" + d
			}
			break
		}
	}
	return "?" + id
}

func bytesIndex(b, sub []byte) int {
	for i := 0; i+len(sub) <= len(b); i++ {
		if string(b[i:i+len(sub)]) == string(sub) {
			return i
		}
	}
	panic("marker not found")
}

func clone(p *spacesyncproto.StoreKeyValue) *spacesyncproto.StoreKeyValue {
	return &spacesyncproto.StoreKeyValue{KeyPeerId: p.KeyPeerId, Value: append([]byte(nil), p.Value...),
		PeerSignature: append([]byte(nil), p.PeerSignature...), IdentitySignature: append([]byte(nil), p.IdentitySignature...)}
}

func beHead(ts int64) string {
	b := make([]byte, 8)
	binary.BigEndian.PutUint64(b, uint64(ts))
	return string(b)
}

func sortedKeys[V any](m map[string]V) []string {
	ks := make([]string, 0, len(m))
	for k := range m {
		ks = append(ks, k)
	}
	sort.Strings(ks)
	return ks
}
