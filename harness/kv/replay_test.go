package kv

// TestReplay: every behaviour TLC generated from spec/kv/KeyValueGen.tla is executed on real
// stores, one call per spec action; after every step the oracles of C12 run on what the real
// stores show and the projected real state is compared with the state the spec predicts (drift).

import (
	"crypto/sha1"
	"encoding/json"
	"fmt"
	"os"
	"testing"

	"verifharness/vfutil"
)

// recycleDBs: every behaviour gets fresh collections in the same databases; after a few hundred of them the
// databases are replaced so that their schema does not grow without bound
func recycleDBs(t *testing.T, dbs map[string]*dbHandle, n int) map[string]*dbHandle {
	if n == 0 || n%200 != 0 {
		return dbs
	}
	names := sortedKeys(dbs)
	for _, h := range dbs {
		h.close()
	}
	return openDBs(t, names...)
}

func openDBs(t *testing.T, names ...string) map[string]*dbHandle {
	dir := vfutil.Scratch("kvdb")
	dbs := map[string]*dbHandle{}
	for _, n := range names {
		h, err := openDB(dir, n)
		if err != nil {
			t.Fatal(err)
		}
		dbs[n] = h
	}
	return dbs
}

func sig(b behaviour) string {
	h := sha1.New()
	for _, n := range sortedKeys(b.Stores) {
		fmt.Fprintf(h, "%s%v", n, b.Stores[n])
	}
	for _, st := range b.Steps {
		fmt.Fprintf(h, "|%s %s %s %s %v", st.Act, st.S, st.Key, st.Peer, st.Fault)
		for _, v := range st.Batch {
			fmt.Fprint(h, v.name())
		}
	}
	return fmt.Sprintf("%x", h.Sum(nil)[:8])
}

func cmpExp(s string, exp *expState, got stState) string {
	want := exp.Vals[s]
	if fmt.Sprint(namesOf(want)) != fmt.Sprint(namesOf(got.Vals)) {
		return fmt.Sprintf("store %s rows %v, spec predicts %v", s, namesOf(got.Vals), namesOf(want))
	}
	wi := exp.Index[s]
	if len(wi) != len(got.Index) {
		return fmt.Sprintf("store %s index %v, spec predicts %v", s, got.Index, wi)
	}
	for l, ts := range wi {
		if got.Index[l] != ts {
			return fmt.Sprintf("store %s index %v, spec predicts %v", s, got.Index, wi)
		}
	}
	if exp.EntryOk[s] != got.EntryOk {
		return fmt.Sprintf("store %s entryOk %v, spec predicts %v", s, got.EntryOk, exp.EntryOk[s])
	}
	return ""
}

func TestReplay(t *testing.T) {
	rep := vfutil.NewReport("C12")
	defer func() { rep.Save(!t.Failed() || rep.NumViolations() > 0) }()
	var bs []behaviour
	if raw, ok := vfutil.ReplayFile(); ok {
		var b behaviour
		if err := json.Unmarshal(raw, &b); err != nil {
			t.Fatal(err)
		}
		if b.Spec == "KeyValueTraceCut" {
			// a recorded run cut at the line whose state violated an invariant of the spec
			var cut struct {
				Events []string `json:"events"`
			}
			if err := json.Unmarshal(raw, &cut); err != nil {
				t.Fatal(err)
			}
			b = behaviour{Spec: "KeyValue", Stores: recordCfg, LocalBase: localBase}
			for _, line := range cut.Events {
				var ev event
				if err := json.Unmarshal([]byte(line), &ev); err != nil {
					t.Fatal(err)
				}
				if ev.Ev == "Reset" {
					continue
				}
				b.Steps = append(b.Steps, step{Act: ev.Ev, S: ev.S, Key: ev.Key, Peer: ev.Peer, Batch: ev.Batch, Fault: ev.Fault})
			}
		}
		if b.Spec != "KeyValue" {
			t.Skip("replay object belongs to another test")
		}
		bs = []behaviour{b}
	} else {
		var err error
		bs, err = vfutil.LoadJSONFiles[behaviour](os.Getenv("VERIF_BEHAVIOURS"))
		if err != nil {
			t.Fatal(err)
		}
	}
	if len(bs) == 0 {
		t.Fatal("no behaviours")
	}
	if max := vfutil.EnvInt("VERIF_MAX_BEHAVIOURS", 0); max > 0 && len(bs) > max {
		bs = bs[:max]
	}
	w, err := newWorld("d1", "d2", "d3")
	if err != nil {
		t.Fatal(err)
	}
	dbs := openDBs(t, "s1", "s2", "s3")
	acts := map[string]int{}
	for bi, b := range bs {
		dbs = recycleDBs(t, dbs, bi)
		r, err := newRun(w, dbs, b.Stores, rep)
		if err != nil {
			t.Fatal(err)
		}
		rep.Case(sig(b))
		rep.AddReplayed(1)
		for si, st := range b.Steps {
			states, res := r.exec(st)
			rep.AddSteps(1)
			acts[st.Act]++
			if r.harness != nil {
				r.drain()
				t.Fatalf("behaviour %d step %d (%s): harness: %v", bi, si, st.Act, r.harness)
			}
			if r.failed {
				break
			}
			if res.Note != "" {
				rep.DriftNote("behaviour %d step %d %s: %s", bi, si, st.Act, res.Note)
				break
			}
			if st.Exp != nil {
				drift := ""
				for _, s := range sortedKeys(states) {
					if d := cmpExp(s, st.Exp, states[s]); d != "" {
						drift = d
						break
					}
				}
				if drift != "" {
					rep.DriftNote("behaviour %d step %d %s: %s", bi, si, st.Act, drift)
					break
				}
			}
		}
		r.finishExchange()
		r.drain()
		if r.harness != nil {
			t.Fatalf("behaviour %d: harness: %v", bi, r.harness)
		}
		if bi < 2 {
			rep.Sample(map[string]any{"behaviour": sig(b), "steps": len(b.Steps), "first_steps": r.done[:min(3, len(r.done))]})
		}
	}
	rep.SetExtra("replay_actions", acts)
}
