package kv

// A proxy anystore.DB that injects one storage fault at a chosen call of a chosen kind. The real
// database does the work; a fault makes the call return an error (for "commit": the real
// transaction is rolled back and the error returned, i.e. the commit did not happen).

import (
	"context"
	"errors"
	"sync"

	anystore "github.com/anyproto/any-store"
	"github.com/anyproto/any-store/anyenc"
	"github.com/anyproto/any-store/query"
)

var errInjected = errors.New("verif: injected storage fault")

type faulter struct {
	mu    sync.Mutex
	point string // "", "begin", "find", "upsert", "heads", "commit"
	nth   int    // fire at the nth (1-based) call of that kind after arming
	seen  int
	fired bool
	calls map[string]int
}

func (f *faulter) arm(point string, nth int) {
	f.mu.Lock()
	defer f.mu.Unlock()
	f.point, f.nth, f.seen, f.fired = point, nth, 0, false
	f.calls = map[string]int{}
}

func (f *faulter) disarm() (fired bool) {
	f.mu.Lock()
	defer f.mu.Unlock()
	fired = f.fired
	f.point = ""
	return
}

func (f *faulter) hit(point string) bool {
	f.mu.Lock()
	defer f.mu.Unlock()
	if f.calls != nil {
		f.calls[point]++
	}
	if f.point != point || f.fired {
		return false
	}
	f.seen++
	if f.seen == f.nth {
		f.fired = true
		return true
	}
	return false
}

type proxyDB struct {
	anystore.DB
	f *faulter
}

func newProxyDB(db anystore.DB) *proxyDB { return &proxyDB{DB: db, f: &faulter{}} }

func (p *proxyDB) wrap(c anystore.Collection, err error) (anystore.Collection, error) {
	if err != nil {
		return nil, err
	}
	return &proxyColl{Collection: c, db: p, heads: c.Name() == "heads"}, nil
}

func (p *proxyDB) Collection(ctx context.Context, name string) (anystore.Collection, error) {
	return p.wrap(p.DB.Collection(ctx, name))
}
func (p *proxyDB) OpenCollection(ctx context.Context, name string) (anystore.Collection, error) {
	return p.wrap(p.DB.OpenCollection(ctx, name))
}
func (p *proxyDB) CreateCollection(ctx context.Context, name string) (anystore.Collection, error) {
	return p.wrap(p.DB.CreateCollection(ctx, name))
}
func (p *proxyDB) WriteTx(ctx context.Context) (anystore.WriteTx, error) {
	if p.f.hit("begin") {
		return nil, errInjected
	}
	tx, err := p.DB.WriteTx(ctx)
	if err != nil {
		return nil, err
	}
	return &proxyTx{WriteTx: tx, f: p.f}, nil
}

type proxyTx struct {
	anystore.WriteTx
	f *faulter
}

func (t *proxyTx) Commit() error {
	if t.f.hit("commit") {
		_ = t.WriteTx.Rollback()
		return errInjected
	}
	return t.WriteTx.Commit()
}

type proxyColl struct {
	anystore.Collection
	db    *proxyDB
	heads bool
}

func (c *proxyColl) WriteTx(ctx context.Context) (anystore.WriteTx, error) { return c.db.WriteTx(ctx) }

func (c *proxyColl) FindIdWithParser(ctx context.Context, p *anyenc.Parser, id any) (anystore.Doc, error) {
	if !c.heads && c.db.f.hit("find") {
		return nil, errInjected
	}
	return c.Collection.FindIdWithParser(ctx, p, id)
}

func (c *proxyColl) UpsertOne(ctx context.Context, doc *anyenc.Value) error {
	if !c.heads && c.db.f.hit("upsert") {
		return errInjected
	}
	return c.Collection.UpsertOne(ctx, doc)
}

func (c *proxyColl) UpsertId(ctx context.Context, id any, mod query.Modifier) (anystore.ModifyResult, error) {
	if c.heads && c.db.f.hit("heads") {
		return anystore.ModifyResult{}, errInjected
	}
	return c.Collection.UpsertId(ctx, id, mod)
}

func (c *proxyColl) UpdateId(ctx context.Context, id any, mod query.Modifier) (anystore.ModifyResult, error) {
	if c.heads && c.db.f.hit("heads") {
		return anystore.ModifyResult{}, errInjected
	}
	return c.Collection.UpdateId(ctx, id, mod)
}
