package kv

// store_test.go: a real key-value service (keyvalue.New + keyvaluestorage.New) over a real
// any-store database behind the fault proxy, with a real ACL list, assembled through the exported
// component API only; plus the observation functions the oracles use.

import (
	"context"
	"errors"
	"fmt"
	"math"
	"path/filepath"
	"sync"
	"sync/atomic"

	anystore "github.com/anyproto/any-store"
	"storj.io/drpc"

	"github.com/anyproto/any-sync/accountservice"
	"github.com/anyproto/any-sync/app"
	"github.com/anyproto/any-sync/app/ldiff"
	"github.com/anyproto/any-sync/commonspace/headsync/headstorage"
	"github.com/anyproto/any-sync/commonspace/object/accountdata"
	"github.com/anyproto/any-sync/commonspace/object/acl/list"
	"github.com/anyproto/any-sync/commonspace/object/acl/syncacl"
	"github.com/anyproto/any-sync/commonspace/object/keyvalue"
	"github.com/anyproto/any-sync/commonspace/object/keyvalue/keyvaluestorage"
	"github.com/anyproto/any-sync/commonspace/object/keyvalue/keyvaluestorage/innerstorage"
	"github.com/anyproto/any-sync/commonspace/object/keyvalue/kvinterfaces"
	"github.com/anyproto/any-sync/commonspace/spacestate"
	"github.com/anyproto/any-sync/commonspace/spacestorage"
	"github.com/anyproto/any-sync/commonspace/spacesyncproto"
	csync "github.com/anyproto/any-sync/commonspace/sync"
	"github.com/anyproto/any-sync/net/peer"
	"github.com/anyproto/any-sync/net/rpc/rpctest"
	"github.com/anyproto/any-sync/util/crypto"
)

// ---- a database per model store, shared by all behaviours (every behaviour gets a fresh space id,
// hence a fresh collection and heads entry) ----

type dbHandle struct {
	db    *proxyDB
	heads headstorage.HeadStorage
	obs   *headObserver
}

type headObserver struct {
	mu   sync.Mutex
	last map[string][]string
}

func (o *headObserver) OnUpdate(e headstorage.HeadsEntry) {
	o.mu.Lock()
	o.last[e.Id] = append([]string(nil), e.Heads...)
	o.mu.Unlock()
}

func (h *dbHandle) close() { _ = h.db.DB.Close() }

func openDB(dir, name string) (*dbHandle, error) {
	raw, err := anystore.Open(ctx, filepath.Join(dir, name+".db"), nil)
	if err != nil {
		return nil, err
	}
	p := newProxyDB(raw)
	hs, err := headstorage.New(ctx, p)
	if err != nil {
		return nil, err
	}
	o := &headObserver{last: map[string][]string{}}
	hs.AddObserver(o)
	return &dbHandle{db: p, heads: hs, obs: o}, nil
}

// ---- fake components around the real key-value service ----

type accSvc struct{ keys *accountdata.AccountKeys }

func (a accSvc) Init(*app.App) error               { return nil }
func (a accSvc) Name() string                      { return accountservice.CName }
func (a accSvc) Account() *accountdata.AccountKeys { return a.keys }

type aclComp struct{ list.AclList }

func (a aclComp) Init(*app.App) error { return nil }
func (a aclComp) Name() string        { return syncacl.CName }

type spaceStore struct {
	spacestorage.SpaceStorage
	h *dbHandle
}

func (s *spaceStore) Init(*app.App) error                  { return nil }
func (s *spaceStore) Name() string                         { return spacestorage.CName }
func (s *spaceStore) AnyStore() anystore.DB                { return s.h.db }
func (s *spaceStore) HeadStorage() headstorage.HeadStorage { return s.h.heads }

type syncSvc struct {
	csync.SyncService
	broadcasts atomic.Int64
}

func (s *syncSvc) Init(*app.App) error { return nil }
func (s *syncSvc) Name() string        { return csync.CName }
func (s *syncSvc) BroadcastMessage(ctx context.Context, msg drpc.Message) error {
	s.broadcasts.Add(1)
	return nil
}

type rstore struct {
	name      string
	w         *world
	h         *dbHandle
	acc, dev  string
	knows     int
	svc       kvinterfaces.KeyValueService
	st        keyvaluestorage.Storage
	storageId string
	spaceId   string
	sync      *syncSvc
	server    *rpctest.TestServer
	gate      *gateServer
}

var spaceSeq atomic.Int64

func freshSpaceId() string { return fmt.Sprintf("verif-space-%d", spaceSeq.Add(1)) }

func newStore(w *world, h *dbHandle, spaceId, name, acc, dev string, knows int) (*rstore, error) {
	acl, keys, err := w.aclFor(acc, dev, knows)
	if err != nil {
		return nil, err
	}
	s := &rstore{name: name, w: w, h: h, acc: acc, dev: dev, knows: knows, sync: &syncSvc{}, spaceId: spaceId}
	a := new(app.App)
	a.Register(&spacestate.SpaceState{SpaceId: spaceId})
	a.Register(accSvc{keys})
	a.Register(aclComp{acl})
	a.Register(&spaceStore{h: h})
	a.Register(s.sync)
	a.Register(keyvaluestorage.NoOpIndexer{})
	s.svc = keyvalue.New()
	if err = s.svc.Init(a); err != nil {
		return nil, err
	}
	if err = s.svc.Run(ctx); err != nil {
		return nil, err
	}
	s.st = s.svc.DefaultStore()
	s.storageId = s.st.Id()
	s.server = rpctest.NewTestServer()
	s.gate = &gateServer{s: s}
	if err = spacesyncproto.DRPCRegisterSpaceSync(s.server, s.gate); err != nil {
		return nil, err
	}
	return s, nil
}

// ---- observation ----

type obs struct {
	Docs      map[string]innerstorage.KeyValue // collection contents by id (IterateValues)
	Index     map[string]string                // advertised index: id -> head
	Hash      string
	HeadEntry []string
	Observed  []string // last heads the head-storage observers were told
	IterErr   string
}

func (s *rstore) observe() (o obs, err error) {
	o.Docs = map[string]innerstorage.KeyValue{}
	o.Index = map[string]string{}
	err = s.st.InnerStorage().IterateValues(ctx, func(kv innerstorage.KeyValue) (bool, error) {
		o.Docs[kv.KeyPeerId] = kv
		return true, nil
	})
	if err != nil {
		return
	}
	// the public iteration must present the same rows, grouped by key, each key once
	seenKey := map[string]bool{}
	n := 0
	err = s.st.Iterate(ctx, func(_ keyvaluestorage.Decryptor, key string, values []innerstorage.KeyValue) (bool, error) {
		if seenKey[key] {
			o.IterErr = "key " + key + " presented twice by Iterate"
		}
		seenKey[key] = true
		for _, v := range values {
			n++
			d, ok := o.Docs[v.KeyPeerId]
			if !ok || string(d.Value.Value) != string(v.Value.Value) || v.Key != key {
				o.IterErr = fmt.Sprintf("Iterate row %s (presented under key %q, row key %q, %d values in the group) differs from the collection (row known=%v, same bytes=%v)",
					v.KeyPeerId, key, v.Key, len(values), ok, string(d.Value.Value) == string(v.Value.Value))
			}
		}
		return true, nil
	})
	if err != nil {
		return
	}
	if n != len(o.Docs) && o.IterErr == "" {
		o.IterErr = fmt.Sprintf("Iterate presented %d rows, collection has %d", n, len(o.Docs))
	}
	d := s.st.InnerStorage().Diff()
	for _, e := range d.Elements() {
		o.Index[e.Id] = e.Head
	}
	o.Hash = d.Hash()
	e, err := s.h.heads.GetEntry(ctx, s.storageId)
	if err != nil {
		return
	}
	o.HeadEntry = e.Heads
	s.h.obs.mu.Lock()
	o.Observed = s.h.obs.last[s.storageId]
	s.h.obs.mu.Unlock()
	return
}

// wireRanges asks the store's real StoreDiff handler (what a syncing peer talks to) for several ranges in
// ONE request - the 32 first-level sub-ranges of the hash space with their elements, plus the whole
// space as a hash-only range - and compares every per-range answer with what the index itself returns
// for that range. "" = the answer describes the index.
func (s *rstore) wireRanges() string {
	var ranges []ldiff.Range
	const n = 32
	step := uint64(math.MaxUint64/n) + 1
	for i := uint64(0); i < n; i++ {
		to := (i+1)*step - 1
		if i == n-1 {
			to = math.MaxUint64
		}
		ranges = append(ranges, ldiff.Range{From: i * step, To: to, Elements: true})
	}
	ranges = append(ranges, ldiff.Range{From: 0, To: math.MaxUint64})
	req := &spacesyncproto.StoreDiffRequest{SpaceId: s.spaceId}
	for _, r := range ranges {
		req.Ranges = append(req.Ranges, &spacesyncproto.HeadSyncRange{From: r.From, To: r.To, Elements: r.Elements, Limit: uint32(r.Limit)})
	}
	resp, err := s.svc.HandleStoreDiffRequest(ctx, req)
	if err != nil {
		return "StoreDiff failed: " + err.Error()
	}
	want, err := s.st.InnerStorage().Diff().Ranges(ctx, ranges, nil)
	if err != nil {
		return "Ranges failed: " + err.Error()
	}
	if len(resp.Results) != len(want) {
		return fmt.Sprintf("%d results for %d ranges", len(resp.Results), len(want))
	}
	for i, w := range want {
		g := resp.Results[i]
		if string(g.Hash) != string(w.Hash) || int(g.Count) != w.Count || len(g.Elements) != len(w.Elements) {
			return fmt.Sprintf("range %d of %d: answer has count %d / %d elements, the index %d / %d", i, len(want), g.Count, len(g.Elements), w.Count, len(w.Elements))
		}
		for j, e := range w.Elements {
			if g.Elements[j].Id != e.Id || g.Elements[j].Head != e.Head {
				return fmt.Sprintf("range %d of %d: element %d of the answer is %s, the index holds %s there", i, len(want), j, short(g.Elements[j].Id), short(e.Id))
			}
		}
	}
	return ""
}

// freshHash is the hash a newly built index with exactly these elements advertises.
func freshHash(idx map[string]string) string {
	d := ldiff.New(32, 256)
	els := make([]ldiff.Element, 0, len(idx))
	for _, id := range sortedKeys(idx) {
		els = append(els, ldiff.Element{Id: id, Head: idx[id]})
	}
	d.Set(els...)
	return d.Hash()
}

// authentic evaluates the AuthenticOnly predicate of the property on one stored row, using only
// real crypto and the ground truth of the ACL history; "" = authentic.
func (s *rstore) authentic(kv innerstorage.KeyValue) string {
	inner := &spacesyncproto.StoreKeyInner{}
	if err := inner.UnmarshalVT(kv.Value.Value); err != nil {
		return "undecodable"
	}
	acc, err := crypto.UnmarshalEd25519PublicKeyProto(inner.Identity)
	if err != nil {
		return "undecodable-identity"
	}
	dev, err := crypto.UnmarshalEd25519PublicKeyProto(inner.Peer)
	if err != nil {
		return "undecodable-peer"
	}
	if ok, _ := acc.Verify(kv.Value.Value, kv.Value.IdentitySignature); !ok {
		return "account-signature"
	}
	if ok, _ := dev.Verify(kv.Value.Value, kv.Value.PeerSignature); !ok {
		return "device-signature"
	}
	if kv.KeyPeerId != inner.Key+"-"+dev.PeerId() {
		return "relabelled"
	}
	if inner.TimestampMicro < 0 {
		return "negative-timestamp"
	}
	if inner.TimestampMicro >= 1<<53 {
		return "unrepresentable-timestamp"
	}
	if kv.Key != inner.Key || kv.PeerId != dev.PeerId() || kv.Identity != acc.Account() || kv.TimestampMicro != inner.TimestampMicro {
		return "row-fields-differ-from-signed-bytes"
	}
	rec, known := s.w.recName[inner.AclHeadId]
	if !known || rec == "rX" || int(rec[1]-'0') > s.knows {
		return "unknown-acl-record"
	}
	accName := ""
	for n, k := range s.w.accounts {
		if k.GetPublic().Account() == acc.Account() {
			accName = n
		}
	}
	if !writerAt(accName, rec) {
		switch accName {
		case "R":
			return "reader-account"
		case "X":
			return "removed-writer"
		case "L":
			return "pre-membership"
		}
		return "not-a-writer"
	}
	return ""
}

// ---- the sync exchange through the real service, with harness-owned gates ----

// gateServer is the rpc front of a store (what the embedding application provides): it routes the
// two key-value rpcs to the real service. When an exchange is being stepped it parks the handler
//   - after the client has sent everything (compare done, pushes read and sent)       -> "started"
//   - after the handler returned (requested values read and sent, pushed values applied) -> "served"
//
// and holds the stream terminator back until released, so the client applies what it pulled only then.
type gateServer struct {
	spacesyncproto.DRPCSpaceSyncUnimplementedServer
	s  *rstore
	mu sync.Mutex
	ex *exchange
}

type exchange struct {
	reached chan string   // gate announcements
	resume  chan struct{} // one token per gate
	sent    []string      // ids the server streamed back, in order
	pushed  []string      // ids the client pushed
	asked   []string      // ids the client asked for
	srvErr  error
	done    chan struct{} // client side finished (connection released)
	stepped bool
}

func (g *gateServer) StoreDiff(ctx context.Context, req *spacesyncproto.StoreDiffRequest) (*spacesyncproto.StoreDiffResponse, error) {
	return g.s.svc.HandleStoreDiffRequest(ctx, req)
}

func (g *gateServer) StoreElements(stream spacesyncproto.DRPCSpaceSync_StoreElementsStream) error {
	first, err := stream.Recv()
	if err != nil {
		return err
	}
	if first.SpaceId == "" {
		return errors.New("verif: first message carries no space id")
	}
	g.mu.Lock()
	ex := g.ex
	g.mu.Unlock()
	if ex == nil {
		return g.s.svc.HandleStoreElementsRequest(stream.Context(), stream)
	}
	gs := &gstream{DRPCSpaceSync_StoreElementsStream: stream, ex: ex}
	err = g.s.svc.HandleStoreElementsRequest(stream.Context(), gs)
	ex.srvErr = err
	if ex.stepped {
		ex.reached <- "served"
		<-ex.resume
	}
	// the real handler sends the terminator before it applies the pushed values: a failure of
	// that SetRaw must not keep the terminator from the client
	if gs.term != nil {
		if sendErr := stream.Send(gs.term); err == nil {
			err = sendErr
		}
	}
	return err
}

type gstream struct {
	spacesyncproto.DRPCSpaceSync_StoreElementsStream
	ex   *exchange
	term *spacesyncproto.StoreKeyValue
}

func (s *gstream) Recv() (*spacesyncproto.StoreKeyValue, error) {
	m, err := s.DRPCSpaceSync_StoreElementsStream.Recv()
	if err != nil {
		return m, err
	}
	switch {
	case m.KeyPeerId == "":
		if s.ex.stepped {
			s.ex.reached <- "started"
			<-s.ex.resume
		}
	case m.Value != nil:
		s.ex.pushed = append(s.ex.pushed, m.KeyPeerId)
	default:
		s.ex.asked = append(s.ex.asked, m.KeyPeerId)
	}
	return m, nil
}

func (s *gstream) Send(m *spacesyncproto.StoreKeyValue) error {
	if m.KeyPeerId == "" {
		s.term = m
		return nil
	}
	s.ex.sent = append(s.ex.sent, m.KeyPeerId)
	return s.DRPCSpaceSync_StoreElementsStream.Send(m)
}

// donePeer tells when the client side of an exchange has finished: syncWithPeer releases the
// connection (deferred) after its last SetRaw.
type donePeer struct {
	peer.Peer
	ex *exchange
}

func (p *donePeer) ReleaseDrpcConn(ctx context.Context, conn drpc.Conn) {
	p.Peer.ReleaseDrpcConn(ctx, conn)
	close(p.ex.done)
	go func() { _ = p.Peer.Close() }() // one connection pair per exchange: do not let them pile up
}

// startExchange lets store c (client) sync with store srv. stepped=false: runs to completion.
func startExchange(c, srv *rstore, stepped bool) (*exchange, error) {
	ex := &exchange{reached: make(chan string, 1), resume: make(chan struct{}, 1), done: make(chan struct{}), stepped: stepped}
	srv.gate.mu.Lock()
	srv.gate.ex = ex
	srv.gate.mu.Unlock()
	p, err := srv.server.Dial(c.w.peerId(c.dev) + fmt.Sprint(spaceSeq.Add(1)))
	if err != nil {
		return nil, err
	}
	if err = c.svc.SyncWithPeer(&donePeer{Peer: p, ex: ex}); err != nil {
		return nil, err
	}
	return ex, nil
}
