package kv

// TestRecord: random runs on three real stores (random multisets of valid and mutated values
// arriving in random order, grouping and repetition; local Sets; stepped sync exchanges with other
// actions in between; storage faults). Every step is checked by the Go oracles and written as one
// NDJSON event that spec/kv/KeyValueTrace.tla validates.

import (
	"fmt"
	"math/rand"
	"os"
	"path/filepath"
	"sort"
	"testing"

	"verifharness/vfutil"
)

var recordCfg = map[string]storeCfg{
	"s1": {Acc: "W", Dev: "d1", Knows: 3},
	"s2": {Acc: "W", Dev: "d2", Knows: 3},
	"s3": {Acc: "R", Dev: "d3", Knows: 4},
}

type event struct {
	Ev    string             `json:"ev"`
	S     string             `json:"s"`
	Key   string             `json:"key"`
	Peer  string             `json:"peer"`
	Batch []mval             `json:"batch"`
	Fault fault              `json:"fault"`
	Ok    bool               `json:"ok"`
	St    map[string]evState `json:"st,omitempty"`
}

type evState struct {
	Vals    lmap[mval]  `json:"vals"`
	Index   lmap[int64] `json:"index"`
	EntryOk bool        `json:"entryOk"`
	Clock   int         `json:"clock"`
}

// randomUniverse: values over keys k1..k3 x devices d1..d3 with distinct timestamps per slot,
// about a third of them mutated in one of the ways the property quantifies over.
func randomUniverse(rnd *rand.Rand, n int) []mval {
	keys := []string{"k1", "k2", "k3"}
	devs := []string{"d1", "d2", "d3"}
	usedTs := map[string]bool{}
	var u []mval
	for len(u) < n {
		k, d := keys[rnd.Intn(len(keys))], devs[rnd.Intn(len(devs))]
		var ts int64
		if rnd.Intn(2) == 0 {
			ts = int64(1 + rnd.Intn(9)) // past of every local Set
		} else {
			ts = int64(20 + rnd.Intn(60)) // future of every local Set
		}
		v := mval{Key: k, Dev: d, Ts: ts, Acc: "W", Rec: "r1", SigDev: true, SigAcc: true, Label: k + "|" + d}
		switch rnd.Intn(16) {
		case 0:
			v.Acc, v.Rec = "O", "r0"
		case 1:
			v.Acc, v.Rec = "X", "r1"
		case 2:
			v.Rec = "r2"
		case 3:
			v.Label = keys[rnd.Intn(3)] + "|" + devs[rnd.Intn(3)] // maybe re-filed
			if rnd.Intn(2) == 0 {
				// re-filed under a slot whose name is structurally related to the signed one (the label is a free
				// string): key extended, extended by separator + key, truncated
				v.Label = []string{k + "x", k + "-" + keys[rnd.Intn(3)], k[:1]}[rnd.Intn(3)] + "|" + d
			}
		case 4:
			v.SigDev = false
		case 5:
			v.SigAcc = false
		case 6:
			v.SigDev, v.SigAcc, v.Mut = false, false, "flip"
		case 7:
			v.Acc = "R"
		case 8:
			v.Acc, v.Rec = "X", "r2"
		case 9:
			v.Acc, v.Rec = "L", []string{"r1", "r2", "r3"}[rnd.Intn(3)] // authentic only at r3, only for a store holding r3
		case 10:
			v.Rec = []string{"rX", "r3"}[rnd.Intn(2)]
		case 11:
			if rnd.Intn(2) == 0 {
				v.Ts = tsNeg
			} else {
				v.Ts = tsHuge + int64(rnd.Intn(2))
			}
		}
		if usedTs[fmt.Sprintf("%s/%d", v.slotInside(), v.Ts)] || usedTs[fmt.Sprintf("%s/%d", v.Label, v.Ts)] {
			continue
		}
		usedTs[fmt.Sprintf("%s/%d", v.slotInside(), v.Ts)] = true
		usedTs[fmt.Sprintf("%s/%d", v.Label, v.Ts)] = true
		u = append(u, v)
	}
	return u
}

func randomFault(rnd *rand.Rand, writes bool) fault {
	if !writes || rnd.Intn(6) != 0 {
		return fault{Point: "none"}
	}
	pts := []string{"begin", "find", "upsert", "heads", "commit"}
	return fault{Point: pts[rnd.Intn(len(pts))], Nth: 1}
}

func TestRecord(t *testing.T) {
	rep := vfutil.NewReport("C12")
	defer func() { rep.Save(!t.Failed() || rep.NumViolations() > 0) }()
	if _, ok := vfutil.ReplayFile(); ok {
		t.Skip("replay runs through TestReplay")
	}
	rnd := vfutil.Rand()
	path := os.Getenv("VERIF_TRACE_OUT")
	if path == "" {
		path = filepath.Join(t.TempDir(), "trace.ndjson")
	}
	tw := vfutil.NewTraceWriter(path)
	defer tw.Close()
	w, err := newWorld("d1", "d2", "d3")
	if err != nil {
		t.Fatal(err)
	}
	dbs := openDBs(t, "s1", "s2", "s3")
	names := []string{"s1", "s2", "s3"}
	runs := vfutil.EnvInt("VERIF_RUNS", 20)
	stepsPerRun := vfutil.EnvInt("VERIF_STEPS", 30)
	acts := map[string]int{}
	for ri := 0; ri < runs; ri++ {
		dbs = recycleDBs(t, dbs, ri)
		r, err := newRun(w, dbs, recordCfg, rep)
		if err != nil {
			t.Fatal(err)
		}
		tw.Emit(event{Ev: "Reset", Fault: fault{Point: "none"}, Batch: []mval{}})
		uni := randomUniverse(rnd, 12+rnd.Intn(20))
		phase := "" // exchange phase
		emit := func(st step, res stepResult, states map[string]stState) {
			ev := event{Ev: st.Act, S: st.S, Key: st.Key, Peer: st.Peer, Batch: st.Batch, Fault: st.Fault, Ok: res.Ok, St: map[string]evState{}}
			if ev.Batch == nil {
				ev.Batch = []mval{}
			}
			for _, n := range names {
				s := states[n]
				ev.St[n] = evState{Vals: s.Vals, Index: s.Index, EntryOk: s.EntryOk, Clock: r.locals[n]}
			}
			tw.Emit(ev)
		}
		for si := 0; si < stepsPerRun && !r.failed; si++ {
			var st step
			// while an exchange is in progress, mostly continue it
			if phase != "" && rnd.Intn(3) != 0 {
				switch phase {
				case "started":
					st = step{Act: "ExchServe", S: r.exR, Peer: r.exC, Fault: randomFault(rnd, len(r.ex.pushed) > 0)}
					if st.Fault.Point == "find" || st.Fault.Point == "upsert" {
						st.Fault.Point = "commit" // whether the pushed values reach find/upsert depends on the index; commit is always reached
					}
					phase = "served"
				case "served":
					st = step{Act: "ExchApply", S: r.exC, Peer: r.exR, Fault: randomFault(rnd, len(r.ex.sent) > 0)}
					if st.Fault.Point == "find" || st.Fault.Point == "upsert" {
						st.Fault.Point = "begin"
					}
					phase = "done"
				case "done":
					st = step{Act: "ExchFinish", S: r.exC, Peer: r.exR, Fault: fault{Point: "none"}}
					phase = ""
				}
			} else {
				s := names[rnd.Intn(3)]
				switch k := rnd.Intn(10); {
				case k < 6:
					n := 1 + rnd.Intn(4)
					b := make([]mval, n)
					for i := range b {
						b[i] = uni[rnd.Intn(len(uni))]
					}
					if rnd.Intn(4) == 0 {
						// a ladder: the values of one slot in ascending order (all upserted by one transaction)
						lab := uni[rnd.Intn(len(uni))].Label
						b = b[:0]
						for _, v := range uni {
							if v.Label == lab && len(b) < 4 {
								b = append(b, v)
							}
						}
						sort.Slice(b, func(i, j int) bool { return b[i].Ts < b[j].Ts })
					}
					st = step{Act: "PushBatch", S: s, Batch: b, Fault: randomFault(rnd, true)}
					if st.Fault.Point == "find" || st.Fault.Point == "upsert" {
						st.Fault.Point = "heads"
					}
				case k < 8 && r.locals[s] < localSpan:
					st = step{Act: "LocalSet", S: s, Key: []string{"k1", "k2", "k3"}[rnd.Intn(3)], Fault: randomFault(rnd, true)}
					if recordCfg[s].Acc == "R" {
						st.Act, st.Fault = "LocalSetDenied", fault{Point: "none"}
					}
				case k == 8 && (r.ex == nil || (s != r.exC && s != r.exR)):
					st = step{Act: "Restart", S: s, Fault: fault{Point: "none"}}
				case phase == "":
					p := names[rnd.Intn(3)]
					if p == s {
						continue
					}
					st = step{Act: "ExchStart", S: s, Peer: p, Fault: fault{Point: "none"}}
					phase = "started"
				default:
					continue
				}
			}
			// a fault on a batch that writes nothing cannot fire: the spec disables it, so does the driver
			if st.Act == "PushBatch" && st.Fault.Point != "none" && !r.wouldWrite(st.S, st.Batch) {
				st.Fault = fault{Point: "none"}
			}
			states, res := r.exec(st)
			acts[st.Act]++
			rep.AddSteps(1)
			if r.harness != nil {
				r.drain()
				t.Fatalf("run %d step %d (%s): harness: %v", ri, si, st.Act, r.harness)
			}
			if r.failed {
				break
			}
			if st.Fault.Point != "none" && !res.Fired {
				st.Fault = fault{Point: "none"} // the armed fault was not reached: the call ran without one
			} else if res.Note != "" {
				rep.DriftNote("run %d step %d %s: %s", ri, si, st.Act, res.Note)
			}
			emit(st, res, states)
		}
		r.drain()
		if r.harness != nil {
			t.Fatalf("run %d: harness: %v", ri, r.harness)
		}
		rep.Case(fmt.Sprintf("run-%d-%d", vfutil.Seed(), ri))
		rep.AddReplayed(1)
		if ri == 0 {
			rep.Sample(map[string]any{"recorded_run": 0, "universe": len(uni), "first_steps": r.done[:min(3, len(r.done))]})
		}
	}
	rep.SetExtra("trace_events", tw.Len())
	rep.SetExtra("record_actions", acts)
}

// wouldWrite: does the batch contain an element SetRaw will hand to the storage (so that a storage
// fault can fire)? Mirrors the filters of the repaired SetRaw on model values.
func (r *run) wouldWrite(s string, b []mval) bool {
	st, _, err := r.state(s)
	if err != nil {
		return false
	}
	for _, v := range b {
		if !v.SigDev || !v.SigAcc || v.Label != v.slotInside() || v.Ts < 0 || v.Ts >= tsHuge {
			continue
		}
		if v.Rec == "rX" || int(v.Rec[1]-'0') > r.cfg[s].Knows-1 || !writerAt(v.Acc, v.Rec) {
			continue
		}
		if cur, ok := st.Index[v.Label]; ok && cur >= v.Ts {
			continue
		}
		return true
	}
	return false
}
