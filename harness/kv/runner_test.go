package kv

// runner_test.go: executes the actions of spec/kv/KeyValue.tla on real stores - one call per spec
// action - and evaluates the predicates of property C12 on what the real stores show afterwards.
// Used by the replay of TLC-generated behaviours (replay_test.go) and by the random recorder whose
// traces KeyValueTrace.tla validates (record_test.go).

import (
	"bytes"
	"encoding/binary"
	"encoding/json"
	"errors"
	"fmt"
	"sort"
	"strings"
	"time"

	"github.com/anyproto/any-sync/commonspace/object/acl/list"
	"github.com/anyproto/any-sync/commonspace/object/keyvalue/keyvaluestorage/innerstorage"
	"github.com/anyproto/any-sync/commonspace/spacesyncproto"
	"github.com/anyproto/any-sync/commonspace/sync/objectsync/objectmessages"

	"verifharness/vfutil"
)

// lmap is a TLC function with a string domain; TLC writes the empty one as [].
type lmap[T any] map[string]T

func (m *lmap[T]) UnmarshalJSON(b []byte) error {
	if bytes.Equal(bytes.TrimSpace(b), []byte("[]")) {
		*m = lmap[T]{}
		return nil
	}
	var x map[string]T
	if err := json.Unmarshal(b, &x); err != nil {
		return err
	}
	*m = x
	return nil
}

func (m lmap[T]) MarshalJSON() ([]byte, error) {
	if m == nil {
		return []byte("{}"), nil
	}
	return json.Marshal(map[string]T(m))
}

type fault struct {
	Point string `json:"point"`
	Nth   int    `json:"nth"`
}

type expState struct {
	Vals    map[string]lmap[mval]  `json:"vals"`
	Index   map[string]lmap[int64] `json:"index"`
	EntryOk map[string]bool        `json:"entryOk"`
}

type step struct {
	Act   string    `json:"act"`
	S     string    `json:"s"`
	Key   string    `json:"key"`
	Batch []mval    `json:"batch"`
	Fault fault     `json:"fault"`
	Peer  string    `json:"peer"`
	Exp   *expState `json:"exp,omitempty"`
}

type storeCfg struct {
	Acc   string `json:"acc"`
	Dev   string `json:"dev"`
	Knows int    `json:"knows"` // number of ACL records held (r0..r<knows-1>)
}

type behaviour struct {
	Spec      string              `json:"spec"`
	Stores    map[string]storeCfg `json:"stores"`
	LocalBase int64               `json:"localBase"`
	Steps     []step              `json:"steps"`
}

// ---- a run: the real stores of one behaviour plus the history the oracles need ----

type stState struct {
	Vals    lmap[mval]  `json:"vals"`
	Index   lmap[int64] `json:"index"`
	EntryOk bool        `json:"entryOk"`
}

type run struct {
	w        *world
	dbs      map[string]*dbHandle
	cfg      map[string]storeCfg
	stores   map[string]*rstore
	received map[string]map[string]mval // authentic values delivered by successful calls
	locals   map[string]int             // local Sets attempted per store
	localBy  map[string]mval            // real value bytes -> model value of a local Set
	localTs  map[int64]int64            // real ts of a local value -> model ts
	ex       *exchange
	exC, exR string
	exPhase  string // "started", "served", "done"
	pushes   int
	exClean  bool
	exCSnap  map[string]innerstorage.KeyValue
	exRSnap  map[string]innerstorage.KeyValue
	rep      *vfutil.Report
	done     []step // executed steps (replay object of a violation)
	failed   bool   // a violation was reported for this run
	failMsg  string
	harness  error // the harness itself broke
}

func newRun(w *world, dbs map[string]*dbHandle, cfg map[string]storeCfg, rep *vfutil.Report) (*run, error) {
	r := &run{w: w, dbs: dbs, cfg: cfg, stores: map[string]*rstore{}, received: map[string]map[string]mval{},
		locals: map[string]int{}, localBy: map[string]mval{}, localTs: map[int64]int64{}, rep: rep}
	sp := freshSpaceId()
	for _, n := range sortedKeys(cfg) {
		c := cfg[n]
		st, err := newStore(w, dbs[n], sp, n, c.Acc, c.Dev, c.Knows-1)
		if err != nil {
			return nil, err
		}
		r.stores[n] = st
		r.received[n] = map[string]mval{}
	}
	return r, nil
}

func (r *run) replayObj() any {
	return behaviour{Spec: "KeyValue", Stores: r.cfg, LocalBase: localBase, Steps: r.done}
}

func (r *run) violate(key, desc string) {
	r.failed = true
	r.failMsg = key + ": " + desc
	r.rep.Violate(key, desc, r.replayObj())
}

// authenticM: may store s hold the model value (ground truth of the cast)?
func (r *run) authenticM(s string, v mval) bool {
	if !v.SigDev || !v.SigAcc || v.Label != v.slotInside() {
		return false
	}
	if v.Rec == "rX" || int(v.Rec[1]-'0') > r.cfg[s].Knows-1 || !writerAt(v.Acc, v.Rec) {
		return false
	}
	return v.Ts >= 0 && v.Ts < tsHuge
}

func rnd(ts int64) int64 { // the row field is a float64
	if ts >= tsHuge && ts%2 == 1 {
		return ts + 1
	}
	return ts
}

// identify maps a real row to the model value it is
func (r *run) identify(kv innerstorage.KeyValue) (mval, bool) {
	k := string(kv.Value.Value) + "|" + string(kv.Value.PeerSignature) + "|" + string(kv.Value.IdentitySignature)
	if v, ok := r.w.lookup(k); ok {
		v.Label = r.w.labelOf(kv.KeyPeerId)
		return v, true
	}
	if v, ok := r.localBy[k]; ok {
		return v, true
	}
	return mval{}, false
}

// state projects a real store to the model's terms
func (r *run) state(s string) (stState, obs, error) {
	o, err := r.stores[s].observe()
	if err != nil {
		return stState{}, o, err
	}
	st := stState{Vals: lmap[mval]{}, Index: lmap[int64]{}}
	for id, kv := range o.Docs {
		v, ok := r.identify(kv)
		if !ok {
			return st, o, fmt.Errorf("store %s holds a row the harness never made: %s", s, id)
		}
		st.Vals[r.w.labelOf(id)] = v
	}
	for id, head := range o.Index {
		st.Index[r.w.labelOf(id)] = r.modelTs(head)
	}
	st.EntryOk = len(o.HeadEntry) == 1 && o.HeadEntry[0] == o.Hash
	return st, o, nil
}

func (r *run) modelTs(head string) int64 {
	if len(head) != 8 {
		return -999
	}
	real := int64(binary.BigEndian.Uint64([]byte(head)))
	if m, ok := r.localTs[real]; ok {
		return m
	}
	if m, ok := r.w.tsBack(real); ok {
		return m
	}
	return -998
}

// ---- the oracles of C12, evaluated on observations of the real store s ----

func (r *run) check(s, after string) (stState, bool) {
	st, o, err := r.state(s)
	if err != nil {
		r.harness = err
		return st, false
	}
	rs := r.stores[s]
	// AuthenticOnly
	for _, id := range sortedKeys(o.Docs) {
		if why := rs.authentic(o.Docs[id]); why != "" {
			v, _ := r.identify(o.Docs[id])
			r.violate("stored-unauthentic:"+why, fmt.Sprintf("store %s holds under %s a value that must not be stored (%s): %s [after %s]",
				s, r.w.labelOf(id), why, v.name(), after))
			return st, false
		}
	}
	if o.IterErr != "" {
		r.violate("iterate-differs-from-collection", o.IterErr)
		return st, false
	}
	// IndexMatchesStore: the advertised index, its hash and the heads entry describe the rows
	want := map[string]string{}
	for id, kv := range o.Docs {
		want[id] = beHead(kv.TimestampMicro)
	}
	if d := diffMaps(want, o.Index); d != "" {
		r.violate("index-differs-from-store:"+afterClass(after), fmt.Sprintf("store %s: advertised index and stored rows differ (%s) [after %s]", s, d, after))
		return st, false
	}
	if o.Hash != freshHash(o.Index) {
		r.violate("index-hash-not-canonical:"+afterClass(after), fmt.Sprintf("store %s: advertised hash differs from the hash of a fresh index with the same elements [after %s]", s, after))
		return st, false
	}
	if len(o.HeadEntry) != 1 || o.HeadEntry[0] != o.Hash {
		r.violate("heads-entry-differs-from-index:"+afterClass(after), fmt.Sprintf("store %s: heads entry %v, advertised hash %s [after %s]", s, o.HeadEntry, o.Hash, after))
		return st, false
	}
	// ... the index as it is served to peers (several ranges in one StoreDiff request) is the index
	if d := rs.wireRanges(); d != "" {
		r.violate("diff-answer-differs-from-index", fmt.Sprintf("store %s: the StoreDiff answer for 32 element ranges + 1 hash range in one request does not describe the index: %s [after %s]", s, d, after))
		return st, false
	}
	// ... and so does what the head-storage observers (the space-level head sync) were last told
	if o.Observed != nil && (len(o.Observed) != 1 || o.Observed[0] != o.Hash) {
		key := "observers-heads-differ:" + afterClass(after)
		if strings.Contains(after, "fault=commit") {
			key = "observers-told-uncommitted-heads"
		}
		// reported, but the run goes on: re-align the observer's view so that only this step is blamed
		r.rep.Violate(key, fmt.Sprintf("store %s: the head-storage observers were last told heads %v for the store id, the committed heads entry is %v [after %s]",
			s, o.Observed, o.HeadEntry, after), r.replayObj())
		rs.h.obs.mu.Lock()
		rs.h.obs.last[rs.storageId] = append([]string(nil), o.HeadEntry...)
		rs.h.obs.mu.Unlock()
	}
	// LWW: contents = best of the authentic values delivered by successful calls
	best := map[string]mval{}
	for _, v := range r.received[s] {
		if b, ok := best[v.Label]; !ok || v.Ts > b.Ts {
			best[v.Label] = v
		}
	}
	for _, l := range sortedKeys(best) {
		got, ok := st.Vals[l]
		if !ok {
			r.violate("lww-value-missing", fmt.Sprintf("store %s holds nothing under %s although it was given %s [after %s]", s, l, best[l].name(), after))
			return st, false
		}
		if got.name() != best[l].name() {
			r.violate("lww-not-greatest", fmt.Sprintf("store %s holds %s under %s, the greatest authentic value it was given is %s [after %s]", s, got.name(), l, best[l].name(), after))
			return st, false
		}
	}
	for _, l := range sortedKeys(st.Vals) {
		if _, ok := best[l]; !ok {
			r.violate("lww-value-never-given", fmt.Sprintf("store %s holds %s under %s, no successful call delivered an authentic value for that slot [after %s]", s, st.Vals[l].name(), l, after))
			return st, false
		}
	}
	return st, true
}

func afterClass(after string) string {
	if i := strings.Index(after, " "); i > 0 {
		return after[:i]
	}
	return after
}

func diffMaps(a, b map[string]string) string {
	var d []string
	for k, v := range a {
		if w, ok := b[k]; !ok {
			d = append(d, "row "+short(k)+" not in index")
		} else if w != v {
			d = append(d, fmt.Sprintf("row %s ts %x index %x", short(k), v, w))
		}
	}
	for k := range b {
		if _, ok := a[k]; !ok {
			d = append(d, "index element "+short(k)+" has no row")
		}
	}
	sort.Strings(d)
	return strings.Join(d, "; ")
}

func short(s string) string {
	if len(s) > 14 {
		return s[:14]
	}
	return s
}

// ---- the actions ----

func (r *run) touch(s string) {
	if r.ex != nil && (s == r.exC || s == r.exR) {
		r.exClean = false
	}
}

func (r *run) arm(s string, f fault) {
	if f.Point != "none" && f.Point != "" {
		r.dbs[s].db.f.arm(f.Point, f.Nth)
	}
}

// disarm reports whether an armed fault fired
func (r *run) disarm(s string, f fault) bool {
	if f.Point != "none" && f.Point != "" {
		return r.dbs[s].db.f.disarm()
	}
	return false
}

type stepResult struct {
	Ok    bool   // the call reported success
	Fired bool   // the injected fault fired
	Note  string // drift note
}

func (r *run) pushBatch(s string, batch []mval, f fault) stepResult {
	r.touch(s)
	protos := make([]*spacesyncproto.StoreKeyValue, 0, len(batch))
	for _, v := range batch {
		protos = append(protos, r.w.render(v))
	}
	before, _, _ := r.state(s)
	r.arm(s, f)
	// alternately through the storage API and through the service's head-update handler (the wire
	// form: marshalled StoreKeyValues inside an object-sync head update)
	var err error
	r.pushes++
	if r.pushes%2 == 0 {
		err = r.stores[s].st.SetRaw(ctx, protos...)
	} else {
		raw, merr := (&spacesyncproto.StoreKeyValues{KeyValues: protos}).MarshalVT()
		if merr != nil {
			r.harness = merr
			return stepResult{}
		}
		err = r.stores[s].svc.HandleMessage(ctx, &objectmessages.HeadUpdate{Bytes: raw})
	}
	fired := r.disarm(s, f)
	res := stepResult{Ok: err == nil, Fired: fired}
	if err == nil {
		for _, v := range batch {
			if r.authenticM(s, v) {
				r.received[s][v.name()] = v
			}
		}
	} else {
		r.failedWriteUnchanged(s, before, "PushBatch "+f.Point)
	}
	if (f.Point != "none" && f.Point != "") != fired {
		res.Note = fmt.Sprintf("fault %v fired=%v", f, fired)
	}
	if err != nil && !fired {
		res.Note = "SetRaw failed without an injected fault: " + err.Error()
	}
	return res
}

// a failed call must leave the rows as they were
func (r *run) failedWriteUnchanged(s string, before stState, after string) {
	now, _, err := r.state(s)
	if err != nil {
		r.harness = err
		return
	}
	if fmt.Sprint(namesOf(before.Vals)) != fmt.Sprint(namesOf(now.Vals)) {
		r.violate("failed-write-changed-rows", fmt.Sprintf("store %s: a call that reported an error changed the stored rows: %v -> %v [after %s]", s, namesOf(before.Vals), namesOf(now.Vals), after))
	}
}

func namesOf(m lmap[mval]) []string {
	var res []string
	for _, l := range sortedKeys(m) {
		res = append(res, l+"="+m[l].name())
	}
	return res
}

func (r *run) localSet(s, key string, f fault) stepResult {
	r.touch(s)
	st := r.stores[s]
	n := r.locals[s]
	r.locals[s]++
	before, _, _ := r.state(s)
	r.arm(s, f)
	err := st.st.Set(ctx, key, []byte(fmt.Sprintf("local-%s-%d", s, n)))
	fired := r.disarm(s, f)
	res := stepResult{Ok: err == nil, Fired: fired}
	c := r.cfg[s]
	v := mval{Key: key, Dev: c.Dev, Ts: localBase + int64(n), Acc: c.Acc, Rec: fmt.Sprintf("r%d", c.Knows-1), SigDev: true, SigAcc: true,
		Label: key + "|" + c.Dev, Mut: "local"}
	if err == nil {
		// find the row the Set made (it may have lost against a value from the future)
		id := r.w.keyPeerId(v.Label)
		if kv, e := st.st.InnerStorage().GetKeyPeerId(ctx, id); e == nil {
			if _, known := r.identify(kv); !known && kv.TimestampMicro > r.w.t0 && kv.TimestampMicro < r.w.t0+localWin {
				k := string(kv.Value.Value) + "|" + string(kv.Value.PeerSignature) + "|" + string(kv.Value.IdentitySignature)
				r.localBy[k] = v
				r.localTs[kv.TimestampMicro] = v.Ts
			}
		}
		if r.authenticM(s, v) {
			r.received[s][v.name()] = v
		}
	} else if fired {
		r.failedWriteUnchanged(s, before, "LocalSet "+f.Point)
	}
	if (f.Point != "none" && f.Point != "") != fired {
		res.Note = fmt.Sprintf("fault %v fired=%v", f, fired)
	}
	if err != nil && !fired && !(errors.Is(err, list.ErrInsufficientPermissions) && !writerAt(c.Acc, v.Rec)) {
		res.Note = "Set failed: " + err.Error()
	}
	// two local Sets of one store must not share a microsecond (the model gives them distinct timestamps)
	time.Sleep(2 * time.Microsecond)
	return res
}

func (r *run) waitGate(want string) error {
	select {
	case got := <-r.ex.reached:
		if got != want {
			return fmt.Errorf("exchange reached %q, expected %q", got, want)
		}
		return nil
	case <-r.ex.done:
		return fmt.Errorf("exchange ended before reaching %q (server error: %v)", want, r.ex.srvErr)
	case <-time.After(20 * time.Second):
		return fmt.Errorf("exchange did not reach %q within 20s", want)
	}
}

func (r *run) exchStart(c, srv string) stepResult {
	if r.ex != nil {
		r.harness = fmt.Errorf("exchange already in progress")
		return stepResult{}
	}
	oc, err := r.stores[c].observe()
	if err != nil {
		r.harness = err
		return stepResult{}
	}
	ex, err := startExchange(r.stores[c], r.stores[srv], true)
	if err != nil {
		r.harness = err
		return stepResult{}
	}
	r.ex, r.exC, r.exR, r.exClean, r.exCSnap, r.exPhase = ex, c, srv, true, oc.Docs, "started"
	if err = r.waitGate("started"); err != nil {
		r.harness = err
	}
	return stepResult{Ok: true}
}

func (r *run) exchServe(f fault) stepResult {
	if r.ex == nil {
		r.harness = fmt.Errorf("no exchange")
		return stepResult{}
	}
	or, err := r.stores[r.exR].observe()
	if err != nil {
		r.harness = err
		return stepResult{}
	}
	r.exRSnap = or.Docs
	before, _, _ := r.state(r.exR)
	r.arm(r.exR, f)
	r.ex.resume <- struct{}{}
	if err = r.waitGate("served"); err != nil {
		r.harness = err
		return stepResult{}
	}
	fired := r.disarm(r.exR, f)
	r.exPhase = "served"
	res := stepResult{Ok: r.ex.srvErr == nil, Fired: fired}
	if r.ex.srvErr == nil {
		for _, id := range r.ex.pushed {
			if v, ok := r.identify(r.exCSnap[id]); ok && r.authenticM(r.exR, v) {
				r.received[r.exR][v.name()] = v
			}
		}
	} else {
		r.exClean = false
		r.failedWriteUnchanged(r.exR, before, "ExchServe "+f.Point)
	}
	if (f.Point != "none" && f.Point != "") != fired {
		res.Note = fmt.Sprintf("fault %v fired=%v", f, fired)
	}
	if r.ex.srvErr != nil && !fired {
		res.Note = "handler failed without an injected fault: " + r.ex.srvErr.Error()
	}
	return res
}

func (r *run) exchApply(f fault) stepResult {
	if r.ex == nil {
		r.harness = fmt.Errorf("no exchange")
		return stepResult{}
	}
	before, _, _ := r.state(r.exC)
	r.arm(r.exC, f)
	r.ex.resume <- struct{}{}
	select {
	case <-r.ex.done:
	case <-time.After(20 * time.Second):
		r.harness = fmt.Errorf("exchange did not finish within 20s")
		return stepResult{}
	}
	fired := r.disarm(r.exC, f)
	r.exPhase = "done"
	res := stepResult{Ok: !fired, Fired: fired}
	if !fired {
		for _, id := range r.ex.sent {
			if v, ok := r.identify(r.exRSnap[id]); ok && r.authenticM(r.exC, v) {
				r.received[r.exC][v.name()] = v
			}
		}
	} else {
		r.exClean = false
		r.failedWriteUnchanged(r.exC, before, "ExchApply "+f.Point)
	}
	if (f.Point != "none" && f.Point != "") != fired {
		res.Note = fmt.Sprintf("fault %v fired=%v", f, fired)
	}
	return res
}

// exchFinish evaluates OneExchangeEqualises on the two real stores
func (r *run) exchFinish() {
	if r.ex == nil {
		return
	}
	c, srv, clean := r.exC, r.exR, r.exClean
	r.ex = nil
	if !clean {
		return
	}
	sc, oc, err1 := r.state(c)
	sr, or, err2 := r.state(srv)
	if err1 != nil || err2 != nil {
		return
	}
	for _, l := range sortedKeys(sr.Vals) {
		if v := sr.Vals[l]; r.authenticM(c, v) {
			if g, ok := sc.Vals[l]; !ok || g.Ts < v.Ts {
				r.violate("exchange-left-client-behind", fmt.Sprintf("after an undisturbed exchange %s->%s the server holds %s under %s, the client %v", c, srv, v.name(), l, g.name()))
				return
			}
		}
	}
	for _, l := range sortedKeys(sc.Vals) {
		if v := sc.Vals[l]; r.authenticM(srv, v) {
			if g, ok := sr.Vals[l]; !ok || g.Ts < v.Ts {
				r.violate("exchange-left-server-behind", fmt.Sprintf("after an undisturbed exchange %s->%s the client holds %s under %s, the server %v", c, srv, v.name(), l, g.name()))
				return
			}
		}
	}
	if r.cfg[c].Knows == r.cfg[srv].Knows && oc.Hash != or.Hash {
		r.violate("exchange-hashes-differ", fmt.Sprintf("after an undisturbed exchange %s->%s the advertised hashes differ", c, srv))
	}
}

// finishExchange: when a behaviour is abandoned (drift) in the middle of an exchange, the exchange is
// still run to its end without faults and the oracles - in particular OneExchangeEqualises - evaluated
func (r *run) finishExchange() {
	for i := 0; i < 3 && r.ex != nil && r.harness == nil && !r.failed; i++ {
		nf := fault{Point: "none"}
		switch r.exPhase {
		case "started":
			r.exec(step{Act: "ExchServe", S: r.exR, Peer: r.exC, Fault: nf})
		case "served":
			r.exec(step{Act: "ExchApply", S: r.exC, Peer: r.exR, Fault: nf})
		case "done":
			r.exec(step{Act: "ExchFinish", S: r.exC, Peer: r.exR, Fault: nf})
		}
	}
}

// drain lets an unfinished exchange run to its end (a behaviour may stop in the middle of one)
func (r *run) drain() {
	if r.ex == nil {
		return
	}
	for i := 0; i < 2; i++ {
		select {
		case r.ex.resume <- struct{}{}:
		default:
		}
		select {
		case <-r.ex.reached:
		case <-r.ex.done:
			r.ex = nil
			return
		case <-time.After(20 * time.Second):
			r.harness = fmt.Errorf("exchange did not drain")
			return
		}
	}
	select {
	case r.ex.resume <- struct{}{}:
	default:
	}
	select {
	case <-r.ex.done:
	case <-time.After(20 * time.Second):
		r.harness = fmt.Errorf("exchange did not drain")
	}
	r.ex = nil
}

// restart opens a new service over the same database and space id (keyvaluestorage.New on an existing
// collection rebuilds the index from the rows); the advertised hash must not change by that
func (r *run) restart(s string) stepResult {
	old := r.stores[s]
	before, err := old.observe()
	if err != nil {
		r.harness = err
		return stepResult{}
	}
	_ = old.svc.Close(ctx)
	c := r.cfg[s]
	st, err := newStore(r.w, r.dbs[s], old.spaceId, s, c.Acc, c.Dev, c.Knows-1)
	if err != nil {
		r.harness = err
		return stepResult{}
	}
	r.stores[s] = st
	after, err := st.observe()
	if err != nil {
		r.harness = err
		return stepResult{}
	}
	if after.Hash != before.Hash {
		r.violate("restart-changes-advertised-hash", fmt.Sprintf("store %s advertises hash %s before and %s after being reopened over the same rows", s, short(before.Hash), short(after.Hash)))
	}
	return stepResult{Ok: true}
}

// exec runs one step and the oracles; returns the projected states of all stores
func (r *run) exec(st step) (map[string]stState, stepResult) {
	r.done = append(r.done, step{Act: st.Act, S: st.S, Key: st.Key, Batch: st.Batch, Fault: st.Fault, Peer: st.Peer})
	var res stepResult
	desc := st.Act + " " + st.S
	switch st.Act {
	case "PushBatch":
		res = r.pushBatch(st.S, st.Batch, st.Fault)
	case "LocalSet", "LocalSetDenied":
		res = r.localSet(st.S, st.Key, st.Fault)
	case "ExchStart":
		res = r.exchStart(st.S, st.Peer)
	case "ExchServe":
		res = r.exchServe(st.Fault)
	case "ExchApply":
		res = r.exchApply(st.Fault)
	case "ExchFinish":
		r.exchFinish()
		res.Ok = true
	case "Restart":
		res = r.restart(st.S)
	default:
		r.harness = fmt.Errorf("unknown action %q", st.Act)
	}
	if st.Fault.Point != "none" && st.Fault.Point != "" {
		desc = "failed-write " + desc + " fault=" + st.Fault.Point
	}
	states := map[string]stState{}
	if r.harness != nil || r.failed {
		return states, res
	}
	for _, s := range sortedKeys(r.stores) {
		s2, ok := r.check(s, desc)
		states[s] = s2
		if !ok {
			break
		}
	}
	return states, res
}
