package kv

// TestLarge: the parts of C12 that need size rather than interleavings, on real stores:
//   - many slots (index buckets beyond the range-split threshold) delivered to several receivers in
//     random order, grouping and repetition: same rows, same advertised hash, hash = fresh hash;
//   - a pull larger than applyBatchSize (several SetRaw batches on the client) equalises;
//   - the design's pre-check: a small multiset of valid values to many receivers.

import (
	"fmt"
	"math/rand"
	"testing"
	"time"

	"github.com/anyproto/any-sync/commonspace/spacesyncproto"

	"verifharness/vfutil"
)

func shuffledBatches(rnd *rand.Rand, vals []mval, maxBatch int, repeat float64) [][]mval {
	seq := append([]mval(nil), vals...)
	for _, v := range vals {
		if rnd.Float64() < repeat {
			seq = append(seq, v)
		}
	}
	rnd.Shuffle(len(seq), func(i, j int) { seq[i], seq[j] = seq[j], seq[i] })
	var res [][]mval
	for len(seq) > 0 {
		n := 1 + rnd.Intn(maxBatch)
		if n > len(seq) {
			n = len(seq)
		}
		res = append(res, seq[:n])
		seq = seq[n:]
	}
	return res
}

func TestLarge(t *testing.T) {
	rep := vfutil.NewReport("C12")
	defer func() { rep.Save(!t.Failed() || rep.NumViolations() > 0) }()
	rnd := vfutil.Rand()
	w, err := newWorld("d1", "d2", "d3")
	if err != nil {
		t.Fatal(err)
	}
	dbs := openDBs(t, "s1", "s2", "s3")
	cfg := map[string]storeCfg{"s1": {"W", "d1", 3}, "s2": {"W", "d2", 3}, "s3": {"W", "d3", 3}}

	// (a) many slots, 2 timestamps each, three receivers
	slots := vfutil.EnvInt("VERIF_LARGE_SLOTS", vfutil.Tier(150, 9000))
	var vals []mval
	for i := 0; i < slots; i++ {
		k := fmt.Sprintf("key%05d", i)
		d := []string{"d1", "d2", "d3"}[i%3]
		for _, ts := range []int64{1 + int64(rnd.Intn(4)), 5 + int64(rnd.Intn(4))} {
			vals = append(vals, mval{Key: k, Dev: d, Ts: ts, Acc: "W", Rec: "r1", SigDev: true, SigAcc: true, Label: k + "|" + d})
		}
	}
	r, err := newRun(w, dbs, cfg, rep)
	if err != nil {
		t.Fatal(err)
	}
	t0 := time.Now()
	for _, s := range []string{"s1", "s2", "s3"} {
		for _, b := range shuffledBatches(rnd, vals, 40, 0.2) {
			protos := make([]*spacesyncproto.StoreKeyValue, 0, len(b))
			for _, v := range b {
				protos = append(protos, w.render(v))
				r.received[s][v.name()] = v
			}
			if err := r.stores[s].st.SetRaw(ctx, protos...); err != nil {
				t.Fatalf("SetRaw: %v", err)
			}
		}
	}
	r.done = []step{{Act: "Large", S: fmt.Sprintf("slots=%d seed=%d", slots, vfutil.Seed())}}
	var hashes []string
	for _, s := range []string{"s1", "s2", "s3"} {
		if _, ok := r.check(s, "Large many-slots"); !ok {
			break
		}
		o, _ := r.stores[s].observe()
		hashes = append(hashes, o.Hash)
	}
	if r.harness != nil {
		t.Fatal(r.harness)
	}
	if !r.failed && (hashes[0] != hashes[1] || hashes[1] != hashes[2]) {
		r.violate("same-values-different-hash", "three stores were given the same values in different order/grouping and advertise different hashes")
	}
	rep.Case(fmt.Sprintf("large-slots-%d", slots))
	rep.AddReplayed(3)
	rep.SetExtra("large_slots", slots)
	rep.SetExtra("large_seconds", int(time.Since(t0).Seconds()))

	// (b) one exchange between a server above the range-split threshold of the index (ldiff.New(32, 256):
	// more than 256 slots, so the comparison asks for the ELEMENTS of several sub-ranges in one request)
	// and a non-empty client that shares some slots (same, older and newer values) and holds slots of
	// its own; the pull exceeds applyBatchSize (several SetRaw batches on the client)
	r2, err := newRun(w, dbs, cfg, rep)
	if err != nil {
		t.Fatal(err)
	}
	mk := func(k string, ts int64) mval {
		return mval{Key: k, Dev: "d1", Ts: ts, Acc: "W", Rec: "r1", SigDev: true, SigAcc: true, Label: k + "|d1"}
	}
	var many, mine []mval
	for i := 0; i < 320; i++ {
		k := fmt.Sprintf("pull%03d", i)
		many = append(many, mk(k, 5))
		switch {
		case i < 15:
			mine = append(mine, mk(k, 5)) // the same value
		case i < 30:
			mine = append(mine, mk(k, 3)) // an older one
		case i < 45:
			mine = append(mine, mk(k, 8)) // a newer one
		}
	}
	for i := 0; i < 20; i++ {
		mine = append(mine, mk(fmt.Sprintf("only%03d", i), 4))
	}
	for _, b := range shuffledBatches(rnd, many, 30, 0) {
		if res := r2.pushBatch("s1", b, fault{Point: "none"}); !res.Ok {
			t.Fatal("push failed")
		}
	}
	for _, b := range shuffledBatches(rnd, mine, 30, 0) {
		if res := r2.pushBatch("s2", b, fault{Point: "none"}); !res.Ok {
			t.Fatal("push failed")
		}
	}
	before := r2.stores["s2"].sync.broadcasts.Load()
	// not stepped: with more than applyBatchSize values the client applies the first batches while the
	// server is still streaming, so the stores are observed only when the exchange is over
	ex, err := startExchange(r2.stores["s2"], r2.stores["s1"], false)
	if err != nil {
		t.Fatal(err)
	}
	select {
	case <-ex.done:
	case <-time.After(60 * time.Second):
		t.Fatal("exchange did not finish")
	}
	for _, v := range many {
		r2.received["s2"][v.name()] = v
	}
	for _, v := range mine {
		r2.received["s1"][v.name()] = v
	}
	r2.done = []step{{Act: "Large", S: fmt.Sprintf("slots=%d seed=%d", slots, vfutil.Seed())}, {Act: "Exchange", S: "s2", Peer: "s1"}}
	// OneExchangeEqualises on the real rows
	o1, e1 := r2.stores["s1"].observe()
	o2, e2 := r2.stores["s2"].observe()
	if e1 != nil || e2 != nil {
		t.Fatal(e1, e2)
	}
	lackC, lackS := 0, 0
	for id, d := range o1.Docs {
		if c, ok := o2.Docs[id]; !ok || c.TimestampMicro < d.TimestampMicro {
			lackC++
		}
	}
	for id, d := range o2.Docs {
		if c, ok := o1.Docs[id]; !ok || c.TimestampMicro < d.TimestampMicro {
			lackS++
		}
	}
	if lackC > 0 {
		r2.violate("exchange-left-client-behind", fmt.Sprintf("after one undisturbed exchange with a server holding %d slots (above the index split threshold) the client lacks %d of the server's values", len(o1.Docs), lackC))
	} else if lackS > 0 {
		r2.violate("exchange-left-server-behind", fmt.Sprintf("after one undisturbed exchange the server lacks %d of the client's %d values", lackS, len(o2.Docs)))
	}
	h := map[string]string{}
	for _, s := range []string{"s1", "s2"} {
		if r2.failed {
			break
		}
		if _, ok := r2.check(s, "Large multi-batch-pull"); !ok {
			break
		}
		o, _ := r2.stores[s].observe()
		h[s] = o.Hash
	}
	if r2.harness != nil {
		t.Fatal(r2.harness)
	}
	if !r2.failed && h["s1"] != h["s2"] {
		r2.violate("exchange-hashes-differ", "after one undisturbed exchange between a 320-slot server and a 65-slot client the advertised hashes differ")
	}
	if n := r2.stores["s2"].sync.broadcasts.Load() - before; !r2.failed && n != 3 {
		rep.DriftNote("a pull of 290 values was applied in %d SetRaw batches, the spec (ApplyBatch = 100) says 3", n)
	}
	rep.Case("multi-batch-pull")
	rep.AddReplayed(1)

	// (c) 12 valid values (2 accounts/devices x 2 keys x 3 timestamps) to many receivers
	var small []mval
	for _, k := range []string{"ka", "kb"} {
		for di, d := range []string{"d1", "d2"} {
			for _, ts := range []int64{2, 5, 8} {
				small = append(small, mval{Key: k, Dev: d, Ts: ts, Acc: []string{"W", "O"}[di], Rec: "r1", SigDev: true, SigAcc: true, Label: k + "|" + d})
			}
		}
	}
	receivers := vfutil.Tier(30, 150)
	ref := ""
	for i := 0; i < receivers; i++ {
		rr, err := newRun(w, dbs, map[string]storeCfg{"s1": cfg["s1"]}, rep)
		if err != nil {
			t.Fatal(err)
		}
		for _, b := range shuffledBatches(rnd, small, 5, 0.5) {
			rr.exec(step{Act: "PushBatch", S: "s1", Batch: b, Fault: fault{Point: "none"}})
			if rr.harness != nil {
				t.Fatal(rr.harness)
			}
			if rr.failed {
				break
			}
		}
		o, _ := rr.stores["s1"].observe()
		if ref == "" {
			ref = o.Hash
		} else if o.Hash != ref && !rr.failed {
			rr.violate("same-values-different-hash", "receivers of the same 12 values advertise different hashes")
		}
		rep.Case("receiver")
		rep.AddReplayed(1)
	}
}
