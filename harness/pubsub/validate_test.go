// Package pubsub (harness): the exported part of the C17 binding. The topic / pattern validators and
// the namespace-owner function of commonspace/pubsub are compared with the TLA+ definitions
// (ValidTopic, ValidPattern, Owner of spec/pubsub/PubSub.tla) for every string of the alphabet
// tabulated by TLC (spec/pubsub/PubSubMatch.tla). Everything that needs the engine's unexported
// state lives in harness/inpkg/pubsub (overlay test files inside the package).
package pubsub

import (
	"encoding/json"
	"fmt"
	"os"
	"strings"
	"testing"

	"github.com/anyproto/any-sync/commonspace/pubsub"

	"verifharness/vfutil"
)

type table struct {
	Valid  [][]json.RawMessage `json:"valid"`
	Owners [][]json.RawMessage `json:"owners"`
}

func TestValidate(t *testing.T) {
	rep := vfutil.NewReport("C17")
	defer func() { rep.Save(!t.Failed() || rep.NumViolations() > 0) }()
	b, err := os.ReadFile(os.Getenv("VERIF_MATCH_TABLE"))
	if err != nil {
		t.Fatal(err)
	}
	var tab table
	if err := json.Unmarshal(b, &tab); err != nil {
		t.Fatal(err)
	}
	if len(tab.Valid) == 0 {
		t.Fatal("empty table")
	}
	validTopic := map[string]bool{}
	for _, row := range tab.Valid {
		var segs []string
		var vt, vp bool
		if json.Unmarshal(row[0], &segs) != nil || json.Unmarshal(row[1], &vt) != nil || json.Unmarshal(row[2], &vp) != nil {
			t.Fatal("bad row")
		}
		s := strings.Join(segs, "/")
		validTopic[s] = vt
		rep.Case("validate|" + s)
		if got := pubsub.ValidateTopic(s) == nil; got != vt {
			kind := "accepts-malformed"
			if vt {
				kind = "rejects-wellformed"
			}
			rep.Violate("validate-topic:"+kind, fmt.Sprintf("ValidateTopic(%q) ok=%v, the statement says %v", s, got, vt), map[string]any{"match": true, "string": s})
		}
		if got := pubsub.ValidatePattern(s) == nil; got != vp {
			kind := "accepts-malformed"
			if vp {
				kind = "rejects-wellformed"
			}
			rep.Violate("validate-pattern:"+kind, fmt.Sprintf("ValidatePattern(%q) ok=%v, the statement says %v", s, got, vp), map[string]any{"match": true, "string": s})
		}
	}
	for _, row := range tab.Owners {
		var segs []string
		var owner string
		if json.Unmarshal(row[0], &segs) != nil || json.Unmarshal(row[1], &owner) != nil {
			t.Fatal("bad owner row")
		}
		s := strings.Join(segs, "/")
		if pubsub.ValidateTopic(s) != nil {
			continue
		}
		rep.Case("owner|" + s)
		if got := pubsub.TopicOwner(s); got != owner {
			rep.Violate("topic-owner", fmt.Sprintf("TopicOwner(%q) = %q, the statement says %q", s, got, owner), map[string]any{"match": true, "string": s})
		}
	}
	rep.Sample(map[string]any{"strings": len(tab.Valid), "owner_rows": len(tab.Owners)})
}
