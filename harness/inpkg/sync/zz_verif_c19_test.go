package sync

// C19, receive side as wired in commonspace/sync: HandleMessage (called from the stream pool's read
// loop) hands the message to a per-object bounded queue and must never wait for an object's handler:
// a stuck object neither blocks the stream's read loop nor delays other objects, the queue drops
// beyond its bound (silently: an error returned here would make the read loop close the stream), and
// per object the handler sees the messages in the order they arrived.
// Injected into the package with `go test -overlay` (uses the package's own test fixture types).

import (
	"context"
	"encoding/json"
	"fmt"
	"os"
	"regexp"
	"runtime"
	"strconv"
	"strings"
	gosync "sync"
	"testing"
	"time"

	"go.uber.org/mock/gomock"
	"storj.io/drpc"

	"github.com/anyproto/any-sync/app"
	"github.com/anyproto/any-sync/commonspace/peermanager"
	"github.com/anyproto/any-sync/commonspace/peermanager/mock_peermanager"
	"github.com/anyproto/any-sync/commonspace/spacestate"
	"github.com/anyproto/any-sync/commonspace/spacesyncproto"
	"github.com/anyproto/any-sync/commonspace/sync/syncdeps"
	"github.com/anyproto/any-sync/nodeconf"
	"github.com/anyproto/any-sync/nodeconf/mock_nodeconf"
	"github.com/anyproto/any-sync/testutil/accounttest"
	"github.com/anyproto/any-sync/testutil/anymock"
	"github.com/anyproto/any-sync/util/syncqueues"
)

type vfViolation struct {
	Key    string `json:"key"`
	Desc   string `json:"desc"`
	Replay any    `json:"replay"`
}

type vfReport struct {
	Property   string         `json:"property"`
	Cases      int            `json:"cases"`
	Distinct   int            `json:"distinct"`
	Replayed   int            `json:"replayed"`
	Steps      int            `json:"steps"`
	Drift      int            `json:"drift"`
	Violations []vfViolation  `json:"violations"`
	Samples    []any          `json:"samples"`
	Extra      map[string]any `json:"extra"`
	Complete   bool           `json:"complete"`
}

func (r *vfReport) save(complete bool) {
	r.Complete = complete
	b, _ := json.Marshal(r)
	if out := os.Getenv("VERIF_OUT"); out != "" {
		_ = os.WriteFile(out, b, 0o644)
	} else {
		fmt.Println(string(b))
	}
}

type vfMsg struct {
	obj string
	id  int
}

func (m *vfMsg) ObjectType() spacesyncproto.ObjectType { return spacesyncproto.ObjectType_Tree }
func (m *vfMsg) ObjectId() string                      { return m.obj }
func (m *vfMsg) MsgSize() uint64                       { return 1 }

// vfHandler: HandleHeadUpdate blocks at a gate per object.
type vfHandler struct {
	*testSyncHandler
	mu      gosync.Mutex
	cond    *gosync.Cond
	entered map[string][]int
	rel     map[string]int
	dead    bool
}

func (h *vfHandler) HandleHeadUpdate(ctx context.Context, headUpdate drpc.Message) (syncdeps.Request, error) {
	m := headUpdate.(*vfMsg)
	h.mu.Lock()
	h.entered[m.obj] = append(h.entered[m.obj], m.id)
	my := len(h.entered[m.obj])
	h.cond.Broadcast()
	for h.rel[m.obj] < my && !h.dead {
		h.cond.Wait()
	}
	h.mu.Unlock()
	return nil, nil
}

var vfReG = regexp.MustCompile(`(?m)^goroutine (\d+) \[([^\]]*)\]:$`)

func vfGid() int64 {
	buf := make([]byte, 64)
	n := runtime.Stack(buf, false)
	f := strings.Fields(string(buf[:n]))
	id, _ := strconv.ParseInt(f[1], 10, 64)
	return id
}

func vfState(gid int64) (string, string) {
	buf := make([]byte, 1<<20)
	n := runtime.Stack(buf, true)
	for _, blk := range strings.Split(string(buf[:n]), "\n\n") {
		m := vfReG.FindStringSubmatch(blk)
		if m == nil {
			continue
		}
		if id, _ := strconv.ParseInt(m[1], 10, 64); id == gid {
			return m[2], blk
		}
	}
	return "", ""
}

func vfParked(state string) bool {
	st := strings.Split(state, ",")[0]
	for _, p := range []string{"chan receive", "chan send", "select", "semacquire", "sync.Mutex.Lock", "sync.Cond.Wait"} {
		if strings.HasPrefix(st, p) {
			return true
		}
	}
	return false
}

// vfCall: fn must return although handlers are stuck; a goroutine parked inside the code is a hang.
func vfCall(fn func() error) (err error, hung string) {
	done := make(chan error, 1)
	gidCh := make(chan int64, 1)
	go func() {
		gidCh <- vfGid()
		done <- fn()
	}()
	gid := <-gidCh
	parked := 0
	deadline := time.Now().Add(2 * time.Minute)
	for {
		select {
		case e := <-done:
			return e, ""
		case <-time.After(time.Second):
		}
		st, stack := vfState(gid)
		if st != "" && vfParked(st) {
			parked++
			if parked >= 3 {
				return nil, stack
			}
		} else {
			parked = 0
		}
		if time.Now().After(deadline) {
			return nil, "timeout (goroutine state " + st + ")"
		}
	}
}

func TestVerifC19HandleMessage(t *testing.T) {
	rep := &vfReport{Property: "C19", Violations: []vfViolation{}, Samples: []any{}, Extra: map[string]any{}}
	defer func() { rep.save(!t.Failed() || len(rep.Violations) > 0) }()
	violate := func(key, desc string) {
		rep.Violations = append(rep.Violations, vfViolation{Key: key, Desc: desc, Replay: map[string]any{"kind": "sync-handlemessage"}})
	}

	// the package's fixture, with a gated handler
	a := &app.App{}
	ctrl := gomock.NewController(t)
	nc := mock_nodeconf.NewMockService(ctrl)
	h := &vfHandler{testSyncHandler: &testSyncHandler{toReceiveData: map[string][]*testResponse{}, toSendData: map[string][]*testResponse{},
		collector: &testResponseCollector{}}, entered: map[string][]int{}, rel: map[string]int{}}
	h.cond = gosync.NewCond(&h.mu)
	pm := mock_peermanager.NewMockPeerManager(ctrl)
	anymock.ExpectComp(pm.EXPECT(), peermanager.CName)
	anymock.ExpectComp(nc.EXPECT(), nodeconf.CName)
	nc.EXPECT().Configuration().Return(nodeconf.Configuration{}).AnyTimes()
	svc := &syncService{}
	a.Register(&accounttest.AccountTestService{}).Register(pm).Register(&spacestate.SpaceState{SpaceId: "spaceId"}).
		Register(nc).Register(syncqueues.New()).Register(svc).Register(h)
	if err := a.Start(context.Background()); err != nil {
		t.Fatal(err)
	}
	defer func() {
		h.mu.Lock()
		h.dead = true
		h.cond.Broadcast()
		h.mu.Unlock()
		_ = a.Close(context.Background())
	}()

	const bound = 100 // the queue size commonspace/sync configures
	waitEntered := func(obj string, n int) bool {
		deadline := time.Now().Add(2 * time.Minute)
		h.mu.Lock()
		defer h.mu.Unlock()
		for len(h.entered[obj]) < n {
			if time.Now().After(deadline) {
				return false
			}
			tm := time.AfterFunc(50*time.Millisecond, func() { h.mu.Lock(); h.cond.Broadcast(); h.mu.Unlock() })
			h.cond.Wait()
			tm.Stop()
		}
		return true
	}
	send := func(obj string, id int) bool {
		rep.Steps++
		err, hung := vfCall(func() error { return svc.HandleMessage(context.Background(), &vfMsg{obj: obj, id: id}) })
		if hung != "" {
			violate("sync-handlemessage-blocked", fmt.Sprintf("HandleMessage(%s #%d) does not return while the handler of an object is stuck (the stream's read loop would be blocked); parked at:\n%s", obj, id, hung))
			return false
		}
		if err != nil {
			violate("sync-handlemessage-error", fmt.Sprintf("HandleMessage(%s #%d) returned %v with the object's queue full: the read loop closes the stream for every object", obj, id, err))
			return false
		}
		return true
	}
	rep.Cases, rep.Distinct, rep.Replayed = 1, 1, 1

	// 1. o1's handler is stuck: 1 message in the handler, `bound` buffered, the rest dropped; no call waits
	for i := 1; i <= bound+6; i++ {
		if !send("o1", i) {
			return
		}
		if i == 1 && !waitEntered("o1", 1) {
			t.Fatal("the handler of o1 was never called")
		}
	}
	// 2. other objects are served meanwhile, in order
	for round := 1; round <= 3; round++ {
		for _, obj := range []string{"o2", "o3"} {
			if !send(obj, round) {
				return
			}
		}
	}
	for round := 1; round <= 3; round++ {
		for _, obj := range []string{"o2", "o3"} {
			if !waitEntered(obj, round) {
				violate("sync-isolation-undelivered", fmt.Sprintf("message #%d of %s is not handled while the handler of o1 is stuck", round, obj))
				return
			}
			h.mu.Lock()
			got := h.entered[obj][round-1]
			h.rel[obj] = round
			h.cond.Broadcast()
			h.mu.Unlock()
			if got != round {
				violate("sync-fifo-violated", fmt.Sprintf("%s: handler call %d carries message #%d", obj, round, got))
				return
			}
		}
	}
	// 3. o1 drains: exactly the first 1 + bound messages, in order
	for k := 1; k <= bound+1; k++ {
		if !waitEntered("o1", k) {
			violate("sync-lost-message", fmt.Sprintf("o1: message #%d was accepted (queue below its bound) but never handled", k))
			return
		}
		h.mu.Lock()
		got := h.entered["o1"][k-1]
		h.rel["o1"] = k
		h.cond.Broadcast()
		h.mu.Unlock()
		if got != k {
			violate("sync-fifo-violated", fmt.Sprintf("o1: handler call %d carries message #%d", k, got))
			return
		}
	}
	// nothing beyond the bound was buffered: a fresh message is the very next one the handler sees
	if !send("o1", 9999) {
		return
	}
	if !waitEntered("o1", bound+2) {
		violate("sync-lost-message", "o1: a message sent to the drained queue is never handled")
		return
	}
	h.mu.Lock()
	next := h.entered["o1"][bound+1]
	n := len(h.entered["o1"])
	h.mu.Unlock()
	if next != 9999 {
		violate("sync-queue-over-bound", fmt.Sprintf("o1: message #%d was buffered behind a stuck handler beyond the bound of %d", next, bound))
	}
	rep.Samples = append(rep.Samples, map[string]any{"o1_handled": n, "bound": bound})
}
