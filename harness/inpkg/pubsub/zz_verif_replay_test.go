package pubsub

// TestVerifReplay: every behaviour TLC emitted from PubSubGen.tla is executed on a real engine, one
// harness call per spec action, with the schedule TLC chose (subscribe parked before remoteMu,
// stream removed from the pool before its close hook runs, frames handled after the stream left
// the pool). After every step
//   (a) the property predicates of C17 are evaluated on what the real engine did (frames written to
//       the fake streams, handler invocations, the three views of interest, bookkeeping after
//       tear-down) - failures are violations;
//   (b) the projected real state / emissions are compared with what the spec predicts - differences
//       are drift (a defect of the specification, never a violation).

import (
	"context"
	"encoding/binary"
	"encoding/json"
	"errors"
	"fmt"
	"os"
	"sort"
	"strings"
	"testing"
	"time"

	"github.com/anyproto/any-sync/commonspace/pubsub/pubsubproto"
	"github.com/anyproto/any-sync/net/peer"
	"github.com/anyproto/any-sync/util/crypto"
)

type vReplayer struct {
	rep   *vfReport
	b     vBehaviour
	e     *vEngine
	rnd   func(n int) int
	drift bool

	universe []vTag
	// node role
	subWait   map[int]int  // model stream -> recvEntered value to wait for at Sub2
	parked     map[int]bool   // model streams with a subscribe in progress (parked at one of the gates)
	stage      map[int]string // where it is parked: "check" (before remoteMu.Lock), "tag" (at AddTagsCtx), "recheck" (second CheckMember)
	subDone    map[int]chan struct{}
	lockFree   bool           // the engine was seen not to hold remoteMu while parked at AddTagsCtx
	stashed    []string
	stashedObs any
	lockHolder int          // stream whose subscribe holds remoteMu in the spec (between Sub1 and Sub2)
	evicted    map[string]int // "account|space" -> step at which the account was evicted as a non-member
	checkedAt  map[int]int    // model stream -> step of its parked subscribe's membership check
	raceHeld   map[string]bool // "stream|space" whose interest was explained by the subscribe/eviction race
	hookPending map[int]bool
	laterFrames map[int]int // model stream -> number of frame steps still to come
	step      int
	stepNo    int // running number of executed steps (replay: = step; recorder: own counter)
	// client role
	frames    map[int]*pubsubproto.Publish // genuine (fresh) frame per model message id
	genuine   map[string]*pubsubproto.Publish
	own       map[int]bool
	idOf      map[string]int
	recorded  []int                        // ids recorded in the dedup ring in order (oracle side)
	handledId map[int]int
	lbarrier  uint64
}

func (r *vReplayer) violate(key, desc string) {
	r.rep.Violate(key, fmt.Sprintf("%s [behaviour %s step %d]", desc, r.b.Src, r.step), r.b)
}

func (r *vReplayer) driftf(format string, a ...any) {
	r.drift = true
	act := "?"
	if r.step < len(r.b.Steps) {
		act = r.b.Steps[r.step].A.Act
	}
	r.rep.DriftNote("%s step %d (%s): %s", r.b.Src, r.step, act, fmt.Sprintf(format, a...))
}

func vUniverse(b vBehaviour) []vTag {
	seen := map[string]bool{}
	var res []vTag
	add := func(sp string, p vSegs) {
		if !vValidPattern(p) {
			return
		}
		t := vTag{Sp: sp, Pat: p}
		if !seen[t.key()] {
			seen[t.key()] = true
			res = append(res, t)
		}
	}
	var pats []vSegs
	if b.Cfg.Prelude == "holder" {
		pats = append(pats, vSegs{"a"})
	}
	for _, s := range b.Steps {
		pats = append(pats, s.A.F...)
		pats = append(pats, s.A.P...)
	}
	for _, sp := range b.Cfg.Spaces {
		if vIn(b.Cfg.BadSpaces, sp) {
			continue
		}
		for _, p := range pats {
			add(sp, p)
		}
	}
	return res
}

func vReplayBehaviour(t *testing.T, rep *vfReport, b vBehaviour, seed int64) {
	r := &vReplayer{rep: rep, b: b, subWait: map[int]int{}, hookPending: map[int]bool{}, laterFrames: map[int]int{},
		parked: map[int]bool{}, evicted: map[string]int{}, checkedAt: map[int]int{}, raceHeld: map[string]bool{},
		stage: map[int]string{}, subDone: map[int]chan struct{}{},
		frames: map[int]*pubsubproto.Publish{}, handledId: map[int]int{}, genuine: map[string]*pubsubproto.Publish{}, own: map[int]bool{}, idOf: map[string]int{}}
	x := uint64(seed)*2654435761 + 12345
	r.rnd = func(n int) int { x = x*6364136223846793005 + 1442695040888963407; return int((x >> 33) % uint64(n)) }
	r.universe = vUniverse(b)
	for _, s := range b.Steps {
		switch s.A.Act {
		case "SubReject", "SubCheck", "Unsub1", "Publish":
			r.laterFrames[s.A.S]++
		}
	}
	defer func() {
		if p := recover(); p != nil {
			if h, ok := p.(vHang); ok {
				// the code under test did not come back although every fake peer was released
				r.violate("hang:"+b.Steps[min(r.step, len(b.Steps)-1)].A.Act, h.Error())
				return
			}
			panic(p)
		}
	}()
	r.e = newVEngine(t, b.Cfg)
	defer r.e.finish()
	if b.Cfg.Prelude == "holder" {
		// the state the behaviour starts from: stream 1 subscribed to pattern a of space X (a second holder of a
		// pattern gives the trie refcount something to lose)
		r.e.openStream(1)
		st := r.e.streams[1]
		st.waitHandled(st.push(vSubscribeFrame("X", []string{"a"})))
		r.e.flush(r.e.allModels())
	}
	for i := range b.Steps {
		r.step = i
		r.stepNo = i
		if b.Cfg.Role == "node" {
			r.nodeStep(b.Steps[i])
		} else {
			r.clientStep(b.Steps[i])
		}
		if r.drift && b.Cfg.Role == "node" {
			// the remainder is not TLC-guided any more (gates and predicted pre-states would not line up):
			// finish with the harness's own tear-down. Client-role steps do not depend on the predicted
			// state: they are all executed and the property is evaluated on each of them.
			break
		}
	}
	rep.AddSteps(len(b.Steps))
	if b.Cfg.Role == "node" {
		r.nodeTeardown()
	}
}

// ---------------------------------------------------------------------------------------------
// node role
// ---------------------------------------------------------------------------------------------

func (r *vReplayer) prev() *vExp {
	if r.step == 0 && r.b.Init != nil && len(r.b.Init.St) == r.b.Cfg.NStreams {
		return r.b.Init
	}
	if r.step == 0 {
		n := r.b.Cfg.NStreams
		e := &vExp{St: make([]string, n), Want: make([][]vTag, n), PendU: make([][]vTag, n), Tokens: make([]int, n), Member: r.b.Cfg.InitMember, MuFree: true, Busy: make([]string, n)}
		for i := range e.St {
			e.St[i] = "new"
			e.Busy[i] = "idle"
			e.Tokens[i] = r.b.Cfg.Burst
		}
		return e
	}
	return r.b.Steps[r.step-1].Exp
}

func (r *vReplayer) deliverFrame(model int, f *pubsubproto.PubSubMessage) {
	st := r.e.streams[model]
	n := st.push(f)
	st.waitHandled(n)
	r.laterFrames[model]--
}

func (r *vReplayer) nodeStep(s vStep) {
	e := r.e
	a := s.A
	pre := r.prev()
	before := e.views(r.universe)
	fwdBefore := int32(0)
	if e.rel != nil {
		fwdBefore = e.rel.forwardCalls.Load()
	}
	var pubId []byte
	holder := r.lockHolder
	switch a.Act {
	case "OpenStream":
		e.openStream(a.S)
	case "RemoveStream":
		// a frame still to be handled for this stream needs its read loop: close from the write side
		byWrite := r.laterFrames[a.S] > 0 || r.parked[a.S] || r.rnd(2) == 0
		e.removeStream(a.S, byWrite)
		r.hookPending[a.S] = true
	case "OnStreamClose":
		e.onStreamClose(a.S)
		delete(r.hookPending, a.S)
	case "SubReject":
		r.deliverFrame(a.S, vSubscribeFrame(a.Sp, e.realPatterns(a.F)))
	case "SubCheck":
		r.parkSubscribe(a.S, a.Sp, a.F)
	case "Sub1":
		// remoteMu.Lock(), interest recorded; the real call stops at AddTagsCtx (or ends when nothing was accepted)
		if r.stage[a.S] == "check" {
			r.advance(a.S)
		}
		r.lockHolder = a.S
	case "Sub2":
		// AddTagsCtx / rollback, remoteMu released; the real call stops at its second membership check, if it has one
		r.probeLock(holder)
		if r.stage[holder] == "tag" {
			r.advance(holder)
		}
		r.lockHolder = 0
	case "Sub3":
		if r.stage[a.S] == "recheck" {
			r.advance(a.S)
		}
	case "Unsub1":
		r.deliverFrame(a.S, vUnsubscribeFrame(a.Sp, e.realPatterns(a.P)))
	case "Unsub2":
		// executed together with Unsub1 (one real call)
	case "EvictMember":
		e.svc.EvictMember(a.Sp, e.accts[a.Acct].SignKey.GetPublic())
	case "Revalidate":
		e.svc.RevalidateMembers(a.Sp, func(account string) bool { return e.mem.isMember(e.acctName(account), a.Sp) })
	case "CloseSpace":
		e.svc.CloseSpace(a.Sp)
	case "AddMember":
		e.mem.set(a.Acct, a.Sp, true)
	case "RemoveMember":
		e.mem.set(a.Acct, a.Sp, false)
	case "Publish":
		p := &pubsubproto.Publish{SpaceId: a.Sp, Topic: e.realTopic(a.T), Payload: []byte(fmt.Sprintf("step-%d", r.step)),
			TimestampMilli: time.Now().UnixMilli(), Relayed: a.Relayed}
		p.MsgId = make([]byte, msgIdLen)
		binary.LittleEndian.PutUint64(p.MsgId, uint64(r.step+1))
		p.MsgId[15] = 0x77
		if !a.IdOk {
			p.MsgId = p.MsgId[:5]
		}
		if a.Claimed != "none" {
			if err := signPublish(e.accts[a.Claimed].SignKey, p); err != nil {
				panic(err)
			}
		}
		pubId = p.MsgId
		r.deliverFrame(a.S, wrapPublish(p))
	default:
		panic("verif harness: unknown node action " + a.Act)
	}
	frames := e.flush(e.allModels())
	after := e.views(r.universe)
	exp := s.Exp
	r.noteEviction(a)
	released := 0
	if a.Act == "Sub2" {
		released = holder
	}
	if a.Act == "Sub3" {
		released = a.S
	}
	r.checkEvicted(a, released, after)

	// ---- (a) property predicates on the real observations
	if a.Act == "Publish" {
		r.checkPublish(s, pre, frames, pubId, e.rel.forwardCalls.Load()-fwdBefore)
	} else {
		for m, fs := range frames {
			for _, f := range fs {
				if f.GetPublish() != nil {
					r.violate("publish-frame-without-publish:"+a.Act, fmt.Sprintf("stream %d received a Publish frame during %s", m, a.Act))
				}
			}
		}
	}
	if a.Act == "SubReject" {
		// a refused subscribe must not register interest
		engineSame := before.Locked || after.Locked || (fmt.Sprint(before.RecPat) == fmt.Sprint(after.RecPat) && fmt.Sprint(before.Refs) == fmt.Sprint(after.Refs))
		if fmt.Sprint(before.Tags) != fmt.Sprint(after.Tags) || !engineSame {
			r.violate("refused-subscribe-registered:"+s.Out.Code, fmt.Sprintf("subscribe of stream %d (account %s) to %s %v must be refused (%s) but interest changed: tags %v -> %v, records %v -> %v",
				a.S, r.b.Cfg.StreamAcct[a.S-1], a.Sp, a.F, s.Out.Code, before.Tags, after.Tags, before.RecPat, after.RecPat))
		}
	}
	r.checkWithdrawn(a, before, after)
	r.checkViews(exp, after)

	// ---- (b) conformance with the state the spec predicts
	if r.lockFree {
		r.viewsSettled()
		r.driftf("remoteMu is not held while the subscribe tags its stream (AddTagsCtx): the close hook could run in between")
		return
	}
	r.compareViews(exp, after)
	r.compareStatus(s, frames)
}

// what was withdrawn (unsubscribe, eviction, closed space) must be gone from all three views right
// after the call - whatever else the engine holds
func (r *vReplayer) checkWithdrawn(a vAct, before, after vViews) {
	cfg := r.b.Cfg
	if before.Locked || after.Locked {
		return // a subscribe parked at AddTagsCtx holds remoteMu: the engine's records cannot be read
	}
	inSpace := func(keys []string, sp string) []string {
		var res []string
		for _, k := range keys {
			if strings.HasPrefix(k, sp+"|") {
				res = append(res, k)
			}
		}
		return res
	}
	left := func(i int, sp string, only map[string]bool) []string {
		var res []string
		for _, k := range append(inSpace(after.Tags[i], sp), inSpace(after.RecPat[i], sp)...) {
			if only == nil || only[k] {
				res = append(res, k)
			}
		}
		return res
	}
	// ... and nothing else may be touched by it
	keep := func(i int, sp string) {
		bt, at := inSpace(before.Tags[i], sp), inSpace(after.Tags[i], sp)
		br, ar := inSpace(before.RecPat[i], sp), inSpace(after.RecPat[i], sp)
		if !vEqStrings(bt, at) || !vEqStrings(br, ar) {
			r.violate("interest-of-others-changed:"+a.Act, fmt.Sprintf("%+v changed the interest of stream %d in space %s, which it does not concern: tags %v -> %v, record %v -> %v", a, i+1, sp, bt, at, br, ar))
		}
	}
	if before.Tags != nil {
		for i := 0; i < cfg.NStreams; i++ {
			for _, sp := range cfg.Spaces {
				if vIn(cfg.BadSpaces, sp) {
					continue
				}
				acct := cfg.StreamAcct[i]
				switch a.Act {
				case "Unsub1":
					if i != a.S-1 || sp != a.Sp {
						keep(i, sp)
					}
				case "EvictMember":
					if sp != a.Sp || acct != a.Acct {
						keep(i, sp)
					}
				case "Revalidate":
					if sp != a.Sp || r.e.mem.isMember(acct, sp) {
						keep(i, sp)
					}
				case "CloseSpace":
					if sp != a.Sp {
						keep(i, sp)
					}
				case "OnStreamClose", "RemoveStream":
					if i != a.S-1 {
						keep(i, sp)
					}
				}
			}
		}
	}
	switch a.Act {
	case "Unsub1":
		var only map[string]bool
		if len(a.P) > 0 {
			only = map[string]bool{}
			for _, p := range a.P {
				only[a.Sp+"|"+p.key()] = true
			}
		}
		if l := left(a.S-1, a.Sp, only); len(l) > 0 {
			r.violate("unsubscribed-pattern-still-registered", fmt.Sprintf("stream %d unsubscribed %v of space %s but still holds %v", a.S, a.P, a.Sp, l))
		}
	case "EvictMember", "Revalidate":
		for i := 0; i < cfg.NStreams; i++ {
			acct := cfg.StreamAcct[i]
			evicted := acct == a.Acct
			if a.Act == "Revalidate" {
				evicted = !r.e.mem.isMember(acct, a.Sp)
			}
			if l := left(i, a.Sp, nil); evicted && len(l) > 0 {
				r.violate("evicted-member-still-registered", fmt.Sprintf("%s of space %s: stream %d of account %s still holds %v", a.Act, a.Sp, i+1, acct, l))
			}
		}
	case "CloseSpace":
		for i := 0; i < cfg.NStreams; i++ {
			if l := left(i, a.Sp, nil); len(l) > 0 {
				r.violate("closed-space-still-registered", fmt.Sprintf("CloseSpace(%s): stream %d still holds %v", a.Sp, i+1, l))
			}
		}
		if vIn(after.RemoteDom, a.Sp) {
			r.violate("closed-space-still-registered", fmt.Sprintf("CloseSpace(%s): the space trie is still there", a.Sp))
		}
	}
}

// parkSubscribe hands a Subscribe frame to the stream's read loop and lets the real handleSubscribe run until
// the harness-owned CheckMember has answered: validation and membership are decided, remoteMu is not yet taken.
func (r *vReplayer) parkSubscribe(model int, sp string, f []vSegs) bool {
	e := r.e
	e.mem.arm(model)
	if e.vpool != nil {
		e.vpool.arm(model)
	}
	st := e.streams[model]
	n := st.push(vSubscribeFrame(sp, e.realPatterns(f)))
	r.subWait[model] = n
	r.subDone[model] = st.handledChan(n)
	r.laterFrames[model]--
	select {
	case got := <-e.mem.atGate:
		if got != model {
			panic("verif harness: wrong stream at the subscribe gate")
		}
		r.parked[model] = true
		r.stage[model] = "check"
		r.checkedAt[model] = r.stepNo
		return true
	case <-r.subDone[model]:
		// the subscribe never asked the membership checker: it was refused (or accepted) on another path
		e.mem.disarm(model)
		r.driftf("subscribe did not reach the membership check")
		return false
	case <-time.After(vWatchdog):
		panic(vHang{"subscribe neither reached the membership check nor returned"})
	}
}

// advance releases the gate the subscribe of the stream is parked at and waits for its next stop: AddTagsCtx
// (remoteMu taken, interest recorded), the second membership check (tags added, remoteMu released) or its end.
func (r *vReplayer) advance(model int) {
	if !r.parked[model] {
		return
	}
	e := r.e
	switch r.stage[model] {
	case "check":
		e.mem.mu.Lock()
		ch := e.mem.release[model]
		e.mem.mu.Unlock()
		close(ch)
	case "tag":
		e.vpool.mu.Lock()
		ch := e.vpool.release[model]
		e.vpool.mu.Unlock()
		close(ch)
	case "recheck":
		e.mem.mu.Lock()
		ch := e.mem.release2[model]
		e.mem.mu.Unlock()
		close(ch)
	}
	var tagGate chan int
	if e.vpool != nil {
		tagGate = e.vpool.atGate
	}
	select {
	case got := <-tagGate:
		if got != model {
			panic("verif harness: wrong stream at the AddTagsCtx gate")
		}
		r.stage[model] = "tag"
	case got := <-e.mem.atGate2:
		if got != model {
			panic("verif harness: wrong stream at the re-check gate")
		}
		r.stage[model] = "recheck"
	case <-r.subDone[model]:
		delete(r.parked, model)
		delete(r.stage, model)
		e.mem.disarm(model)
		if e.vpool != nil {
			e.vpool.disarm(model)
		}
	case <-time.After(vWatchdog):
		panic(vHang{"subscribe does not go on after its gate was released"})
	}
}

func (r *vReplayer) releaseSubscribe(model int) {
	for i := 0; r.parked[model] && i < 4; i++ {
		r.advance(model)
	}
}

// probeLock: the subscribe of the stream is parked at AddTagsCtx. The engine is specified to hold remoteMu there
// (that makes "record interest + tag" atomic w.r.t. the close hook). If the lock is free, the schedule the lock
// is meant to exclude is possible on the real engine - so it is taken: every pending close hook runs now.
func (r *vReplayer) probeLock(model int) {
	if r.stage[model] != "tag" || !r.e.svc.remoteMu.TryLock() {
		return
	}
	r.e.svc.remoteMu.Unlock()
	r.lockFree = true
	var pend []int
	for m := range r.hookPending {
		pend = append(pend, m)
	}
	sort.Ints(pend)
	for _, m := range pend {
		r.e.onStreamClose(m)
		delete(r.hookPending, m)
	}
}

// viewsSettled evaluates the agreement of the three views on the real state alone (no operation of the harness
// is in flight); used after a schedule the specification does not contain
func (r *vReplayer) viewsSettled() {
	if len(r.parked) > 0 || len(r.hookPending) > 0 {
		return
	}
	n := r.b.Cfg.NStreams
	exp := &vExp{MuFree: true, Busy: make([]string, n), St: make([]string, n), Want: make([][]vTag, n)}
	for i := range exp.Busy {
		exp.Busy[i] = "idle"
		exp.St[i] = "?"
		exp.Want[i] = []vTag{{Sp: "?", Pat: vSegs{"?"}}} // no "all withdrawn" claim
	}
	r.checkViews(exp, r.e.views(r.universe))
}

// an account that was evicted as a non-member (and not re-admitted) must hold no subscription. The one
// way the engine allows it is the by-design window of handleSubscribe: the membership check precedes
// remoteMu, so a subscribe that passed the check before the removal records its interest after the eviction.
func (r *vReplayer) noteEviction(a vAct) {
	cfg := r.b.Cfg
	switch a.Act {
	case "EvictMember":
		if !r.e.mem.isMember(a.Acct, a.Sp) {
			r.evicted[a.Acct+"|"+a.Sp] = r.stepNo
		}
	case "Revalidate":
		for _, acct := range cfg.Accounts {
			if !r.e.mem.isMember(acct, a.Sp) {
				r.evicted[acct+"|"+a.Sp] = r.stepNo
			}
		}
	case "AddMember":
		delete(r.evicted, a.Acct+"|"+a.Sp)
	}
}

func (r *vReplayer) checkEvicted(a vAct, released int, v vViews) {
	cfg := r.b.Cfg
	for i := 0; i < cfg.NStreams; i++ {
		acct := cfg.StreamAcct[i]
		for k, at := range r.evicted {
			if !strings.HasPrefix(k, acct+"|") {
				continue
			}
			sp := k[len(acct)+1:]
			var held []string
			for _, x := range append(append([]string{}, v.Tags[i]...), v.RecPat[i]...) {
				if strings.HasPrefix(x, sp+"|") {
					held = append(held, x)
				}
			}
			ek := fmt.Sprintf("%d|%s", i+1, sp)
			if len(held) == 0 {
				delete(r.raceHeld, ek)
				continue
			}
			if r.raceHeld[ek] {
				continue // still the interest registered through the race reported before
			}
			if r.stage[i+1] == "recheck" {
				continue // registered, second membership check still to come (it withdraws the interest again)
			}
			if (released == i+1 || r.stage[i+1] == "tag") && r.checkedAt[i+1] < at {
				r.raceHeld[ek] = true
				r.violate("subscribe-racing-eviction-reregisters-evicted-member", fmt.Sprintf(
					"stream %d (account %s) passed the membership check of its subscribe to space %s at step %d, the account was removed and evicted at step %d, then the subscribe recorded its interest: the evicted non-member holds %v",
					i+1, acct, sp, r.checkedAt[i+1], at, held))
			} else {
				r.violate("evicted-member-holds-subscription", fmt.Sprintf("account %s was evicted from space %s as a non-member (step %d) but its stream %d holds %v after %s", acct, sp, at, i+1, held, a.Act))
			}
		}
	}
}

func vPatternMatch(tags []vTag, sp string, t vSegs) bool {
	for _, tg := range tags {
		if tg.Sp == sp && vMatches(tg.Pat, t) {
			return true
		}
	}
	return false
}

// the delivery rule of the statement, evaluated on the state before the step; returns "" when the
// publish has to be fanned out, otherwise the first condition that forbids it
func (r *vReplayer) stmtRefusal(a vAct, pre *vExp) string {
	cfg := r.b.Cfg
	acct := cfg.StreamAcct[a.S-1]
	isMember := false
	for _, m := range pre.Member {
		if m[0] == acct && m[1] == a.Sp {
			isMember = true
		}
	}
	switch {
	case !a.IdOk:
		return "malformed-message-id"
	case !vValidTopic(a.T):
		return "invalid-topic"
	case vIn(cfg.NotResp, a.Sp):
		return "node-not-responsible"
	case a.Relayed && !vIn(cfg.NodePeers, cfg.StreamPeer[a.S-1]):
		return "relayed-by-non-node"
	case a.Relayed:
		return ""
	case acct == "none" || a.Claimed != acct:
		return "identity-not-proven"
	case !isMember:
		return "publisher-not-a-member"
	case vOwner(a.T) != "" && vOwner(a.T) != acct:
		return "namespace-not-owned"
	case cfg.Burst >= 0 && pre.Tokens[a.S-1] <= 0:
		return "rate-limited"
	}
	return ""
}

func (r *vReplayer) checkPublish(s vStep, pre *vExp, frames map[int][]*pubsubproto.PubSubMessage, id []byte, forwardCalls int32) {
	a := s.A
	cfg := r.b.Cfg
	refusal := r.stmtRefusal(a, pre)
	plain := make([]int, cfg.NStreams)
	relayed := make([]int, cfg.NStreams)
	for m, fs := range frames {
		for _, f := range fs {
			p := f.GetPublish()
			if p == nil {
				continue
			}
			if string(p.MsgId) != string(id) {
				r.violate("foreign-publish-frame", fmt.Sprintf("stream %d received a Publish frame that is not the one just published", m))
				continue
			}
			if p.Relayed {
				relayed[m-1]++
			} else {
				plain[m-1]++
			}
		}
	}
	for x := 1; x <= cfg.NStreams; x++ {
		isNode := vIn(cfg.NodePeers, cfg.StreamPeer[x-1])
		copies := plain[x-1] + relayed[x-1]
		// copies that are fan-out (not the node-to-node forward)
		fan := plain[x-1]
		if a.Relayed {
			fan = relayed[x-1]
		}
		if copies > 1 {
			r.violate("more-than-one-copy", fmt.Sprintf("stream %d received %d copies of one publish (topic %v, patterns %v)", x, copies, a.T, pre.Want[x-1]))
		}
		if a.Relayed && plain[x-1] > 0 {
			r.violate("relayed-flag-cleared", fmt.Sprintf("stream %d received a relayed publish with the relayed flag cleared", x))
		}
		open := pre.St[x-1] == "open"
		lower := refusal == "" && open && vPatternMatch(pre.Want[x-1], a.Sp, a.T)
		upper := refusal == "" && open && (vPatternMatch(pre.Want[x-1], a.Sp, a.T) || vPatternMatch(pre.PendU[x-1], a.Sp, a.T))
		fwdCopy := !a.Relayed && isNode && relayed[x-1] > 0
		if fan > 0 && !upper {
			why := refusal
			if why == "" {
				why = "no-registered-pattern-matches"
				if !open {
					why = "stream-closed"
				}
			}
			r.violate("delivered-although:"+why, fmt.Sprintf("publish %+v reached stream %d although %s (registered %v)", a, x, why, pre.Want[x-1]))
		}
		if lower && fan == 0 {
			r.violate("not-delivered-to-matching-subscription", fmt.Sprintf("publish %+v did not reach stream %d whose registered patterns %v match", a, x, pre.Want[x-1]))
		}
		if fwdCopy && refusal != "" {
			r.violate("forwarded-although:"+refusal, fmt.Sprintf("publish %+v was forwarded to node stream %d although %s", a, x, refusal))
		}
		if !a.Relayed && !isNode && relayed[x-1] > 0 {
			r.violate("forward-to-non-node", fmt.Sprintf("client stream %d received the node-to-node copy", x))
		}
	}
	if a.Relayed && forwardCalls > 0 {
		r.violate("relayed-forwarded-again", fmt.Sprintf("a relayed publish (%+v) was forwarded to the other responsible nodes again", a))
	}
	if !a.Relayed && refusal != "" && forwardCalls > 0 {
		r.violate("forwarded-although:"+refusal, fmt.Sprintf("publish %+v was handed to the relay although %s", a, refusal))
	}
	// conformance with the emissions the spec predicts
	for x := 1; x <= cfg.NStreams; x++ {
		wantPlain, wantRel := s.Out.Deliver[x-1], 0
		if a.Relayed {
			wantPlain, wantRel = 0, s.Out.Deliver[x-1]
		}
		for _, f := range s.Out.Fwd {
			if f == x {
				wantRel++
			}
		}
		if plain[x-1] != wantPlain || relayed[x-1] != wantRel {
			r.driftf("stream %d got %d plain / %d relayed copies, spec %d / %d (code %s)", x, plain[x-1], relayed[x-1], wantPlain, wantRel, s.Out.Code)
		}
	}
}

// the three views must agree with each other whenever no operation is in flight; nothing may be
// left once every subscription is withdrawn
func (r *vReplayer) checkViews(exp *vExp, v vViews) {
	quiescent := exp.MuFree
	for i := range exp.Busy {
		if exp.Busy[i] != "idle" || exp.St[i] == "removed" {
			quiescent = false
		}
	}
	if !quiescent {
		return
	}
	counts := map[string]int{}
	for i := 0; i < r.b.Cfg.NStreams; i++ {
		if !vEqStrings(v.Tags[i], v.RecPat[i]) {
			r.violate("views-disagree:pool-tags-vs-stream-record", fmt.Sprintf("stream %d at quiescence: pool tags %v, recorded patterns %v", i+1, v.Tags[i], v.RecPat[i]))
		}
		if !v.InPool[i] && (v.HasRec[i] || len(v.Tags[i]) > 0) {
			r.violate("closed-stream-keeps-interest", fmt.Sprintf("stream %d is out of the pool and its close hook ran, but record=%v tags=%v", i+1, v.RecPat[i], v.Tags[i]))
		}
		if v.HasRec[i] && len(v.RecPat[i]) == 0 {
			r.violate("empty-stream-record-retained", fmt.Sprintf("stream %d keeps a record without patterns (spaces %v, total %d)", i+1, v.RecSp[i], v.Total[i]))
		}
		if v.HasRec[i] && v.Total[i] != len(v.RecPat[i]) {
			r.violate("stream-total-wrong", fmt.Sprintf("stream %d: total %d, %d recorded patterns", i+1, v.Total[i], len(v.RecPat[i])))
		}
		sps := map[string]struct{}{}
		for _, k := range v.RecPat[i] {
			counts[k]++
			sps[strings.SplitN(k, "|", 2)[0]] = struct{}{}
		}
		if v.HasRec[i] && len(v.RecPat[i]) > 0 && !vEqStrings(vSortedKeys(sps), v.RecSp[i]) {
			r.violate("empty-space-entry-in-stream-record", fmt.Sprintf("stream %d: bySpace keys %v, patterns %v", i+1, v.RecSp[i], v.RecPat[i]))
		}
	}
	if fmt.Sprint(counts) != fmt.Sprint(v.Refs) {
		r.violate("views-disagree:trie-vs-stream-records", fmt.Sprintf("at quiescence: trie refcounts %v, subscribing streams per pattern %v", v.Refs, counts))
	}
	for _, sp := range v.RemoteDom {
		if v.TrieLen[sp] == 0 {
			r.violate("empty-space-trie-retained", fmt.Sprintf("space %s keeps an empty trie in the remote-interest map", sp))
		}
	}
	if v.UnknownRecs > 0 {
		r.violate("record-for-unknown-stream", "the engine holds a stream record for a stream id that never existed")
	}
	all := true
	for i := range exp.Want {
		if len(exp.Want[i]) > 0 {
			all = false
		}
	}
	if all {
		r.noLeak(v, "after-withdrawal")
	}
}

func (r *vReplayer) noLeak(v vViews, when string) {
	if len(v.RemoteDom) > 0 {
		kind := "empty-trie"
		if len(v.Refs) > 0 {
			kind = "trie-with-references"
		}
		r.violate("leak-"+when+":remote-space-entry:"+kind, fmt.Sprintf("every subscription is gone but s.remote still has %v (refs %v)", v.RemoteDom, v.Refs))
	}
	for i := range v.HasRec {
		if v.HasRec[i] {
			kind := "empty"
			if len(v.RecPat[i]) > 0 {
				kind = "with-patterns"
			}
			r.violate("leak-"+when+":stream-record:"+kind, fmt.Sprintf("every subscription is gone but s.streams still has stream %d: spaces %v patterns %v", i+1, v.RecSp[i], v.RecPat[i]))
		}
		if len(v.Tags[i]) > 0 {
			r.violate("leak-"+when+":pool-tags", fmt.Sprintf("every subscription is gone but stream %d is still tagged %v", i+1, v.Tags[i]))
		}
	}
}

func (r *vReplayer) compareViews(exp *vExp, v vViews) {
	for i := 0; i < r.b.Cfg.NStreams; i++ {
		if (exp.St[i] == "open") != v.InPool[i] {
			r.driftf("stream %d in pool = %v, spec state %s", i+1, v.InPool[i], exp.St[i])
		}
		wantTags := vTagKeys(exp.Tags[i])
		if exp.Busy[i] == "unsub" {
			// the real unsubscribe is one call: its tags are already gone (Unsub2 of the spec follows immediately)
			gone := map[string]bool{}
			for _, k := range vTagKeys(exp.PendU[i]) {
				gone[k] = true
			}
			var keep []string
			for _, k := range wantTags {
				if !gone[k] {
					keep = append(keep, k)
				}
			}
			wantTags = keep
		}
		if !vEqStrings(v.Tags[i], wantTags) {
			r.driftf("stream %d pool tags %v, spec %v", i+1, v.Tags[i], wantTags)
		}
	}
	if !exp.MuFree || v.Locked {
		return // a subscribe holds remoteMu (parked at AddTagsCtx): the engine's records are read again after Sub2
	}
	refs := map[string]int{}
	for _, x := range exp.Refs {
		refs[x.Sp+"|"+x.Pat.key()] = x.N
	}
	if fmt.Sprint(refs) != fmt.Sprint(v.Refs) {
		r.driftf("trie refcounts %v, spec %v", v.Refs, refs)
	}
	if !vEqStrings(v.RemoteDom, vSorted(exp.RemoteDom)) {
		r.driftf("remote map keys %v, spec %v", v.RemoteDom, exp.RemoteDom)
	}
	for i := 0; i < r.b.Cfg.NStreams; i++ {
		if v.HasRec[i] != exp.HasRec[i] || !vEqStrings(v.RecPat[i], vTagKeys(exp.RecPat[i])) || !vEqStrings(v.RecSp[i], vSorted(exp.RecSp[i])) || (v.HasRec[i] && v.Total[i] != exp.Total[i]) {
			r.driftf("stream %d record: has=%v spaces=%v patterns=%v total=%d, spec has=%v spaces=%v patterns=%v total=%d", i+1,
				v.HasRec[i], v.RecSp[i], v.RecPat[i], v.Total[i], exp.HasRec[i], exp.RecSp[i], vTagKeys(exp.RecPat[i]), exp.Total[i])
		}
	}
}

var vCodeNames = map[pubsubproto.ErrCodes]string{
	pubsubproto.ErrCodes_NotAMember: "NotAMember", pubsubproto.ErrCodes_NotResponsible: "NotResponsible", pubsubproto.ErrCodes_RateLimited: "RateLimited",
	pubsubproto.ErrCodes_TooManyTopics: "TooManyTopics", pubsubproto.ErrCodes_InvalidMessage: "InvalidMessage", pubsubproto.ErrCodes_TopicNotOwned: "TopicNotOwned",
	pubsubproto.ErrCodes_InvalidTopic: "InvalidTopic",
}

func (r *vReplayer) compareStatus(s vStep, frames map[int][]*pubsubproto.PubSubMessage) {
	type obs struct {
		to   int
		code string
		tops string
	}
	var got []obs
	for m, fs := range frames {
		for _, f := range fs {
			if st := f.GetStatus(); st != nil {
				var tops []string
				for _, tp := range st.Topics {
					tops = append(tops, r.e.modelSegs(tp).key())
				}
				got = append(got, obs{m, vCodeNames[st.Code], strings.Join(tops, ",")})
			}
		}
	}
	// a subscribe that accepts nothing returns at once: what the spec emits at Sub2 is written at Sub1 already
	if s.A.Act == "Sub1" && len(got) > 0 {
		r.stashed = append(r.stashed, fmt.Sprint(got))
		r.stashedObs = got
		got = nil
	} else if s.A.Act == "Sub2" && r.stashedObs != nil {
		got = append(r.stashedObs.([]obs), got...)
		r.stashedObs = nil
	}
	var want []obs
	if s.Out.To != 0 && (s.Out.Kind == "status" || s.Out.Kind == "publish") {
		var tops []string
		for _, tp := range s.Out.Topics {
			tops = append(tops, tp.key())
		}
		want = append(want, obs{s.Out.To, s.Out.Code, strings.Join(tops, ",")})
	}
	if fmt.Sprint(got) != fmt.Sprint(want) {
		r.driftf("status frames %v, spec %v", got, want)
	}
}

// nodeTeardown: whatever state the behaviour ended in, finish the operations in flight, close every
// stream (hooks in a seeded order) and require that no bookkeeping is left.
func (r *vReplayer) nodeTeardown() {
	e := r.e
	// finish the subscribes in flight: first the one that holds remoteMu (parked at AddTagsCtx), then those past
	// it, last those still waiting in front of the lock (they could not get it before)
	for _, stage := range []string{"tag", "recheck", "check"} {
		var ms []int
		for m := range r.parked {
			if r.stage[m] == stage {
				ms = append(ms, m)
			}
		}
		sort.Ints(ms)
		for _, m := range ms {
			r.releaseSubscribe(m)
		}
	}
	models := e.allModels()
	// shuffle
	for i := len(models) - 1; i > 0; i-- {
		j := r.rnd(i + 1)
		models[i], models[j] = models[j], models[i]
	}
	for _, m := range models {
		if e.inPool(m) {
			e.removeStream(m, r.rnd(2) == 0)
			r.hookPending[m] = true
		}
	}
	var pend []int
	for m := range r.hookPending {
		pend = append(pend, m)
	}
	sort.Ints(pend)
	for i := len(pend) - 1; i > 0; i-- {
		j := r.rnd(i + 1)
		pend[i], pend[j] = pend[j], pend[i]
	}
	for _, m := range pend {
		e.onStreamClose(m)
	}
	r.step = len(r.b.Steps) - 1
	if r.step < 0 {
		r.step = 0
	}
	v := e.views(r.universe)
	r.noLeak(v, "after-teardown")
	e.svc.remoteMu.Lock()
	nRemote, nStreams := len(e.svc.remote), len(e.svc.streams)
	e.svc.remoteMu.Unlock()
	if nRemote != 0 || nStreams != 0 {
		r.violate("leak-after-teardown:maps-not-empty", fmt.Sprintf("all streams closed: len(s.remote)=%d len(s.streams)=%d", nRemote, nStreams))
	}
}

// ---------------------------------------------------------------------------------------------
// client role: local subscriptions, receive path, dedup ring
// ---------------------------------------------------------------------------------------------

func (r *vReplayer) tsOf(cls string) int64 {
	now := time.Now()
	switch cls {
	case "past":
		return now.Add(-time.Hour).UnixMilli()
	case "future":
		return now.Add(time.Hour).UnixMilli()
	case "absent":
		return 0
	}
	return now.UnixMilli()
}

func vMsgIdOf(id int) []byte {
	b := make([]byte, msgIdLen)
	binary.LittleEndian.PutUint64(b, uint64(id))
	b[15] = 0x55
	return b
}

// the frame of model message m. A genuine frame (m.Sig) is signed by its author over exactly the
// fields of m; the genuine frame of an own publish is the one the client really sent. A forged
// frame starts from the genuine frame of the id and carries fields the signature does not cover.
func (r *vReplayer) frameOf(m *vMsg) *pubsubproto.Publish {
	e := r.e
	build := func(src string, x *vMsg) *pubsubproto.Publish {
		p := &pubsubproto.Publish{SpaceId: x.Space, Topic: e.realTopic(x.Topic), MsgId: vMsgIdOf(x.Id),
			Payload: []byte(fmt.Sprintf("m%d", x.Id)), TimestampMilli: r.tsOf(x.Ts)}
		if err := signPublish(e.accts[src].SignKey, p); err != nil {
			panic(err)
		}
		return p
	}
	clone := func(b *pubsubproto.Publish) *pubsubproto.Publish {
		return &pubsubproto.Publish{SpaceId: b.SpaceId, Topic: b.Topic, MsgId: append([]byte(nil), b.MsgId...), KeyId: b.KeyId,
			Payload: append([]byte(nil), b.Payload...), Identity: append([]byte(nil), b.Identity...),
			Signature: append([]byte(nil), b.Signature...), TimestampMilli: b.TimestampMilli}
	}
	var p *pubsubproto.Publish
	if m.Sig {
		key := fmt.Sprintf("%d|%s|%s|%s|%s", m.Id, m.Src, m.Ts, m.Space, m.Topic.key())
		if own := r.frames[m.Id]; own != nil && r.own[m.Id] && m.Ts == "fresh" {
			p = clone(own)
		} else {
			g, ok := r.genuine[key]
			if !ok {
				g = build(m.Src, m)
				r.genuine[key] = g
				if r.frames[m.Id] == nil {
					r.frames[m.Id] = g
				}
			}
			p = clone(g)
		}
	} else {
		base := r.frames[m.Id]
		if base == nil {
			src := m.Src
			if _, has := e.accts[src]; !has {
				src = r.b.Cfg.Self
			}
			base = build(src, m)
		}
		p = clone(base)
		p.Topic = e.realTopic(m.Topic)
		p.SpaceId = m.Space
		if (m.Ts == "absent") != (p.TimestampMilli == 0) || m.Ts == "past" || m.Ts == "future" {
			p.TimestampMilli = r.tsOf(m.Ts)
		}
		if m.Src == "garbage" {
			p.Identity = []byte{1, 2, 3}
		} else {
			id, _ := e.accts[m.Src].SignKey.GetPublic().Marshall()
			p.Identity = id
		}
		// nothing else differs from the genuine frame: the content was altered in transit
		if ok, _ := verifyOK(p); ok {
			p.Payload = append(p.Payload, '!')
		}
	}
	r.idOf[string(p.MsgId)] = m.Id
	if !m.IdOk {
		p.MsgId = p.MsgId[:5]
	}
	return p
}

func verifyOK(p *pubsubproto.Publish) (bool, error) {
	_, err := verifyPublish(p)
	return err == nil, err
}

func (r *vReplayer) clientBarrier() []vHandled {
	e := r.e
	r.lbarrier++
	payload := make([]byte, 8)
	binary.LittleEndian.PutUint64(payload, r.lbarrier)
	e.svc.enqueueLocal(vBarrierSpace, "sync", e.self.SignKey.GetPublic(), payload)
	deadline := time.After(vWatchdog)
	for {
		select {
		case n := <-e.barrierCh:
			if n == r.lbarrier {
				e.handledMu.Lock()
				res := e.handled
				e.handled = nil
				e.handledMu.Unlock()
				return res
			}
		case <-deadline:
			panic(vHang{"dispatch loop does not drain"})
		}
	}
}

func (r *vReplayer) handler(sp string, pat vSegs) Handler {
	return func(_, topic string, identity crypto.PubKey, payload []byte) {
		r.e.handledMu.Lock()
		r.e.handled = append(r.e.handled, vHandled{topic: topic, account: identity.Account(), payload: sp + "|" + pat.key()})
		r.e.handledMu.Unlock()
	}
}

func (r *vReplayer) ringIds() []int {
	d := r.e.svc.dedup
	d.mu.Lock()
	defer d.mu.Unlock()
	var keys [][msgIdLen]byte
	if d.full {
		keys = append(keys, d.ring[d.pos:]...)
		keys = append(keys, d.ring[:d.pos]...)
	} else {
		keys = append(keys, d.ring[:d.pos]...)
	}
	res := make([]int, 0, len(keys))
	for _, k := range keys {
		id, ok := r.idOf[string(k[:])]
		if !ok {
			id = -1
		}
		res = append(res, id)
	}
	return res
}

// clientExec performs one client-role action on the real engine, evaluates the property on what
// the handlers saw, and returns the observations: handlers served ("space|pattern"), ring, local patterns.
func (r *vReplayer) clientExec(a vAct, pre *vExp) (pats []string, ring []int, lp []string) {
	e := r.e
	var m *vMsg
	switch a.Act {
	case "LSubscribe":
		unsub, err := e.svc.Subscribe(a.Sp, e.realTopic(a.Pat), r.handler(a.Sp, a.Pat))
		if (err == nil) != vValidPattern(a.Pat) && (err == nil || vValidPattern(a.Pat) == errors.Is(err, pubsubproto.ErrInvalidTopic)) {
			r.violate("local-subscribe-validation", fmt.Sprintf("Subscribe(%v) returned %v", a.Pat, err))
		}
		if err == nil {
			e.unsubs[a.Sp+"|"+a.Pat.key()] = unsub
		}
	case "LUnsubscribe":
		k := a.Sp + "|" + a.Pat.key()
		if f := e.unsubs[k]; f != nil {
			f()
			delete(e.unsubs, k)
		}
	case "CloseSpace":
		e.svc.CloseSpace(a.Sp)
		for k := range e.unsubs {
			if strings.HasPrefix(k, a.Sp+"|") {
				delete(e.unsubs, k)
			}
		}
	case "AddMember":
		e.mem.set(a.Acct, a.Sp, true)
	case "RemoveMember":
		e.mem.set(a.Acct, a.Sp, false)
	case "Receive":
		m = a.M
		p := r.frameOf(m)
		ctx := peer.CtxWithPeerId(context.Background(), "peer-capture")
		if err := e.svc.HandleMessage(ctx, "peer-capture", wrapPublish(p)); err != nil {
			r.violate("handle-message-error", err.Error())
		}
	case "LPublish":
		m = a.M
		err := e.svc.Publish(context.Background(), m.Space, e.realTopic(m.Topic), []byte(fmt.Sprintf("m%d", m.Id)))
		ok := vValidTopic(m.Topic) && (vOwner(m.Topic) == "" || vOwner(m.Topic) == r.b.Cfg.Self)
		if (err == nil) != ok {
			r.violate("local-publish-validation", fmt.Sprintf("Publish(%v) returned %v", m.Topic, err))
		}
		if err == nil {
			// the frame the client sent to its space peer is the genuine frame of this id
			fs := e.flush([]int{1000})
			for _, f := range fs[1000] {
				if p := f.GetPublish(); p != nil {
					r.frames[m.Id] = p
					r.own[m.Id] = true
					r.idOf[string(p.MsgId)] = m.Id
				}
			}
			if r.frames[m.Id] == nil {
				r.driftf("own publish was not sent to the space peer")
			}
		}
	default:
		panic("verif harness: unknown client action " + a.Act)
	}
	handled := r.clientBarrier()
	for _, h := range handled {
		pats = append(pats, h.payload)
	}
	sort.Strings(pats)

	// ---- the property: forged, replayed or stale frames never reach a handler
	if m != nil {
		if len(handled) > 0 {
			isMember := false
			for _, x := range pre.Member {
				if x[0] == m.Src && x[1] == m.Space {
					isMember = true
				}
			}
			switch {
			case a.Act == "LPublish":
			case !m.Sig:
				kind := "altered-content"
				if m.Src == "garbage" {
					kind = "unparsable-identity"
				}
				r.violate("forged-frame-handled:"+kind, fmt.Sprintf("frame %+v whose signature does not cover it reached handlers %v", *m, pats))
			case m.Ts == "past" || m.Ts == "future":
				r.violate("stale-frame-handled:"+m.Ts, fmt.Sprintf("frame %+v with a timestamp outside the skew window reached handlers %v", *m, pats))
			case !m.IdOk:
				r.violate("malformed-frame-handled", fmt.Sprintf("frame %+v reached handlers", *m))
			case !vValidTopic(m.Topic):
				r.violate("invalid-topic-handled", fmt.Sprintf("frame %+v reached handlers", *m))
			case !isMember:
				r.violate("non-member-frame-handled", fmt.Sprintf("frame %+v of a non-member reached handlers %v", *m, pats))
			case vOwner(m.Topic) != "" && vOwner(m.Topic) != m.Src:
				r.violate("unowned-namespace-frame-handled", fmt.Sprintf("frame %+v reached handlers %v", *m, pats))
			}
			if a.Act == "Receive" && m.Sig && r.handledId[m.Id] > 0 {
				// a replay. The dedup ring remembers the last RingSize recorded ids.
				inWindow := false
				lo := len(r.recorded) - r.b.Cfg.RingSize
				for i, id := range r.recorded {
					if id == m.Id && i >= lo {
						inWindow = true
					}
				}
				switch {
				case inWindow:
					r.violate("replay-handled-while-id-in-dedup-ring", fmt.Sprintf("frame %+v was handled again although its id is among the last %d recorded ids %v", *m, r.b.Cfg.RingSize, r.recorded))
				case m.Ts == "absent":
					r.violate("replay-after-dedup-eviction-timestamp-absent", fmt.Sprintf("frame %+v (no timestamp) was handled again after %d newer ids pushed it out of the dedup ring (recorded %v)", *m, r.b.Cfg.RingSize, r.recorded))
				default:
					r.violate("replay-after-dedup-eviction-within-skew", fmt.Sprintf("frame %+v was handled again after %d newer ids pushed it out of the dedup ring while its timestamp is inside the skew window (recorded %v)", *m, r.b.Cfg.RingSize, r.recorded))
				}
			}
			r.handledId[m.Id]++
			r.recorded = append(r.recorded, m.Id)
		} else if a.Act == "LPublish" && r.own[m.Id] {
			r.handledId[m.Id]++ // recorded in the ring by Publish even without a local handler
			r.recorded = append(r.recorded, m.Id)
		}
	} else if len(handled) > 0 {
		r.violate("handler-invoked-without-frame", fmt.Sprintf("handlers %v ran during %s", handled, a.Act))
	}
	ring = r.ringIds()
	e.svc.localMu.Lock()
	for sp, m := range e.svc.localSubs {
		if sp == vBarrierSpace {
			continue
		}
		for p := range m {
			lp = append(lp, sp+"|"+e.modelSegs(p).key())
		}
	}
	e.svc.localMu.Unlock()
	sort.Strings(lp)
	return pats, ring, lp
}

func (r *vReplayer) clientStep(s vStep) {
	pats, ring, lp := r.clientExec(s.A, r.prev())
	exp := s.Exp
	// conformance with the spec: handlers served, ring, local patterns
	if m := s.A.M; m != nil {
		var want []string
		for _, p := range s.Out.Handled {
			want = append(want, m.Space+"|"+p.key())
		}
		sort.Strings(want)
		if !vEqStrings(pats, want) {
			r.driftf("handlers invoked %v, spec %v (code %s)", pats, want, s.Out.Code)
		}
	}
	if fmt.Sprint(ring) != fmt.Sprint(exp.Ring) {
		r.driftf("dedup ring %v, spec %v", ring, exp.Ring)
	}
	if !vEqStrings(lp, vTagKeys(exp.Lpats)) {
		r.driftf("local patterns %v, spec %v", lp, vTagKeys(exp.Lpats))
	}
}

// ---------------------------------------------------------------------------------------------

func TestVerifReplay(t *testing.T) {
	rep := newVfReport()
	defer func() { rep.Save(!t.Failed() || rep.NumViolations() > 0) }()
	var bs []vBehaviour
	if raw, ok := vfReplayFile(); ok {
		var b vBehaviour
		if err := json.Unmarshal(raw, &b); err != nil {
			t.Fatal(err)
		}
		b.Src = "replay"
		bs = []vBehaviour{b}
	} else {
		for _, dir := range strings.Split(os.Getenv("VERIF_BEHAVIOURS"), ":") {
			if dir == "" {
				continue
			}
			more, err := vfLoadBehaviours(dir)
			if err != nil {
				t.Fatal(err)
			}
			bs = append(bs, more...)
		}
	}
	if len(bs) == 0 {
		t.Fatal("no behaviours")
	}
	for i, b := range bs {
		var acts []string
		for _, s := range b.Steps {
			acts = append(acts, s.A.Act+":"+s.Out.Code)
		}
		rep.Case(b.Cfg.Role + "|" + strings.Join(acts, ","))
		rep.AddReplayed(1)
		vReplayBehaviour(t, rep, b, vfSeed()+int64(i))
		if i < 2 {
			rep.Sample(map[string]any{"role": b.Cfg.Role, "actions": acts})
		}
	}
}
