package pubsub

// Overlay test files of the /verif machinery (property C17). They are injected into package
// commonspace/pubsub with `go test -overlay` and never live in the repository.
//
// This file: the report written to $VERIF_OUT (same JSON shape as verifharness/vfutil, which an
// in-package file cannot import), the JSON types of the behaviours TLC emits from
// spec/pubsub/PubSubGen.tla, and small helpers.

import (
	"encoding/json"
	"fmt"
	"math/rand"
	"os"
	"path/filepath"
	"sort"
	"strconv"
	"strings"
	"sync"
)

type vfViolation struct {
	Key    string `json:"key"`
	Desc   string `json:"desc"`
	Replay any    `json:"replay"`
}

type vfReport struct {
	mu         sync.Mutex
	Property   string         `json:"property"`
	Cases      int            `json:"cases"`
	Distinct   int            `json:"distinct"`
	Replayed   int            `json:"replayed"`
	Steps      int            `json:"steps"`
	Drift      int            `json:"drift"`
	Violations []vfViolation  `json:"violations"`
	Samples    []any          `json:"samples"`
	Extra      map[string]any `json:"extra"`
	Complete   bool           `json:"complete"`
	DriftNotes []string       `json:"drift_notes,omitempty"`
	keys       map[string]struct{}
	vkeys      map[string]int
}

func newVfReport() *vfReport {
	return &vfReport{Property: "C17", Violations: []vfViolation{}, Samples: []any{}, Extra: map[string]any{},
		keys: map[string]struct{}{}, vkeys: map[string]int{}}
}

func (r *vfReport) Case(key string) {
	r.mu.Lock()
	defer r.mu.Unlock()
	r.Cases++
	if key != "" {
		if _, ok := r.keys[key]; !ok {
			r.keys[key] = struct{}{}
			r.Distinct++
		}
	}
}
func (r *vfReport) AddSteps(n int)    { r.mu.Lock(); r.Steps += n; r.mu.Unlock() }
func (r *vfReport) AddReplayed(n int) { r.mu.Lock(); r.Replayed += n; r.mu.Unlock() }
func (r *vfReport) DriftNote(format string, a ...any) {
	r.mu.Lock()
	defer r.mu.Unlock()
	r.Drift++
	if len(r.DriftNotes) < 20 {
		r.DriftNotes = append(r.DriftNotes, fmt.Sprintf(format, a...))
	}
}
func (r *vfReport) Violate(key, desc string, replay any) {
	r.mu.Lock()
	defer r.mu.Unlock()
	r.vkeys[key]++
	if r.vkeys[key] > 1 {
		return
	}
	r.Violations = append(r.Violations, vfViolation{Key: key, Desc: desc, Replay: replay})
}
func (r *vfReport) NumViolations() int { r.mu.Lock(); defer r.mu.Unlock(); return len(r.Violations) }
func (r *vfReport) Sample(s any) {
	r.mu.Lock()
	defer r.mu.Unlock()
	if len(r.Samples) < 3 {
		r.Samples = append(r.Samples, s)
	}
}
func (r *vfReport) SetExtra(k string, v any) { r.mu.Lock(); r.Extra[k] = v; r.mu.Unlock() }
func (r *vfReport) AddExtra(k string, n int) {
	r.mu.Lock()
	defer r.mu.Unlock()
	cur, _ := r.Extra[k].(int)
	r.Extra[k] = cur + n
}
func (r *vfReport) Save(complete bool) {
	r.mu.Lock()
	defer r.mu.Unlock()
	r.Complete = complete
	if len(r.vkeys) > 0 {
		counts := map[string]int{}
		for k, v := range r.vkeys {
			counts[k] = v
		}
		r.Extra["violation_counts"] = counts
	}
	b, err := json.Marshal(r)
	if err != nil {
		panic(err)
	}
	out := os.Getenv("VERIF_OUT")
	if out == "" {
		fmt.Println(string(b))
		return
	}
	if err := os.WriteFile(out, b, 0o644); err != nil {
		panic(err)
	}
}

func vfSeed() int64 {
	s, err := strconv.ParseInt(os.Getenv("VERIF_SEED"), 10, 64)
	if err != nil {
		return 1
	}
	return s
}
func vfRand() *rand.Rand { return rand.New(rand.NewSource(vfSeed())) }
func vfThorough() bool   { return os.Getenv("VERIF_TIER") == "thorough" }
func vfEnvInt(name string, def int) int {
	if v, err := strconv.Atoi(os.Getenv(name)); err == nil {
		return v
	}
	return def
}
func vfReplayFile() (json.RawMessage, bool) {
	p := os.Getenv("VERIF_REPLAY")
	if p == "" {
		return nil, false
	}
	b, err := os.ReadFile(p)
	if err != nil {
		panic(err)
	}
	var w struct {
		Replay json.RawMessage `json:"replay"`
	}
	if err := json.Unmarshal(b, &w); err != nil {
		panic(err)
	}
	return w.Replay, true
}

type vfTraceWriter struct {
	mu sync.Mutex
	f  *os.File
	n  int
}

func newVfTraceWriter(path string) *vfTraceWriter {
	f, err := os.Create(path)
	if err != nil {
		panic(err)
	}
	return &vfTraceWriter{f: f}
}
func (w *vfTraceWriter) Emit(ev any) {
	b, err := json.Marshal(ev)
	if err != nil {
		panic(err)
	}
	w.mu.Lock()
	defer w.mu.Unlock()
	w.f.Write(b)
	w.f.Write([]byte("\n"))
	w.n++
}
func (w *vfTraceWriter) Len() int { w.mu.Lock(); defer w.mu.Unlock(); return w.n }
func (w *vfTraceWriter) Close()   { w.f.Close() }

// ---------------------------------------------------------------------------------------------
// behaviours (JSON written by TLC, see PubSubGen.tla)
// ---------------------------------------------------------------------------------------------

// a pattern / topic: list of segments
type vSegs []string

func (s vSegs) key() string { return strings.Join(s, "/") }

// <<space, pattern>>, JSON ["X", ["a", "*"]]
type vTag struct {
	Sp  string
	Pat vSegs
}

func (t *vTag) UnmarshalJSON(b []byte) error {
	var raw []json.RawMessage
	if err := json.Unmarshal(b, &raw); err != nil {
		return err
	}
	if len(raw) != 2 {
		return fmt.Errorf("tag: want 2 elements, got %s", string(b))
	}
	if err := json.Unmarshal(raw[0], &t.Sp); err != nil {
		return err
	}
	return json.Unmarshal(raw[1], &t.Pat)
}
func (t vTag) MarshalJSON() ([]byte, error) { return json.Marshal([]any{t.Sp, []string(t.Pat)}) }
func (t vTag) key() string                  { return t.Sp + "|" + t.Pat.key() }

// <<space, pattern, refcount>>
type vRef struct {
	Sp  string
	Pat vSegs
	N   int
}

func (t *vRef) UnmarshalJSON(b []byte) error {
	var raw []json.RawMessage
	if err := json.Unmarshal(b, &raw); err != nil {
		return err
	}
	if len(raw) != 3 {
		return fmt.Errorf("ref: want 3 elements, got %s", string(b))
	}
	if err := json.Unmarshal(raw[0], &t.Sp); err != nil {
		return err
	}
	if err := json.Unmarshal(raw[1], &t.Pat); err != nil {
		return err
	}
	return json.Unmarshal(raw[2], &t.N)
}
func (t vRef) MarshalJSON() ([]byte, error) { return json.Marshal([]any{t.Sp, []string(t.Pat), t.N}) }

type vMsg struct {
	Id    int    `json:"id"`
	Src   string `json:"src"`
	Sig   bool   `json:"sig"`
	Ts    string `json:"ts"`
	Space string `json:"space"`
	Topic vSegs  `json:"topic"`
	IdOk  bool   `json:"idOk"`
}

type vAct struct {
	Act     string  `json:"act"`
	S       int     `json:"s,omitempty"`
	Sp      string  `json:"sp,omitempty"`
	F       []vSegs `json:"f,omitempty"`
	P       []vSegs `json:"P,omitempty"`
	Acct    string  `json:"acct,omitempty"`
	Claimed string  `json:"claimed,omitempty"`
	T       vSegs   `json:"t,omitempty"`
	Relayed bool    `json:"relayed,omitempty"`
	IdOk    bool    `json:"idOk,omitempty"`
	Pat     vSegs   `json:"p,omitempty"`
	M       *vMsg   `json:"m,omitempty"`
}

type vOut struct {
	Kind    string  `json:"kind"`
	Code    string  `json:"code"`
	To      int     `json:"to"`
	Topics  []vSegs `json:"topics"`
	Deliver []int   `json:"deliver"`
	Fwd     []int   `json:"fwd"`
	Handled []vSegs `json:"handled"`
}

type vExp struct {
	St        []string   `json:"st"`
	Tags      [][]vTag   `json:"tags"`
	HasRec    []bool     `json:"hasRec"`
	RecSp     [][]string `json:"recSp"`
	RecPat    [][]vTag   `json:"recPat"`
	Total     []int      `json:"total"`
	RemoteDom []string   `json:"remoteDom"`
	Refs      []vRef     `json:"refs"`
	Member    [][]string `json:"member"`
	Busy      []string   `json:"busy"`
	PendU     [][]vTag   `json:"pendU"`
	Want      [][]vTag   `json:"want"`
	Tokens    []int      `json:"tokens"`
	MuFree    bool       `json:"muFree"`
	Lpats     []vTag     `json:"lpats"`
	Ring      []int      `json:"ring"`
	Hid       []int      `json:"hid"`
}

type vStep struct {
	A   vAct  `json:"a"`
	Out vOut  `json:"out"`
	Exp *vExp `json:"exp"`
}

type vCfg struct {
	Role         string     `json:"role"`
	NStreams     int        `json:"nstreams"`
	StreamAcct   []string   `json:"streamAcct"`
	StreamPeer   []string   `json:"streamPeer"`
	NodePeers    []string   `json:"nodePeers"`
	Accounts     []string   `json:"accounts"`
	Spaces       []string   `json:"spaces"`
	BadSpaces    []string   `json:"badSpaces"`
	NotResp      []string   `json:"notResp"`
	InitMember   [][]string `json:"initMember"`
	MaxPerSpace  int        `json:"maxPerSpace"`
	MaxPerStream int        `json:"maxPerStream"`
	Burst        int        `json:"burst"`
	RingSize     int        `json:"ringSize"`
	Self         string     `json:"self"`
	Prelude      string     `json:"prelude"` // "holder": stream 1 is open and holds pattern a of space X before the first step
	// harness-side switches (not written by TLC)
	PlainPool bool `json:"plainPool,omitempty"` // keep the pool built by Init (ungated close hook)
}

type vBehaviour struct {
	Cfg   vCfg    `json:"cfg"`
	Init  *vExp   `json:"init,omitempty"` // projection of the initial state (after the prelude)
	Steps []vStep `json:"steps"`
	Src   string  `json:"src,omitempty"`
}

func vfLoadBehaviours(dir string) ([]vBehaviour, error) {
	names, err := filepath.Glob(filepath.Join(dir, "*.json"))
	if err != nil {
		return nil, err
	}
	sort.Strings(names)
	res := make([]vBehaviour, 0, len(names))
	for _, n := range names {
		b, err := os.ReadFile(n)
		if err != nil {
			return nil, err
		}
		var v vBehaviour
		if err := json.Unmarshal(b, &v); err != nil {
			return nil, fmt.Errorf("%s: %w", n, err)
		}
		v.Src = filepath.Base(n)
		res = append(res, v)
	}
	return res, nil
}

// ---------------------------------------------------------------------------------------------
// the declarative rules of the statement, written once more in Go for the oracles. They are
// compared against the TLA+ definitions (the table TLC emits from PubSubMatch.tla) in TestVerifMatch.
// ---------------------------------------------------------------------------------------------

func vContainsWild(seg string) bool { return strings.ContainsAny(seg, "*>") }

func vCanonical(t vSegs) bool {
	if len(t) == 0 {
		return false
	}
	for _, s := range t {
		if s == "" {
			return false
		}
	}
	return true
}

func vValidTopic(t vSegs) bool {
	if !vCanonical(t) {
		return false
	}
	for _, s := range t {
		if vContainsWild(s) {
			return false
		}
	}
	return true
}

func vValidPattern(p vSegs) bool {
	if !vCanonical(p) {
		return false
	}
	for i, s := range p {
		switch {
		case s == "*":
		case s == ">":
			if i != len(p)-1 {
				return false
			}
		case vContainsWild(s):
			return false
		}
	}
	return true
}

// segment by segment, `*` one segment, trailing `>` one or more
func vMatches(p, t vSegs) bool {
	if len(p) == 0 {
		return false
	}
	if p[len(p)-1] == ">" {
		if len(t) < len(p) {
			return false
		}
		for i := 0; i < len(p)-1; i++ {
			if p[i] != "*" && p[i] != t[i] {
				return false
			}
		}
		return true
	}
	if len(t) != len(p) {
		return false
	}
	for i := range p {
		if p[i] != "*" && p[i] != t[i] {
			return false
		}
	}
	return true
}

func vOwner(t vSegs) string {
	if len(t) >= 2 && t[0] == "acc" {
		return t[len(t)-1]
	}
	return ""
}

func vIn(list []string, x string) bool {
	for _, y := range list {
		if y == x {
			return true
		}
	}
	return false
}

func vSortedKeys(m map[string]struct{}) []string {
	res := make([]string, 0, len(m))
	for k := range m {
		res = append(res, k)
	}
	sort.Strings(res)
	return res
}

func vTagKeys(ts []vTag) []string {
	res := make([]string, 0, len(ts))
	for _, t := range ts {
		res = append(res, t.key())
	}
	sort.Strings(res)
	return res
}

func vEqStrings(a, b []string) bool {
	if len(a) != len(b) {
		return false
	}
	for i := range a {
		if a[i] != b[i] {
			return false
		}
	}
	return true
}

func vSorted(a []string) []string {
	b := append([]string(nil), a...)
	sort.Strings(b)
	return b
}
