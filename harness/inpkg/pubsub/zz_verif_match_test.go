package pubsub

// TestVerifMatch: the repository's patternTrie against the declarative matching rule of the
// statement as defined in TLA+ (spec/pubsub/PubSub.tla: Matches, ValidTopic, ValidPattern, Owner).
// TLC tabulates the definitions over all strings of a small segment alphabet (PubSubMatch.tla);
// here every pattern set of size <= 2 (in every insertion order, with duplicate adds and removals)
// is loaded into a real trie and matched against every topic of the table. Exhaustive.

import (
	"encoding/json"
	"fmt"
	"os"
	"sort"
	"strings"
	"testing"
)

type vMatchTable struct {
	Valid   [][]json.RawMessage `json:"valid"`   // [segs, validTopic, validPattern]
	Owners  [][]json.RawMessage `json:"owners"`  // [segs, owner]
	Matches [][]json.RawMessage `json:"matches"` // [pattern segs, [topic segs...]]
	Topics  []vSegs             `json:"topics"`
}

func vLoadMatchTable(t testing.TB) (valid map[string][2]bool, owners map[string]string, matches map[string]map[string]bool, pats, topics []vSegs, all []vSegs) {
	b, err := os.ReadFile(os.Getenv("VERIF_MATCH_TABLE"))
	if err != nil {
		t.Fatal(err)
	}
	var tab vMatchTable
	if err := json.Unmarshal(b, &tab); err != nil {
		t.Fatal(err)
	}
	valid = map[string][2]bool{}
	for _, row := range tab.Valid {
		var s vSegs
		var vt, vp bool
		if json.Unmarshal(row[0], &s) != nil || json.Unmarshal(row[1], &vt) != nil || json.Unmarshal(row[2], &vp) != nil {
			t.Fatal("bad valid row")
		}
		valid[s.key()] = [2]bool{vt, vp}
		all = append(all, s)
	}
	owners = map[string]string{}
	for _, row := range tab.Owners {
		var s vSegs
		var o string
		if json.Unmarshal(row[0], &s) != nil || json.Unmarshal(row[1], &o) != nil {
			t.Fatal("bad owners row")
		}
		owners[s.key()] = o
	}
	matches = map[string]map[string]bool{}
	for _, row := range tab.Matches {
		var p vSegs
		var ts []vSegs
		if json.Unmarshal(row[0], &p) != nil || json.Unmarshal(row[1], &ts) != nil {
			t.Fatal("bad matches row")
		}
		m := map[string]bool{}
		for _, x := range ts {
			m[x.key()] = true
		}
		matches[p.key()] = m
		pats = append(pats, p)
	}
	sort.Slice(pats, func(i, j int) bool { return pats[i].key() < pats[j].key() })
	topics = tab.Topics
	return
}

func vTrieEmpty(t *patternTrie) bool { return t.Len() == 0 && t.root.empty() }

func TestVerifMatch(t *testing.T) {
	rep := newVfReport()
	defer func() { rep.Save(!t.Failed() || rep.NumViolations() > 0) }()
	valid, owners, matches, pats, topics, all := vLoadMatchTable(t)

	// 0. the Go transcription of the rule used by the replay oracles is the TLA+ definition
	for _, s := range all {
		if v := valid[s.key()]; vValidTopic(s) != v[0] || vValidPattern(s) != v[1] {
			t.Fatalf("harness rule differs from the TLA+ definition on %q", s.key())
		}
	}
	for _, p := range pats {
		for _, tp := range topics {
			if vMatches(p, tp) != matches[p.key()][tp.key()] {
				t.Fatalf("harness Matches differs from the TLA+ definition on %q / %q", p.key(), tp.key())
			}
		}
	}

	// 1. validation and ownership for every string of the alphabet
	for _, s := range all {
		str := s.key()
		v := valid[str]
		rep.Case("validate|" + str)
		if got := ValidateTopic(str) == nil; got != v[0] {
			kind := "accepts-malformed"
			if v[0] {
				kind = "rejects-wellformed"
			}
			rep.Violate("validate-topic:"+kind, fmt.Sprintf("ValidateTopic(%q) ok=%v, the statement says %v", str, got, v[0]), map[string]any{"match": true, "string": str})
		}
		if got := ValidatePattern(str) == nil; got != v[1] {
			kind := "accepts-malformed"
			if v[1] {
				kind = "rejects-wellformed"
			}
			rep.Violate("validate-pattern:"+kind, fmt.Sprintf("ValidatePattern(%q) ok=%v, the statement says %v", str, got, v[1]), map[string]any{"match": true, "string": str})
		}
	}
	for str, o := range owners {
		if !vValidTopic(vSegs(strings.Split(str, "/"))) {
			continue
		}
		rep.Case("owner|" + str)
		if got := TopicOwner(str); got != o {
			rep.Violate("topic-owner", fmt.Sprintf("TopicOwner(%q) = %q, the statement says %q", str, got, o), map[string]any{"match": true, "string": str})
		}
	}

	// 2. the trie: all pattern sets of size 1 and 2 in every insertion order x all topics
	check := func(tr *patternTrie, set []vSegs, hist string) {
		for _, tp := range topics {
			got := tr.Match(tp.key(), nil)
			gotSet := map[string]int{}
			for _, g := range got {
				gotSet[g]++
			}
			for _, p := range set {
				want := matches[p.key()][tp.key()]
				n := gotSet[p.key()]
				delete(gotSet, p.key())
				switch {
				case want && n == 0:
					rep.Violate(fmt.Sprintf("trie-misses-match:pattern=%s:extra-segments=%d", p.key(), len(tp)-len(p)),
						fmt.Sprintf("trie %s does not match topic %q with pattern %q", hist, tp.key(), p.key()), map[string]any{"match": true, "set": set, "topic": tp})
				case !want && n > 0:
					rep.Violate(fmt.Sprintf("trie-false-match:pattern=%s:extra-segments=%d", p.key(), len(tp)-len(p)),
						fmt.Sprintf("trie %s matches topic %q with pattern %q against the rule", hist, tp.key(), p.key()), map[string]any{"match": true, "set": set, "topic": tp})
				case n > 1:
					rep.Violate("trie-duplicate-match", fmt.Sprintf("trie %s returns pattern %q %d times for topic %q", hist, p.key(), n, tp.key()), map[string]any{"match": true, "set": set, "topic": tp})
				}
			}
			for g := range gotSet {
				rep.Violate("trie-returns-absent-pattern", fmt.Sprintf("trie %s returns pattern %q (not in the set) for topic %q", hist, g, tp.key()), map[string]any{"match": true, "set": set, "topic": tp})
			}
		}
	}
	queries := 0
	for _, p := range pats {
		tr := newPatternTrie()
		tr.Add(p.key())
		check(tr, []vSegs{p}, "{p}")
		tr.Add(p.key()) // second subscriber
		tr.Remove(p.key())
		check(tr, []vSegs{p}, "{p} after add+remove of a second reference")
		tr.Remove(p.key())
		check(tr, nil, "after removing p")
		queries += 3 * len(topics)
		rep.Case("trie|" + p.key())
		if !vTrieEmpty(tr) {
			rep.Violate("trie-not-empty-after-removal", fmt.Sprintf("trie keeps nodes after pattern %q was added and removed", p.key()), map[string]any{"match": true, "set": []vSegs{p}})
		}
		for _, q := range pats {
			if q.key() == p.key() {
				continue
			}
			tr := newPatternTrie()
			tr.Add(p.key())
			tr.Add(q.key())
			check(tr, []vSegs{p, q}, "{p, q}")
			tr.Remove(p.key())
			check(tr, []vSegs{q}, "{p, q} minus p")
			tr.Add(p.key())
			tr.Remove(q.key())
			check(tr, []vSegs{p}, "{q, p} minus q")
			tr.Remove(p.key())
			queries += 3 * len(topics)
			rep.Case("trie|" + p.key() + "|" + q.key())
			if !vTrieEmpty(tr) {
				rep.Violate("trie-not-empty-after-removal", fmt.Sprintf("trie keeps nodes after %q and %q were added and removed", p.key(), q.key()), map[string]any{"match": true, "set": []vSegs{p, q}})
			}
		}
	}
	// a seeded sample of larger sets
	rnd := vfRand()
	nBig := 200
	if vfThorough() {
		nBig = 5000
	}
	for i := 0; i < nBig; i++ {
		k := 3 + rnd.Intn(6)
		var set []vSegs
		seen := map[string]bool{}
		tr := newPatternTrie()
		for len(set) < k {
			p := pats[rnd.Intn(len(pats))]
			if seen[p.key()] {
				continue
			}
			seen[p.key()] = true
			set = append(set, p)
			tr.Add(p.key())
		}
		check(tr, set, "random set")
		for len(set) > 0 {
			j := rnd.Intn(len(set))
			tr.Remove(set[j].key())
			set = append(set[:j], set[j+1:]...)
			if len(set) == k/2 {
				check(tr, set, "random set after removals")
				queries += len(topics)
			}
		}
		queries += len(topics)
		if !vTrieEmpty(tr) {
			rep.Violate("trie-not-empty-after-removal", "trie keeps nodes after a random set was added and removed", map[string]any{"match": true})
		}
	}
	rep.SetExtra("trie_match_queries", queries)
	rep.SetExtra("patterns", len(pats))
	rep.SetExtra("topics", len(topics))
	rep.SetExtra("strings", len(all))
	rep.Sample(map[string]any{"pattern_set": []string{pats[3].key(), pats[17].key()}, "topics": len(topics)})
}
