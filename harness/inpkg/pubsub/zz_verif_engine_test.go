package pubsub

// The real engine under harness control (property C17): a service built like the repository's
// engine fixture, fed through harness-owned fake streams. Frames are handed to the real read loop
// of the stream pool; a subscribe can be stopped right before it takes remoteMu (gate inside the
// harness-owned membership checker), a stream can be made to fail its next write (the pool's write
// loop then closes it), and the pool's close hook is wrapped by a gate so that the harness decides
// when onStreamClose runs. Everything the engine writes is captured per stream.

import (
	"context"
	"encoding/binary"
	"errors"
	"fmt"
	"io"
	"sort"
	"strings"
	"sync"
	"sync/atomic"
	"testing"
	"time"

	"storj.io/drpc"

	"github.com/anyproto/any-sync/app"
	"github.com/anyproto/any-sync/commonspace/object/accountdata"
	"github.com/anyproto/any-sync/commonspace/pubsub/pubsubproto"
	"github.com/anyproto/any-sync/net/peer"
	"github.com/anyproto/any-sync/net/streampool"
	"github.com/anyproto/any-sync/testutil/accounttest"
	"github.com/anyproto/any-sync/util/crypto"
)

const vWatchdog = 60 * time.Second

type vCtxKey int

const vCtxStream vCtxKey = 1

// vHang is raised when the code under test does not come back (converted by the callers).
type vHang struct{ what string }

func (h vHang) Error() string { return "no progress: " + h.what }

// ---------------------------------------------------------------------------------------------
// fake stream
// ---------------------------------------------------------------------------------------------

type vStream struct {
	model  int
	ctx    context.Context
	cancel context.CancelFunc

	mu          sync.Mutex
	cond        *sync.Cond
	inbox       []*pubsubproto.PubSubMessage
	recvEntered int // MsgRecv calls entered so far
	closed      bool
	readEOF     bool // the remote closed: MsgRecv reports EOF
	finish      bool // tear-down: parked read loops are let go
	failSend    bool
	sent        []*pubsubproto.PubSubMessage
	seen        int // frames of sent already collected
}

func newVStream(model int, ctx context.Context) *vStream {
	c, cancel := context.WithCancel(context.WithValue(ctx, vCtxStream, model))
	s := &vStream{model: model, ctx: c, cancel: cancel}
	s.cond = sync.NewCond(&s.mu)
	return s
}

func (s *vStream) Context() context.Context { return s.ctx }

func (s *vStream) MsgSend(msg drpc.Message, _ drpc.Encoding) error {
	m, ok := msg.(*pubsubproto.PubSubMessage)
	if !ok {
		return fmt.Errorf("unexpected message type %T", msg)
	}
	b, err := m.MarshalVT()
	if err != nil {
		return err
	}
	s.mu.Lock()
	defer s.mu.Unlock()
	if s.failSend || s.closed {
		return errors.New("verif: write failed")
	}
	cp := &pubsubproto.PubSubMessage{}
	if err := cp.UnmarshalVT(b); err != nil {
		return err
	}
	s.sent = append(s.sent, cp)
	s.cond.Broadcast()
	return nil
}

// MsgRecv hands the next queued frame to the pool's read loop. After the stream was closed by the
// pool (write failure) the loop stays parked here - a frame already on its way can still be handed
// over (the one late frame of the model) - until tear-down.
func (s *vStream) MsgRecv(msg drpc.Message, _ drpc.Encoding) error {
	s.mu.Lock()
	s.recvEntered++
	s.cond.Broadcast()
	for len(s.inbox) == 0 && !s.readEOF && !s.finish {
		s.cond.Wait()
	}
	if len(s.inbox) == 0 {
		s.mu.Unlock()
		return io.EOF
	}
	f := s.inbox[0]
	s.inbox = s.inbox[1:]
	s.mu.Unlock()
	b, err := f.MarshalVT()
	if err != nil {
		return err
	}
	return msg.(*pubsubproto.PubSubMessage).UnmarshalVT(b)
}

func (s *vStream) CloseSend() error { return nil }
func (s *vStream) Close() error {
	s.mu.Lock()
	s.closed = true
	s.cond.Broadcast()
	s.mu.Unlock()
	s.cancel()
	return nil
}

func (s *vStream) waitFor(what string, cond func() bool) {
	done := make(chan struct{})
	go func() {
		s.mu.Lock()
		for !cond() {
			s.cond.Wait()
		}
		s.mu.Unlock()
		close(done)
	}()
	select {
	case <-done:
	case <-time.After(vWatchdog):
		s.mu.Lock()
		s.cond.Broadcast()
		s.mu.Unlock()
		panic(vHang{fmt.Sprintf("stream %d: %s", s.model, what)})
	}
}

// push queues a frame and returns the number of MsgRecv calls entered before; the frame has been
// handled completely once that number grew by one (the read loop came back for the next frame).
func (s *vStream) push(f *pubsubproto.PubSubMessage) int {
	s.mu.Lock()
	defer s.mu.Unlock()
	n := s.recvEntered
	s.inbox = append(s.inbox, f)
	s.cond.Broadcast()
	return n
}

func (s *vStream) waitHandled(n int) {
	s.waitFor("frame not handled", func() bool { return s.recvEntered > n })
}

// handledChan is closed once the frame pushed when recvEntered was n has been handled (or at tear-down)
func (s *vStream) handledChan(n int) chan struct{} {
	done := make(chan struct{})
	go func() {
		s.mu.Lock()
		for s.recvEntered <= n && !s.finish {
			s.cond.Wait()
		}
		s.mu.Unlock()
		close(done)
	}()
	return done
}

func (s *vStream) waitIdle() {
	s.waitFor("read loop did not start", func() bool { return s.recvEntered >= 1 })
}

// ---------------------------------------------------------------------------------------------
// harness-owned dependencies
// ---------------------------------------------------------------------------------------------

type vMembership struct {
	mu      sync.Mutex
	e       *vEngine
	members map[string]bool // "account|space" (model account names)
	armed   map[int]bool    // model stream -> stop the next positive answer for it (first check of a subscribe)
	atGate  chan int
	release map[int]chan struct{}
	// second check of the same subscribe (after remoteMu was released): parked on entry, answered after release
	armed2   map[int]bool
	atGate2  chan int
	release2 map[int]chan struct{}
}

func (m *vMembership) set(acct, space string, v bool) {
	m.mu.Lock()
	defer m.mu.Unlock()
	m.members[acct+"|"+space] = v
}

func (m *vMembership) isMember(acct, space string) bool {
	m.mu.Lock()
	defer m.mu.Unlock()
	return m.members[acct+"|"+space]
}

func (m *vMembership) arm(model int) {
	m.mu.Lock()
	defer m.mu.Unlock()
	m.armed[model] = true
	m.release[model] = make(chan struct{})
	m.armed2[model] = false
}

func (m *vMembership) disarm(model int) {
	m.mu.Lock()
	defer m.mu.Unlock()
	m.armed[model] = false
	m.armed2[model] = false
}

func (m *vMembership) CheckMember(ctx context.Context, spaceId string, identity crypto.PubKey) error {
	name := m.e.acctName(identity.Account())
	model, _ := ctx.Value(vCtxStream).(int)
	m.mu.Lock()
	var ch2 chan struct{}
	if model != 0 && m.armed2[model] {
		m.armed2[model] = false
		ch2 = make(chan struct{})
		m.release2[model] = ch2
	}
	m.mu.Unlock()
	if ch2 != nil {
		// the second check of a subscribe: its interest is registered and tagged, remoteMu is free again
		m.atGate2 <- model
		<-ch2
	}
	ok := m.isMember(name, spaceId)
	if model != 0 {
		if real, has := streampool.CtxStreamId(ctx); has {
			m.e.noteRealId(model, real)
		}
	}
	m.mu.Lock()
	stop := ok && model != 0 && m.armed[model]
	var ch chan struct{}
	if stop {
		m.armed[model] = false
		m.armed2[model] = true // a further check while handling the same frame is the re-check
		ch = m.release[model]
	}
	m.mu.Unlock()
	if stop {
		// the subscribe is now right before remoteMu.Lock(): everything before (validation, the
		// membership answer) is decided, nothing of the engine state is touched yet
		m.atGate <- model
		<-ch
	}
	if ok {
		return nil
	}
	return errors.New("not a member")
}

type vRelay struct {
	e            *vEngine
	notResp      map[string]bool
	nodePeers    map[string]bool // real peer ids
	others       []peer.Peer
	forwardCalls atomic.Int32
}

func (r *vRelay) IsResponsible(spaceId string) bool { return !r.notResp[spaceId] }
func (r *vRelay) IsResponsibleNode(_, peerId string) bool {
	return r.nodePeers[peerId]
}
func (r *vRelay) OtherResponsiblePeers(context.Context, string) ([]peer.Peer, error) {
	r.forwardCalls.Add(1)
	return append([]peer.Peer(nil), r.others...), nil
}

// vPeer is the handle of a relay partner: the pool only needs its id as long as a stream of that
// peer is pooled; opening a new stream fails (the partner is unreachable).
type vPeer struct {
	peer.Peer
	id string
}

func (p *vPeer) Id() string               { return p.id }
func (p *vPeer) Context() context.Context { return context.Background() }
func (p *vPeer) SetTTL(time.Duration)     {}
func (p *vPeer) AcquireDrpcConn(context.Context) (drpc.Conn, error) {
	return nil, errors.New("verif: relay partner unreachable")
}

// vPool wraps the engine's (real) stream pool: AddTagsCtx - the step of handleSubscribe between recording
// the interest and the rollback - can be parked at a harness gate; everything else passes through.
type vPool struct {
	streampool.StreamPool
	e       *vEngine
	mu      sync.Mutex
	armed   map[int]bool
	atGate  chan int
	release map[int]chan struct{}
}

func (p *vPool) arm(model int) {
	p.mu.Lock()
	defer p.mu.Unlock()
	p.armed[model] = true
	p.release[model] = make(chan struct{})
}

func (p *vPool) disarm(model int) {
	p.mu.Lock()
	defer p.mu.Unlock()
	p.armed[model] = false
}

func (p *vPool) AddTagsCtx(ctx context.Context, tags ...string) error {
	model, _ := ctx.Value(vCtxStream).(int)
	p.mu.Lock()
	stop := model != 0 && p.armed[model]
	var ch chan struct{}
	if stop {
		p.armed[model] = false
		ch = p.release[model]
	}
	p.mu.Unlock()
	if stop {
		p.atGate <- model
		<-ch
	}
	return p.StreamPool.AddTagsCtx(ctx, tags...)
}

type vPeers struct{ peers []peer.Peer }

func (p *vPeers) SpacePeers(context.Context, string) ([]peer.Peer, error) {
	return append([]peer.Peer(nil), p.peers...), nil
}

// ---------------------------------------------------------------------------------------------
// engine
// ---------------------------------------------------------------------------------------------

type vHandled struct {
	topic, account, payload string
}

type vEngine struct {
	t    testing.TB
	cfg  vCfg
	svc  *service
	app  *app.App
	self *accountdata.AccountKeys
	mem  *vMembership
	rel  *vRelay

	accts     map[string]*accountdata.AccountKeys // model account -> keys
	acctNames map[string]string                   // real account id -> model account
	streams   map[int]*vStream                    // model stream -> fake
	realIds   map[int]uint32
	opened    int

	gated       bool
	vpool       *vPool
	hookEntered chan uint32
	hookRelease map[uint32]chan struct{}
	hookDone    chan uint32
	hookMu      sync.Mutex

	barrierN uint64

	// client role
	handledMu sync.Mutex
	handled   []vHandled
	barrierCh chan uint64
	unsubs    map[string]func()
	capture   *vStream // outgoing stream to a fake space peer (captures own publishes)
}

const vBarrierSpace = "__verif_barrier__"

func vBarrierTag(model int) string { return fmt.Sprintf("%s/%d", vBarrierSpace, model) }

func (e *vEngine) peerId(model string) string { return "peer-" + model }

func (e *vEngine) acctName(real string) string {
	if n, ok := e.acctNames[real]; ok {
		return n
	}
	return "?" + real
}

func (e *vEngine) noteRealId(model int, real uint32) {
	e.hookMu.Lock()
	defer e.hookMu.Unlock()
	if want, ok := e.realIds[model]; ok && want != real {
		panic(fmt.Sprintf("verif harness: stream %d has pool id %d, assumed %d", model, real, want))
	}
}

// real account id of a model account name used as topic segment
func (e *vEngine) realSeg(seg string) string {
	if a, ok := e.accts[seg]; ok {
		return a.SignKey.GetPublic().Account()
	}
	return seg
}

func (e *vEngine) realTopic(t vSegs) string {
	parts := make([]string, len(t))
	for i, s := range t {
		parts[i] = e.realSeg(s)
	}
	return strings.Join(parts, "/")
}

// model form of a real pattern / topic string
func (e *vEngine) modelSegs(realStr string) vSegs {
	parts := strings.Split(realStr, "/")
	for i, p := range parts {
		if n, ok := e.acctNames[p]; ok {
			parts[i] = n
		}
	}
	return vSegs(parts)
}

func newVEngine(t testing.TB, cfg vCfg) *vEngine {
	e := &vEngine{t: t, cfg: cfg, accts: map[string]*accountdata.AccountKeys{}, acctNames: map[string]string{},
		streams: map[int]*vStream{}, realIds: map[int]uint32{}, hookRelease: map[uint32]chan struct{}{},
		hookEntered: make(chan uint32, 64), hookDone: make(chan uint32, 64), barrierCh: make(chan uint64, 1024),
		unsubs: map[string]func(){}}
	names := append([]string{}, cfg.Accounts...)
	for _, a := range cfg.StreamAcct {
		if a != "none" && !vIn(names, a) {
			names = append(names, a)
		}
	}
	if cfg.Self != "" && !vIn(names, cfg.Self) {
		names = append(names, cfg.Self)
	}
	for _, n := range names {
		k, err := accountdata.NewRandom()
		if err != nil {
			t.Fatal(err)
		}
		e.accts[n] = k
		e.acctNames[k.SignKey.GetPublic().Account()] = n
	}
	e.mem = &vMembership{e: e, members: map[string]bool{}, armed: map[int]bool{}, atGate: make(chan int, 16), release: map[int]chan struct{}{},
		armed2: map[int]bool{}, atGate2: make(chan int, 16), release2: map[int]chan struct{}{}}
	for _, m := range cfg.InitMember {
		e.mem.set(m[0], m[1], true)
	}
	conf := Config{
		MaxPatternsPerSpace:  cfg.MaxPerSpace,
		MaxPatternsPerStream: cfg.MaxPerStream,
		DedupSize:            cfg.RingSize,
		DialQueueWorkers:     1, // forwards leave the dial queue in order: one barrier task flushes them
		ResyncInterval:       time.Hour,
	}
	if cfg.Burst >= 0 {
		conf.PublishBurst = cfg.Burst
		conf.PublishRps = 1e-9 // no refill within a run: the bucket is a counter
		if cfg.Burst == 0 {
			conf.PublishBurst = 1 // (0 means default) - never generated
		}
	} else {
		conf.PublishBurst = 1 << 30
		conf.PublishRps = 1e9
	}
	deps := Deps{Membership: e.mem, Config: conf}
	if cfg.Role == "node" {
		e.rel = &vRelay{e: e, notResp: map[string]bool{}, nodePeers: map[string]bool{}}
		for _, s := range cfg.NotResp {
			e.rel.notResp[s] = true
		}
		for _, p := range cfg.NodePeers {
			e.rel.nodePeers[e.peerId(p)] = true
			e.rel.others = append(e.rel.others, &vPeer{id: e.peerId(p)})
		}
		deps.Relay = e.rel
		e.self, _ = accountdata.NewRandom()
	} else {
		e.self = e.accts[cfg.Self]
		deps.Peers = &vPeers{peers: []peer.Peer{&vPeer{id: "peer-capture"}}}
	}
	e.svc = New(deps).(*service)
	e.app = new(app.App)
	e.app.Register(accounttest.NewWithAcc(e.self)).Register(e.svc)
	if err := e.app.Start(context.Background()); err != nil {
		t.Fatal(err)
	}
	if !cfg.PlainPool {
		// same pool implementation, same handler; only the close hook is wrapped by a gate
		_ = e.svc.pool.Close(context.Background())
		real := streampool.NewStreamPool(e.svc, e.svc.cfg.streamPoolConfig(), streampool.WithStreamCloseHook(e.gatedHook))
		if err := real.Run(context.Background()); err != nil {
			t.Fatal(err)
		}
		e.vpool = &vPool{StreamPool: real, e: e, armed: map[int]bool{}, atGate: make(chan int, 16), release: map[int]chan struct{}{}}
		e.svc.pool = e.vpool
		e.gated = true
	}
	if cfg.Role == "client" {
		// outgoing stream to the fake space peer: captures what the client sends (own publishes, interest)
		ctx := peer.CtxWithPeerId(context.Background(), "peer-capture")
		e.capture = newVStream(1000, ctx)
		if err := e.svc.pool.AddStream(e.capture, e.svc.cfg.WriteQueueSize, vBarrierTag(1000)); err != nil {
			t.Fatal(err)
		}
		e.capture.waitIdle()
		// barrier handler on a reserved space: handlers run in order on one dispatch loop
		if _, err := e.svc.Subscribe(vBarrierSpace, "sync", func(_, _ string, _ crypto.PubKey, payload []byte) {
			e.barrierCh <- binary.LittleEndian.Uint64(payload)
		}); err != nil {
			t.Fatal(err)
		}
	}
	return e
}

func (e *vEngine) gatedHook(streamId uint32, peerId string, tags []string) {
	e.hookMu.Lock()
	ch := make(chan struct{})
	e.hookRelease[streamId] = ch
	e.hookMu.Unlock()
	e.hookEntered <- streamId
	<-ch
	e.svc.onStreamClose(streamId, peerId, tags)
	e.hookDone <- streamId
}

func (e *vEngine) waitChanU32(ch chan uint32, want uint32, what string) {
	select {
	case got := <-ch:
		if got != want {
			panic(fmt.Sprintf("verif harness: %s: got stream id %d, want %d", what, got, want))
		}
	case <-time.After(vWatchdog):
		panic(vHang{what})
	}
}

// ---- stream operations ----

func (e *vEngine) openStream(model int) *vStream {
	acct := e.cfg.StreamAcct[model-1]
	ctx := peer.CtxWithPeerId(context.Background(), e.peerId(e.cfg.StreamPeer[model-1]))
	if acct != "none" {
		id, err := e.accts[acct].SignKey.GetPublic().Marshall()
		if err != nil {
			e.t.Fatal(err)
		}
		ctx = peer.CtxWithIdentity(ctx, id)
	}
	st := newVStream(model, ctx)
	e.streams[model] = st
	e.opened++
	e.hookMu.Lock()
	e.realIds[model] = uint32(e.opened)
	if e.cfg.Role == "client" {
		e.realIds[model] = uint32(e.opened + 1) // the capture stream is pool id 1
	}
	e.hookMu.Unlock()
	go func() {
		// what HandleStream does, plus a private tag that lets the harness flush this stream's queue
		_ = e.svc.pool.ReadStream(st, e.svc.cfg.WriteQueueSize, vBarrierTag(model))
	}()
	st.waitIdle()
	return st
}

func (e *vEngine) inPool(model int) bool {
	return len(e.svc.pool.Streams(vBarrierTag(model))) > 0
}

// removeStream makes the pool drop the stream: byWrite = its next write fails (the write loop
// closes it, the read loop stays parked); otherwise the remote end closes (read loop ends).
// Returns after pool.removeStream, with the close hook waiting at its gate.
func (e *vEngine) removeStream(model int, byWrite bool) {
	st := e.streams[model]
	if byWrite {
		st.mu.Lock()
		st.failSend = true
		st.mu.Unlock()
		_ = e.svc.pool.Broadcast(context.Background(), e.barrierFrame(0), vBarrierTag(model))
	} else {
		st.mu.Lock()
		st.readEOF = true
		st.cond.Broadcast()
		st.mu.Unlock()
	}
	if e.gated {
		e.waitChanU32(e.hookEntered, e.realIds[model], fmt.Sprintf("close hook of stream %d not reached", model))
	} else {
		deadline := time.Now().Add(vWatchdog)
		for e.inPool(model) {
			if time.Now().After(deadline) {
				panic(vHang{"stream not removed"})
			}
			time.Sleep(time.Millisecond)
		}
	}
}

func (e *vEngine) onStreamClose(model int) {
	id := e.realIds[model]
	e.hookMu.Lock()
	ch := e.hookRelease[id]
	delete(e.hookRelease, id)
	e.hookMu.Unlock()
	if ch == nil {
		panic("verif harness: no close hook pending for stream")
	}
	close(ch)
	e.waitChanU32(e.hookDone, id, "close hook did not return")
}

func (e *vEngine) barrierFrame(n uint64) *pubsubproto.PubSubMessage {
	id := make([]byte, 8)
	binary.LittleEndian.PutUint64(id, n)
	return &pubsubproto.PubSubMessage{Content: &pubsubproto.PubSubMessage_Status{Status: &pubsubproto.Status{SpaceId: vBarrierSpace, MsgId: id}}}
}

func vIsBarrier(m *pubsubproto.PubSubMessage) (uint64, bool) {
	st := m.GetStatus()
	if st == nil || st.SpaceId != vBarrierSpace || len(st.MsgId) != 8 {
		return 0, false
	}
	return binary.LittleEndian.Uint64(st.MsgId), true
}

// flush waits until everything the engine has queued so far has been written to the fake streams:
// first the dial queue (forwards are sent from there), then every pooled stream's write queue.
// Returns the frames written since the previous flush, per model stream.
func (e *vEngine) flush(models []int) map[int][]*pubsubproto.PubSubMessage {
	done := make(chan struct{})
	err := e.svc.pool.Send(context.Background(), e.barrierFrame(0), func(context.Context) ([]peer.Peer, error) {
		close(done)
		return nil, nil
	})
	if err != nil {
		panic("verif harness: dial queue barrier: " + err.Error())
	}
	select {
	case <-done:
	case <-time.After(vWatchdog):
		panic(vHang{"dial queue does not drain"})
	}
	e.barrierN++
	n := e.barrierN
	res := map[int][]*pubsubproto.PubSubMessage{}
	for _, model := range models {
		st := e.streams[model]
		if model == 1000 {
			st = e.capture
		}
		if st == nil {
			continue
		}
		if e.inPool(model) {
			_ = e.svc.pool.Broadcast(context.Background(), e.barrierFrame(n), vBarrierTag(model))
			st.waitFor("write queue does not drain", func() bool {
				for i := len(st.sent) - 1; i >= st.seen; i-- {
					if b, ok := vIsBarrier(st.sent[i]); ok && b == n {
						return true
					}
				}
				return st.failSend || st.closed
			})
		}
		st.mu.Lock()
		for _, f := range st.sent[st.seen:] {
			if _, ok := vIsBarrier(f); !ok {
				res[model] = append(res[model], f)
			}
		}
		st.seen = len(st.sent)
		st.mu.Unlock()
	}
	return res
}

func (e *vEngine) allModels() []int {
	res := make([]int, 0, len(e.streams))
	for m := range e.streams {
		res = append(res, m)
	}
	sort.Ints(res)
	return res
}

// ---- frames ----

func vSubscribeFrame(space string, patterns []string) *pubsubproto.PubSubMessage {
	return &pubsubproto.PubSubMessage{Content: &pubsubproto.PubSubMessage_Subscribe{Subscribe: &pubsubproto.Subscribe{SpaceId: space, Topics: patterns}}}
}
func vUnsubscribeFrame(space string, patterns []string) *pubsubproto.PubSubMessage {
	return &pubsubproto.PubSubMessage{Content: &pubsubproto.PubSubMessage_Unsubscribe{Unsubscribe: &pubsubproto.Unsubscribe{SpaceId: space, Topics: patterns}}}
}

func (e *vEngine) realPatterns(ps []vSegs) []string {
	res := make([]string, len(ps))
	for i, p := range ps {
		res[i] = e.realTopic(p)
	}
	return res
}

// ---- views ----

type vViews struct {
	InPool    []bool
	Tags      [][]string // per model stream: sorted "space|pattern" keys (model form); duplicates kept
	HasRec    []bool
	RecSp     [][]string
	RecPat    [][]string
	Total     []int
	RemoteDom []string
	Refs      map[string]int // "space|pattern" -> refcount (> 0 only)
	TrieLen   map[string]int
	// records of pool ids the harness does not know
	UnknownRecs int
	// remoteMu was held (a subscribe parked at AddTagsCtx): the engine part could not be read
	Locked bool
}

func vTrieRefs(t *patternTrie) map[string]int {
	res := map[string]int{}
	var walkLevel func(l *trieLevel)
	walkNode := func(n *trieNode) {
		if n == nil {
			return
		}
		if n.refs > 0 {
			res[n.pattern] += n.refs
		}
		walkLevel(n.next)
	}
	walkLevel = func(l *trieLevel) {
		if l == nil {
			return
		}
		for _, n := range l.nodes {
			walkNode(n)
		}
		walkNode(l.pwc)
		walkNode(l.fwc)
	}
	walkLevel(t.root)
	return res
}

// views reads the three views of serving-side interest. universe = the <<space, pattern>> pairs
// (model form) whose pool tags are inspected. engine = false skips the part under remoteMu (used
// while a subscribe is parked right before taking it - reading is still safe, the lock is free).
func (e *vEngine) views(universe []vTag) vViews {
	n := e.cfg.NStreams
	v := vViews{InPool: make([]bool, n), Tags: make([][]string, n), HasRec: make([]bool, n), RecSp: make([][]string, n),
		RecPat: make([][]string, n), Total: make([]int, n), Refs: map[string]int{}, TrieLen: map[string]int{}}
	byPtr := map[drpc.Stream]int{}
	for m, st := range e.streams {
		byPtr[st] = m
		v.InPool[m-1] = e.inPool(m)
	}
	for _, tg := range universe {
		real := interestTag(tg.Sp, e.realTopic(tg.Pat))
		for _, ds := range e.svc.pool.Streams(real) {
			if m, ok := byPtr[ds]; ok {
				v.Tags[m-1] = append(v.Tags[m-1], tg.key())
			}
		}
	}
	for i := range v.Tags {
		sort.Strings(v.Tags[i])
	}
	byReal := map[uint32]int{}
	for m, id := range e.realIds {
		byReal[id] = m
	}
	if !e.svc.remoteMu.TryLock() {
		v.Locked = true
		return v
	}
	for id, rec := range e.svc.streams {
		m, ok := byReal[id]
		if !ok {
			v.UnknownRecs++
			continue
		}
		v.HasRec[m-1] = true
		v.Total[m-1] = rec.total
		for sp, pats := range rec.bySpace {
			v.RecSp[m-1] = append(v.RecSp[m-1], sp)
			for p := range pats {
				v.RecPat[m-1] = append(v.RecPat[m-1], sp+"|"+e.modelSegs(p).key())
			}
		}
		sort.Strings(v.RecSp[m-1])
		sort.Strings(v.RecPat[m-1])
	}
	for sp, si := range e.svc.remote {
		v.RemoteDom = append(v.RemoteDom, sp)
		v.TrieLen[sp] = si.trie.Len()
		for p, c := range vTrieRefs(si.trie) {
			v.Refs[sp+"|"+e.modelSegs(p).key()] = c
		}
	}
	e.svc.remoteMu.Unlock()
	sort.Strings(v.RemoteDom)
	return v
}

// ---- tear-down ----

// finish lets every parked goroutine go and stops the engine.
func (e *vEngine) finish() {
	e.mem.mu.Lock()
	for m, ch := range e.mem.release {
		if e.mem.armed[m] {
			e.mem.armed[m] = false
		}
		select {
		case <-ch:
		default:
			close(ch)
		}
	}
	for m, ch := range e.mem.release2 {
		e.mem.armed2[m] = false
		select {
		case <-ch:
		default:
			close(ch)
		}
	}
	e.mem.mu.Unlock()
	if e.vpool != nil {
		e.vpool.mu.Lock()
		for m, ch := range e.vpool.release {
			e.vpool.armed[m] = false
			select {
			case <-ch:
			default:
				close(ch)
			}
		}
		e.vpool.mu.Unlock()
	}
	e.hookMu.Lock()
	for id, ch := range e.hookRelease {
		close(ch)
		delete(e.hookRelease, id)
	}
	e.hookMu.Unlock()
	all := []*vStream{}
	for _, st := range e.streams {
		all = append(all, st)
	}
	if e.capture != nil {
		all = append(all, e.capture)
	}
	for _, st := range all {
		st.mu.Lock()
		st.finish = true
		st.readEOF = true
		st.cond.Broadcast()
		st.mu.Unlock()
	}
	// drain hook notifications of the closes triggered above
	go func() {
		for {
			select {
			case <-e.hookEntered:
			case <-e.hookDone:
			case <-time.After(200 * time.Millisecond):
				return
			}
		}
	}()
	_ = e.app.Close(context.Background())
}
