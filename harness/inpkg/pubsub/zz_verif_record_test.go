package pubsub

// TestVerifRecord: random operation sequences are executed on the real engine (node role and
// client role) by a seeded driver that uses the same gates as the replay (subscribe parked before
// remoteMu, close hook held back, frames handled after the stream left the pool) and recorded as
// NDJSON - one line per spec action with arguments, observed emissions and the projected real
// state. spec/pubsub/PubSubTrace.tla validates the recording against PubSub.tla and evaluates every
// invariant and step property on it. The property predicates are also evaluated here while driving.
//
// TestVerifWiring: the engine exactly as the repository builds it (pool created by Init, close hook
// as registered there, HandleStream as entry point): subscribe, publish, close - nothing may be left.

import (
	"context"
	"encoding/binary"
	"fmt"
	"math/rand"
	"os"
	"sort"
	"testing"
	"time"

	"github.com/anyproto/any-sync/commonspace/pubsub/pubsubproto"
	"github.com/anyproto/any-sync/net/peer"
)

type vRecorder struct {
	*vReplayer
	w   *vfTraceWriter
	rnd *rand.Rand
	// driver-side bookkeeping of what may be done next
	st       []string // new | open | removed | gone
	lateUsed []bool
	member   map[string]bool
	tokens   map[string]int
}

var vRecPatterns = []vSegs{{"a"}, {"*"}, {"a", ">"}, {">"}, {"acc", "*"}, {"a", "b"}, {">", "a"}, {"a", ""}}
var vRecTopics = []vSegs{{"a"}, {"b"}, {"a", "b"}, {"acc", "A"}, {"acc", "B"}, {"a", ""}, {"*"}, {"acc"}, {"a", "b", "c"}}

func vRecordCfg(role string) vCfg {
	return vCfg{Role: role, NStreams: 5, StreamAcct: []string{"A", "A", "B", "N", "none"}, StreamPeer: []string{"pA", "pA", "pB", "pN", "pX"},
		NodePeers: []string{"pN"}, Accounts: []string{"A", "B"}, Spaces: []string{"X", "Y", "Z", "bad/sp"}, BadSpaces: []string{"bad/sp"},
		NotResp: []string{"Z"}, InitMember: [][]string{{"A", "X"}, {"B", "X"}, {"A", "Y"}}, MaxPerSpace: 2, MaxPerStream: 3, Burst: 3, RingSize: 2, Self: "A"}
}

// the action record with exactly the fields PubSubTrace.tla reads for it
func vActJSON(a vAct) map[string]any {
	segs := func(x []vSegs) []vSegs {
		if x == nil {
			return []vSegs{}
		}
		return x
	}
	switch a.Act {
	case "OpenStream", "RemoveStream", "OnStreamClose", "Unsub2":
		return map[string]any{"act": a.Act, "s": a.S}
	case "SubReject", "SubCheck":
		return map[string]any{"act": a.Act, "s": a.S, "sp": a.Sp, "f": segs(a.F)}
	case "Sub1", "Sub3":
		return map[string]any{"act": a.Act, "s": a.S}
	case "Unsub1":
		return map[string]any{"act": a.Act, "s": a.S, "sp": a.Sp, "P": segs(a.P)}
	case "EvictMember", "AddMember", "RemoveMember":
		return map[string]any{"act": a.Act, "sp": a.Sp, "acct": a.Acct}
	case "Revalidate", "CloseSpace":
		return map[string]any{"act": a.Act, "sp": a.Sp}
	case "Publish":
		return map[string]any{"act": a.Act, "s": a.S, "claimed": a.Claimed, "sp": a.Sp, "t": a.T, "relayed": a.Relayed, "idOk": a.IdOk}
	case "LSubscribe", "LUnsubscribe":
		return map[string]any{"act": a.Act, "sp": a.Sp, "p": a.Pat}
	case "Receive", "LPublish":
		return map[string]any{"act": a.Act, "m": a.M}
	}
	return map[string]any{"act": a.Act}
}

func (r *vRecorder) stView(withEngine bool) map[string]any {
	v := r.e.views(r.universe)
	unkey := func(keys []string) []vTag {
		res := []vTag{}
		for _, k := range keys {
			var sp, p string
			for i := 0; i < len(k); i++ {
				if k[i] == '|' {
					sp, p = k[:i], k[i+1:]
					break
				}
			}
			res = append(res, vTag{Sp: sp, Pat: r.e.modelSegs(p)})
		}
		return res
	}
	st := map[string]any{"inPool": v.InPool}
	tags := make([][]vTag, len(v.Tags))
	for i := range v.Tags {
		tags[i] = unkey(v.Tags[i])
	}
	st["tags"] = tags
	if withEngine {
		recPat := make([][]vTag, len(v.RecPat))
		recSp := make([][]string, len(v.RecSp))
		for i := range v.RecPat {
			recPat[i] = unkey(v.RecPat[i])
			recSp[i] = append([]string{}, v.RecSp[i]...)
		}
		refs := []vRef{}
		var ks []string
		for k := range v.Refs {
			ks = append(ks, k)
		}
		sort.Strings(ks)
		for _, k := range ks {
			t := unkey([]string{k})[0]
			refs = append(refs, vRef{Sp: t.Sp, Pat: t.Pat, N: v.Refs[k]})
		}
		st["hasRec"], st["recSp"], st["recPat"], st["total"] = v.HasRec, recSp, recPat, v.Total
		st["remoteDom"] = append([]string{}, v.RemoteDom...)
		st["refs"] = refs
	}
	return st
}

// observed emissions of a node step: publish copies, the forward, the status frame
func (r *vRecorder) outView(frames map[int][]*pubsubproto.PubSubMessage, relayedPub bool) map[string]any {
	n := r.b.Cfg.NStreams
	deliver := make([]int, n)
	fwd := []int{}
	to, code := 0, ""
	topics := []vSegs{}
	for m, fs := range frames {
		for _, f := range fs {
			if p := f.GetPublish(); p != nil {
				if p.Relayed && !relayedPub {
					fwd = append(fwd, m)
				} else {
					deliver[m-1]++
				}
			}
			if s := f.GetStatus(); s != nil {
				to, code = m, vCodeNames[s.Code]
				for _, tp := range s.Topics {
					topics = append(topics, r.e.modelSegs(tp))
				}
			}
		}
	}
	sort.Ints(fwd)
	return map[string]any{"deliver": deliver, "fwd": fwd, "to": to, "code": code, "topics": topics, "handled": []vSegs{}}
}

func (r *vRecorder) emit(a vAct, out map[string]any, st map[string]any) {
	line := map[string]any{"ev": "step", "a": vActJSON(a)}
	if out != nil {
		line["out"] = out
	}
	if st != nil {
		line["st"] = st
	}
	r.w.Emit(line)
	r.rep.AddSteps(1)
}

func (r *vRecorder) subCode(s int, sp string, f []vSegs) string {
	cfg := r.b.Cfg
	acct := cfg.StreamAcct[s-1]
	switch {
	case acct == "none":
		return "InvalidMessage"
	case vIn(cfg.BadSpaces, sp):
		return "InvalidTopic"
	case vIn(cfg.NotResp, sp):
		return "NotResponsible"
	}
	for _, p := range f {
		if !vValidPattern(p) {
			return "InvalidTopic"
		}
	}
	if !r.member[acct+"|"+sp] {
		return "NotAMember"
	}
	return "ok"
}

func (r *vRecorder) mayHandle(s int) bool {
	return r.st[s-1] == "open" || ((r.st[s-1] == "removed" || r.st[s-1] == "gone") && !r.lateUsed[s-1])
}
func (r *vRecorder) noteFrame(s int) {
	if r.st[s-1] != "open" {
		r.lateUsed[s-1] = true
	}
}

// quiescence oracle on the real views (the same predicates as in the replay)
func (r *vRecorder) checkQuiescent() {
	for _, s := range r.st {
		if s == "removed" {
			return
		}
	}
	n := r.b.Cfg.NStreams
	exp := &vExp{MuFree: true, Busy: make([]string, n), St: append([]string{}, r.st...), Want: make([][]vTag, n)}
	for i := range exp.Busy {
		exp.Busy[i] = "idle"
		exp.Want[i] = []vTag{{Sp: "?", Pat: vSegs{"?"}}} // the driver does not track subscriptions: no "all withdrawn" claim
	}
	r.checkViews(exp, r.e.views(r.universe))
}

func (r *vRecorder) nodeRun(steps int) {
	e := r.e
	cfg := r.b.Cfg
	r.w.Emit(map[string]any{"ev": "reset"})
	pick := func(n int) int { return r.rnd.Intn(n) }
	randFrame := func() []vSegs {
		k := pick(4)
		f := []vSegs{}
		for i := 0; i < k; i++ {
			f = append(f, vRecPatterns[pick(len(vRecPatterns)-2+pick(2)*2)%len(vRecPatterns)])
		}
		return f
	}
	goodSpaces := []string{"X", "X", "X", "Y", "Y", "Z"}
	step := 0
	for step < steps {
		step++
		r.step = 0
		switch c := pick(100); {
		case c < 8: // open
			for i, s := range r.st {
				if s == "new" {
					e.openStream(i + 1)
					r.st[i] = "open"
					r.emit(vAct{Act: "OpenStream", S: i + 1}, r.outView(e.flush(e.allModels()), false), r.stView(true))
					break
				}
			}
		case c < 40: // subscribe
			s := 1 + pick(cfg.NStreams)
			if !r.mayHandle(s) {
				continue
			}
			sp := append(goodSpaces, "bad/sp")[pick(7)]
			f := randFrame()
			frame := vSubscribeFrame(sp, e.realPatterns(f))
			if code := r.subCode(s, sp, f); code != "ok" {
				before := e.views(r.universe)
				r.deliverFrame(s, frame)
				r.noteFrame(s)
				after := e.views(r.universe)
				if fmt.Sprint(before.Tags) != fmt.Sprint(after.Tags) || fmt.Sprint(before.RecPat) != fmt.Sprint(after.RecPat) {
					r.violate("refused-subscribe-registered:"+code, fmt.Sprintf("subscribe of stream %d to %s %v must be refused (%s) but interest changed", s, sp, f, code))
				}
				r.emit(vAct{Act: "SubReject", S: s, Sp: sp, F: f}, r.outView(e.flush(e.allModels()), false), r.stView(true))
				continue
			}
			if !r.parkSubscribe(s, sp, f) {
				panic(vHang{"subscribe did not reach the membership check"})
			}
			r.laterFrames[s] = 0
			r.noteFrame(s)
			r.emit(vAct{Act: "SubCheck", S: s, Sp: sp, F: f}, r.outView(e.flush(e.allModels()), false), r.stView(true))
			// the membership check is behind, remoteMu not yet taken: anything may run now
			for k := pick(3); k > 0; k-- {
				x := 1 + pick(cfg.NStreams)
				spc := []string{"X", "Y"}[pick(2)]
				acct := cfg.Accounts[pick(2)]
				before := e.views(r.universe)
				var act vAct
				switch c2 := pick(10); {
				case c2 < 3 && r.st[x-1] == "open":
					e.removeStream(x, true)
					r.st[x-1] = "removed"
					r.hookPending[x] = true
					act = vAct{Act: "RemoveStream", S: x}
				case c2 < 5 && r.st[x-1] == "removed":
					e.onStreamClose(x)
					r.st[x-1] = "gone"
					delete(r.hookPending, x)
					act = vAct{Act: "OnStreamClose", S: x}
				case c2 < 7:
					on := !r.member[acct+"|"+spc]
					e.mem.set(acct, spc, on)
					r.member[acct+"|"+spc] = on
					act = vAct{Act: "RemoveMember", Acct: acct, Sp: spc}
					if on {
						act.Act = "AddMember"
					}
				case c2 < 8:
					e.svc.EvictMember(spc, e.accts[acct].SignKey.GetPublic())
					act = vAct{Act: "EvictMember", Sp: spc, Acct: acct}
				case c2 < 9:
					e.svc.RevalidateMembers(spc, func(account string) bool { return e.mem.isMember(e.acctName(account), spc) })
					act = vAct{Act: "Revalidate", Sp: spc}
				default:
					e.svc.CloseSpace(spc)
					act = vAct{Act: "CloseSpace", Sp: spc}
				}
				if act.Act == "" {
					continue
				}
				r.stepNo++
				after := e.views(r.universe)
				r.noteEviction(act)
				r.checkWithdrawn(act, before, after)
				r.checkEvicted(act, 0, after)
				r.emit(act, r.outView(e.flush(e.allModels()), false), r.stView(true))
			}
			// remoteMu taken, interest recorded; parked at AddTagsCtx (unless nothing was accepted)
			r.advance(s)
			r.emit(vAct{Act: "Sub1", S: s}, nil, nil)
			if r.stage[s] == "tag" {
				// only the pool may be touched now: a stream leaves the pool while the subscribe holds remoteMu
				for k := pick(3); k > 0; k-- {
					x := 1 + pick(cfg.NStreams)
					if pick(2) == 0 {
						x = s
					}
					if r.st[x-1] == "open" {
						e.removeStream(x, true)
						r.st[x-1] = "removed"
						r.hookPending[x] = true
						r.stepNo++
						r.emit(vAct{Act: "RemoveStream", S: x}, r.outView(e.flush(e.allModels()), false), r.stView(false))
					}
				}
				r.probeLock(s)
				r.advance(s)
			}
			r.stepNo++
			r.checkEvicted(vAct{Act: "Sub2"}, s, e.views(r.universe))
			r.emit(vAct{Act: "Sub2"}, r.outView(e.flush(e.allModels()), false), r.stView(true))
			if r.lockFree {
				// a schedule outside the specification was taken: judge the real state, give the run up
				r.releaseSubscribe(s)
				r.viewsSettled()
				r.driftf("remoteMu is not held while the subscribe tags its stream (AddTagsCtx)")
				return
			}
			if r.stage[s] == "recheck" {
				// registered and tagged, remoteMu free again, second membership check not yet answered
				for k := pick(3); k > 0; k-- {
					spc := []string{"X", "Y"}[pick(2)]
					acct := cfg.Accounts[pick(2)]
					before := e.views(r.universe)
					var act vAct
					switch c2 := pick(6); {
					case c2 < 3:
						on := !r.member[acct+"|"+spc]
						e.mem.set(acct, spc, on)
						r.member[acct+"|"+spc] = on
						act = vAct{Act: "RemoveMember", Acct: acct, Sp: spc}
						if on {
							act.Act = "AddMember"
						}
					case c2 < 5:
						e.svc.EvictMember(spc, e.accts[acct].SignKey.GetPublic())
						act = vAct{Act: "EvictMember", Sp: spc, Acct: acct}
					default:
						e.svc.RevalidateMembers(spc, func(account string) bool { return e.mem.isMember(e.acctName(account), spc) })
						act = vAct{Act: "Revalidate", Sp: spc}
					}
					r.stepNo++
					after := e.views(r.universe)
					r.noteEviction(act)
					r.checkWithdrawn(act, before, after)
					r.checkEvicted(act, 0, after)
					r.emit(act, r.outView(e.flush(e.allModels()), false), r.stView(true))
				}
				r.advance(s)
				r.stepNo++
				r.checkEvicted(vAct{Act: "Sub3", S: s}, s, e.views(r.universe))
				r.emit(vAct{Act: "Sub3", S: s}, r.outView(e.flush(e.allModels()), false), r.stView(true))
			}
		case c < 52: // unsubscribe
			s := 1 + pick(cfg.NStreams)
			if !r.mayHandle(s) {
				continue
			}
			sp := goodSpaces[pick(5)]
			P := []vSegs{}
			for k := pick(3); k > 0; k-- {
				P = append(P, vRecPatterns[pick(5)])
			}
			pre := e.views(r.universe)
			r.deliverFrame(s, vUnsubscribeFrame(sp, e.realPatterns(P)))
			r.noteFrame(s)
			post := e.views(r.universe)
			a := vAct{Act: "Unsub1", S: s, Sp: sp, P: P}
			r.checkWithdrawn(a, pre, post)
			if len(pre.RecPat[s-1]) != len(post.RecPat[s-1]) {
				// the call removed patterns: its second section (RemoveTagsCtx) is a step of its own
				r.emit(a, nil, nil)
				r.emit(vAct{Act: "Unsub2", S: s}, r.outView(e.flush(e.allModels()), false), r.stView(true))
			} else {
				r.emit(a, r.outView(e.flush(e.allModels()), false), r.stView(true))
			}
		case c < 78: // publish
			s := 1 + pick(cfg.NStreams)
			if !r.mayHandle(s) {
				continue
			}
			sp := append(goodSpaces, "bad/sp")[pick(7)]
			t := vRecTopics[pick(len(vRecTopics))]
			claimed := []string{"A", "B", "none", cfg.StreamAcct[s-1], cfg.StreamAcct[s-1], cfg.StreamAcct[s-1]}[pick(6)]
			if claimed == "N" {
				claimed = "none"
			}
			relayed := pick(4) == 0 || (cfg.StreamAcct[s-1] == "N" && pick(2) == 0)
			idOk := pick(10) != 0
			p := &pubsubproto.Publish{SpaceId: sp, Topic: e.realTopic(t), Payload: []byte("x"), TimestampMilli: time.Now().UnixMilli(), Relayed: relayed}
			p.MsgId = make([]byte, msgIdLen)
			binary.LittleEndian.PutUint64(p.MsgId, r.rnd.Uint64())
			if !idOk {
				p.MsgId = p.MsgId[:7]
			}
			if claimed != "none" {
				if err := signPublish(e.accts[claimed].SignKey, p); err != nil {
					panic(err)
				}
			}
			fwd0 := e.rel.forwardCalls.Load()
			r.deliverFrame(s, wrapPublish(p))
			r.noteFrame(s)
			frames := e.flush(e.allModels())
			if relayed && e.rel.forwardCalls.Load() != fwd0 {
				r.violate("relayed-forwarded-again", "a relayed publish was handed to the relay again")
			}
			for m, fs := range frames {
				n := 0
				for _, f := range fs {
					if f.GetPublish() != nil {
						n++
					}
				}
				if n > 1 {
					r.violate("more-than-one-copy", fmt.Sprintf("stream %d received %d copies of one publish", m, n))
				}
			}
			r.emit(vAct{Act: "Publish", S: s, Claimed: claimed, Sp: sp, T: t, Relayed: relayed, IdOk: idOk}, r.outView(frames, relayed), r.stView(true))
		case c < 84: // stream leaves the pool
			s := 1 + pick(cfg.NStreams)
			if r.st[s-1] != "open" {
				continue
			}
			e.removeStream(s, true)
			r.st[s-1] = "removed"
			r.hookPending[s] = true
			r.emit(vAct{Act: "RemoveStream", S: s}, r.outView(e.flush(e.allModels()), false), r.stView(true))
		case c < 90: // close hook
			for i, s := range r.st {
				if s == "removed" && pick(2) == 0 {
					hookBefore := e.views(r.universe)
					e.onStreamClose(i + 1)
					delete(r.hookPending, i+1)
					r.checkWithdrawn(vAct{Act: "OnStreamClose", S: i + 1}, hookBefore, e.views(r.universe))
					r.st[i] = "gone"
					r.emit(vAct{Act: "OnStreamClose", S: i + 1}, r.outView(e.flush(e.allModels()), false), r.stView(true))
					break
				}
			}
		default: // administration
			sp := []string{"X", "X", "Y"}[pick(3)]
			a := cfg.Accounts[pick(2)]
			adminBefore := e.views(r.universe)
			var act vAct
			switch pick(6) {
			case 0:
				e.svc.EvictMember(sp, e.accts[a].SignKey.GetPublic())
				act = vAct{Act: "EvictMember", Sp: sp, Acct: a}
			case 1:
				e.svc.RevalidateMembers(sp, func(account string) bool { return e.mem.isMember(e.acctName(account), sp) })
				act = vAct{Act: "Revalidate", Sp: sp}
			case 2:
				e.svc.CloseSpace(sp)
				act = vAct{Act: "CloseSpace", Sp: sp}
			default:
				on := !r.member[a+"|"+sp]
				e.mem.set(a, sp, on)
				r.member[a+"|"+sp] = on
				act = vAct{Act: "RemoveMember", Acct: a, Sp: sp}
				if on {
					act.Act = "AddMember"
				}
			}
			r.stepNo++
			r.noteEviction(act)
			r.checkWithdrawn(act, adminBefore, e.views(r.universe))
			r.checkEvicted(act, 0, e.views(r.universe))
			r.emit(act, r.outView(e.flush(e.allModels()), false), r.stView(true))
		}
		r.checkQuiescent()
	}
	// tear-down in a random order, recorded as well
	var order []int
	for i := range r.st {
		order = append(order, i+1)
	}
	r.rnd.Shuffle(len(order), func(i, j int) { order[i], order[j] = order[j], order[i] })
	for _, s := range order {
		if r.st[s-1] == "open" {
			e.removeStream(s, true)
			r.st[s-1] = "removed"
			r.emit(vAct{Act: "RemoveStream", S: s}, r.outView(e.flush(e.allModels()), false), r.stView(true))
		}
	}
	r.rnd.Shuffle(len(order), func(i, j int) { order[i], order[j] = order[j], order[i] })
	for _, s := range order {
		if r.st[s-1] == "removed" {
			e.onStreamClose(s)
			r.st[s-1] = "gone"
			r.emit(vAct{Act: "OnStreamClose", S: s}, r.outView(e.flush(e.allModels()), false), r.stView(true))
		}
	}
	r.noLeak(e.views(r.universe), "after-teardown")
}

func TestVerifRecord(t *testing.T) {
	rep := newVfReport()
	defer func() { rep.Save(!t.Failed() || rep.NumViolations() > 0) }()
	prefix := os.Getenv("VERIF_TRACE_OUT")
	if prefix == "" {
		prefix = t.TempDir() + "/trace"
	}
	runs := vfEnvInt("VERIF_RUNS", 20)
	stepsPerRun := vfEnvInt("VERIF_RUN_STEPS", 60)
	rnd := vfRand()

	// ---- node role
	cfg := vRecordCfg("node")
	w := newVfTraceWriter(prefix + "-node.ndjson")
	w.Emit(map[string]any{"ev": "config", "cfg": cfg})
	for i := 0; i < runs; i++ {
		b := vBehaviour{Cfg: cfg, Src: fmt.Sprintf("recorded-node-run-%d", i), Steps: []vStep{{A: vAct{Act: "recorded"}}}}
		rp := &vReplayer{rep: rep, b: b, subWait: map[int]int{}, hookPending: map[int]bool{}, laterFrames: map[int]int{},
			parked: map[int]bool{}, evicted: map[string]int{}, checkedAt: map[int]int{}, raceHeld: map[string]bool{},
			stage: map[int]string{}, subDone: map[int]chan struct{}{}}
		for _, sp := range []string{"X", "Y", "Z"} {
			for _, p := range vRecPatterns {
				if vValidPattern(p) {
					rp.universe = append(rp.universe, vTag{Sp: sp, Pat: p})
				}
			}
		}
		r := &vRecorder{vReplayer: rp, w: w, rnd: rand.New(rand.NewSource(rnd.Int63())), st: make([]string, cfg.NStreams), lateUsed: make([]bool, cfg.NStreams),
			member: map[string]bool{}}
		for j := range r.st {
			r.st[j] = "new"
		}
		for _, m := range cfg.InitMember {
			r.member[m[0]+"|"+m[1]] = true
		}
		func() {
			defer func() {
				if p := recover(); p != nil {
					if h, ok := p.(vHang); ok {
						r.violate("hang:recorded-run", h.Error())
						return
					}
					panic(p)
				}
			}()
			r.e = newVEngine(t, cfg)
			defer r.e.finish()
			r.nodeRun(stepsPerRun)
		}()
		rep.Case(fmt.Sprintf("node-run|%d", i))
		rep.AddReplayed(1)
	}
	rep.SetExtra("node_trace_events", w.Len())
	w.Close()

	// ---- client role
	ccfg := vRecordCfg("client")
	ccfg.NStreams = 1
	ccfg.StreamAcct, ccfg.StreamPeer, ccfg.NodePeers = []string{"A"}, []string{"pA"}, []string{}
	ccfg.Spaces, ccfg.BadSpaces, ccfg.NotResp = []string{"X"}, []string{}, []string{}
	ccfg.Self = "B"
	ccfg.MaxPerSpace, ccfg.MaxPerStream = 100, 100
	ccfg.InitMember = [][]string{{"A", "X"}, {"B", "X"}}
	cw := newVfTraceWriter(prefix + "-client.ndjson")
	cw.Emit(map[string]any{"ev": "config", "cfg": ccfg})
	for i := 0; i < runs; i++ {
		vRecordClientRun(t, rep, ccfg, cw, rand.New(rand.NewSource(rnd.Int63())), stepsPerRun, i)
		rep.Case(fmt.Sprintf("client-run|%d", i))
		rep.AddReplayed(1)
	}
	rep.SetExtra("client_trace_events", cw.Len())
	cw.Close()
	rep.Sample(map[string]any{"node_runs": runs, "steps_per_run": stepsPerRun})
}

// client run: local subscriptions, frames of every kind (genuine, forged, stale, replayed), own publishes
func vRecordClientRun(t *testing.T, rep *vfReport, cfg vCfg, w *vfTraceWriter, rnd *rand.Rand, steps int, run int) {
	b := vBehaviour{Cfg: cfg, Src: fmt.Sprintf("recorded-client-run-%d", run)}
	w.Emit(map[string]any{"ev": "reset"})
	// the driver prepares its steps as a behaviour without expectations and lets the replayer's
	// client step execute them (oracles included); the recording is made from the observations
	pats := []vSegs{{"a"}, {"*"}, {"acc", "*"}, {">", "a"}}
	topics := []vSegs{{"a"}, {"b"}, {"acc", "A"}, {"acc", "B"}, {"a", ""}}
	nextOwn := 100
	var known []vMsg
	member := map[string]bool{"A|X": true, "B|X": true}
	lp := map[string]bool{}
	r := &vReplayer{rep: rep, b: b, frames: map[int]*pubsubproto.Publish{}, handledId: map[int]int{}, genuine: map[string]*pubsubproto.Publish{}, own: map[int]bool{}, idOf: map[string]int{}}
	defer func() {
		if p := recover(); p != nil {
			if h, ok := p.(vHang); ok {
				r.violate("hang:recorded-run", h.Error())
				return
			}
			panic(p)
		}
	}()
	r.e = newVEngine(t, cfg)
	defer r.e.finish()
	for i := 0; i < steps; i++ {
		var a vAct
		switch c := rnd.Intn(100); {
		case c < 15:
			p := pats[rnd.Intn(len(pats))]
			if lp["X|"+p.key()] {
				continue
			}
			a = vAct{Act: "LSubscribe", Sp: "X", Pat: p}
			if vValidPattern(p) {
				lp["X|"+p.key()] = true
			}
		case c < 20:
			var have []string
			for k := range lp {
				have = append(have, k)
			}
			if len(have) == 0 {
				continue
			}
			sort.Strings(have)
			k := have[rnd.Intn(len(have))]
			delete(lp, k)
			a = vAct{Act: "LUnsubscribe", Sp: "X", Pat: r.e.modelSegs(k[2:])}
		case c < 23:
			a = vAct{Act: "CloseSpace", Sp: "X"}
			lp = map[string]bool{}
		case c < 30:
			acct := []string{"A", "B"}[rnd.Intn(2)]
			on := !member[acct+"|X"]
			member[acct+"|X"] = on
			a = vAct{Act: "RemoveMember", Acct: acct, Sp: "X"}
			if on {
				a.Act = "AddMember"
			}
		case c < 38:
			nextOwn++
			m := vMsg{Id: nextOwn, Src: cfg.Self, Sig: true, Ts: "fresh", Space: "X", Topic: topics[rnd.Intn(len(topics))], IdOk: true}
			a = vAct{Act: "LPublish", M: &m}
			if vValidTopic(m.Topic) && (vOwner(m.Topic) == "" || vOwner(m.Topic) == cfg.Self) {
				known = append(known, m)
			}
		default:
			var m vMsg
			if len(known) > 0 && rnd.Intn(3) > 0 {
				m = known[rnd.Intn(len(known))] // replay of / variation on a known frame
			} else {
				m = vMsg{Id: 1 + rnd.Intn(6), Src: []string{"A", "A", "B"}[rnd.Intn(3)], Sig: true, Ts: []string{"fresh", "fresh", "fresh", "absent", "past", "future"}[rnd.Intn(6)],
					Space: "X", Topic: topics[rnd.Intn(len(topics))], IdOk: true}
				dup := false
				for _, k := range known {
					if k.Id == m.Id {
						dup = true
					}
				}
				if dup {
					continue
				}
				known = append(known, m)
			}
			switch rnd.Intn(8) {
			case 0:
				m.Sig = false
			case 1:
				m.Sig, m.Src = false, "garbage"
			case 2:
				if m.Id < 100 {
					m.Sig, m.Src = false, map[string]string{"A": "B", "B": "A"}[m.Src]
				}
			case 3:
				m.IdOk = false
			case 5:
				// a forged frame with an id of its own (never signed by anybody): must not touch the ring
				nextOwn++
				m = vMsg{Id: nextOwn + 1000, Src: "A", Sig: false, Ts: "fresh", Space: "X", Topic: vSegs{"a"}, IdOk: true}
			case 4:
				if m.Id < 100 && m.Ts == "fresh" {
					m.Ts = []string{"past", "future"}[rnd.Intn(2)] // the author signed it again with that timestamp
				}
			}
			a = vAct{Act: "Receive", M: &m}
		}
		// expectations are not known to the driver: execute through the replayer with a neutral step
		// (its conformance comparisons are disabled by exp == nil), then record the observations
		pre := &vExp{}
		for k, v := range member {
			if v {
				pre.Member = append(pre.Member, []string{k[:1], k[2:]})
			}
		}
		handled, ring, lpats := r.clientExec(a, pre)
		hs := []vSegs{}
		for _, h := range handled {
			hs = append(hs, r.e.modelSegs(h[2:]))
		}
		lps := []vTag{}
		for _, k := range lpats {
			lps = append(lps, vTag{Sp: k[:1], Pat: r.e.modelSegs(k[2:])})
		}
		w.Emit(map[string]any{"ev": "step", "a": vActJSON(a),
			"out": map[string]any{"deliver": []int{0}, "fwd": []int{}, "to": 0, "code": "", "topics": []vSegs{}, "handled": hs},
			"st":  map[string]any{"inPool": []bool{false}, "tags": [][]vTag{{}}, "ring": ring, "lpats": lps}})
		rep.AddSteps(1)
	}
}

// TestVerifWiring: no harness gate, the pool and the hook exactly as Init wires them.
func TestVerifWiring(t *testing.T) {
	rep := newVfReport()
	defer func() { rep.Save(!t.Failed() || rep.NumViolations() > 0) }()
	cfg := vRecordCfg("node")
	cfg.PlainPool = true
	cfg.Burst = -1
	e := newVEngine(t, cfg)
	defer e.finish()
	b := vBehaviour{Cfg: cfg, Src: "wiring", Steps: []vStep{{A: vAct{Act: "wiring"}}}}
	r := &vReplayer{rep: rep, b: b}
	r.e = e
	r.universe = []vTag{{Sp: "X", Pat: vSegs{"a"}}, {Sp: "X", Pat: vSegs{"*"}}}
	defer func() {
		if p := recover(); p != nil {
			if h, ok := p.(vHang); ok {
				r.violate("hang:wiring", h.Error())
				return
			}
			panic(p)
		}
	}()
	// streams enter through HandleStream here (no barrier tag): flush by sending a Status through SendById
	open := func(model int) *vStream {
		acct := cfg.StreamAcct[model-1]
		ctx := peer.CtxWithPeerId(context.Background(), e.peerId(cfg.StreamPeer[model-1]))
		id, _ := e.accts[acct].SignKey.GetPublic().Marshall()
		st := newVStream(model, peer.CtxWithIdentity(ctx, id))
		e.streams[model] = st
		e.realIds[model] = uint32(len(e.realIds) + 1)
		go func() { _ = e.svc.HandleStream(st) }()
		st.waitIdle()
		return st
	}
	s1, s3 := open(1), open(3)
	deliver := func(st *vStream, f *pubsubproto.PubSubMessage) { st.waitHandled(st.push(f)) }
	deliver(s1, vSubscribeFrame("X", []string{"a", "*"}))
	deliver(s3, vSubscribeFrame("X", []string{"a"}))
	p := &pubsubproto.Publish{SpaceId: "X", Topic: "a", Payload: []byte("x"), MsgId: testMsgId(4242), TimestampMilli: time.Now().UnixMilli()}
	if err := signPublish(e.accts["B"].SignKey, p); err != nil {
		t.Fatal(err)
	}
	deliver(s3, wrapPublish(p))
	// flush: a rejected publish makes the node answer with a Status on the same queue
	bad := &pubsubproto.Publish{SpaceId: "X", Topic: "a", MsgId: []byte{1}}
	for _, st := range []*vStream{s1, s3} {
		deliver(st, wrapPublish(bad))
		st.waitFor("status not written", func() bool {
			for _, f := range st.sent {
				if f.GetStatus() != nil {
					return true
				}
			}
			return false
		})
	}
	count := func(st *vStream) int {
		st.mu.Lock()
		defer st.mu.Unlock()
		n := 0
		for _, f := range st.sent {
			if f.GetPublish() != nil {
				n++
			}
		}
		return n
	}
	rep.Case("wiring")
	rep.AddReplayed(1)
	if count(s1) != 1 || count(s3) != 1 {
		r.violate("wiring:delivery", fmt.Sprintf("engine as wired by Init: stream 1 got %d copies, stream 3 got %d copies of a publish both subscribed to", count(s1), count(s3)))
	}
	// the remote ends close; the hook registered by Init must clean up
	for _, st := range []*vStream{s1, s3} {
		st.mu.Lock()
		st.readEOF = true
		st.cond.Broadcast()
		st.mu.Unlock()
	}
	deadline := time.Now().Add(vWatchdog)
	for {
		e.svc.remoteMu.Lock()
		n := len(e.svc.streams) + len(e.svc.remote)
		e.svc.remoteMu.Unlock()
		if n == 0 {
			break
		}
		if time.Now().After(deadline) {
			r.violate("wiring:leak-after-close", fmt.Sprintf("engine as wired by Init: %d bookkeeping entries left after both streams closed", n))
			break
		}
		time.Sleep(time.Millisecond)
	}
}
