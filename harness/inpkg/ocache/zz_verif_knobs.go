//go:build verif

package ocache

import "time"

// Injected into app/ocache with `go build -overlay` by checks/C16.py (the repository is not edited).
// closeTimeout is the unexported package default that New copies into every cache; the repository's
// own close tests lower the per-cache copy the same way.

// VerifSetCloseTimeout sets the close deadline of caches created afterwards and returns the old value.
func VerifSetCloseTimeout(d time.Duration) (old time.Duration) {
	old, closeTimeout = closeTimeout, d
	return old
}
