package nodeconf

// Injected with `go test -overlay` by /verif/checks/C18.py (property C18).
//
// Lookups concurrent with a configuration update.  For every scenario (pair of configurations A -> B of a
// class, asking identity, lookup method, space id) a real service boots on A; ONE lookup is parked inside the
// ring walk (the active NodeConf is wrapped by a gate), the update to B is driven through the real
// updateConfiguration path - completely, if the parked lookup does not hold the service's lock, else
// concurrently - and the lookup is released.  After quiescence every id is asked again: the answers must be the
// ones of the CURRENT configuration (peer list = responsible set minus self, IsResponsible = membership, same
// partition), for every partition touched during the race.  No timing decides anything: whether the parked
// lookup holds the lock is probed with TryLock.  Events are recorded for NodeConfTrace.tla.

import (
	"context"
	"encoding/json"
	"fmt"
	"math/rand"
	"os"
	"sort"
	"strconv"
	"strings"
	"sync"
	"testing"
	"time"

	"github.com/anyproto/any-sync/app"
	"github.com/anyproto/any-sync/commonspace/object/accountdata"
	"github.com/anyproto/any-sync/testutil/accounttest"
)

type vncViolation struct {
	Key    string `json:"key"`
	Desc   string `json:"desc"`
	Replay any    `json:"replay"`
}

type vncReport struct {
	Property   string         `json:"property"`
	Cases      int            `json:"cases"`
	Distinct   int            `json:"distinct"`
	Replayed   int            `json:"replayed"`
	Steps      int            `json:"steps"`
	Drift      int            `json:"drift"`
	Violations []vncViolation `json:"violations"`
	Samples    []any          `json:"samples"`
	Extra      map[string]any `json:"extra"`
	Complete   bool           `json:"complete"`
	keys       map[string]bool
	vkeys      map[string]bool
}

func (r *vncReport) violate(key, desc string, replay any) {
	if !r.vkeys[key] {
		r.vkeys[key] = true
		r.Violations = append(r.Violations, vncViolation{key, desc, replay})
	}
}

func (r *vncReport) save(complete bool) {
	r.Complete = complete
	b, _ := json.Marshal(r)
	if out := os.Getenv("VERIF_OUT"); out != "" {
		_ = os.WriteFile(out, b, 0o644)
	}
}

type vncConfig struct{ c Configuration }

func (t *vncConfig) Init(a *app.App) error      { return nil }
func (t *vncConfig) Name() string               { return "config" }
func (t *vncConfig) GetNodeConf() Configuration { return t.c }

type vncSource struct {
	mu    sync.Mutex
	next  *Configuration
	once  sync.Once
	first chan struct{} // closed by the first call (the periodic sync's initial run)
}

func (t *vncSource) Init(a *app.App) error { return nil }
func (t *vncSource) Name() string          { return CNameSource }
func (t *vncSource) GetLast(ctx context.Context, currentId string) (Configuration, error) {
	t.once.Do(func() { close(t.first) })
	t.mu.Lock()
	defer t.mu.Unlock()
	if t.next == nil {
		return Configuration{}, ErrConfigurationNotChanged
	}
	c := *t.next
	t.next = nil
	return c, nil
}

type vncStore struct{}

func (t *vncStore) Init(a *app.App) error { return nil }
func (t *vncStore) Name() string          { return CNameStore }
func (t *vncStore) GetLast(ctx context.Context, netId string) (Configuration, error) {
	return Configuration{}, ErrConfigurationNotFound
}
func (t *vncStore) SaveLast(ctx context.Context, c Configuration) error { return nil }

type vncChecker struct{}

func (t *vncChecker) Init(a *app.App) error { return nil }
func (t *vncChecker) Name() string          { return "verif.checker" }
func (t *vncChecker) IsNetworkNeedsUpdate(ctx context.Context) (bool, error) {
	return false, nil
}

// vncGate wraps the active NodeConf: the first call of the armed lookup method is parked until released
type vncGate struct {
	NodeConf
	method  string
	once    sync.Once
	entered chan struct{}
	release chan struct{}
}

func (g *vncGate) park(m string) {
	if m == g.method {
		first := false
		g.once.Do(func() { first = true; close(g.entered) })
		if first {
			<-g.release
		}
	}
}
func (g *vncGate) NodeIds(id string) []string       { g.park("NodeIds"); return g.NodeConf.NodeIds(id) }
func (g *vncGate) IsResponsible(id string) bool     { g.park("IsResponsible"); return g.NodeConf.IsResponsible(id) }
func (g *vncGate) FileV2NodeIds(id string) []string { g.park("FileV2NodeIds"); return g.NodeConf.FileV2NodeIds(id) }
func (g *vncGate) Partition(id string) int          { g.park("Partition"); return g.NodeConf.Partition(id) }

type vncTrace struct {
	f *os.File
	n int
}

func (w *vncTrace) emit(ev map[string]any) {
	if w.f != nil {
		b, _ := json.Marshal(ev)
		w.f.Write(append(b, '\n'))
		w.n++
	}
}

func vncConf(id string, peers []string, trees map[string]bool, fv2 map[string]bool) Configuration {
	c := Configuration{Id: id, NetworkId: "verifnet"}
	for _, p := range peers {
		n := Node{PeerId: p, Addresses: []string{p + ":443"}}
		if trees[p] {
			n.Types = append(n.Types, NodeTypeTree)
		}
		if fv2[p] {
			n.Types = append(n.Types, NodeTypeFileV2)
		}
		if len(n.Types) == 0 {
			n.Types = []NodeType{NodeTypeFile}
		}
		c.Nodes = append(c.Nodes, n)
	}
	return c
}

func vncTraceForm(c Configuration) map[string]any {
	m := map[string]any{}
	for _, n := range c.Nodes {
		ts := []string{}
		for _, t := range n.Types {
			if t == NodeTypeTree || t == NodeTypeFileV2 {
				ts = append(ts, string(t))
			}
		}
		m[n.PeerId] = map[string]any{"t": [][]string{ts}, "a": n.Addresses}
	}
	return m
}

func vncSet(l []string) string { s := append([]string{}, l...); sort.Strings(s); return strings.Join(s, ",") }

func TestVerifNodeconfRace(t *testing.T) {
	rep := &vncReport{Property: "C18", Violations: []vncViolation{}, Samples: []any{}, Extra: map[string]any{}, keys: map[string]bool{}, vkeys: map[string]bool{}}
	defer func() { rep.save(!t.Failed() || len(rep.Violations) > 0) }()
	seed, _ := strconv.ParseInt(os.Getenv("VERIF_SEED"), 10, 64)
	rnd := rand.New(rand.NewSource(seed + 1))
	tw := &vncTrace{}
	if out := os.Getenv("VERIF_TRACE_OUT"); out != "" {
		f, err := os.Create(out)
		if err != nil {
			t.Fatal(err)
		}
		defer f.Close()
		tw.f = f
	}
	runs, _ := strconv.Atoi(os.Getenv("VERIF_RACE_SCENARIOS"))
	if runs == 0 {
		runs = 24
	}
	methods := []string{"NodeIds", "IsResponsible", "FileV2NodeIds", "Partition"}
	classes := []string{"disjoint", "overlap", "role-swap", "same-set"}
	held, notHeld := 0, 0
	for sc := 0; sc < runs; sc++ {
		class, method := classes[sc%len(classes)], methods[(sc/len(classes))%len(methods)]
		// peers and the two configurations of the class
		var peers []string
		for k := 0; k < 6; k++ {
			peers = append(peers, fmt.Sprintf("12D3KooWrace%02d%c%d", sc, 'a'+rune(rnd.Intn(26)), k))
		}
		ta, tb := map[string]bool{}, map[string]bool{}
		switch class {
		case "disjoint":
			ta[peers[0]], ta[peers[1]], ta[peers[2]] = true, true, true
			tb[peers[3]], tb[peers[4]], tb[peers[5]] = true, true, true
		case "overlap":
			ta[peers[0]], ta[peers[1]], ta[peers[2]], ta[peers[3]] = true, true, true, true
			tb[peers[2]], tb[peers[3]], tb[peers[4]], tb[peers[5]] = true, true, true, true
		case "role-swap":
			ta[peers[0]], ta[peers[1]], ta[peers[2]], ta[peers[3]] = true, true, true, true
			tb[peers[0]], tb[peers[1]], tb[peers[2]], tb[peers[4]] = true, true, true, true
		case "same-set":
			ta[peers[0]], ta[peers[1]], ta[peers[2]], ta[peers[3]] = true, true, true, true
			tb = ta
		}
		fv := map[string]bool{peers[1]: true, peers[4]: true, peers[5]: true}
		confA := vncConf(fmt.Sprintf("r%da", sc), peers, ta, fv)
		pb := append([]string{}, peers...)
		rnd.Shuffle(len(pb), func(i, j int) { pb[i], pb[j] = pb[j], pb[i] })
		confB := vncConf(fmt.Sprintf("r%db", sc), pb, tb, fv)
		// asking identity: a client, or a node (sync node of A only / B only / both, depending on the class)
		self := []string{"client", peers[0], peers[2], peers[4]}[rnd.Intn(4)]
		var ids []string
		for k := 0; k < 5; k++ {
			ids = append(ids, fmt.Sprintf("bafyreirace%d%d.%s", sc, k, strconv.FormatUint(rnd.Uint64(), 36)))
		}
		ids = append(ids, "other."+ids[0][strings.Index(ids[0], ".")+1:]) // same suffix as the raced id
		raced := ids[0]
		replay := map[string]any{"race": true, "class": class, "method": method}
		rep.Cases++
		rep.Steps++
		k := class + "/" + method + "/" + map[bool]string{true: "client", false: "node"}[self == "client"]
		if !rep.keys[k] {
			rep.keys[k] = true
			rep.Distinct++
		}

		svc := New()
		src := &vncSource{first: make(chan struct{})}
		a := new(app.App)
		a.Register(&vncConfig{c: confA}).Register(accounttest.NewWithAcc(&accountdata.AccountKeys{PeerId: self})).
			Register(svc).Register(src).Register(&vncStore{}).Register(&vncChecker{})
		if err := a.Start(context.Background()); err != nil {
			t.Fatal(err)
		}
		s := svc.(*service)
		select { // the initial run of the periodic sync has asked the source (nothing new) before the scenario starts
		case <-src.first:
		case <-time.After(60 * time.Second):
			t.Fatal("harness: the periodic sync never asked the source")
		}
		tw.emit(map[string]any{"ev": "Net", "kind": "race", "confs": map[string]any{confA.Id: vncTraceForm(confA), confB.Id: vncTraceForm(confB)}})
		tw.emit(map[string]any{"ev": "Boot", "p": self, "app": confA.Id})

		gate := &vncGate{method: method, entered: make(chan struct{}), release: make(chan struct{})}
		s.mu.Lock()
		gate.NodeConf = s.last
		s.last = gate
		s.mu.Unlock()
		// 1. one lookup is parked inside the ring walk
		lookupDone := make(chan struct{})
		go func() {
			defer close(lookupDone)
			switch method {
			case "NodeIds":
				_ = s.NodeIds(raced)
			case "IsResponsible":
				_ = s.IsResponsible(raced)
			case "FileV2NodeIds":
				_ = s.FileV2NodeIds(raced)
			case "Partition":
				_ = s.Partition(raced)
			}
		}()
		parked := true
		select {
		case <-gate.entered:
		case <-lookupDone: // the lookup answered without walking the ring (nothing to interleave with)
			parked = false
		case <-time.After(60 * time.Second):
			t.Fatal("harness: the lookup neither returned nor reached the ring walk")
		}
		src.mu.Lock()
		cb := confB
		src.next = &cb
		src.mu.Unlock()
		// 2. does the parked lookup hold the service's lock?  (TryLock succeeds only if nobody holds it)
		holds := parked
		for i := 0; i < 300 && holds; i++ {
			if s.mu.TryLock() {
				s.mu.Unlock()
				holds = false
			} else {
				time.Sleep(time.Millisecond)
			}
		}
		upd := make(chan error, 1)
		switch {
		case !parked:
			close(gate.release)
			if err := s.updateConfiguration(context.Background()); err != nil {
				t.Fatalf("harness: update failed: %v", err)
			}
			tw.emit(map[string]any{"ev": "Update", "p": self, "cid": confB.Id})
		case holds:
			// the update has to wait for the lookup: run it concurrently, let the lookup finish
			held++
			tw.emit(map[string]any{"ev": "LookupBegin", "p": self, "space": strings.Split(raced, "."), "method": method, "locked": true})
			go func() { upd <- s.updateConfiguration(context.Background()) }()
			close(gate.release)
			<-lookupDone
			tw.emit(map[string]any{"ev": "LookupEnd", "p": self})
			if err := <-upd; err != nil {
				t.Fatalf("harness: update failed: %v", err)
			}
			tw.emit(map[string]any{"ev": "Update", "p": self, "cid": confB.Id})
		default:
			// the lookup does not block the update: apply it completely while the lookup is parked
			notHeld++
			tw.emit(map[string]any{"ev": "LookupBegin", "p": self, "space": strings.Split(raced, "."), "method": method, "locked": false})
			if err := s.updateConfiguration(context.Background()); err != nil {
				t.Fatalf("harness: update failed: %v", err)
			}
			tw.emit(map[string]any{"ev": "Update", "p": self, "cid": confB.Id})
			close(gate.release)
			<-lookupDone
			tw.emit(map[string]any{"ev": "LookupEnd", "p": self})
		}
		// 3. quiescence: every answer must be the one of the configuration the service now holds
		if got := s.Id(); got != confB.Id {
			rep.violate("race-update-not-applied/"+class, fmt.Sprintf("the service holds %s after the update to %s was applied", got, confB.Id), replay)
		}
		var syncB []string
		for p := range tb {
			syncB = append(syncB, p)
		}
		for round := 0; round < 2; round++ {
			for _, id := range ids {
				var members []string
				for _, m := range s.CHash().GetMembers(ReplKey(id)) {
					members = append(members, m.Id())
				}
				nodeIds := s.NodeIds(id)
				resp := s.IsResponsible(id)
				fv2 := s.FileV2NodeIds(id)
				var want []string
				inSet := false
				for _, m := range members {
					if m == self {
						inSet = true
					} else {
						want = append(want, m)
					}
				}
				rep.Steps++
				what := fmt.Sprintf(" (space id %q, %s lookup parked during the update %s -> %s, class %s, asker %s)", id, method, confA.Id, confB.Id, class, self)
				for _, m := range members {
					if !tb[m] {
						rep.violate("race-members-not-current/"+method, fmt.Sprintf("after the update the ring names %s, not a sync node of the current configuration", m)+what, replay)
					}
				}
				if vncSet(nodeIds) != vncSet(want) {
					rep.violate("race-stale-nodeids/"+method, fmt.Sprintf("after quiescence NodeIds = [%s] but the responsible set of the current configuration minus self is [%s]", vncSet(nodeIds), vncSet(want))+what, replay)
				}
				if resp != inSet {
					rep.violate("race-stale-isresponsible/"+method, fmt.Sprintf("after quiescence IsResponsible = %v but membership in the current responsible set is %v", resp, inSet)+what, replay)
				}
				tw.emit(map[string]any{"ev": "Query", "p": self, "space": strings.Split(id, "."), "cid": s.Id(), "part": s.Partition(id),
					"members": append([]string{}, members...), "nodeIds": append([]string{}, nodeIds...), "resp": resp, "fileV2Ids": append([]string{}, fv2...),
					"nm": len(members), "nn": len(nodeIds), "nf": len(fv2)})
			}
		}
		_ = a.Close(context.Background())
		rep.Replayed++
		if sc < 2 {
			rep.Samples = append(rep.Samples, map[string]any{"race_scenario": map[string]any{"class": class, "method": method, "asker": self, "lookup_holds_lock": holds}})
		}
	}
	rep.Extra["race_lookup_held_lock"] = held
	rep.Extra["race_lookup_without_lock"] = notHeld
	rep.Extra["trace_events"] = tw.n
}
