package ldiff

// Injected into app/ldiff with `go test -overlay` by the ldiff checks (C07/C08).
// It dumps what the *real* range arithmetic (genTupleRanges) answers so that the harness in
// /verif/harness/ldiff never has to trust its own transcription: the harness refuses to run
// (exit 2) if its arithmetic disagrees with any sample of this dump.
//
// Output ($VERIF_TUPLES_OUT): {"samples":[{"from":"..","to":"..","df":n,"kids":[["from","to"],...]},...]}
// with uint64 written as decimal strings. Samples: the complete range tree for small divide
// factors (these are the ranges the TLC-generated behaviours are replayed on), the first levels
// for the larger ones, and random / edge ranges.

import (
	"encoding/json"
	"math"
	"math/rand"
	"os"
	"strconv"
	"testing"
)

type zzSample struct {
	From string      `json:"from"`
	To   string      `json:"to"`
	Df   int         `json:"df"`
	Kids [][2]string `json:"kids"`
}

func zzKids(from, to uint64, df int) (s zzSample, kids []rangeTuple) {
	kids = genTupleRanges(from, to, df)
	s = zzSample{From: strconv.FormatUint(from, 10), To: strconv.FormatUint(to, 10), Df: df}
	for _, k := range kids {
		s.Kids = append(s.Kids, [2]string{strconv.FormatUint(k.from, 10), strconv.FormatUint(k.to, 10)})
	}
	return
}

func TestVerifDumpTuples(t *testing.T) {
	out := os.Getenv("VERIF_TUPLES_OUT")
	if out == "" {
		t.Skip("VERIF_TUPLES_OUT not set")
	}
	var samples []zzSample
	var walk func(from, to uint64, df, depth int)
	walk = func(from, to uint64, df, depth int) {
		if depth == 0 {
			return
		}
		s, kids := zzKids(from, to, df)
		samples = append(samples, s)
		for _, k := range kids {
			walk(k.from, k.to, df, depth-1)
		}
	}
	depthFor := map[int]int{2: 7, 3: 5, 4: 4, 5: 3, 7: 3, 8: 2, 16: 2, 32: 2, 64: 1}
	for df, depth := range depthFor {
		walk(0, math.MaxUint64, df, depth)
	}
	rnd := rand.New(rand.NewSource(1))
	for i := 0; i < 3000; i++ {
		df := 2 + rnd.Intn(63)
		a, b := rnd.Uint64(), rnd.Uint64()
		if i%3 == 0 { // narrow ranges, as they occur deep in the tree
			b = a + uint64(rnd.Int63n(1<<uint(8+rnd.Intn(40))))
		}
		if a > b {
			a, b = b, a
		}
		if b-a < uint64(df)*2 {
			continue
		}
		s, _ := zzKids(a, b, df)
		samples = append(samples, s)
	}
	b, err := json.Marshal(map[string]any{"samples": samples})
	if err != nil {
		t.Fatal(err)
	}
	if err := os.WriteFile(out, b, 0o644); err != nil {
		t.Fatal(err)
	}
	// report for the orchestrator (same JSON shape as verifharness/vfutil.Report)
	if rp := os.Getenv("VERIF_OUT"); rp != "" {
		rb, _ := json.Marshal(map[string]any{"property": os.Getenv("VERIF_PROPERTY"), "cases": 0, "distinct": 0, "replayed": 0,
			"violations": []any{}, "samples": []any{}, "extra": map[string]any{"tuple_samples_dumped": len(samples)}, "complete": true})
		if err := os.WriteFile(rp, rb, 0o644); err != nil {
			t.Fatal(err)
		}
	}
}
