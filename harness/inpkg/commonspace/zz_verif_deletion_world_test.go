package commonspace

// Property C15 - in-package harness, part 2: the "world" of one case (a local space under test and
// a remote replica holding every object and authoring settings records) and the primitive
// operations / observations the schedule executor is made of.

import (
	"context"
	"crypto/rand"
	"errors"
	"fmt"
	"os"
	"sort"
	"time"

	"github.com/anyproto/any-sync/commonspace/deletionstate"
	"github.com/anyproto/any-sync/commonspace/headsync/headstorage"
	"github.com/anyproto/any-sync/commonspace/object/accountdata"
	"github.com/anyproto/any-sync/commonspace/object/tree/objecttree"
	"github.com/anyproto/any-sync/commonspace/object/tree/treestorage"
	"github.com/anyproto/any-sync/commonspace/objecttreebuilder"
	"github.com/anyproto/any-sync/commonspace/settings"
	"github.com/anyproto/any-sync/commonspace/settings/settingsstate"
	"github.com/anyproto/any-sync/commonspace/spacepayloads"
	"github.com/anyproto/any-sync/commonspace/spacestorage"
	"github.com/anyproto/any-sync/commonspace/spacesyncproto"
	"github.com/anyproto/any-sync/commonspace/sync/objectsync/objectmessages"
	"github.com/anyproto/any-sync/commonspace/sync/syncdeps"
	"github.com/anyproto/any-sync/net/peer"
	"github.com/anyproto/any-sync/util/crypto"
)

type vfObj struct {
	Name    string // spec id
	Parent  string // spec id of the parent ("" = none)
	Real    string
	payload treestorage.TreeStorageCreatePayload
	remote  objecttree.ObjectTree
}

type vfWorld struct {
	keys    *accountdata.AccountKeys
	local   *vfFixture
	remote  *vfFixture
	spaceId string
	spc     Space
	rspc    Space
	objs    map[string]*vfObj
	order   []string // spec ids, parents first
	byReal  map[string]string
	rstate  *settingsstate.State // remote author's accumulated deleted ids (for snapshots)
	recs    []vfWire             // settings head updates authored by the remote, in creation order
	recIds  [][]string           // spec ids per record
	sentN   int
	dir     string
}

// vfFixtures: the two applications (local under test, remote replica); shared by all cases.
type vfFixtures struct {
	keys   *accountdata.AccountKeys
	local  *vfFixture
	remote *vfFixture
}

func vfNewFixtures(root string, keys *accountdata.AccountKeys) *vfFixtures {
	for _, d := range []string{"/local", "/remote"} {
		if err := os.MkdirAll(root+d, 0o755); err != nil {
			vfBreak("mkdir: %v", err)
		}
	}
	return &vfFixtures{keys: keys,
		local:  vfNewFixture(root+"/local", keys, true, vfRemotePeerId),
		remote: vfNewFixture(root+"/remote", keys, false, vfLocalPeerId)}
}

func (f *vfFixtures) close() {
	f.local.close()
	f.remote.close()
}

// vfNewWorld creates a fresh space on both applications with the given objects (name -> parent).
func vfNewWorld(fxs *vfFixtures, dir string, names []string, parents map[string]string) *vfWorld {
	ctx := context.Background()
	keys := fxs.keys
	w := &vfWorld{keys: keys, objs: map[string]*vfObj{}, byReal: map[string]string{}, dir: dir, rstate: settingsstate.NewState()}
	w.local = fxs.local
	w.remote = fxs.remote
	w.local.tm.resetCache(w.local.app)
	w.remote.tm.resetCache(w.remote.app)
	g := w.local.gates
	g.mu.Lock()
	g.worker, g.abort, g.crashAD = false, false, false
	g.armPut, g.armFet, g.parkedCalls = map[string]bool{}, map[string]bool{}, nil
	g.mu.Unlock()
	w.local.pool.setOn(false)
	metaKey, _, _ := crypto.GenerateRandomEd25519KeyPair()
	payload, err := spacepayloads.StoragePayloadForSpaceCreateV1(spacepayloads.SpaceCreatePayload{
		SigningKey:     keys.SignKey,
		SpaceType:      "type",
		ReadKey:        crypto.NewAES(),
		MetadataKey:    metaKey,
		ReplicationKey: 10,
		MasterKey:      keys.PeerKey,
	})
	if err != nil {
		vfBreak("space payload: %v", err)
	}
	w.spaceId = payload.SpaceHeaderWithId.Id
	if _, err = w.local.provider.CreateSpaceStorage(ctx, payload); err != nil {
		vfBreak("create local storage: %v", err)
	}
	if _, err = w.remote.provider.CreateSpaceStorage(ctx, payload); err != nil {
		vfBreak("create remote storage: %v", err)
	}
	w.remote.tm.noDelete = true
	w.rspc = w.remote.openSpace(w.spaceId)
	w.local.pool.remote = func() Space { return w.rspc }
	// the local space starts with the observer queue in pass-through mode and the worker ungated
	w.spc = w.local.openSpace(w.spaceId)
	// objects: created and filled on the remote replica
	for _, n := range names {
		o := &vfObj{Name: n, Parent: parents[n]}
		if o.Parent == "" {
			seed := make([]byte, 32)
			_, _ = rand.Read(seed)
			o.payload, err = w.rspc.TreeBuilder().CreateTree(ctx, objecttree.ObjectTreeCreatePayload{
				PrivKey: keys.SignKey, ChangeType: "verif", SpaceId: w.spaceId, IsEncrypted: false, Seed: seed, Timestamp: time.Now().Unix(),
			})
		} else {
			o.payload, err = w.rspc.TreeBuilder().DeriveTree(ctx, objecttree.ObjectTreeDerivePayload{
				ChangeType: "verifchild", ChangePayload: []byte(n), SpaceId: w.spaceId, IsEncrypted: false, ParentId: w.objs[o.Parent].Real,
			})
		}
		if err != nil {
			vfBreak("create payload %s: %v", n, err)
		}
		o.Real = o.payload.RootRawChange.Id
		tr, err := w.rspc.TreeBuilder().PutTree(ctx, o.payload, nil)
		if err != nil {
			vfBreak("remote put %s: %v", n, err)
		}
		o.remote = tr
		w.objs[n] = o
		w.byReal[o.Real] = n
		w.order = append(w.order, n)
		w.remoteEdit(n)
	}
	w.remote.pm.take()
	w.local.pm.take()
	return w
}

func (w *vfWorld) close(held *vfPark) {
	// never leave a parked worker behind
	w.local.gates.setAbort(true)
	if held != nil {
		held.release <- errVfAbort
	}
	for {
		p := w.local.gates.tryWorker()
		if p == nil {
			break
		}
		p.release <- errVfAbort
	}
	_ = w.spc.Close()
	for {
		p := w.local.gates.tryWorker()
		if p == nil {
			break
		}
		p.release <- errVfAbort
	}
	_ = w.rspc.Close()
	w.local.provider.closeSpace(w.spaceId)
	w.remote.provider.closeSpace(w.spaceId)
}

// remoteEdit appends one change to the object on the remote replica and returns the captured
// head update (wire bytes) the remote broadcast for it.
func (w *vfWorld) remoteEdit(name string) []vfWire {
	o := w.objs[name]
	data := make([]byte, 16)
	_, _ = rand.Read(data)
	o.remote.Lock()
	_, err := o.remote.AddContent(context.Background(), objecttree.SignableChangeContent{
		Data: data, Key: w.keys.SignKey, IsSnapshot: false, ShouldBeEncrypted: false,
	})
	o.remote.Unlock()
	if err != nil {
		vfBreak("remote edit %s: %v", name, err)
	}
	var res []vfWire
	for _, m := range w.remote.pm.take() {
		if m.ObjectId == o.Real {
			res = append(res, m)
		}
	}
	return res
}

// remoteRecord makes the remote replica author one settings change deleting ids (spec names),
// optionally as a snapshot, using the repository's change factory; the head update is captured.
func (w *vfWorld) remoteRecord(ids []string, snapshot bool) {
	real := make([]string, 0, len(ids))
	for _, n := range ids {
		real = append(real, w.objs[n].Real)
	}
	data, err := settingsstate.NewChangeFactory().CreateObjectDeleteChange(real, w.rstate, snapshot)
	if err != nil {
		vfBreak("change factory: %v", err)
	}
	so := w.rspc.(*space).settings.SettingsObject()
	so.Lock()
	_, err = so.AddContent(context.Background(), objecttree.SignableChangeContent{
		Data: data, Key: w.keys.SignKey, IsSnapshot: snapshot, ShouldBeEncrypted: false,
	})
	so.Unlock()
	if err != nil {
		vfBreak("remote settings record: %v", err)
	}
	for _, r := range real {
		w.rstate.DeletedIds[r] = struct{}{}
	}
	got := false
	for _, m := range w.remote.pm.take() {
		if m.ObjectId == so.Id() {
			w.recs = append(w.recs, m)
			got = true
		}
	}
	if !got {
		vfBreak("remote settings record was not broadcast")
	}
	w.recIds = append(w.recIds, append([]string(nil), ids...))
}

func (w *vfWorld) handler() syncdeps.SyncHandler {
	return w.spc.(*space).app.MustComponent(syncdeps.CName).(syncdeps.SyncHandler)
}

// deliver feeds one captured head update through the real object-sync handler of the local space
// (synchronously: HandleHeadUpdate, then - as the sync service would - ApplyRequest of the
// follow-up request it returns).
func (w *vfWorld) deliver(m vfWire) (handleErr, applyErr error, requested bool) {
	msg := &spacesyncproto.ObjectSyncMessage{}
	if err := msg.UnmarshalVT(m.Bytes); err != nil {
		vfBreak("wire decode: %v", err)
	}
	hu := &objectmessages.HeadUpdate{}
	if err := hu.SetProtoMessage(msg); err != nil {
		vfBreak("wire decode: %v", err)
	}
	hu.SetPeerId(vfRemotePeerId)
	ctx := peer.CtxWithPeerId(context.Background(), vfRemotePeerId)
	h := w.handler()
	req, err := h.HandleHeadUpdate(ctx, hu)
	handleErr = err
	if req != nil {
		requested = true
		sender := w.spc.(*space).syncService
		applyErr = h.ApplyRequest(ctx, req, sender)
	}
	return
}

// ------------------------------------------------------------------------------ local operations

func vfErrClass(err error) string {
	switch {
	case err == nil:
		return "ok"
	case errors.Is(err, spacestorage.ErrTreeStorageAlreadyDeleted):
		return "deleted"
	case errors.Is(err, treestorage.ErrTreeExists):
		return "exists"
	case errors.Is(err, objecttree.ErrParentNotFound):
		return "noparent"
	case errors.Is(err, settings.ErrAlreadyDeleted):
		return "alreadydeleted"
	case errors.Is(err, settings.ErrCantDeleteDerivedObject):
		return "derived"
	case errors.Is(err, treestorage.ErrUnknownTreeId):
		return "unknown"
	default:
		return "error:" + err.Error()
	}
}

// put runs TreeBuilder.PutTree (PutSyncTree). With split=true the call is parked between its
// tombstone check and the storage creation; finish it with the returned func.
func (w *vfWorld) put(name string, split bool) (res string, finish func() string) {
	o := w.objs[name]
	run := func() string {
		tr, err := w.spc.TreeBuilder().PutTree(context.Background(), o.payload, nil)
		if err == nil {
			_ = tr.Close()
		}
		return vfErrClass(err)
	}
	if !split {
		return run(), nil
	}
	g := w.local.gates
	g.mu.Lock()
	g.armPut[o.Real] = true
	g.mu.Unlock()
	done := make(chan string, 1)
	go func() {
		defer func() {
			if r := recover(); r != nil {
				done <- fmt.Sprint("panic:", r)
			}
		}()
		done <- run()
	}()
	select {
	case r := <-done: // failed (or succeeded) before reaching the creation
		g.mu.Lock()
		delete(g.armPut, o.Real)
		g.mu.Unlock()
		return r, nil
	case p := <-g.putCh:
		return "pending", func() string {
			w.unpark(p)
			p.release <- nil
			select {
			case r := <-done:
				return r
			case <-time.After(vfDeadline):
				vfBreak("put %s did not return", name)
				return ""
			}
		}
	case <-time.After(vfDeadline):
		vfBreak("put %s neither returned nor reached the creation gate", name)
		return "", nil
	}
}

// fetch asks the tree manager for the object with a peer in the context: a local open if the
// storage exists, else tombstone check + remote request. With split=true the remote answer is
// held back; finish with the returned func.
func (w *vfWorld) fetch(name string, split bool) (res string, finish func() string) {
	o := w.objs[name]
	ctx := peer.CtxWithPeerId(context.Background(), vfRemotePeerId)
	run := func() string {
		_, err := w.local.tm.GetTree(ctx, w.spaceId, o.Real)
		return vfErrClass(err)
	}
	if !split {
		return run(), nil
	}
	g := w.local.gates
	g.mu.Lock()
	g.armFet[o.Real] = true
	g.mu.Unlock()
	done := make(chan string, 1)
	go func() {
		defer func() {
			if r := recover(); r != nil {
				done <- fmt.Sprint("panic:", r)
			}
		}()
		done <- run()
	}()
	select {
	case r := <-done:
		g.mu.Lock()
		delete(g.armFet, o.Real)
		g.mu.Unlock()
		return r, nil
	case p := <-g.fetCh:
		return "pending", func() string {
			w.unpark(p)
			p.release <- nil
			select {
			case r := <-done:
				return r
			case <-time.After(vfDeadline):
				vfBreak("fetch %s did not return", name)
				return ""
			}
		}
	case <-time.After(vfDeadline):
		vfBreak("fetch %s neither returned nor reached the remote", name)
		return "", nil
	}
}

func (w *vfWorld) unpark(p *vfPark) {
	g := w.local.gates
	g.mu.Lock()
	defer g.mu.Unlock()
	for i, x := range g.parkedCalls {
		if x == p {
			g.parkedCalls = append(g.parkedCalls[:i], g.parkedCalls[i+1:]...)
			return
		}
	}
}

// restartAfterCrash: the worker was released into DeleteTree with the crash flag set; wait until
// the tree manager has done the deletion (and reported failure), then restart.
func (w *vfWorld) restartAfterCrash() {
	g := w.local.gates
	vfPoll("DeleteTree to finish before the crash", func() bool {
		g.mu.Lock()
		defer g.mu.Unlock()
		return !g.crashAD
	})
	w.restart(nil)
}

func (w *vfWorld) deleteLocal(name string, snapshot bool) string {
	old := settings.DoSnapshot
	settings.DoSnapshot = func(int) bool { return snapshot }
	defer func() { settings.DoSnapshot = old }()
	return vfErrClass(w.spc.DeleteTree(context.Background(), w.objs[name].Real))
}

// ---------------------------------------------------------------------------------- observations

type vfObs struct {
	Status  map[string]string `json:"status"`
	Stored  map[string]bool   `json:"stored"`
	Pset    map[string]bool   `json:"pset"`
	Content map[string]bool   `json:"content"`
	Indexed []string          `json:"indexed"`
	MemQ    []string          `json:"memQ"`
	MemD    []string          `json:"memD"`
	ObsQ    [][]any           `json:"obsq"`
}

var vfStatusNames = map[headstorage.DeletedStatus]string{
	headstorage.DeletedStatusNotDeleted: "live",
	headstorage.DeletedStatusQueued:     "queued",
	headstorage.DeletedStatusDeleted:    "deleted",
}

func (w *vfWorld) delState() deletionstate.ObjectDeletionState {
	return w.spc.(*space).app.MustComponent(deletionstate.CName).(deletionstate.ObjectDeletionState)
}

func (w *vfWorld) observe() vfObs {
	ctx := context.Background()
	o := vfObs{Status: map[string]string{}, Stored: map[string]bool{}, Pset: map[string]bool{}, Content: map[string]bool{},
		Indexed: []string{}, MemQ: []string{}, MemD: []string{}, ObsQ: [][]any{}}
	hs := w.spc.Storage().HeadStorage()
	ds := w.delState()
	queued := map[string]bool{}
	for _, q := range ds.GetQueued() {
		queued[q] = true
	}
	for _, n := range w.order {
		ob := w.objs[n]
		e, err := hs.GetEntry(ctx, ob.Real)
		o.Pset[n], o.Content[n] = false, false
		if err != nil {
			o.Status[n] = "none"
		} else {
			st, ok := vfStatusNames[e.DeletedStatus]
			if !ok {
				st = fmt.Sprintf("invalid-%d", e.DeletedStatus)
			}
			o.Status[n] = st
			o.Pset[n] = e.ParentId != ""
			o.Content[n] = len(e.Heads) > 0 && !(len(e.Heads) == 1 && e.Heads[0] == ob.Real)
		}
		_, err = w.spc.Storage().TreeStorage(ctx, ob.Real)
		o.Stored[n] = err == nil
		if queued[ob.Real] {
			o.MemQ = append(o.MemQ, n)
		} else if ds.Exists(ob.Real) {
			o.MemD = append(o.MemD, n)
		}
	}
	for _, id := range w.spc.(*space).headSync.AllIds() {
		if n, ok := w.byReal[id]; ok {
			o.Indexed = append(o.Indexed, n)
		}
	}
	sort.Strings(o.Indexed)
	for _, e := range w.local.provider.last.hs.obs.snapshot() {
		n, ok := w.byReal[e.Id]
		if !ok {
			continue
		}
		st := vfStatusNames[e.DeletedStatus]
		nr := len(e.Heads) > 0 && !(len(e.Heads) == 1 && e.Heads[0] == e.Id)
		o.ObsQ = append(o.ObsQ, []any{n, st, nr})
	}
	return o
}

// obsDeliver forwards the oldest held head-storage notification that concerns a case object to
// the real observer and waits until the asynchronous head updater has processed it (FIFO
// sentinel). Notifications about other objects (settings tree, acl, ...) are forwarded on the way.
func (w *vfWorld) obsDeliver() (string, bool) {
	q := w.local.provider.last.hs.obs
	for {
		e, ok := q.pop()
		if !ok {
			return "", false
		}
		q.forward(e)
		if n, ok := w.byReal[e.Id]; ok {
			w.obsDrain()
			return n, true
		}
	}
}

var vfSentinelN int

// obsPassOthers forwards held notifications of non-case objects that are at the queue front.
func (w *vfWorld) obsPassOthers() {
	q := w.local.provider.last.hs.obs
	for {
		q.mu.Lock()
		if len(q.pending) == 0 {
			q.mu.Unlock()
			return
		}
		if _, ok := w.byReal[q.pending[0].Id]; ok {
			q.mu.Unlock()
			return
		}
		e := q.pending[0]
		q.pending = q.pending[1:]
		q.mu.Unlock()
		q.forward(e)
	}
}

func (w *vfWorld) obsDrain() {
	q := w.local.provider.last.hs.obs
	vfSentinelN++
	id := fmt.Sprintf("~verif-sentinel-%d", vfSentinelN)
	hsync := w.spc.(*space).headSync
	has := func() bool {
		for _, x := range hsync.AllIds() {
			if x == id {
				return true
			}
		}
		return false
	}
	q.forward(headstorage.HeadsEntry{Id: id, Heads: []string{"s"}})
	vfPoll("head updater to reach the sentinel", has)
	q.forward(headstorage.HeadsEntry{Id: id, Heads: []string{"s"}, DeletedStatus: headstorage.DeletedStatusDeleted})
	vfPoll("head updater to drop the sentinel", func() bool { return !has() })
}

// restart closes the local space and opens a new one on the same store. A parked worker is first
// made to fail at its current call and every later one (crash emulation: no further effects).
func (w *vfWorld) restart(held *vfPark) {
	g := w.local.gates
	g.setAbort(true)
	if held != nil {
		held.release <- errVfAbort
	}
	for {
		p := g.tryWorker()
		if p == nil {
			break
		}
		p.release <- errVfAbort
	}
	if err := w.spc.Close(); err != nil {
		vfBreak("space close: %v", err)
	}
	// a call parked just before abort was set may still arrive
	for {
		p := g.tryWorker()
		if p == nil {
			break
		}
		p.release <- errVfAbort
	}
	w.local.tm.resetCache(w.local.app)
	g.mu.Lock()
	g.abort = false
	g.crashAD = false
	g.mu.Unlock()
	w.spc = w.local.openSpace(w.spaceId)
}

var _ = objecttreebuilder.BuildTreeOpts{}
