package commonspace

// Property C15 - in-package harness, part 3: schedule executor, property oracles, trace recording.
//
// A schedule is a behaviour of spec/deletion/Deletion.tla (TLC simulation, or a counterexample of
// one of the deviation / mutant configurations): a list of {a: action, i: id, s: id set}. The
// executor performs every step on the real space:
//
//   SettingsArrive(S)  the remote replica authors a delete record (repository change factory,
//                      sometimes as a snapshot) and its head update goes through the real
//                      object-sync handler of the local space
//   DeleteLocal(i)     Space.DeleteTree
//   PutStart/PutFinish TreeBuilder.PutTree, parked between tombstone check and storage creation
//   FetchStart/Finish  TreeManager.GetTree with a peer in the context; the remote answer is held
//   HeadUpdate(i)      the remote edits object i, the head update goes through the handler
//   HeadObserver       the oldest held head-storage notification is given to the head updater
//   DTs/DDel/DMark/DKids  the parked deletion worker is released to its next call
//   Restart, CrashAfterDeleteTree  close + reopen on the same store
//
// Worker choices (map order) are not controllable; the executor follows what the real worker does
// and records it. After every step the observable state is read back and (a) the property
// predicates of the specification are evaluated on it (violations), (b) an NDJSON event is
// written which DeletionTrace.tla validates against the specification (conformance / drift).

import (
	"context"
	"encoding/json"
	"fmt"
	"math/rand"
	"os"
	"path/filepath"
	"sort"
	"strconv"
	"strings"
	"testing"
	"time"

	"github.com/anyproto/any-sync/commonspace/object/accountdata"
)

type vfStep struct {
	A string   `json:"a"`
	I string   `json:"i"`
	R string   `json:"r,omitempty"`
	S []string `json:"s"`
}

type vfEvent struct {
	A    string   `json:"a"`
	I    string   `json:"i"`
	S    []string `json:"s"`
	R    string   `json:"r"`
	Post *vfObs   `json:"post,omitempty"`
	Wk   []string `json:"wk"`
	Case int      `json:"case"`
}

type vfTraceWriter struct {
	f *os.File
	n int
}

func (t *vfTraceWriter) emit(e vfEvent) {
	if t == nil || t.f == nil {
		return
	}
	if e.S == nil {
		e.S = []string{}
	}
	b, err := json.Marshal(e)
	if err != nil {
		panic(err)
	}
	t.f.Write(b)
	t.f.Write([]byte("\n"))
	t.n++
}

var vfRank = map[string]int{"none": 0, "live": 1, "queued": 2, "deleted": 3}

func vfTomb(s string) bool { return s == "queued" || s == "deleted" }

func vfHas(l []string, x string) bool {
	for _, y := range l {
		if x == y {
			return true
		}
	}
	return false
}

// worker tracker: mirrors only what is needed to know whether another parked call must arrive.
type vfWorkerTrack struct {
	park      *vfPark
	outer     string // spec id the outer loop is on
	inKids    bool   // outer id is deleted, its children are being handled
	kidsLeft  int
	remaining int // ids of the snapshot not yet started
	notified  bool
}

type vfRun struct {
	w       *vfWorld
	rep     *vfReport
	tw      *vfTraceWriter
	rng     *rand.Rand
	caseNo  int
	wk      vfWorkerTrack
	putFin  map[string]func() string
	fetFin  map[string]func() string
	logged  map[string]bool
	done    []vfStep // executed steps (replay object)
	parents map[string]string
	names   []string
	broken  bool
}

func (r *vfRun) replayObj() any {
	return map[string]any{"names": r.names, "parents": r.parents, "steps": r.done}
}

func (r *vfRun) wkView() []string {
	if r.wk.park == nil {
		return []string{"idle", "-"}
	}
	return []string{r.wk.park.Point, r.w.byReal[r.wk.park.Id]}
}

const vfSentinel = "verif-sentinel-object"

// vfProbeAfter: how long the harness waits for a due worker call before it probes with the
// sentinel (the probe decides, not this delay: a late call is simply adopted).
const vfProbeAfter = 1500 * time.Millisecond

// vfSkips counts proven skipped worker calls in this test run.
var vfSkips int

func (r *vfRun) memQLen() int {
	n := 0
	for _, id := range r.w.delState().GetQueued() {
		if id != vfSentinel {
			n++
		}
	}
	return n
}

// nextPark returns the worker's next parked call within the deadline (nil: none arrived). Calls
// about the harness' own sentinel id are let through.
func (r *vfRun) nextPark() *vfPark {
	g := r.w.local.gates
	for {
		select {
		case p := <-g.arrive:
			if p.Id == vfSentinel {
				p.release <- nil
				continue
			}
			return p
		case <-time.After(vfProbeAfter):
			return nil
		}
	}
}

// expectPark waits for the worker's next parked call; point is the call that is due ("ts", "del",
// "kids"; "del" also stands for "mark"). It returns false if the worker turned out not to make
// that call (a changed worker): the space was then restarted (the tracker starts afresh).
//
// No call within the deadline does not by itself mean anything. The harness then queues a
// sentinel id: the worker must come to a "ts" call (for the sentinel or another id) - if a call
// other than "ts" was due, the sequential worker has provably left the id it was on without
// making the due call. The state predicates are evaluated with the worker off that id, and the
// case continues after a restart.
func (r *vfRun) expectPark(what, point string) bool {
	adopt := func(p *vfPark) bool {
		r.wk.park = p
		if p.Point == "ts" && !r.wk.inKids {
			r.wk.outer = r.w.byReal[p.Id]
		}
		return true
	}
	p := r.nextPark()
	if p != nil {
		return adopt(p)
	}
	r.w.delState().Add(map[string]struct{}{vfSentinel: {}})
	g := r.w.local.gates
	var q *vfPark
	select {
	case q = <-g.arrive:
	case <-time.After(vfDeadline):
		vfBreak("deletion worker is stuck (%s)", what)
	}
	samePoint := q.Point == point || (point == "del" && q.Point == "mark")
	if q.Id != vfSentinel && (samePoint || point == "ts") {
		r.rep.mu.Lock()
		n, _ := r.rep.Extra["late_worker_calls"].(int)
		r.rep.Extra["late_worker_calls"] = n + 1
		r.rep.mu.Unlock()
		return adopt(q) // the due call, late
	}
	// the worker moved on without the due call
	r.rep.DriftNote("case %d: the deletion worker did not make the call that was due (%s), it went on to %s", r.caseNo, what, q.Point)
	vfSkips++
	pre := r.w.observe()
	// KidsHandled (Deletion.tla StepKidsHandled): the children list the worker took for the deleted
	// parent held kidsLeft bound children that were not yet deleted (live or queued - a child created
	// while the parent was tombstoned is queued in the head storage only, nothing but this loop
	// deletes it in this session); the specification has the worker stay on the parent until each
	// of them is deleted. The worker provably left the parent (it came to the sentinel's call).
	if r.wk.inKids && r.wk.kidsLeft > 0 && point == "ts" {
		for n, o := range r.w.objs {
			if o.Parent == r.wk.outer && r.wk.outer != "" && pre.Pset[n] && pre.Status[n] != "deleted" {
				r.violate("child-not-processed:"+pre.Status[n],
					fmt.Sprintf("the worker listed %d undeleted bound children of the deleted parent %s and left it without deleting child %s (status %s, stored %v)",
						r.wk.kidsLeft, r.wk.outer, n, pre.Status[n], pre.Stored[n]))
			}
		}
	}
	r.wk = vfWorkerTrack{}
	r.oracles("WorkerSkippedCall", "-", what, &pre, &pre)
	r.abortPending()
	r.w.restart(q)
	r.afterRestart()
	r.record("Restart", "-", nil, "ok", &pre)
	return false
}

// afterAdd: deletionState.Add was called (it notifies the loop).
func (r *vfRun) afterAdd() {
	if r.wk.park != nil {
		r.wk.notified = true
		return
	}
	if n := r.memQLen(); n > 0 {
		r.wk.remaining = n
		r.wk.notified = false
		r.wk.inKids = false
		if r.expectPark("run start after Add", "ts") {
			r.wk.remaining--
		}
	}
}

// advance: the worker finished the outer id.
func (r *vfRun) advance() {
	r.wk.inKids = false
	r.wk.park = nil
	if r.wk.remaining > 0 {
		if r.expectPark("next id of the run", "ts") {
			r.wk.remaining--
		}
		return
	}
	if r.wk.notified {
		r.wk.notified = false
		if n := r.memQLen(); n > 0 {
			r.wk.remaining = n
			if r.expectPark("follow-up run", "ts") {
				r.wk.remaining--
			}
			return
		}
	}
	r.wk.outer = ""
}

// releaseWorker lets the parked call proceed and waits for the next one (if one must come).
// It returns the spec action name, the id and the result the step had.
func (r *vfRun) releaseWorker() (a, id, res string) {
	p := r.wk.park
	id = r.w.byReal[p.Id]
	res = "ok"
	g := r.w.local.gates
	switch p.Point {
	case "ts":
		a = "DTs"
		p.release <- nil
		r.wk.park = nil
		if !r.expectPark("DeleteTree/MarkTreeDeleted after TreeStorage", "del") {
			res = "skipped"
		} else if r.wk.park.Point == "del" {
			res = "stored"
		} else {
			res = "unknown"
		}
	case "del", "mark":
		if p.Point == "del" {
			a = "DDel"
		} else {
			a = "DMark"
		}
		p.release <- nil
		r.wk.park = nil
		if !r.wk.inKids {
			if r.expectPark("GetEntriesByParentId after state.Delete", "kids") {
				r.wk.inKids = true
			}
		} else {
			r.wk.kidsLeft--
			if r.wk.kidsLeft > 0 {
				r.expectPark("next child", "ts")
			} else {
				r.advance()
			}
		}
		if r.wk.park == nil {
			// this was the worker's last call of the run: nothing else will tell that it is
			// through; deletionState.Delete (under the state's lock) is its last effect
			r.waitStateDeleted(p.Id)
		}
	case "kids":
		a = "DKids"
		g.mu.Lock()
		g.kidsSeen = -1
		g.mu.Unlock()
		p.release <- nil
		r.wk.park = nil
		var n int
		vfPoll("GetEntriesByParentId to return", func() bool {
			g.mu.Lock()
			defer g.mu.Unlock()
			n = g.kidsSeen
			return n >= 0
		})
		if n > 0 {
			r.wk.kidsLeft = n
			r.expectPark("first child", "ts")
		} else {
			r.advance()
		}
	default:
		vfBreak("worker parked at unknown point %s", p.Point)
	}
	return
}

// waitStateDeleted waits until deletionState.Delete(id) has happened (the id left the queued set
// and is known as deleted). If it does not happen this is noted as drift, not judged.
func (r *vfRun) waitStateDeleted(real string) {
	ds := r.w.delState()
	end := time.Now().Add(vfDeadline)
	for {
		queued := false
		for _, q := range ds.GetQueued() {
			if q == real {
				queued = true
			}
		}
		if !queued && ds.Exists(real) {
			return
		}
		if time.Now().After(end) {
			r.rep.DriftNote("case %d: the worker did not record %s as deleted after its last call", r.caseNo, r.w.byReal[real])
			return
		}
		time.Sleep(50 * time.Microsecond)
	}
}

func (r *vfRun) violate(key, desc string) {
	r.rep.Violate(key, desc, r.replayObj())
}

// oracles: the property predicates of Deletion.tla on the observed pre / post state.
func (r *vfRun) oracles(a, id, res string, pre, post *vfObs) {
	w := r.w
	pendingFor := func(o *vfObs, n string) bool {
		for _, e := range o.ObsQ {
			if e[0].(string) == n {
				return true
			}
		}
		return false
	}
	for _, n := range w.order {
		ps, qs := pre.Status[n], post.Status[n]
		if strings.HasPrefix(qs, "invalid") {
			r.violate("status-invalid:"+a, fmt.Sprintf("object %s has status %s after %s", n, qs, a))
			continue
		}
		// StatusMonotone
		if vfRank[qs] < vfRank[ps] {
			r.violate(fmt.Sprintf("status-regressed:%s->%s:%s", ps, qs, a),
				fmt.Sprintf("durable deletion status of %s went from %s to %s in %s(%s)", n, ps, qs, a, id))
		}
		// NoStorageReappears
		if vfTomb(ps) && !pre.Stored[n] && post.Stored[n] {
			r.violate(fmt.Sprintf("storage-reappeared:%s:%s", a, ps),
				fmt.Sprintf("storage of %s (status %s) was created again by %s(%s) -> %s", n, ps, a, id, res))
		}
		// DeletedHasNoStorage
		if qs == "deleted" && post.Stored[n] && !(vfTomb(ps) && !pre.Stored[n]) && !(ps == "deleted" && pre.Stored[n]) {
			r.violate("deleted-with-storage", fmt.Sprintf("%s is deleted but its storage exists after %s(%s)", n, a, id))
		}
		// NotIndexedOnceDeleted
		if vfTomb(qs) && !pendingFor(post, n) && vfHas(post.Indexed, n) {
			r.violate("indexed-while-tombstoned:"+qs,
				fmt.Sprintf("%s (status %s) is advertised in the head index after %s(%s) although every notification was processed", n, qs, a, id))
		}
		// NeverReAdded
		if vfTomb(ps) && !vfHas(pre.Indexed, n) && vfHas(post.Indexed, n) {
			r.violate("index-readded:"+ps+":"+a, fmt.Sprintf("%s (status %s) was added to the head index by %s(%s)", n, ps, a, id))
		}
		par := w.objs[n].Parent
		if par != "" {
			// ChildrenFollowLate
			if !pre.Stored[n] && post.Stored[n] && vfTomb(pre.Status[par]) && !vfTomb(qs) {
				r.violate("late-child-not-queued:"+pre.Status[par]+":"+a,
					fmt.Sprintf("child %s created by %s while its parent %s is %s has status %s", n, a, par, pre.Status[par], qs))
			}
			// ChildrenFollowDone
			workerOn := r.wk.park != nil && r.wk.inKids && r.wk.outer == par
			if post.Pset[n] && post.Status[par] == "deleted" && !workerOn && !vfTomb(qs) {
				r.violate("child-left-behind",
					fmt.Sprintf("parent %s is deleted and the worker is done with it, child %s has status %s (after %s)", par, n, qs, a))
			}
		}
		// NoOverDelete
		if vfTomb(qs) && !r.logged[n] && !(par != "" && vfTomb(post.Status[par])) {
			r.violate("over-delete", fmt.Sprintf("%s is %s although neither it nor its parent has a delete record (after %s)", n, qs, a))
		}
		// LoggedTombstoned
		if r.logged[n] && !vfTomb(qs) {
			r.violate("record-without-tombstone", fmt.Sprintf("%s has a delete record in the settings log but status %s (after %s)", n, qs, a))
		}
		// MirrorSound
		if (qs == "deleted") != vfHas(post.MemD, n) {
			r.violate("mirror-deleted-mismatch", fmt.Sprintf("%s: durable status %s, in-memory deleted set %v (after %s)", n, qs, post.MemD, a))
		}
		if vfHas(post.MemQ, n) && qs != "queued" {
			r.violate("mirror-queued-mismatch", fmt.Sprintf("%s: durable status %s but in the in-memory queued set (after %s)", n, qs, a))
		}
		// SurvivesRestart
		if a == "Restart" || a == "CrashAfterDeleteTree" {
			if ps == "queued" && !vfHas(post.MemQ, n) && !vfHas(post.MemD, n) {
				r.violate("restart-lost-queued", fmt.Sprintf("%s was queued before the restart and is unknown to the deletion state afterwards", n))
			}
			if vfTomb(qs) && vfHas(post.Indexed, n) {
				r.violate("restart-advertises-tombstoned", fmt.Sprintf("%s (status %s) is advertised after the restart", n, qs))
			}
		}
	}
	// AttemptsFail
	if id != "" && id != "-" {
		ps := pre.Status[id]
		switch a {
		case "PutStart":
			if vfTomb(ps) && res != "deleted" {
				r.violate("attempt-not-refused:"+a+":"+ps, fmt.Sprintf("PutTree of %s (status %s) returned %s", id, ps, res))
			}
		case "PutFinish", "FetchFinish", "FetchStart", "HeadUpdate":
			if vfTomb(ps) && !pre.Stored[id] && res != "deleted" {
				r.violate("attempt-not-refused:"+a+":"+ps, fmt.Sprintf("%s of %s (status %s, no storage) returned %s", a, id, ps, res))
			}
		}
	}
}

func (r *vfRun) record(a, id string, s []string, res string, pre *vfObs) *vfObs {
	post := r.w.observe()
	r.oracles(a, id, res, pre, &post)
	if id == "" {
		id = "-"
	}
	r.tw.emit(vfEvent{A: a, I: id, S: s, R: res, Post: &post, Wk: r.wkView(), Case: r.caseNo})
	r.done = append(r.done, vfStep{A: a, I: id, S: s, R: res})
	r.rep.mu.Lock()
	r.rep.Steps++
	r.rep.mu.Unlock()
	return &post
}

// step executes one schedule step; it returns false if the step was not applicable.
func (r *vfRun) step(st vfStep) bool {
	w := r.w
	pre := w.observe()
	switch st.A {
	case "SettingsArrive":
		if len(st.S) == 0 {
			return false
		}
		if len(st.S) >= 2 && r.rng.Intn(2) == 0 {
			// two records, only the head update of the second is delivered: its predecessor is
			// missing, the handler asks the peer and gets both in one full-sync answer
			w.remoteRecord(st.S[:1], r.rng.Intn(4) == 0)
			w.remoteRecord(st.S[1:], r.rng.Intn(3) == 0)
		} else {
			w.remoteRecord(st.S, r.rng.Intn(3) == 0)
		}
		he, ae, _ := w.deliver(w.recs[len(w.recs)-1])
		if he != nil || ae != nil {
			vfBreak("settings head update was not applied: %v / %v", he, ae)
		}
		for _, n := range st.S {
			r.logged[n] = true
		}
		r.afterAdd()
		r.record("SettingsArrive", "-", st.S, "ok", &pre)
	case "DeleteLocal":
		wasLogged := r.logged[st.I]
		res := w.deleteLocal(st.I, r.rng.Intn(3) == 0)
		if wasLogged && res != "alreadydeleted" {
			// the settings state (DeletedIds) must know every recorded id, also after merges,
			// snapshots and restarts
			r.violate("settings-state-lost-id:"+res, fmt.Sprintf("DeleteTree(%s) answered %s although a delete record for it is in the settings log", st.I, res))
		}
		if strings.HasPrefix(res, "error:") {
			if pre.Status[st.I] == "none" {
				res = "noentry"
			} else {
				vfBreak("DeleteTree(%s): %s", st.I, res)
			}
		}
		if res == "ok" {
			r.logged[st.I] = true
			for _, c := range w.order {
				if w.objs[c].Parent == st.I && pre.Pset[c] && pre.Status[c] == "live" {
					r.logged[c] = true
				}
			}
			r.afterAdd()
		}
		r.record("DeleteLocal", st.I, nil, res, &pre)
	case "PutStart":
		if r.putFin[st.I] != nil || r.fetFin[st.I] != nil {
			return false
		}
		res, fin := w.put(st.I, true)
		if fin != nil {
			r.putFin[st.I] = fin
		} else if res != "deleted" {
			vfBreak("PutTree(%s) ended before the storage creation with %s", st.I, res)
		}
		r.record("PutStart", st.I, nil, res, &pre)
	case "PutFinish":
		fin := r.putFin[st.I]
		if fin == nil {
			return false
		}
		delete(r.putFin, st.I)
		res := fin()
		r.record("PutFinish", st.I, nil, res, &pre)
	case "FetchStart":
		if r.putFin[st.I] != nil || r.fetFin[st.I] != nil {
			return false
		}
		res, fin := w.fetch(st.I, true)
		if fin != nil {
			r.fetFin[st.I] = fin
		}
		r.record("FetchStart", st.I, nil, res, &pre)
	case "FetchFinish":
		fin := r.fetFin[st.I]
		if fin == nil {
			return false
		}
		delete(r.fetFin, st.I)
		res := fin()
		r.record("FetchFinish", st.I, nil, vfFetchClass(res), &pre)
	case "HeadUpdate":
		if r.putFin[st.I] != nil || r.fetFin[st.I] != nil {
			return false
		}
		ups := w.remoteEdit(st.I)
		if len(ups) == 0 {
			vfBreak("remote edit of %s was not broadcast", st.I)
		}
		he, ae, _ := w.deliver(ups[len(ups)-1])
		var res string
		if pre.Stored[st.I] {
			if he != nil || ae != nil {
				vfBreak("head update of stored object %s failed: %v / %v", st.I, he, ae)
			}
			res = "applied"
		} else {
			res = vfFetchClass(vfErrClass(ae))
		}
		r.record("HeadUpdate", st.I, nil, res, &pre)
	case "HeadObserver":
		w.obsPassOthers()
		n, ok := w.obsDeliver()
		if !ok {
			return false
		}
		r.record("HeadObserver", n, nil, "ok", &pre)
	case "DTs", "DDel", "DMark", "DKids":
		if r.wk.park == nil {
			return false
		}
		a, id, res := r.releaseWorker()
		r.record(a, id, nil, res, &pre)
	case "Restart":
		r.abortPending()
		w.restart(r.wk.park)
		r.afterRestart()
		r.record("Restart", "-", nil, "ok", &pre)
	case "CrashAfterDeleteTree":
		if r.wk.park == nil || r.wk.park.Point != "del" {
			return false
		}
		id := w.byReal[r.wk.park.Id]
		g := w.local.gates
		g.mu.Lock()
		g.crashAD = true
		g.mu.Unlock()
		r.wk.park.release <- nil
		r.wk.park = nil
		r.abortPending()
		// DeleteTree runs, reports failure, every later worker call fails; Close waits for the loop
		w.restartAfterCrash()
		r.afterRestart()
		r.record("CrashAfterDeleteTree", id, nil, "ok", &pre)
	default:
		return false
	}
	return true
}

func vfFetchClass(res string) string {
	if strings.HasPrefix(res, "error:") {
		if strings.Contains(res, "parent object not found") {
			return "noparent"
		}
		if strings.Contains(res, "already deleted") {
			return "deleted"
		}
	}
	return res
}

// abortPending fails the in-flight put / fetch calls (a restart kills them).
func (r *vfRun) abortPending() {
	for n := range r.putFin {
		delete(r.putFin, n)
	}
	for n := range r.fetFin {
		delete(r.fetFin, n)
	}
	g := r.w.local.gates
	g.mu.Lock()
	parked := g.parkedCalls
	g.parkedCalls = nil
	g.mu.Unlock()
	for _, p := range parked {
		p.release <- errVfAbort
	}
}

func (r *vfRun) afterRestart() {
	r.wk = vfWorkerTrack{}
	q := r.w.local.provider.last.hs.obs
	q.mu.Lock()
	q.pass = false
	q.mu.Unlock()
	if n := r.memQLen(); n > 0 {
		r.wk.remaining = n
		r.wk.notified = true
		if r.expectPark("first run after restart", "ts") {
			r.wk.remaining--
		}
	}
}

// quiesce: finish what is in flight, let the worker run to the end, drain the observer.
func (r *vfRun) quiesce() {
	for _, n := range r.w.order {
		r.step(vfStep{A: "PutFinish", I: n})
		r.step(vfStep{A: "FetchFinish", I: n})
	}
	for i := 0; r.wk.park != nil; i++ {
		if i > 200 {
			vfBreak("worker does not terminate")
		}
		r.step(vfStep{A: "DTs"})
	}
	for r.step(vfStep{A: "HeadObserver"}) {
	}
}

// finalChecks: every tombstoned id refuses put / fetch / head update, before and after a restart;
// the settings state knows every recorded id (DeleteTree answers "already deleted").
func (r *vfRun) finalChecks() {
	r.quiesce()
	probe := func() {
		obs := r.w.observe()
		for _, n := range r.w.order {
			if !vfTomb(obs.Status[n]) {
				continue
			}
			r.step(vfStep{A: "PutStart", I: n})
			r.step(vfStep{A: "PutFinish", I: n})
			r.step(vfStep{A: "FetchStart", I: n})
			r.step(vfStep{A: "FetchFinish", I: n})
			r.step(vfStep{A: "HeadUpdate", I: n})
		}
		for _, n := range r.w.order {
			if r.logged[n] {
				r.step(vfStep{A: "DeleteLocal", I: n})
			}
		}
		r.quiesce()
	}
	probe()
	r.step(vfStep{A: "Restart"})
	r.quiesce()
	probe()
}

func vfRunSchedule(w *vfWorld, steps []vfStep, rep *vfReport, tw *vfTraceWriter, caseNo int, seed int64, final bool) *vfRun {
	r := &vfRun{w: w, rep: rep, tw: tw, rng: rand.New(rand.NewSource(seed)), caseNo: caseNo,
		putFin: map[string]func() string{}, fetFin: map[string]func() string{}, logged: map[string]bool{},
		parents: map[string]string{}, names: w.order}
	for _, n := range w.order {
		if p := w.objs[n].Parent; p != "" {
			r.parents[n] = p
		}
	}
	// the case starts: observer notifications are held, the worker is gated, the remote is reachable
	q := w.local.provider.last.hs.obs
	q.mu.Lock()
	q.pass = false
	q.mu.Unlock()
	g := w.local.gates
	g.mu.Lock()
	g.worker = true
	g.mu.Unlock()
	w.local.pool.setOn(true)
	post := w.observe()
	tw.emit(vfEvent{A: "Reset", I: "-", R: "ok", Post: &post, Wk: []string{"idle", "-"}, Case: caseNo})
	for _, st := range steps {
		if st.I == "-" {
			st.I = ""
		}
		t0 := time.Now()
		r.step(st)
		if os.Getenv("VERIF_DEBUG") != "" {
			fmt.Printf("  step %-22s %-3s %v\n", st.A, st.I, time.Since(t0))
		}
	}
	if final {
		r.finalChecks()
	} else {
		r.quiesce()
	}
	r.abortPending()
	return r
}

// ------------------------------------------------------------------------------------- the tests

func vfEnvInt(name string, def int) int {
	if v, err := strconv.Atoi(os.Getenv(name)); err == nil {
		return v
	}
	return def
}

type vfScheduleFile struct {
	Name  string
	Steps []vfStep
}

func vfLoadSchedules(dir string) []vfScheduleFile {
	names, _ := filepath.Glob(filepath.Join(dir, "*.json"))
	sort.Strings(names)
	var res []vfScheduleFile
	for _, n := range names {
		b, err := os.ReadFile(n)
		if err != nil {
			vfBreak("read %s: %v", n, err)
		}
		var steps []vfStep
		if err := json.Unmarshal(b, &steps); err != nil {
			vfBreak("parse %s: %v", n, err)
		}
		res = append(res, vfScheduleFile{Name: filepath.Base(n), Steps: steps})
	}
	return res
}

func vfScheduleKey(steps []vfStep) string {
	var sb strings.Builder
	for _, s := range steps {
		sb.WriteString(s.A)
		sb.WriteString(s.I)
		sb.WriteString(strings.Join(s.S, ""))
		sb.WriteByte(';')
	}
	return sb.String()
}

var vfDefaultNames = []string{"p", "c", "x"}
var vfDefaultParents = map[string]string{"c": "p"}

// TestVerifDeletion executes the schedules in $VERIF_SCHEDULES (or the replay object of
// $VERIF_REPLAY) on real spaces, evaluates the property oracles and records the trace.
func TestVerifDeletion(t *testing.T) {
	rep := vfNewReport()
	complete := false
	defer func() {
		if x := recover(); x != nil {
			if b, ok := x.(vfBroken); ok {
				rep.Extra["broken"] = b.msg
				rep.Save(false)
				t.Fatalf("harness broken: %s", b.msg)
			}
			rep.Extra["broken"] = fmt.Sprint(x)
			rep.Save(false)
			panic(x)
		}
		rep.Save(complete)
	}()
	seed := int64(vfEnvInt("VERIF_SEED", 1))
	keys, err := accountdata.NewRandom()
	if err != nil {
		vfBreak("keys: %v", err)
	}
	var tw *vfTraceWriter
	if p := os.Getenv("VERIF_TRACE_OUT"); p != "" {
		f, err := os.Create(p)
		if err != nil {
			vfBreak("trace file: %v", err)
		}
		defer f.Close()
		tw = &vfTraceWriter{f: f}
	}
	var schedules []vfScheduleFile
	names, parents := vfDefaultNames, vfDefaultParents
	repeat := 1
	if p := os.Getenv("VERIF_REPLAY"); p != "" {
		b, err := os.ReadFile(p)
		if err != nil {
			vfBreak("replay file: %v", err)
		}
		var wrap struct {
			Replay struct {
				Names   []string          `json:"names"`
				Parents map[string]string `json:"parents"`
				Steps   []vfStep          `json:"steps"`
			} `json:"replay"`
		}
		if err := json.Unmarshal(b, &wrap); err != nil {
			vfBreak("replay file: %v", err)
		}
		if len(wrap.Replay.Names) > 0 {
			names, parents = wrap.Replay.Names, wrap.Replay.Parents
		}
		schedules = []vfScheduleFile{{Name: "replay", Steps: wrap.Replay.Steps}}
		repeat = 5 // the worker's map order is not controllable: a few attempts
	} else {
		schedules = vfLoadSchedules(os.Getenv("VERIF_SCHEDULES"))
		if len(schedules) == 0 {
			vfBreak("no schedules in %q", os.Getenv("VERIF_SCHEDULES"))
		}
	}
	root := t.TempDir()
	fxs := vfNewFixtures(root, keys)
	defer fxs.close()
	caseNo := 0
	for rp := 0; rp < repeat; rp++ {
		for _, sc := range schedules {
			if vfSkips >= 40 {
				rep.Extra["stopped_after_worker_skips"] = vfSkips
				break
			}
			caseNo++
			w := vfNewWorld(fxs, filepath.Join(root, fmt.Sprintf("case%d", caseNo)), names, parents)
			run := vfRunSchedule(w, sc.Steps, rep, tw, caseNo, seed*1000003+int64(caseNo), true)
			rep.Case(vfScheduleKey(run.done))
			rep.mu.Lock()
			rep.Replayed++
			rep.mu.Unlock()
			if caseNo <= 2 {
				rep.Sample(map[string]any{"schedule": sc.Name, "executed": run.done})
			}
			w.close(run.wk.park)
		}
	}
	if tw != nil {
		rep.Extra["trace_events"] = tw.n
	}
	complete = true
	_ = context.Background
}
