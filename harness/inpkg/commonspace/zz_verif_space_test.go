package commonspace

// Injected with `go test -overlay` by /verif/checks/C13.py (property C13).
//
// Every payload the harness rendered (valid spaces, field / id mutations, cross-splices, forged parts; with the
// verdict of the validator called directly and the verdict of the independent oracle) is pushed through the
// three code paths of spaceService that may create a space storage:
//   create : createSpaceStorage            (CreateSpace / DeriveSpace / DeriveOneToOneSpace end here)
//   push   : addSpaceStorage               (NewSpace with a SpaceDescription in the context)
//   pull   : spacePullWithPeer             (NewSpace without local storage: SpacePull from a responsible peer)
// A path "accepts" when it hands the payload to the storage provider.  Acceptance => bound (oracle) and
// acceptance of a mutated payload are judged exactly as for the direct validator call.

import (
	"bufio"
	"context"
	"encoding/base64"
	"encoding/json"
	"errors"
	"fmt"
	"os"
	"testing"

	"storj.io/drpc"

	"github.com/anyproto/any-sync/commonspace/object/tree/treechangeproto"
	"github.com/anyproto/any-sync/commonspace/spacestorage"
	"github.com/anyproto/any-sync/commonspace/spacesyncproto"
	"github.com/anyproto/any-sync/consensus/consensusproto"
	"github.com/anyproto/any-sync/net/peer"
)

type vspViolation struct {
	Key    string `json:"key"`
	Desc   string `json:"desc"`
	Replay any    `json:"replay"`
}

type vspReport struct {
	Property   string         `json:"property"`
	Cases      int            `json:"cases"`
	Distinct   int            `json:"distinct"`
	Replayed   int            `json:"replayed"`
	Steps      int            `json:"steps"`
	Drift      int            `json:"drift"`
	Violations []vspViolation `json:"violations"`
	Samples    []any          `json:"samples"`
	Extra      map[string]any `json:"extra"`
	Complete   bool           `json:"complete"`
	DriftNotes []string       `json:"drift_notes,omitempty"`
	keys       map[string]bool
	vkeys      map[string]bool
}

func (r *vspReport) violate(key, desc string, replay any) {
	if r.vkeys[key] {
		return
	}
	r.vkeys[key] = true
	r.Violations = append(r.Violations, vspViolation{key, desc, replay})
}

func (r *vspReport) save(complete bool) {
	r.Complete = complete
	b, _ := json.Marshal(r)
	if out := os.Getenv("VERIF_OUT"); out != "" {
		_ = os.WriteFile(out, b, 0o644)
	}
}

var errVspStop = errors.New("verif: storage creation stopped by the harness")

// vspProvider records the payloads the service decided to store
type vspProvider struct {
	spacestorage.SpaceStorageProvider
	got []spacestorage.SpaceStorageCreatePayload
}

func (p *vspProvider) CreateSpaceStorage(ctx context.Context, payload spacestorage.SpaceStorageCreatePayload) (spacestorage.SpaceStorage, error) {
	p.got = append(p.got, payload)
	return nil, errVspStop
}

// vspPeer answers SpacePull with a fixed response, through the generated drpc client and the wire encoding
type vspPeer struct {
	peer.Peer
	resp *spacesyncproto.SpacePullResponse
}

func (p *vspPeer) Id() string { return "verif-peer" }
func (p *vspPeer) DoDrpc(ctx context.Context, do func(conn drpc.Conn) error) error {
	return do(&vspConn{resp: p.resp})
}

type vspConn struct {
	resp *spacesyncproto.SpacePullResponse
}

func (c *vspConn) Close() error            { return nil }
func (c *vspConn) Closed() <-chan struct{} { return nil }
func (c *vspConn) NewStream(ctx context.Context, rpc string, enc drpc.Encoding) (drpc.Stream, error) {
	return nil, errors.New("not supported")
}
func (c *vspConn) Invoke(ctx context.Context, rpc string, enc drpc.Encoding, in, out drpc.Message) error {
	if rpc != "/spacesync.SpaceSync/SpacePull" {
		return fmt.Errorf("unexpected rpc %s", rpc)
	}
	b, err := c.resp.MarshalVT()
	if err != nil {
		return err
	}
	return out.(*spacesyncproto.SpacePullResponse).UnmarshalVT(b)
}

type vspCase struct {
	Key         string `json:"key"`
	HdrId       string `json:"hdrId"`
	HdrRaw      string `json:"hdrRaw"`
	AclId       string `json:"aclId"`
	AclRaw      string `json:"aclRaw"`
	SetId       string `json:"setId"`
	SetRaw      string `json:"setRaw"`
	Direct      bool   `json:"direct"`
	Bound       bool   `json:"bound"`
	Why         string `json:"why"`
	Original    bool   `json:"original"`
	Observation bool   `json:"observation"`
}

func vspB(s string) []byte {
	b, err := base64.StdEncoding.DecodeString(s)
	if err != nil {
		panic(err)
	}
	if len(b) == 0 {
		return nil
	}
	return b
}

func TestVerifSpaceServicePaths(t *testing.T) {
	rep := &vspReport{Property: "C13", Violations: []vspViolation{}, Samples: []any{}, Extra: map[string]any{}, keys: map[string]bool{}, vkeys: map[string]bool{}}
	defer func() { rep.save(!t.Failed() || len(rep.Violations) > 0) }()
	path := os.Getenv("VERIF_SERVICE_CASES")
	fh, err := os.Open(path)
	if err != nil {
		t.Fatal(err)
	}
	defer fh.Close()
	sc := bufio.NewScanner(fh)
	sc.Buffer(make([]byte, 1<<20), 1<<26)
	ctx := context.Background()
	pullOther, pullOtherAccepted := 0, 0
	var lastValid *vspCase
	for sc.Scan() {
		var c vspCase
		if err := json.Unmarshal(sc.Bytes(), &c); err != nil {
			t.Fatal(err)
		}
		hdr := &spacesyncproto.RawSpaceHeaderWithId{RawHeader: vspB(c.HdrRaw), Id: c.HdrId}
		for _, pth := range []string{"create", "push", "pull"} {
			prov := &vspProvider{}
			s := &spaceService{storageProvider: prov}
			var perr error
			panicked := func() (p any) {
				defer func() { p = recover() }()
				switch pth {
				case "create":
					_, perr = s.createSpaceStorage(ctx, spacestorage.SpaceStorageCreatePayload{
						AclWithId:           vspAcl(c),
						SpaceHeaderWithId:   hdr,
						SpaceSettingsWithId: vspSet(c),
					})
				case "push":
					_, perr = s.addSpaceStorage(ctx, SpaceDescription{SpaceHeader: hdr, AclId: c.AclId, AclPayload: vspB(c.AclRaw),
						SpaceSettingsId: c.SetId, SpaceSettingsPayload: vspB(c.SetRaw)})
				case "pull":
					p := &vspPeer{resp: &spacesyncproto.SpacePullResponse{Payload: &spacesyncproto.SpacePayload{SpaceHeader: hdr,
						AclPayload: vspB(c.AclRaw), AclPayloadId: c.AclId, SpaceSettingsPayload: vspB(c.SetRaw), SpaceSettingsPayloadId: c.SetId}}}
					_, perr = s.spacePullWithPeer(ctx, p, c.HdrId, Deps{})
				}
				return nil
			}()
			_ = perr
			rep.Cases++
			rep.Steps++
			k := pth + "/" + c.Key
			if !rep.keys[k] {
				rep.keys[k] = true
				rep.Distinct++
			}
			replay := map[string]any{"service_case": c, "path": pth}
			if panicked != nil {
				rep.violate("service-panic/"+k, fmt.Sprintf("%s path panicked on %s: %v", pth, c.Key, panicked), replay)
				continue
			}
			accepted := len(prov.got) == 1
			if accepted {
				g := prov.got[0]
				if g.SpaceHeaderWithId.Id != c.HdrId || g.AclWithId.Id != c.AclId || g.SpaceSettingsWithId.Id != c.SetId ||
					string(g.SpaceHeaderWithId.RawHeader) != string(vspB(c.HdrRaw)) || string(g.AclWithId.Payload) != string(vspB(c.AclRaw)) ||
					string(g.SpaceSettingsWithId.RawChange) != string(vspB(c.SetRaw)) {
					rep.violate("service-stores-other-payload/"+pth, "the payload handed to the storage provider differs from the validated one ("+c.Key+")", replay)
				}
				if !c.Bound {
					rep.violate("service-accept-unbound/"+pth+"/"+c.Why+"/"+c.Key, fmt.Sprintf("%s path stores a payload for which %s does not hold (%s)", pth, c.Why, c.Key), replay)
				} else if !c.Original && !c.Observation {
					rep.violate("service-accept-mutated/"+pth+"/"+c.Key, fmt.Sprintf("%s path stores a mutated payload (%s)", pth, c.Key), replay)
				}
			}
			if accepted != c.Direct {
				rep.Drift++
				if len(rep.DriftNotes) < 20 {
					rep.DriftNotes = append(rep.DriftNotes, fmt.Sprintf("%s path accepted=%v, validator called directly accepted=%v (%s)", pth, accepted, c.Direct, c.Key))
				}
			}
		}
		// observation (not a gating predicate): a pull response that is a consistent but DIFFERENT space than the one asked for
		if c.Direct && c.Original {
			if lastValid != nil && lastValid.HdrId != c.HdrId && pullOther < 50 {
				prov := &vspProvider{}
				s := &spaceService{storageProvider: prov}
				p := &vspPeer{resp: &spacesyncproto.SpacePullResponse{Payload: &spacesyncproto.SpacePayload{SpaceHeader: hdr,
					AclPayload: vspB(c.AclRaw), AclPayloadId: c.AclId, SpaceSettingsPayload: vspB(c.SetRaw), SpaceSettingsPayloadId: c.SetId}}}
				_, _ = s.spacePullWithPeer(ctx, p, lastValid.HdrId, Deps{})
				pullOther++
				if len(prov.got) == 1 {
					pullOtherAccepted++
				}
			}
			cc := c
			lastValid = &cc
		}
		rep.Replayed++
	}
	if err := sc.Err(); err != nil {
		t.Fatal(err)
	}
	if rep.Replayed == 0 {
		t.Fatal("no cases")
	}
	rep.Extra["pull_of_other_space_tried"] = pullOther
	rep.Extra["pull_of_other_space_stored"] = pullOtherAccepted
}

func vspAcl(c vspCase) *consensusproto.RawRecordWithId {
	return &consensusproto.RawRecordWithId{Payload: vspB(c.AclRaw), Id: c.AclId}
}
func vspSet(c vspCase) *treechangeproto.RawTreeChangeWithId {
	return &treechangeproto.RawTreeChangeWithId{RawChange: vspB(c.SetRaw), Id: c.SetId}
}
