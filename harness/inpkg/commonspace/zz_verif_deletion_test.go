package commonspace

// Property C15 (deletion is permanent) - in-package harness, part 1: infrastructure.
//
// This file is injected into package commonspace with `go test -overlay` (the repository is not
// edited). It re-uses the repository's own space fixture pieces (testTreeManager, mockPool,
// mockConfig, RpcServer, streamOpener, mockDeps, ...) and adds only what is needed to *steer* and
// *observe* a real space:
//
//   - vfStorageProvider / vfSpaceStorage / vfHeadStorage: pass-through wrappers around the real
//     any-store backed space storage. They (a) park the deletion worker at the calls it makes
//     into storage (TreeStorage, GetEntriesByParentId) so a TLC schedule can be forced, (b) park
//     a PutTree between its tombstone check and the storage creation, (c) hold the head-storage
//     observer notifications in a FIFO that the harness delivers one by one (the real
//     headUpdater goroutine is asynchronous; only the delay is controlled, never the order).
//   - vfTreeManager: the repository's testTreeManager with gates in DeleteTree / MarkTreeDeleted.
//   - vfPool / vfPeer / vfConn / vfStream: an in-process "remote peer": requests the local space
//     sends are answered by a second real space (the remote replica) that still holds every
//     object; the answer can be held back so that a remote fetch overlaps a deletion.
//
// Nothing here asserts on sleeps: waits are on explicit conditions with a deadline that only
// turns a hang into a broken check (exit 2), never into a violation.

import (
	"context"
	"encoding/json"
	"errors"
	"fmt"
	"io"
	"os"
	"path/filepath"
	"runtime"
	"sort"
	"strings"
	"sync"
	"time"

	anystore "github.com/anyproto/any-store"
	"storj.io/drpc"

	"github.com/anyproto/any-sync/app"
	"github.com/anyproto/any-sync/commonspace/credentialprovider"
	"github.com/anyproto/any-sync/commonspace/headsync/headstorage"
	"github.com/anyproto/any-sync/commonspace/object/accountdata"
	"github.com/anyproto/any-sync/commonspace/object/tree/objecttree"
	"github.com/anyproto/any-sync/commonspace/object/tree/treestorage"
	"github.com/anyproto/any-sync/commonspace/peermanager"
	"github.com/anyproto/any-sync/commonspace/spacestorage"
	"github.com/anyproto/any-sync/commonspace/spacesyncproto"
	"github.com/anyproto/any-sync/commonspace/sync/objectsync/objectmessages"
	"github.com/anyproto/any-sync/net/peer"
	"github.com/anyproto/any-sync/net/rpc/rpctest"
	"github.com/anyproto/any-sync/net/streampool"
	"github.com/anyproto/any-sync/nodeconf/testconf"
	"github.com/anyproto/any-sync/protobuf"
	"github.com/anyproto/any-sync/testutil/accounttest"
	"github.com/anyproto/any-sync/util/syncqueues"
)

// ---------------------------------------------------------------------------------------------
// report (same JSON shape as verifharness/vfutil.Report, which an overlay file cannot import)

type vfViolation struct {
	Key    string `json:"key"`
	Desc   string `json:"desc"`
	Replay any    `json:"replay"`
}

type vfReport struct {
	mu         sync.Mutex
	Property   string         `json:"property"`
	Cases      int            `json:"cases"`
	Distinct   int            `json:"distinct"`
	Replayed   int            `json:"replayed"`
	Steps      int            `json:"steps"`
	Drift      int            `json:"drift"`
	Violations []vfViolation  `json:"violations"`
	Samples    []any          `json:"samples"`
	Extra      map[string]any `json:"extra"`
	Complete   bool           `json:"complete"`
	DriftNotes []string       `json:"drift_notes,omitempty"`
	keys       map[string]struct{}
	vkeys      map[string]int
}

func vfNewReport() *vfReport {
	return &vfReport{Property: "C15", Violations: []vfViolation{}, Samples: []any{}, Extra: map[string]any{},
		keys: map[string]struct{}{}, vkeys: map[string]int{}}
}

func (r *vfReport) Case(key string) {
	r.mu.Lock()
	defer r.mu.Unlock()
	r.Cases++
	if key != "" {
		if _, ok := r.keys[key]; !ok {
			r.keys[key] = struct{}{}
			r.Distinct++
		}
	}
}

func (r *vfReport) Violate(key, desc string, replay any) {
	r.mu.Lock()
	defer r.mu.Unlock()
	r.vkeys[key]++
	if r.vkeys[key] > 1 {
		return
	}
	r.Violations = append(r.Violations, vfViolation{Key: key, Desc: desc, Replay: replay})
}

func (r *vfReport) DriftNote(format string, a ...any) {
	r.mu.Lock()
	defer r.mu.Unlock()
	r.Drift++
	if len(r.DriftNotes) < 20 {
		r.DriftNotes = append(r.DriftNotes, fmt.Sprintf(format, a...))
	}
}

func (r *vfReport) Sample(s any) {
	r.mu.Lock()
	defer r.mu.Unlock()
	if len(r.Samples) < 3 {
		r.Samples = append(r.Samples, s)
	}
}

func (r *vfReport) Save(complete bool) {
	r.mu.Lock()
	defer r.mu.Unlock()
	r.Complete = complete
	if len(r.vkeys) > 0 {
		r.Extra["violation_counts"] = r.vkeys
	}
	b, err := json.Marshal(r)
	if err != nil {
		panic(err)
	}
	out := os.Getenv("VERIF_OUT")
	if out == "" {
		fmt.Println(string(b))
		return
	}
	if err := os.WriteFile(out, b, 0o644); err != nil {
		panic(err)
	}
}

// vfBroken is panicked when the harness machinery itself fails (hang, unexpected error of a
// fixture step). The test leaves an incomplete report => the orchestrator exits 2, never 1.
type vfBroken struct{ msg string }

func vfBreak(format string, a ...any) {
	panic(vfBroken{fmt.Sprintf(format, a...)})
}

const vfDeadline = 20 * time.Second

// vfPoll waits until cond() holds; a deadline only converts a hang into a broken check.
func vfPoll(what string, cond func() bool) {
	end := time.Now().Add(vfDeadline)
	for i := 0; ; i++ {
		if cond() {
			return
		}
		if time.Now().After(end) {
			vfBreak("timeout waiting for %s", what)
		}
		if i < 200 {
			runtime.Gosched()
		} else {
			time.Sleep(100 * time.Microsecond)
		}
	}
}

// ---------------------------------------------------------------------------------------------
// gates: parking the deletion worker (and a put / a fetch) at harness-owned call boundaries

var errVfAbort = errors.New("verif: injected failure (worker aborted at a storage / tree manager call)")

type vfPark struct {
	Point   string // ts | del | mark | kids | create | fetch
	Id      string
	release chan error
}

func vfNewPark(point, id string) *vfPark {
	return &vfPark{Point: point, Id: id, release: make(chan error, 2)}
}

type vfGates struct {
	mu      sync.Mutex
	worker  bool // park the deletion worker's calls
	abort   bool // fail the deletion worker's calls immediately (crash emulation)
	arrive  chan *vfPark
	armPut  map[string]bool // park CreateTreeStorage of these ids
	armFet  map[string]bool // park the remote answer for these ids
	crashAD bool            // DeleteTree performs the deletion, then reports failure (crash before state.Delete)
	putCh   chan *vfPark
	fetCh   chan *vfPark
	// put / fetch calls currently parked (a restart fails them)
	parkedCalls []*vfPark
	// number of not yet deleted children the worker's last GetEntriesByParentId returned (-1: not yet)
	kidsSeen int
}

func vfNewGates() *vfGates {
	return &vfGates{arrive: make(chan *vfPark, 16), putCh: make(chan *vfPark, 16), fetCh: make(chan *vfPark, 16),
		armPut: map[string]bool{}, armFet: map[string]bool{}}
}

// vfFromDeleter: is the wrapper method that calls this invoked *directly* by the deletion worker
// (deletionmanager.(*deleter).Delete / deleteBoundChildren / tryMarkDeleted)? Storage calls the
// tree manager makes on the worker's behalf are not gated.
func vfFromDeleter() bool {
	var pcs [4]uintptr
	n := runtime.Callers(3, pcs[:])
	if n == 0 {
		return false
	}
	f, _ := runtime.CallersFrames(pcs[:n]).Next()
	return strings.Contains(f.Function, "deletionmanager.(*deleter)")
}

// workerHit is called at every harness-owned boundary the deletion worker crosses.
func (g *vfGates) workerHit(point, id string) error {
	g.mu.Lock()
	if g.abort {
		g.mu.Unlock()
		return errVfAbort
	}
	if !g.worker {
		g.mu.Unlock()
		return nil
	}
	p := vfNewPark(point, id)
	g.mu.Unlock()
	g.arrive <- p
	return <-p.release
}

func (g *vfGates) setAbort(v bool) { g.mu.Lock(); g.abort = v; g.mu.Unlock() }

// waitWorker returns the next parked worker call.
func (g *vfGates) waitWorker(what string) *vfPark {
	select {
	case p := <-g.arrive:
		return p
	case <-time.After(vfDeadline):
		vfBreak("deletion worker did not reach a gate (%s)", what)
		return nil
	}
}

// tryWorker returns a parked worker call if one is there (no waiting).
func (g *vfGates) tryWorker() *vfPark {
	select {
	case p := <-g.arrive:
		return p
	default:
		return nil
	}
}

func vfWaitPark(ch chan *vfPark, what string) *vfPark {
	select {
	case p := <-ch:
		return p
	case <-time.After(vfDeadline):
		vfBreak("call did not reach its gate (%s)", what)
		return nil
	}
}

// ---------------------------------------------------------------------------------------------
// storage wrappers

type vfStorageProvider struct {
	root  string
	dbs   map[string]anystore.DB
	gates *vfGates // nil: no wrapping (remote replica)
	last  *vfSpaceStorage
}

func (s *vfStorageProvider) Init(a *app.App) error           { return nil }
func (s *vfStorageProvider) Name() string                    { return spacestorage.CName }
func (s *vfStorageProvider) Run(ctx context.Context) error   { return nil }
func (s *vfStorageProvider) Close(ctx context.Context) error { return nil }
func (s *vfStorageProvider) SpaceExists(id string) bool      { _, ok := s.dbs[id]; return ok }
func (s *vfStorageProvider) closeAll() {
	for _, db := range s.dbs {
		_ = db.Close()
	}
	s.dbs = map[string]anystore.DB{}
}

func (s *vfStorageProvider) closeSpace(id string) {
	if db, ok := s.dbs[id]; ok {
		_ = db.Close()
		delete(s.dbs, id)
		_ = os.RemoveAll(filepath.Join(s.root, id))
	}
}

func (s *vfStorageProvider) wrap(st spacestorage.SpaceStorage) spacestorage.SpaceStorage {
	if s.gates == nil {
		return st
	}
	w := &vfSpaceStorage{SpaceStorage: st, gates: s.gates}
	w.hs = &vfHeadStorage{HeadStorage: st.HeadStorage(), gates: s.gates, obs: &vfObserverQueue{}}
	s.last = w
	return w
}

func (s *vfStorageProvider) WaitSpaceStorage(ctx context.Context, id string) (spacestorage.SpaceStorage, error) {
	db, ok := s.dbs[id]
	if !ok {
		return nil, spacestorage.ErrSpaceStorageMissing
	}
	st, err := spacestorage.New(ctx, id, db)
	if err != nil {
		return nil, err
	}
	return s.wrap(st), nil
}

func (s *vfStorageProvider) CreateSpaceStorage(ctx context.Context, payload spacestorage.SpaceStorageCreatePayload) (spacestorage.SpaceStorage, error) {
	id := payload.SpaceHeaderWithId.Id
	if s.SpaceExists(id) {
		return nil, spacestorage.ErrSpaceStorageExists
	}
	dbPath := filepath.Join(s.root, id)
	db, err := anystore.Open(ctx, dbPath, &anystore.Config{SQLiteConnectionOptions: map[string]string{"synchronous": "off"}})
	if err != nil {
		return nil, err
	}
	if s.dbs == nil {
		s.dbs = map[string]anystore.DB{}
	}
	s.dbs[id] = objecttree.TestStore{DB: db, Path: dbPath}
	st, err := spacestorage.Create(ctx, s.dbs[id], payload)
	if err != nil {
		return nil, err
	}
	return st, nil
}

type vfSpaceStorage struct {
	spacestorage.SpaceStorage
	gates *vfGates
	hs    *vfHeadStorage
}

func (s *vfSpaceStorage) HeadStorage() headstorage.HeadStorage { return s.hs }

func (s *vfSpaceStorage) TreeStorage(ctx context.Context, id string) (objecttree.Storage, error) {
	if vfFromDeleter() {
		if err := s.gates.workerHit("ts", id); err != nil {
			return nil, err
		}
	}
	return s.SpaceStorage.TreeStorage(ctx, id)
}

func (s *vfSpaceStorage) CreateTreeStorage(ctx context.Context, payload treestorage.TreeStorageCreatePayload) (objecttree.Storage, error) {
	id := payload.RootRawChange.Id
	s.gates.mu.Lock()
	armed := s.gates.armPut[id]
	delete(s.gates.armPut, id)
	s.gates.mu.Unlock()
	if armed {
		p := vfNewPark("create", id)
		s.gates.mu.Lock()
		s.gates.parkedCalls = append(s.gates.parkedCalls, p)
		s.gates.mu.Unlock()
		s.gates.putCh <- p
		if err := <-p.release; err != nil {
			return nil, err
		}
	}
	return s.SpaceStorage.CreateTreeStorage(ctx, payload)
}

type vfHeadStorage struct {
	headstorage.HeadStorage
	gates *vfGates
	obs   *vfObserverQueue
}

func (h *vfHeadStorage) AddObserver(o headstorage.Observer) {
	h.obs.mu.Lock()
	h.obs.inner = append(h.obs.inner, o)
	first := len(h.obs.inner) == 1
	h.obs.mu.Unlock()
	if first {
		h.HeadStorage.AddObserver(h.obs)
	}
}

func (h *vfHeadStorage) GetEntriesByParentId(ctx context.Context, parentId string) ([]headstorage.HeadsEntry, error) {
	if !vfFromDeleter() {
		return h.HeadStorage.GetEntriesByParentId(ctx, parentId)
	}
	if err := h.gates.workerHit("kids", parentId); err != nil {
		return nil, err
	}
	res, err := h.HeadStorage.GetEntriesByParentId(ctx, parentId)
	n := 0
	for _, e := range res {
		if e.DeletedStatus < headstorage.DeletedStatusDeleted {
			n++
		}
	}
	h.gates.mu.Lock()
	h.gates.kidsSeen = n
	h.gates.mu.Unlock()
	return res, err
}

// vfObserverQueue holds the head-storage notifications (FIFO); the harness forwards them to the
// real observer (diffSyncer -> headUpdater goroutine -> DiffManager.UpdateHeads) one at a time.
type vfObserverQueue struct {
	mu      sync.Mutex
	inner   []headstorage.Observer
	pending []headstorage.HeadsEntry
	pass    bool // forward immediately (used before the case starts)
}

func (q *vfObserverQueue) OnUpdate(e headstorage.HeadsEntry) {
	if os.Getenv("VERIF_DEBUG_OBS") != "" {
		var pcs [40]uintptr
		n := runtime.Callers(2, pcs[:])
		fr := runtime.CallersFrames(pcs[:n])
		var names []string
		for {
			f, more := fr.Next()
			if strings.Contains(f.Function, "any-sync") {
				names = append(names, f.Function[strings.LastIndex(f.Function, "/")+1:])
			}
			if !more {
				break
			}
		}
		fmt.Println("  [obs]", e.Id[len(e.Id)-6:], e.DeletedStatus, e.Heads, e.LastAddSeq, names)
	}
	q.mu.Lock()
	if q.pass {
		inner := append([]headstorage.Observer(nil), q.inner...)
		q.mu.Unlock()
		for _, o := range inner {
			o.OnUpdate(e)
		}
		return
	}
	e.Heads = append([]string(nil), e.Heads...)
	q.pending = append(q.pending, e)
	q.mu.Unlock()
}

func (q *vfObserverQueue) forward(e headstorage.HeadsEntry) {
	q.mu.Lock()
	inner := append([]headstorage.Observer(nil), q.inner...)
	q.mu.Unlock()
	for _, o := range inner {
		o.OnUpdate(e)
	}
}

func (q *vfObserverQueue) pop() (headstorage.HeadsEntry, bool) {
	q.mu.Lock()
	defer q.mu.Unlock()
	if len(q.pending) == 0 {
		return headstorage.HeadsEntry{}, false
	}
	e := q.pending[0]
	q.pending = q.pending[1:]
	return e, true
}

func (q *vfObserverQueue) snapshot() []headstorage.HeadsEntry {
	q.mu.Lock()
	defer q.mu.Unlock()
	return append([]headstorage.HeadsEntry(nil), q.pending...)
}

// ---------------------------------------------------------------------------------------------
// tree manager with gates (the repository's testTreeManager does the work)

type vfTreeManager struct {
	*testTreeManager
	gates    *vfGates
	noDelete bool // remote replica: keeps every object
}

func (t *vfTreeManager) DeleteTree(ctx context.Context, spaceId, treeId string) error {
	if t.noDelete {
		return fmt.Errorf("verif: the remote replica keeps its objects")
	}
	if t.gates != nil {
		if err := t.gates.workerHit("del", treeId); err != nil {
			return err
		}
	}
	err := t.testTreeManager.DeleteTree(ctx, spaceId, treeId)
	if os.Getenv("VERIF_DEBUG") != "" {
		fmt.Println("  [tm] DeleteTree", treeId, "->", err)
	}
	if t.gates != nil {
		t.gates.mu.Lock()
		crash := t.gates.crashAD
		if crash {
			t.gates.crashAD = false
			t.gates.abort = true
		}
		t.gates.mu.Unlock()
		if crash && err == nil {
			return errVfAbort
		}
	}
	return err
}

func (t *vfTreeManager) MarkTreeDeleted(ctx context.Context, spaceId, treeId string) error {
	if t.noDelete {
		return fmt.Errorf("verif: the remote replica keeps its objects")
	}
	if t.gates != nil {
		if err := t.gates.workerHit("mark", treeId); err != nil {
			return err
		}
	}
	return t.testTreeManager.MarkTreeDeleted(ctx, spaceId, treeId)
}

// resetCache drops every open tree (a restart loses all in-memory objects).
func (t *vfTreeManager) resetCache(a *app.App) {
	if t.testTreeManager.cache != nil {
		_ = t.testTreeManager.cache.Close()
	}
	if err := t.testTreeManager.Init(a); err != nil {
		vfBreak("tree manager re-init: %v", err)
	}
}

// ---------------------------------------------------------------------------------------------
// peer manager capturing broadcasts (wire bytes), and the in-process remote peer

type vfWire struct {
	ObjectId string
	Bytes    []byte
}

type vfPeerManager struct {
	mu       sync.Mutex
	captured []vfWire
	dst      string
}

func (p *vfPeerManager) Init(a *app.App) error { return nil }
func (p *vfPeerManager) Name() string          { return peermanager.CName }
func (p *vfPeerManager) SendMessage(ctx context.Context, peerId string, msg drpc.Message) error {
	return nil
}
func (p *vfPeerManager) GetResponsiblePeers(ctx context.Context) ([]peer.Peer, error) {
	return nil, nil
}
func (p *vfPeerManager) GetNodePeers(ctx context.Context) ([]peer.Peer, error) { return nil, nil }
func (p *vfPeerManager) KeepAlive(ctx context.Context)                         {}
func (p *vfPeerManager) BroadcastMessage(ctx context.Context, msg drpc.Message) error {
	hu, ok := msg.(*objectmessages.HeadUpdate)
	if !ok {
		return nil
	}
	cp := hu.Copy().(*objectmessages.HeadUpdate)
	cp.SetPeerId(p.dst)
	pm, err := cp.ProtoMessage()
	if err != nil {
		return nil
	}
	b, err := pm.MarshalVT()
	if err != nil {
		return nil
	}
	p.mu.Lock()
	p.captured = append(p.captured, vfWire{ObjectId: cp.Meta.ObjectId, Bytes: b})
	p.mu.Unlock()
	return nil
}

func (p *vfPeerManager) take() []vfWire {
	p.mu.Lock()
	defer p.mu.Unlock()
	res := p.captured
	p.captured = nil
	return res
}

type vfPeerManagerProvider struct{ pm *vfPeerManager }

func (m *vfPeerManagerProvider) Init(a *app.App) error { return nil }
func (m *vfPeerManagerProvider) Name() string          { return peermanager.CName }
func (m *vfPeerManagerProvider) NewPeerManager(ctx context.Context, spaceId string) (peermanager.PeerManager, error) {
	return m.pm, nil
}

const (
	vfRemotePeerId = "verifRemotePeer"
	vfLocalPeerId  = "verifLocalPeer"
)

// vfPool hands out the in-process remote peer.
type vfPool struct {
	*mockPool
	mu     sync.Mutex
	on     bool
	remote func() Space
	gates  *vfGates
	served int
}

func (p *vfPool) peerOrErr() (peer.Peer, error) {
	p.mu.Lock()
	defer p.mu.Unlock()
	if !p.on {
		return nil, fmt.Errorf("verif: remote peer is offline")
	}
	return &vfPeer{pool: p}, nil
}
func (p *vfPool) Get(ctx context.Context, id string) (peer.Peer, error) { return p.peerOrErr() }
func (p *vfPool) GetOneOf(ctx context.Context, ids []string) (peer.Peer, error) {
	return p.peerOrErr()
}
func (p *vfPool) setOn(v bool) { p.mu.Lock(); p.on = v; p.mu.Unlock() }

type vfPeer struct {
	rpctest.MockPeer
	pool *vfPool
}

func (p *vfPeer) Id() string { return vfRemotePeerId }
func (p *vfPeer) AcquireDrpcConn(ctx context.Context) (drpc.Conn, error) {
	return &vfConn{pool: p.pool}, nil
}
func (p *vfPeer) DoDrpc(ctx context.Context, do func(conn drpc.Conn) error) error {
	return do(&vfConn{pool: p.pool})
}

type vfConn struct{ pool *vfPool }

func (c *vfConn) Close() error            { return nil }
func (c *vfConn) Closed() <-chan struct{} { return nil }
func (c *vfConn) Invoke(ctx context.Context, rpc string, enc drpc.Encoding, in, out drpc.Message) error {
	return fmt.Errorf("verif: unary rpc %s is not served by the in-process remote", rpc)
}
func (c *vfConn) NewStream(ctx context.Context, rpc string, enc drpc.Encoding) (drpc.Stream, error) {
	if !strings.HasSuffix(rpc, "/ObjectSyncRequestStream") {
		return nil, fmt.Errorf("verif: stream rpc %s is not served by the in-process remote", rpc)
	}
	return &vfStream{ctx: ctx, pool: c.pool}, nil
}

// vfStream: client side of ObjectSyncRequestStream answered by the remote replica space.
type vfStream struct {
	ctx     context.Context
	pool    *vfPool
	req     *spacesyncproto.ObjectSyncMessage
	started bool
	answers [][]byte
	err     error
}

func (s *vfStream) Context() context.Context { return s.ctx }
func (s *vfStream) CloseSend() error         { return nil }
func (s *vfStream) Close() error             { return nil }
func (s *vfStream) MsgSend(msg drpc.Message, enc drpc.Encoding) error {
	m, ok := msg.(*spacesyncproto.ObjectSyncMessage)
	if !ok {
		return fmt.Errorf("verif: unexpected request type %T", msg)
	}
	b, err := m.MarshalVT()
	if err != nil {
		return err
	}
	s.req = &spacesyncproto.ObjectSyncMessage{}
	return s.req.UnmarshalVT(b)
}

type vfServerStream struct {
	ctx context.Context
	out *[][]byte
}

func (s *vfServerStream) Context() context.Context { return s.ctx }
func (s *vfServerStream) CloseSend() error         { return nil }
func (s *vfServerStream) Close() error             { return nil }
func (s *vfServerStream) MsgRecv(msg drpc.Message, enc drpc.Encoding) error {
	return io.EOF
}
func (s *vfServerStream) MsgSend(msg drpc.Message, enc drpc.Encoding) error {
	pm, ok := msg.(protobuf.Message)
	if !ok {
		g, ok := msg.(interface {
			ProtoMessage() (protobuf.Message, error)
		})
		if !ok {
			return fmt.Errorf("verif: cannot encode %T", msg)
		}
		var err error
		if pm, err = g.ProtoMessage(); err != nil {
			return err
		}
	}
	b, err := pm.MarshalVT()
	if err != nil {
		return err
	}
	*s.out = append(*s.out, b)
	return nil
}

func (s *vfStream) MsgRecv(msg drpc.Message, enc drpc.Encoding) error {
	if !s.started {
		s.started = true
		id := s.req.ObjectId
		g := s.pool.gates
		g.mu.Lock()
		armed := g.armFet[id]
		delete(g.armFet, id)
		g.mu.Unlock()
		if armed {
			p := vfNewPark("fetch", id)
			g.mu.Lock()
			g.parkedCalls = append(g.parkedCalls, p)
			g.mu.Unlock()
			g.fetCh <- p
			if err := <-p.release; err != nil {
				return err
			}
		}
		remote := s.pool.remote()
		srv := &vfServerStream{ctx: peer.CtxWithPeerId(context.Background(), vfLocalPeerId), out: &s.answers}
		s.err = remote.HandleStreamSyncRequest(srv.ctx, s.req, srv)
		s.pool.mu.Lock()
		s.pool.served++
		s.pool.mu.Unlock()
	}
	if len(s.answers) == 0 {
		if s.err != nil {
			return s.err
		}
		return io.EOF
	}
	b := s.answers[0]
	s.answers = s.answers[1:]
	if pm, ok := msg.(protobuf.Message); ok {
		return pm.UnmarshalVT(b)
	}
	st, ok := msg.(interface {
		ProtoMessage() (protobuf.Message, error)
		SetProtoMessage(protobuf.Message) error
	})
	if !ok {
		return fmt.Errorf("verif: cannot decode into %T", msg)
	}
	pm, err := st.ProtoMessage()
	if err != nil {
		return err
	}
	if err = pm.UnmarshalVT(b); err != nil {
		return err
	}
	return st.SetProtoMessage(pm)
}

// ---------------------------------------------------------------------------------------------
// fixture: one application with the repository's components, harness-owned storage / pool / peers

type vfFixture struct {
	app      *app.App
	keys     *accountdata.AccountKeys
	provider *vfStorageProvider
	tm       *vfTreeManager
	pool     *vfPool
	pm       *vfPeerManager
	service  SpaceService
	gates    *vfGates
}

func vfNewFixture(root string, keys *accountdata.AccountKeys, gated bool, dst string) *vfFixture {
	fx := &vfFixture{
		app:     &app.App{},
		keys:    keys,
		service: New(),
		pm:      &vfPeerManager{dst: dst},
	}
	if gated {
		fx.gates = vfNewGates()
	}
	fx.provider = &vfStorageProvider{root: root, gates: fx.gates, dbs: map[string]anystore.DB{}}
	fx.tm = &vfTreeManager{testTreeManager: newMockTreeManager("spaceId"), gates: fx.gates}
	fx.pool = &vfPool{mockPool: &mockPool{}, gates: fx.gates}
	fx.app.Register(accounttest.NewWithAcc(keys)).
		Register(syncqueues.New()).
		Register(&mockConfig{}).
		Register(rpctest.NewTestServer()).
		Register(fx.pool).
		Register(fx.provider).
		Register(credentialprovider.NewNoOp()).
		Register(streampool.New()).
		Register(newStreamOpener("spaceId")).
		Register(mockCoordinatorClient{}).
		Register(mockNodeClient{}).
		Register(&vfPeerManagerProvider{pm: fx.pm}).
		Register(&testconf.StubConf{}).
		Register(fx.tm).
		Register(fx.service).
		Register(NewRpcServer())
	ctx, cancel := context.WithTimeout(context.Background(), 10*time.Second)
	defer cancel()
	if err := fx.app.Start(ctx); err != nil {
		vfBreak("fixture start: %v", err)
	}
	return fx
}

func (fx *vfFixture) close() {
	_ = fx.app.Close(context.Background())
	fx.provider.closeAll()
}

// openSpace builds a space object on the (existing) store and starts it.
func (fx *vfFixture) openSpace(id string) Space {
	ctx := context.Background()
	spc, err := fx.service.NewSpace(ctx, id, mockDeps())
	if err != nil {
		vfBreak("NewSpace: %v", err)
	}
	fx.tm.testTreeManager.space = spc
	fx.tm.testTreeManager.spaceId = id
	if err = spc.Init(ctx); err != nil {
		vfBreak("space init: %v", err)
	}
	return spc
}

func vfSortedKeys(m map[string]struct{}) []string {
	res := make([]string, 0, len(m))
	for k := range m {
		res = append(res, k)
	}
	sort.Strings(res)
	return res
}
