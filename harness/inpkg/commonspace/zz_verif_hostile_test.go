package commonspace

// zz_verif_hostile_test.go (property C11, injected with `go test -overlay`): delivers the cases
// that harness/hostile rendered for the entry point "space.SpacePull" to the real, unexported
// spaceService.spacePullWithPeer - the client side of SpacePull, which consumes the reply of a
// node - under recover / watchdog / allocation bound, and writes the report to $VERIF_OUT.

import (
	"bufio"
	"context"
	"encoding/hex"
	"encoding/json"
	"fmt"
	"os"
	"path/filepath"
	"runtime"
	"strings"
	"testing"
	"time"

	anystore "github.com/anyproto/any-store"
	"go.uber.org/zap"
	"storj.io/drpc"

	"github.com/anyproto/any-sync/app"
	"github.com/anyproto/any-sync/app/logger"
	"github.com/anyproto/any-sync/commonspace/object/accountdata"
	"github.com/anyproto/any-sync/commonspace/spacestorage"
	"github.com/anyproto/any-sync/net/peer"
	"github.com/anyproto/any-sync/nodeconf"
	"github.com/anyproto/any-sync/testutil/accounttest"
	"github.com/anyproto/any-sync/util/crypto"
)

type vhGroup struct {
	Ep string `json:"ep"`
	V  string `json:"v"`
	St string `json:"st"`
}
type vhCase struct {
	Path   []string `json:"path"`
	Kind   string   `json:"kind"`
	Op     string   `json:"op"`
	Cls    string   `json:"cls"`
	Reseal bool     `json:"reseal"`
	Prefix int      `json:"prefix,omitempty"`
}
type vhSetup struct {
	VictimSign string `json:"victim_sign"`
	VictimPeer string `json:"victim_peer"`
	NetworkId  string `json:"network_id"`
	SpaceId    string `json:"space_id"`
}
type vhLine struct {
	Setup *vhSetup `json:"setup"`
	G     *vhGroup `json:"g"`
	C     *vhCase  `json:"c"`
	Hex   string   `json:"hex"`
}
type vhViolation struct {
	Key    string `json:"key"`
	Desc   string `json:"desc"`
	Replay any    `json:"replay"`
}
type vhReport struct {
	Property   string         `json:"property"`
	Cases      int            `json:"cases"`
	Distinct   int            `json:"distinct"`
	Replayed   int            `json:"replayed"`
	Violations []vhViolation  `json:"violations"`
	Samples    []any          `json:"samples"`
	Extra      map[string]any `json:"extra"`
	Complete   bool           `json:"complete"`
}

func (r *vhReport) save(complete bool) {
	r.Complete = complete
	b, _ := json.Marshal(r)
	if out := os.Getenv("VERIF_OUT"); out != "" {
		_ = os.WriteFile(out, b, 0o644)
	} else {
		fmt.Println(string(b))
	}
}

// ---- fakes

type vhNodeConf struct {
	nodeconf.Service
	networkId string
}

func (n vhNodeConf) Configuration() nodeconf.Configuration {
	return nodeconf.Configuration{NetworkId: n.networkId}
}

type vhProvider struct {
	spacestorage.SpaceStorageProvider
	dir    string
	n      int
	opened []anystore.DB
	paths  []string
}

func (p *vhProvider) CreateSpaceStorage(ctx context.Context, payload spacestorage.SpaceStorageCreatePayload) (spacestorage.SpaceStorage, error) {
	p.n++
	path := filepath.Join(p.dir, fmt.Sprintf("space%d", p.n))
	db, err := anystore.Open(ctx, path, nil)
	if err != nil {
		return nil, err
	}
	p.opened = append(p.opened, db)
	p.paths = append(p.paths, path)
	return spacestorage.Create(ctx, db, payload)
}

func (p *vhProvider) cleanup() {
	for i, db := range p.opened {
		_ = db.Close()
		for _, sfx := range []string{"", "-wal", "-shm"} {
			_ = os.Remove(p.paths[i] + sfx)
		}
	}
	p.opened, p.paths = nil, nil
}

type vhConn struct {
	drpc.Conn
	reply []byte
}

func (c vhConn) Invoke(ctx context.Context, rpc string, enc drpc.Encoding, in, out drpc.Message) error {
	return out.(interface{ UnmarshalVT([]byte) error }).UnmarshalVT(c.reply)
}

type vhPeer struct {
	peer.Peer
	reply []byte
}

func (p vhPeer) Id() string { return "hostile-node" }
func (p vhPeer) DoDrpc(ctx context.Context, do func(conn drpc.Conn) error) error {
	return do(vhConn{reply: p.reply})
}

// ---- guards (same bounds as harness/hostile/core.go)

type vhResult struct {
	Outcome, Err, Site, Val, Stack string
	Alloc                          uint64
}

func vhGuarded(inputLen int, f func() error) vhResult {
	type done struct {
		err         error
		pv          any
		site, stack string
	}
	ch := make(chan done, 1)
	var before, after runtime.MemStats
	runtime.ReadMemStats(&before)
	go func() {
		var d done
		defer func() {
			if r := recover(); r != nil {
				d.pv = r
				d.site, d.stack = vhPanicSite()
			}
			ch <- d
		}()
		d.err = f()
	}()
	var d done
	select {
	case d = <-ch:
	case <-time.After(90 * time.Second):
		return vhResult{Outcome: "hang"}
	}
	runtime.ReadMemStats(&after)
	res := vhResult{Alloc: after.TotalAlloc - before.TotalAlloc}
	switch {
	case d.pv != nil:
		res.Outcome, res.Val, res.Site, res.Stack = "panic", fmt.Sprint(d.pv), d.site, d.stack
	case res.Alloc > 1024*uint64(inputLen)+(96<<20):
		res.Outcome = "alloc"
	case d.err != nil:
		res.Outcome, res.Err = "rejected", d.err.Error()
	default:
		res.Outcome = "accepted"
	}
	return res
}

func vhPanicSite() (site, stack string) {
	pcs := make([]uintptr, 64)
	n := runtime.Callers(3, pcs)
	frames := runtime.CallersFrames(pcs[:n])
	var sb strings.Builder
	for {
		fr, more := frames.Next()
		fmt.Fprintf(&sb, "%s\n\t%s:%d\n", fr.Function, fr.File, fr.Line)
		if site == "" && strings.HasPrefix(fr.Function, "github.com/anyproto/any-sync/") &&
			!strings.Contains(fr.Function, ".vh") && !strings.Contains(fr.Function, "TestVerifHostile") {
			fn := fr.Function[strings.LastIndex(fr.Function, "/")+1:]
			parts := strings.Split(fn, ".")
			for i := len(parts) - 1; i >= 1; i-- {
				p := parts[i]
				if p == "" || strings.HasPrefix(p, "func") || strings.HasPrefix(p, "(") || (p[0] >= '0' && p[0] <= '9') {
					continue
				}
				site = p
				break
			}
		}
		if !more {
			break
		}
	}
	if site == "" {
		site = "unknown"
	}
	return site, sb.String()
}

func TestVerifHostileSpacePull(t *testing.T) {
	path := os.Getenv("VERIF_RENDERED")
	if path == "" {
		t.Skip("VERIF_RENDERED not set")
	}
	logger.SetDefault(zap.NewNop())
	logger.SetNamedLevels(nil)
	rep := &vhReport{Property: "C11", Violations: []vhViolation{}, Samples: []any{}, Extra: map[string]any{}}
	f, err := os.Open(path)
	if err != nil {
		rep.save(false)
		t.Fatal(err)
	}
	defer f.Close()
	dir, err := os.MkdirTemp("/dev/shm", "verif-hostile-pull")
	if err != nil {
		dir = t.TempDir()
	}
	defer os.RemoveAll(dir)
	var (
		svc      *spaceService
		provider *vhProvider
		setup    *vhSetup
		keys     = map[string]bool{}
		vkeys    = map[string]bool{}
		outcomes = map[string]int{}
		executed = map[string]int{}
		rejects  = map[string]int{}
	)
	sc := bufio.NewScanner(f)
	sc.Buffer(make([]byte, 1<<20), 64<<20)
	for sc.Scan() {
		var ln vhLine
		if err := json.Unmarshal(sc.Bytes(), &ln); err != nil {
			rep.save(false)
			t.Fatal(err)
		}
		if ln.Setup != nil {
			setup = ln.Setup
			sign, err1 := hex.DecodeString(setup.VictimSign)
			peerKey, err2 := hex.DecodeString(setup.VictimPeer)
			if err1 != nil || err2 != nil {
				rep.save(false)
				t.Fatal("bad setup keys")
			}
			sk, err1 := crypto.UnmarshalEd25519PrivateKeyProto(sign)
			pk, err2 := crypto.UnmarshalEd25519PrivateKeyProto(peerKey)
			if err1 != nil || err2 != nil {
				rep.save(false)
				t.Fatal("bad setup keys")
			}
			provider = &vhProvider{dir: dir}
			svc = &spaceService{
				account:              accounttest.NewWithAcc(accountdata.New(pk, sk)),
				configurationService: vhNodeConf{networkId: setup.NetworkId},
				storageProvider:      provider,
				app:                  new(app.App),
			}
			continue
		}
		if svc == nil || ln.C == nil {
			rep.save(false)
			t.Fatal("case before setup")
		}
		data, err := hex.DecodeString(ln.Hex)
		if err != nil {
			rep.save(false)
			t.Fatal(err)
		}
		res := vhGuarded(len(data), func() error {
			_, err := svc.spacePullWithPeer(context.Background(), vhPeer{reply: data}, setup.SpaceId, Deps{})
			return err
		})
		provider.cleanup()
		rep.Cases++
		ck := ln.G.Ep + "/" + ln.C.Cls + "/" + ln.C.Kind + "/" + ln.G.V
		if !keys[ck] {
			keys[ck] = true
			rep.Distinct++
		}
		outcomes[res.Outcome]++
		executed[ln.C.Cls]++
		if res.Outcome == "rejected" {
			e := res.Err
			if len(e) > 70 {
				e = e[:70]
			}
			if len(rejects) < 60 || rejects[e] > 0 {
				rejects[e]++
			}
		}
		if ln.C.Op == "valid" && res.Outcome != "accepted" {
			rep.Extra["base_rejected:"+ln.G.Ep] = res.Err
		}
		if res.Outcome == "panic" || res.Outcome == "hang" || res.Outcome == "alloc" {
			field := ln.C.Op
			if len(ln.C.Path) > 0 {
				last := strings.TrimSuffix(ln.C.Path[len(ln.C.Path)-1], "@last")
				field = strings.ToUpper(last[:1]) + last[1:]
			}
			site := res.Site
			if res.Outcome != "panic" {
				site = res.Outcome
			}
			key := strings.Join([]string{ln.G.Ep, ln.C.Cls, field, site}, "/")
			if !vkeys[key] {
				vkeys[key] = true
				stack := res.Stack
				if len(stack) > 4000 {
					stack = stack[:4000]
				}
				rep.Violations = append(rep.Violations, vhViolation{Key: key,
					Desc:   fmt.Sprintf("%s[%s@%s] %s:%s -> %s %s %s", ln.G.Ep, ln.G.V, ln.G.St, strings.Join(ln.C.Path, "."), ln.C.Op, res.Outcome, res.Site, res.Val),
					Replay: map[string]any{"overlay": "spacepull", "group": ln.G, "case": ln.C, "rendered_hex": ln.Hex, "setup": setup, "stack": stack}})
			}
		}
		if len(rep.Samples) < 2 && len(ln.C.Path) > 0 && (res.Outcome == "accepted" || res.Outcome == "rejected") {
			rep.Samples = append(rep.Samples, map[string]any{"group": ln.G, "case": ln.C, "outcome": res.Outcome, "err": res.Err})
		}
	}
	rep.Replayed = 1
	rep.Extra["outcomes"] = map[string]any{"space.SpacePull": outcomes}
	rep.Extra["executed"] = map[string]any{"space.SpacePull": executed}
	rep.Extra["rejections"] = map[string]any{"space.SpacePull": rejects}
	rep.save(true)
	if len(rep.Violations) > 0 {
		t.Fail()
	}
}
