package hsverif

// world_test.go : the gated pipe, the pool control and the driver primitives (one per spec action)

import (
	"context"
	"fmt"
	"io"
	"math/rand"
	"net"
	"runtime"
	"runtime/debug"
	"sync"
	"time"

	"github.com/anyproto/any-sync/net/secureservice"
	"github.com/anyproto/any-sync/net/secureservice/handshake"
	"github.com/anyproto/any-sync/net/secureservice/handshake/handshakeproto"
)

const watchdog = 90 * time.Second

type wireFrame struct {
	data      []byte
	abs       frameT
	delivered int
}

type endpoint struct {
	w        *world
	sess     int
	side     string
	peerEnd  *endpoint
	killed   *bool
	closed   bool
	failed   bool // a conn call of this worker already returned an I/O error: it is unwinding
	stalled  bool
	inbox    []byte
	inflight []*wireFrame // frames travelling towards this endpoint
	grant    int
	parked   string // "", "R", "W"
	pend     []byte
	popped   int // frames completely consumed (protocol position of the reader)
	free     bool
	rewrite  func([]byte) []byte // free mode: what the adversary makes of a frame this end writes
	// observation
	consumedCorrupt string // non-empty: bytes of a malformed / truncated frame were consumed
	corruptPeerIndep bool  // ... at a moment when the peer no longer depended on this end (frame 4 / peer decided)
	credSeen        *wireFrame
	lastSeen        *wireFrame // last well-formed frame of an expected type this end consumed
	proto           bool       // this connection runs the proto negotiation
}

type world struct {
	mu    sync.Mutex
	cond  *sync.Cond
	rnd   *rand.Rand
	hung  bool
	drift []string
}

func newWorld(seed int64) *world {
	w := &world{rnd: rand.New(rand.NewSource(seed))}
	w.cond = sync.NewCond(&w.mu)
	return w
}

func (w *world) driftf(format string, a ...any) {
	w.drift = append(w.drift, fmt.Sprintf(format, a...))
}

// writing to a peer that already closed succeeds (as on TCP): only the own close or a cut transport fail a write
func (e *endpoint) aliveW() bool { return !e.closed && !*e.killed }

func (e *endpoint) Read(b []byte) (int, error) {
	w := e.w
	w.mu.Lock()
	defer w.mu.Unlock()
	for {
		if e.closed {
			e.failed = true
			return 0, errPipeClosed
		}
		if len(e.inbox) > 0 && len(b) > 0 {
			n := len(b)
			if n > len(e.inbox) {
				n = len(e.inbox)
			}
			if n > 1 {
				n = 1 + w.rnd.Intn(n) // arbitrary chunking of what is available
			}
			copy(b, e.inbox[:n])
			e.inbox = e.inbox[n:]
			return n, nil
		}
		if len(b) == 0 {
			return 0, nil
		}
		if e.free {
			if *e.killed || e.peerEnd.closed {
				e.failed = true
				return 0, io.EOF
			}
			w.cond.Wait()
			continue
		}
		if e.failed {
			return 0, io.EOF
		}
		e.parked = "R"
		w.cond.Broadcast()
		for e.grant == 0 && !e.closed && len(e.inbox) == 0 && !w.hung {
			w.cond.Wait()
		}
		if w.hung {
			return 0, errPipeClosed
		}
		if e.closed || len(e.inbox) > 0 {
			continue
		}
		// released without data: the connection is dead (spec action ReadDead)
		e.grant--
		e.failed = true
		return 0, io.EOF
	}
}

func (e *endpoint) Write(b []byte) (int, error) {
	w := e.w
	w.mu.Lock()
	defer w.mu.Unlock()
	if e.closed {
		e.failed = true
		return 0, errPipeClosed
	}
	if e.free {
		if !e.aliveW() {
			e.failed = true
			return 0, errPipeClosed
		}
		out := b
		if e.rewrite != nil {
			out = e.rewrite(append([]byte{}, b...))
		}
		e.peerEnd.inbox = append(e.peerEnd.inbox, out...)
		w.cond.Broadcast()
		return len(b), nil
	}
	if e.failed {
		// the worker is unwinding after an I/O error (its error ack): never parks; towards a peer that
		// closed the bytes go nowhere
		if e.aliveW() {
			return len(b), nil
		}
		return 0, errPipeClosed
	}
	e.parked = "W"
	e.pend = append([]byte{}, b...)
	w.cond.Broadcast()
	for e.grant == 0 && !e.closed && !w.hung {
		w.cond.Wait()
	}
	e.pend = nil
	if e.closed || w.hung {
		e.failed = true
		return 0, errPipeClosed
	}
	e.grant--
	if !e.aliveW() {
		e.failed = true
		return 0, errPipeClosed
	}
	e.peerEnd.inflight = append(e.peerEnd.inflight, &wireFrame{data: append([]byte{}, b...)})
	return len(b), nil
}

type pipeAddr string

func (a pipeAddr) Network() string { return "verifpipe" }
func (a pipeAddr) String() string  { return string(a) }

// net.Conn (the proto negotiation wants one); deadlines are the caller's context in these runs
func (e *endpoint) LocalAddr() net.Addr                { return pipeAddr(e.side) }
func (e *endpoint) RemoteAddr() net.Addr               { return pipeAddr(e.peerEnd.side) }
func (e *endpoint) SetDeadline(t time.Time) error      { return nil }
func (e *endpoint) SetReadDeadline(t time.Time) error  { return nil }
func (e *endpoint) SetWriteDeadline(t time.Time) error { return nil }

func (e *endpoint) Close() error {
	w := e.w
	w.mu.Lock()
	defer w.mu.Unlock()
	e.closed = true
	w.cond.Broadcast()
	return nil
}

// ---------------------------------------------------------------- pool control

type poolCtl struct {
	pb      *partyBook
	shadow  []any // objects that are "in the pool" as far as the specification is concerned
	origNew func() any
	lastNew any
	active  bool
	oldProcs, oldGC int
}

// take over the pool: one P (Put and Get see the same local slot), no GC between Put and Get
func (pc *poolCtl) begin() {
	pc.oldProcs = runtime.GOMAXPROCS(1)
	pc.oldGC = debug.SetGCPercent(-1)
	pc.origNew = handshakePool.New
	handshakePool.New = func() any {
		o := pc.origNew()
		pc.lastNew = o
		return o
	}
	pc.active = true
	pc.shadow = append(pc.shadow[:0], pc.drain()...)
}

func (pc *poolCtl) end() {
	for _, o := range pc.shadow {
		handshakePool.Put(o)
	}
	pc.shadow = nil
	handshakePool.New = pc.origNew
	debug.SetGCPercent(pc.oldGC)
	runtime.GOMAXPROCS(pc.oldProcs)
	pc.active = false
}

func (pc *poolCtl) drain() []any {
	saved := handshakePool.New
	handshakePool.New = nil
	var res []any
	for {
		o := handshakePool.Get()
		if o == nil {
			break
		}
		res = append(res, o)
	}
	handshakePool.New = saved
	return res
}

// empty the real pool into the shadow pool
func (pc *poolCtl) absorb() {
	pc.shadow = append(pc.shadow, pc.drain()...)
}

func (pc *poolCtl) bag() []objT {
	res := make([]objT, 0, len(pc.shadow))
	for _, o := range pc.shadow {
		res = append(res, pc.pb.projectObj(o))
	}
	return res
}

// ---------------------------------------------------------------- one side of one session

type sideRun struct {
	ep       *endpoint
	cfg      sideCfg
	peerCfg  sideCfg
	svc      secureservice.SecureService
	cancel   context.CancelFunc
	started  bool
	finished bool
	err      error
	cctx     context.Context
	panicked any
	obj      any // the pool object this worker holds
	released bool
	tampered bool
	// proto negotiation
	pout *pOutCfg
	pin  *pInCfg
	pres *handshakeproto.Proto
}

type pOutCfg struct {
	Pt   int     `json:"pt"`
	Encs encList `json:"encs"`
}
type pInCfg struct {
	Allowed   []int `json:"allowed"`
	First     int   `json:"first"`
	Supported []int `json:"supported"`
}
type psessDesc struct {
	O pOutCfg `json:"o"`
	I pInCfg  `json:"i"`
}

func (r *sideRun) verdict() string {
	if !r.finished {
		return "none"
	}
	if r.panicked != nil {
		return "panic"
	}
	return classify(r.err)
}

type session struct {
	desc     sessDesc
	killed   bool
	o, i     *sideRun
	tampered bool
	faults   int
}

func (s *session) side(x string) *sideRun {
	if x == "O" {
		return s.o
	}
	return s.i
}

type runner struct {
	w     *world
	pb    *partyBook
	svcs  *svcCache
	pool  *poolCtl
	sess  []*session
	trace []map[string]any // events for trace validation
	steps []step           // the behaviour executed so far (replayable)
	rnd   *rand.Rand
	hang  string
	recorded []frameT // credentials frames seen on any connection of this run (what an observer can replay)
	shared []string // a pool object was found in the pool while a running worker still holds it
}

func newRunner(pb *partyBook, svcs *svcCache, pool *poolCtl, descs []sessDesc, seed int64) *runner {
	r := &runner{w: newWorld(seed), pb: pb, svcs: svcs, pool: pool, rnd: rand.New(rand.NewSource(seed + 17))}
	for k, d := range descs {
		s := &session{desc: d}
		mk := func(side string) *sideRun {
			return &sideRun{ep: &endpoint{w: r.w, sess: k + 1, side: side, killed: &s.killed}, cfg: d.side(side)}
		}
		s.o, s.i = mk("O"), mk("I")
		s.o.ep.peerEnd, s.i.ep.peerEnd = s.i.ep, s.o.ep
		s.o.peerCfg, s.i.peerCfg = d.I, d.O
		r.sess = append(r.sess, s)
	}
	r.trace = append(r.trace, map[string]any{"ev": "Config", "sess": descs, "seed": seed})
	return r
}

// wait until the worker of side x is parked in a conn call or its handshake call returned
func (r *runner) settle(x *sideRun) bool {
	w := r.w
	deadline := time.Now().Add(watchdog)
	t := time.AfterFunc(watchdog+time.Second, func() {
		w.mu.Lock()
		w.cond.Broadcast()
		w.mu.Unlock()
	})
	defer t.Stop()
	w.mu.Lock()
	defer w.mu.Unlock()
	for !(x.ep.parked != "" || x.finished) {
		if time.Now().After(deadline) {
			return false
		}
		w.cond.Wait()
	}
	return true
}

func (r *runner) launch(s *session, x *sideRun) { r.launchOn(s, x, x.ep) }

func (r *runner) launchOn(s *session, x *sideRun, conn io.ReadWriteCloser) {
	ctx, cancel := context.WithCancel(context.Background())
	x.cancel = cancel
	remote := ""
	if !x.ep.proto {
		x.svc = r.svcs.service(x.cfg)
		remote = r.pb.byPid(x.peerCfg.Pid).acc.PeerId
	}
	r.w.mu.Lock()
	x.started = true
	r.w.mu.Unlock()
	go func() {
		var cctx context.Context
		var err error
		var pv any
		var pres *handshakeproto.Proto
		func() {
			defer func() { pv = recover() }()
			if x.ep.proto {
				nc := conn.(net.Conn)
				if x.ep.side == "O" {
					pm := &handshakeproto.Proto{Proto: handshakeproto.ProtoType(x.pout.Pt)}
					for _, e := range x.pout.Encs.list() {
						pm.Encodings = append(pm.Encodings, handshakeproto.Encoding(e))
					}
					pres, err = handshake.OutgoingProtoHandshake(ctx, nc, pm)
				} else {
					pc := handshake.ProtoChecker{AllowedProtoTypes: []handshakeproto.ProtoType{handshakeproto.ProtoType(x.pin.First)}}
					for _, a := range x.pin.Allowed {
						if a != x.pin.First {
							pc.AllowedProtoTypes = append(pc.AllowedProtoTypes, handshakeproto.ProtoType(a))
						}
					}
					for _, e := range x.pin.Supported {
						pc.SupportedEncodings = append(pc.SupportedEncodings, handshakeproto.Encoding(e))
					}
					pres, err = handshake.IncomingProtoHandshake(ctx, nc, pc)
				}
				return
			}
			if x.ep.side == "O" {
				if x.cfg.Mode == "verify" {
					ctx = secureservice.CtxAllowAccountCheck(ctx)
				}
				cctx, err = x.svc.HandshakeOutbound(ctx, conn, remote)
			} else {
				cctx, err = x.svc.HandshakeInbound(ctx, conn, remote)
			}
		}()
		r.w.mu.Lock()
		x.cctx, x.err, x.panicked, x.finished, x.pres = cctx, err, pv, true, pres
		r.w.cond.Broadcast()
		r.w.mu.Unlock()
	}()
}

// newProtoRunner: sessions that run the proto negotiation
func newProtoRunner(pb *partyBook, pool *poolCtl, descs []psessDesc, seed int64) *runner {
	r := &runner{w: newWorld(seed), pb: pb, pool: pool, rnd: rand.New(rand.NewSource(seed + 17))}
	for k := range descs {
		d := descs[k]
		s := &session{}
		mk := func(side string) *sideRun {
			return &sideRun{ep: &endpoint{w: r.w, sess: k + 1, side: side, killed: &s.killed, proto: true}}
		}
		s.o, s.i = mk("O"), mk("I")
		s.o.ep.peerEnd, s.i.ep.peerEnd = s.i.ep, s.o.ep
		s.o.pout, s.i.pin = &d.O, &d.I
		s.o.pin, s.i.pout = &d.I, &d.O
		r.sess = append(r.sess, s)
	}
	return r
}

// after a step: if the side's call returned, its object must be back in the pool
func (r *runner) collect(x *sideRun, async bool) {
	if !x.finished || x.released || r.pool == nil {
		return
	}
	deadline := time.Now().Add(watchdog)
	for {
		got := r.pool.drain()
		r.pool.shadow = append(r.pool.shadow, got...)
		for _, o := range got {
			if o == x.obj {
				x.released = true
			}
			r.checkShared(o)
		}
		if x.released || x.obj == nil {
			return
		}
		if !async {
			r.w.driftf("%d%s: returned, but its handshake object is not back in the pool", x.ep.sess, x.ep.side)
			return
		}
		if time.Now().After(deadline) {
			r.hang = fmt.Sprintf("worker-never-released-after-cancel:%s", x.ep.side)
			return
		}
		runtime.Gosched()
		time.Sleep(200 * time.Microsecond)
	}
}

// an object that is in the pool while a worker that has not returned it is still running would be
// handed to another connection: state shared across connections
func (r *runner) checkShared(o any) {
	for k, se := range r.sess {
		for _, y := range []*sideRun{se.o, se.i} {
			if y.started && !y.finished && y.obj == o {
				r.shared = append(r.shared, fmt.Sprintf("session %d side %s", k+1, y.ep.side))
			}
		}
	}
	n := 0
	for _, p := range r.pool.shadow {
		if p == o {
			n++
		}
	}
	if n > 1 {
		r.shared = append(r.shared, "twice in the pool")
	}
}
