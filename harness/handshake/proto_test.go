package hsverif

// proto_test.go : binding of spec/handshake/ProtoHandshake.tla (proto negotiation, same sync.Pool)
//
//   TestProtoReplay  behaviours emitted by TLC (ProtoMC) executed on OutgoingProtoHandshake /
//                    IncomingProtoHandshake through the gated pipe, pooled object chosen as the behaviour says
//   TestProtoReuse   consecutive negotiations on one goroutine, free running

import (
	"encoding/json"
	"fmt"
	"path/filepath"
	"runtime"
	"sync"
	"testing"
	"time"

	"verifharness/vfutil"
)

type pEnd struct {
	S       int    `json:"s"`
	Side    string `json:"side"`
	Verdict string `json:"verdict"`
	Res     struct {
		Pt   int     `json:"pt"`
		Encs encList `json:"encs"`
	} `json:"res"`
}

type pBehaviour struct {
	Kind    string      `json:"kind"`
	Resets  []string    `json:"resets"`
	Steps   []step      `json:"steps"`
	PSess   []psessDesc `json:"psess"`
	PEnds   []pEnd      `json:"pends"`
	PPooled []tlcPooled `json:"ppooled"`
	Origin  string      `json:"origin,omitempty"`
	Seed    int64       `json:"seed,omitempty"`
}

// frames / objects of ProtoHandshake.tla have no credential fields: give them the zero values the
// harness uses for those
func normObj(o *objT) {
	if o != nil && o.Ctype == "" {
		o.Ctype, o.Pay = "skip", noPay
	}
}
func normFrame(f *frameT) {
	if f != nil && f.Ctype == "" {
		f.Ctype, f.Pay = "skip", noPay
	}
}

func (fx *fixture) executeProto(rep *vfutil.Report, b pBehaviour, seed int64, conform bool) {
	fx.pool.absorb()
	fx.pool.shadow = nil
	for i := range b.Steps {
		normObj(b.Steps[i].O)
		normFrame(b.Steps[i].F)
	}
	r := newProtoRunner(fx.pb, fx.pool, b.PSess, seed)
	complete := true
	for _, st := range b.Steps {
		if !r.apply(st) {
			complete = false
			break
		}
		if r.hang != "" {
			break
		}
	}
	if r.hang == "" && !r.allDone() {
		if complete && conform {
			r.w.driftf("behaviour ended, but a worker is still running")
		}
		r.finish(false)
	}
	fx.pool.absorb()
	rep.AddSteps(len(r.steps))
	replay := pBehaviour{Kind: "proto", PSess: b.PSess, Steps: r.steps, Origin: b.Origin, Seed: seed, Resets: b.Resets}
	for _, f := range r.oracles() {
		rep.Violate(f.key, f.desc, replay)
	}
	if conform && r.hang == "" {
		for _, e := range b.PEnds {
			_, x := r.side(e.S, e.Side)
			if got := x.verdict(); got != e.Verdict {
				r.w.driftf("%d%s: verdict %s (%v), specification predicts %s", e.S, e.Side, got, x.err, e.Verdict)
			} else if got == "ok" {
				if int(x.pres.Proto) != e.Res.Pt || resEncs(x.pres) != e.Res.Encs {
					r.w.driftf("%d%s: result proto %d [%s], specification predicts %d [%s]", e.S, e.Side, x.pres.Proto, resEncs(x.pres), e.Res.Pt, e.Res.Encs)
				}
			}
		}
		var want []objT
		for _, p := range b.PPooled {
			o := p.O
			normObj(&o)
			for k := 0; k < p.N; k++ {
				want = append(want, o)
			}
		}
		if g, w := sortObjs(fx.pool.bag()), sortObjs(want); fmt.Sprint(g) != fmt.Sprint(w) {
			r.w.driftf("pool contents %v, specification predicts %v", g, w)
		}
	}
	if conform {
		for _, d := range r.w.drift {
			rep.DriftNote("%s [%s]", d, b.Origin)
		}
	} else {
		rep.AddExtra("probe_divergences", len(r.w.drift))
	}
	rep.Sample(map[string]any{"negotiations": b.PSess, "steps": len(r.steps), "verdicts": verdicts(r)})
}

func TestProtoReplay(t *testing.T) {
	rep := vfutil.NewReport("C14")
	defer func() { rep.Save(!t.Failed() || rep.NumViolations() > 0) }()
	protoReplayBody(t, rep, nil)
}

func protoReplayBody(t *testing.T, rep *vfutil.Report, env envMap) {
	fx := newFixture()
	fx.pool.begin()
	defer fx.pool.end()
	conform := env.get("VERIF_MODE") != "probe"
	var bs []pBehaviour
	if raw, ok := vfutil.ReplayFile(); ok {
		var b pBehaviour
		if err := json.Unmarshal(raw, &b); err != nil {
			t.Fatal(err)
		}
		bs, conform = []pBehaviour{b}, false
	} else {
		var err error
		dir := env.get("VERIF_BEHAVIOURS")
		if bs, err = vfutil.LoadJSONFiles[pBehaviour](dir); err != nil {
			t.Fatal(err)
		}
		for i := range bs {
			bs[i].Origin = filepath.Base(dir) + fmt.Sprintf("#%d", i)
		}
	}
	if len(bs) == 0 {
		t.Fatal("no behaviours")
	}
	if max := env.num("VERIF_SAMPLE", 0); max > 0 && len(bs) > max {
		// evenly spaced sample, rotated by the seed
		off := int(vfutil.Seed()) % len(bs)
		var sel []pBehaviour
		for i := 0; i < max; i++ {
			sel = append(sel, bs[(off+i*len(bs)/max)%len(bs)])
		}
		bs = sel
	}
	seed := vfutil.Seed()
	for i, b := range bs {
		s := seed*1000003 + int64(i)
		if b.Seed != 0 {
			s = b.Seed
		}
		key := fmt.Sprintf("%+v%v", b.PSess, b.Resets)
		for _, st := range b.Steps {
			if st.A != "Write" && st.A != "Recv" && (st.A != "Acquire" || !st.Fresh) {
				key += "|" + st.A + st.Side
				if st.F != nil {
					key += fmt.Sprintf("%s/%s/%d/%s", st.F.T, st.F.Sz, st.F.Pt, st.F.Encs)
				}
			}
		}
		rep.Case(key)
		rep.AddReplayed(1)
		cb := b
		cb.Seed = s
		crumb(cb)
		fx.executeProto(rep, b, s, conform)
	}
}

func (fx *fixture) runFreeProto(descs []psessDesc, seed int64, timeout time.Duration) (*runner, bool) {
	r := newProtoRunner(fx.pb, nil, descs, seed)
	logs := map[*sideRun]*rxLog{}
	var wg sync.WaitGroup
	for _, se := range r.sess {
		for _, x := range []*sideRun{se.o, se.i} {
			x.ep.free = true
			logs[x] = &rxLog{endpoint: x.ep}
		}
	}
	for _, se := range r.sess {
		for _, x := range []*sideRun{se.o, se.i} {
			se, x := se, x
			wg.Add(1)
			go func() {
				defer wg.Done()
				r.launchOn(se, x, logs[x])
				r.waitFinished(x)
			}()
		}
	}
	done := make(chan struct{})
	go func() { wg.Wait(); close(done) }()
	ok := true
	select {
	case <-done:
	case <-time.After(timeout):
		ok = false
	}
	for x, l := range logs {
		l.mu.Lock()
		// the one frame this end received
		if len(l.log) >= 5 {
			x.ep.lastSeen = &wireFrame{data: append([]byte{}, l.log...)}
		}
		l.mu.Unlock()
	}
	return r, ok
}

func TestProtoReuse(t *testing.T) {
	rep := vfutil.NewReport("C14")
	defer func() { rep.Save(!t.Failed() || rep.NumViolations() > 0) }()
	protoReuseBody(t, rep, nil)
}

func protoReuseBody(t *testing.T, rep *vfutil.Report, env envMap) {
	old := runtime.GOMAXPROCS(1)
	defer runtime.GOMAXPROCS(old)
	fx := newFixture()
	rnd := vfutil.Rand()
	crumb(map[string]any{"test": "TestProtoReuse", "seed": vfutil.Seed()})
	attempts := env.num("VERIF_ATTEMPTS", 20)
	in := func(sup ...int) pInCfg { return pInCfg{Allowed: []int{0}, First: 0, Supported: sup} }
	first := []psessDesc{{O: pOutCfg{Encs: "1,0"}, I: in(0, 1)}, {O: pOutCfg{Encs: "1"}, I: in(1)}}
	second := []psessDesc{{O: pOutCfg{Encs: ""}, I: in(0, 1)}, {O: pOutCfg{Encs: "0"}, I: in(0, 1)}, {O: pOutCfg{Encs: "0,1"}, I: in(1)}, {O: pOutCfg{Encs: ""}, I: in()}}
	for fi, f := range first {
		for si, s := range second {
			for a := 0; a < attempts; a++ {
				rep.Case(fmt.Sprintf("proto-first%d/second%d", fi, si))
				rep.AddReplayed(1)
				replay := map[string]any{"test": "TestProtoReuse", "first": f, "second": s, "seed": vfutil.Seed()}
				for _, d := range []psessDesc{f, s} {
					r, ok := fx.runFreeProto([]psessDesc{d}, rnd.Int63(), 60*time.Second)
					if !ok {
						rep.Violate("hang:proto-sequential", "a proto negotiation over a reliable pipe did not end", replay)
						continue
					}
					for _, fd := range r.oracles() {
						rep.Violate(fd.key, fd.desc+" (after a negotiation on the same pool)", replay)
					}
				}
			}
		}
	}
	rep.Sample(map[string]any{"first": first[0], "second": second[0], "attempts": attempts})
}
