// Package hsverif binds spec/handshake/Handshake.tla to the real credential handshake of
// any-sync (property C14): real secureservice instances (real keys, the real noVerifyChecker /
// peerSignVerifier) run HandshakeOutbound / HandshakeInbound over a harness pipe whose every
// conn call is released by a driver that follows a behaviour of the specification; the shared
// sync.Pool of handshake objects is controlled and observed (go:linkname + reflection), so a
// behaviour's choice "this side acquires that pooled object" is executed exactly.
//
// model_test.go : abstract frames / objects of the spec <-> bytes and real objects
package hsverif

import (
	"bytes"
	"context"
	"encoding/binary"
	"encoding/json"
	"errors"
	"fmt"
	"io"
	"reflect"
	"sort"
	"strconv"
	"strings"
	"sync"
	"unsafe"

	"github.com/anyproto/any-sync/accountservice"
	"github.com/anyproto/any-sync/app"
	"github.com/anyproto/any-sync/commonspace/object/accountdata"
	"github.com/anyproto/any-sync/net/peer"
	"github.com/anyproto/any-sync/net/secureservice"
	"github.com/anyproto/any-sync/net/secureservice/handshake"
	"github.com/anyproto/any-sync/net/secureservice/handshake/handshakeproto"
	"github.com/anyproto/any-sync/nodeconf"
	"github.com/anyproto/any-sync/testutil/accounttest"
	"github.com/anyproto/any-sync/util/crypto"
)

const badCV = "middle:v0.36.6"
const sizeLimit = 200 * 1024

// ---------------------------------------------------------------- abstract values (as in the spec)

type payT struct {
	K  string `json:"k"`
	Id string `json:"id"`
	A  string `json:"a"`
	B  string `json:"b"`
}

var noPay = payT{K: "none", Id: "-", A: "-", B: "-"}

type frameT struct {
	T     string `json:"t"`  // cred | ack | proto | junk
	Sz    string `json:"sz"` // ok | over | bad
	Ctype string `json:"ctype"`
	Pay   payT   `json:"pay"`
	Ver   int    `json:"ver"`
	Cver  string `json:"cver"`
	Err   int    `json:"err"`
	Tag   string `json:"tag"`
	// proto negotiation frames (ProtoHandshake.tla); absent in credential sessions
	Pt   int     `json:"pt,omitempty"`
	Encs encList `json:"encs,omitempty"`
}

// encList is a list of encodings kept as a comparable value ("1,0"); JSON form: array of numbers
type encList string

func encsOf(v []int) encList {
	parts := make([]string, len(v))
	for i, x := range v {
		parts[i] = strconv.Itoa(x)
	}
	return encList(strings.Join(parts, ","))
}
func (e encList) list() []int {
	if e == "" {
		return nil
	}
	var res []int
	for _, p := range strings.Split(string(e), ",") {
		n, _ := strconv.Atoi(p)
		res = append(res, n)
	}
	return res
}
func (e encList) MarshalJSON() ([]byte, error) {
	l := e.list()
	if l == nil {
		l = []int{}
	}
	return json.Marshal(l)
}
func (e *encList) UnmarshalJSON(b []byte) error {
	var l []int
	if err := json.Unmarshal(b, &l); err != nil {
		return err
	}
	*e = encsOf(l)
	return nil
}
func (e encList) eff() int { // the encoding a result stands for (none = 0)
	if l := e.list(); len(l) > 0 {
		return l[0]
	}
	return 0
}
func (e encList) has(x int) bool {
	for _, y := range e.list() {
		if x == y {
			return true
		}
	}
	return false
}

func ackF(err int) frameT {
	return frameT{T: "ack", Sz: "ok", Ctype: "skip", Pay: noPay, Err: err, Tag: "honest"}
}
func otherF(t string) frameT { f := ackF(0); f.T = t; return f }
func (f frameT) same(g frameT) bool {
	f.Tag, g.Tag = "", ""
	return f == g
}
func (f frameT) emptyPayload() bool {
	if f.Sz != "ok" {
		return false
	}
	return (f.T == "ack" && f.Err == 0) || (f.T == "cred" && f.Ctype == "skip" && f.Pay == noPay && f.Ver == 0 && f.Cver == "")
}

type objT struct {
	Ctype string `json:"ctype"`
	Pay   payT   `json:"pay"`
	Ver   int    `json:"ver"`
	Cver  string `json:"cver"`
	Ack   int    `json:"ack"`
	Pt    int     `json:"pt,omitempty"`
	Encs  encList `json:"encs,omitempty"`
}

var zeroObj = objT{Ctype: "skip", Pay: noPay}

type resT struct {
	Id   string `json:"id"`
	Ver  int    `json:"ver"`
	Cver string `json:"cver"`
}

var noRes = resT{Id: "-"}

type sideCfg struct {
	Ver  int    `json:"ver"`
	Acc  []int  `json:"acc"`
	Mode string `json:"mode"`
	Cver string `json:"cver"`
	Pid  string `json:"pid"`
	Id   string `json:"id"`
}

func (c sideCfg) accepts(v int) bool {
	for _, a := range c.Acc {
		if a == v {
			return true
		}
	}
	return false
}

type sessDesc struct {
	O sideCfg `json:"o"`
	I sideCfg `json:"i"`
}

func (d sessDesc) side(s string) sideCfg {
	if s == "O" {
		return d.O
	}
	return d.I
}

// ---------------------------------------------------------------- parties: real keys

type party struct {
	name   string // "A" -> pid "pA", id "iA"
	acc    *accountdata.AccountKeys
	idProt []byte // marshalled account public key (what the checker returns as identity)
}

type partyBook struct {
	mu     sync.Mutex
	byName map[string]*party
	payReg map[string]payT // payload bytes crafted by the harness -> abstract payload
}

func newPartyBook() *partyBook {
	return &partyBook{byName: map[string]*party{}, payReg: map[string]payT{}}
}

func (pb *partyBook) get(name string) *party {
	pb.mu.Lock()
	defer pb.mu.Unlock()
	if p, ok := pb.byName[name]; ok {
		return p
	}
	as := &accounttest.AccountTestService{}
	if err := as.Init(nil); err != nil {
		panic(err)
	}
	idp, err := as.Account().SignKey.GetPublic().Marshall()
	if err != nil {
		panic(err)
	}
	p := &party{name: name, acc: as.Account(), idProt: idp}
	pb.byName[name] = p
	return p
}

// pid "pA" / id "iA" -> party A
func (pb *partyBook) byPid(pid string) *party { return pb.get(pid[1:]) }
func (pb *partyBook) realPid(pid string) string {
	if pid == "garbled" || pid == "-" {
		return pid
	}
	return pb.byPid(pid).acc.PeerId
}
func (pb *partyBook) idName(identity []byte) string {
	if len(identity) == 0 {
		return "-"
	}
	pb.mu.Lock()
	defer pb.mu.Unlock()
	for n, p := range pb.byName {
		if bytes.Equal(p.idProt, identity) {
			return "i" + n
		}
	}
	return "i?"
}
func (pb *partyBook) names() []string {
	pb.mu.Lock()
	defer pb.mu.Unlock()
	var res []string
	for n := range pb.byName {
		res = append(res, n)
	}
	sort.Strings(res)
	return res
}

// ---------------------------------------------------------------- payload <-> abstract

// makePayload renders an abstract payload to bytes (the harness owns every key, so a
// "recorded" signature of a third party is simply computed).
func (pb *partyBook) makePayload(p payT) []byte {
	var out []byte
	switch p.K {
	case "none", "":
		return nil
	case "unparse":
		out = []byte{0x00, 0x01, 0x02} // illegal tag 0
	case "badkey":
		m := &handshakeproto.PayloadSignedPeerIds{Identity: []byte("not a key"), Sign: []byte("sig")}
		out, _ = m.MarshalVT()
	case "sig":
		signer := pb.byPid(p.Id)
		a := p.A
		if a == "garbled" {
			a = signer.acc.PeerId // sign something sensible, then damage the signature
		} else {
			a = pb.realPid(p.A)
		}
		sign, err := signer.acc.SignKey.Sign([]byte(a + pb.realPid(p.B)))
		if err != nil {
			panic(err)
		}
		if p.A == "garbled" {
			sign = append([]byte{}, sign...)
			sign[len(sign)/2] ^= 0x40
		}
		m := &handshakeproto.PayloadSignedPeerIds{Identity: signer.idProt, Sign: sign}
		out, _ = m.MarshalVT()
	default:
		panic("payload kind " + p.K)
	}
	pb.mu.Lock()
	pb.payReg[string(out)] = p
	pb.mu.Unlock()
	return out
}

// classifyPayload maps payload bytes (written by the real code or crafted here) to the
// abstract payload: whose identity, and which pair of peer ids the signature covers.
func (pb *partyBook) classifyPayload(b []byte) payT {
	if len(b) == 0 {
		return noPay
	}
	pb.mu.Lock()
	if p, ok := pb.payReg[string(b)]; ok {
		pb.mu.Unlock()
		return p
	}
	pb.mu.Unlock()
	m := &handshakeproto.PayloadSignedPeerIds{}
	if err := m.UnmarshalVT(b); err != nil {
		return payT{K: "unparse", Id: "-", A: "-", B: "-"}
	}
	pk, err := crypto.UnmarshalEd25519PublicKeyProto(m.Identity)
	if err != nil {
		return payT{K: "badkey", Id: "-", A: "-", B: "-"}
	}
	id := pb.idName(m.Identity)
	names := pb.names()
	for _, x := range names {
		for _, y := range names {
			msg := pb.get(x).acc.PeerId + pb.get(y).acc.PeerId
			if ok, _ := pk.Verify([]byte(msg), m.Sign); ok {
				return payT{K: "sig", Id: id, A: "p" + x, B: "p" + y}
			}
		}
	}
	return payT{K: "sig", Id: id, A: "garbled", B: "?"}
}

// ---------------------------------------------------------------- frames <-> bytes

const (
	tpCred  = 1
	tpAck   = 2
	tpProto = 3
)

func header(tp byte, size uint32) []byte {
	h := make([]byte, 5)
	h[0] = tp
	binary.LittleEndian.PutUint32(h[1:], size)
	return h
}

// encodeFrame renders an abstract frame. variant selects among equivalent byte-level
// realisations of a fault class (which junk type byte, how much oversize, which garbage).
func (pb *partyBook) encodeFrame(f frameT, variant int) []byte {
	var tp byte
	var payload []byte
	switch f.T {
	case "cred", "junk":
		tp = tpCred
		c := &handshakeproto.Credentials{Version: uint32(f.Ver), ClientVersion: f.Cver, Payload: pb.makePayload(f.Pay)}
		if f.Ctype == "signed" {
			c.Type = handshakeproto.CredentialsType_SignedPeerIds
		}
		payload, _ = c.MarshalVT()
	case "ack":
		tp = tpAck
		payload, _ = (&handshakeproto.Ack{Error: handshakeproto.Error(f.Err)}).MarshalVT()
	case "proto":
		tp = tpProto
		pm := &handshakeproto.Proto{Proto: handshakeproto.ProtoType(f.Pt)}
		for _, x := range f.Encs.list() {
			pm.Encodings = append(pm.Encodings, handshakeproto.Encoding(x))
		}
		payload, _ = pm.MarshalVT()
	default:
		panic("frame type " + f.T)
	}
	if f.T == "junk" {
		junk := []byte{0, 4, 9, 0x7f, 0xff, 0x80}
		tp = junk[variant%len(junk)]
		if f.Err != 0 {
			payload, _ = (&handshakeproto.Ack{Error: handshakeproto.Error(f.Err)}).MarshalVT()
		}
	}
	switch f.Sz {
	case "ok":
	case "bad":
		garbage := [][]byte{{0x00, 0x00}, {0x07, 0x01}, {0x00, 0xff, 0xff}, {0x0f, 0x01}}
		payload = garbage[variant%len(garbage)]
	case "over":
		extra := []uint32{1, 2, 1024, 1 << 20, 3 << 20} // modest: a reader without the limit must not exhaust memory here
		h := header(tp, sizeLimit+extra[variant%len(extra)])
		return append(h, payload...)
	}
	return append(header(tp, uint32(len(payload))), payload...)
}

// decodeFrame reads back what the real code wrote.
func (pb *partyBook) decodeFrame(b []byte) (frameT, error) {
	if len(b) < 5 {
		return frameT{}, fmt.Errorf("short frame %x", b)
	}
	size := binary.LittleEndian.Uint32(b[1:5])
	if int(size) != len(b)-5 {
		return frameT{}, fmt.Errorf("frame length field %d, payload %d bytes", size, len(b)-5)
	}
	pl := b[5:]
	switch b[0] {
	case tpCred:
		c := &handshakeproto.Credentials{}
		if err := c.UnmarshalVT(pl); err != nil {
			return frameT{}, err
		}
		f := frameT{T: "cred", Sz: "ok", Ctype: "skip", Pay: pb.classifyPayload(c.Payload), Ver: int(c.Version), Cver: c.ClientVersion, Tag: "honest"}
		if c.Type == handshakeproto.CredentialsType_SignedPeerIds {
			f.Ctype = "signed"
		}
		return f, nil
	case tpAck:
		a := &handshakeproto.Ack{}
		if err := a.UnmarshalVT(pl); err != nil {
			return frameT{}, err
		}
		return ackF(int(a.Error)), nil
	case tpProto:
		pm := &handshakeproto.Proto{}
		if err := pm.UnmarshalVT(pl); err != nil {
			return frameT{}, err
		}
		f := otherF("proto")
		f.Pt = int(pm.Proto)
		var l []int
		for _, x := range pm.Encodings {
			l = append(l, int(x))
		}
		f.Encs = encsOf(l)
		return f, nil
	}
	return otherF("junk"), nil
}

// ---------------------------------------------------------------- real services

type hsNodeConf struct {
	nodeconf.Service // only NodeTypes is used by secureservice
}

func (hsNodeConf) Init(a *app.App) error                        { return nil }
func (hsNodeConf) Name() string                                 { return nodeconf.CName }
func (hsNodeConf) Run(ctx context.Context) error                { return nil }
func (hsNodeConf) Close(ctx context.Context) error              { return nil }
func (hsNodeConf) NodeTypes(nodeId string) []nodeconf.NodeType  { return nil }

type hsConfig struct{ requireAuth bool }

func (c hsConfig) Init(a *app.App) error { return nil }
func (c hsConfig) Name() string          { return "config" }
func (c hsConfig) GetSecureService() secureservice.Config {
	return secureservice.Config{RequireClientAuth: c.requireAuth}
}

var _ accountservice.Service = (*accounttest.AccountTestService)(nil)

func unexported(v reflect.Value, name string) reflect.Value {
	f := v.FieldByName(name)
	if !f.IsValid() {
		panic("verif harness: field " + name + " not found in " + v.Type().String() + " (the code changed: adapt harness/handshake)")
	}
	return reflect.NewAt(f.Type(), unsafe.Pointer(f.UnsafeAddr())).Elem()
}

type svcKey struct {
	pid, mode, cver, acc string
	ver                  int
}

type svcCache struct {
	mu sync.Mutex
	m  map[svcKey]secureservice.SecureService
	pb *partyBook
}

// service returns a started real secureservice for one side configuration: own protocol
// version, accepted versions (set exactly like the repository's own test fixture does),
// client version, and verification mode of the inbound checker.
func (sc *svcCache) service(c sideCfg) secureservice.SecureService {
	k := svcKey{c.Pid, c.Mode, c.Cver, fmt.Sprint(c.Acc), c.Ver}
	sc.mu.Lock()
	defer sc.mu.Unlock()
	if s, ok := sc.m[k]; ok {
		return s
	}
	p := sc.pb.byPid(c.Pid)
	if "i"+p.name != c.Id {
		panic("configuration: identity " + c.Id + " does not belong to " + c.Pid)
	}
	svc := secureservice.New()
	sv := reflect.ValueOf(svc).Elem()
	// version 0 cannot be set before Init (0 means "default"): patched afterwards
	unexported(sv, "protoVersion").SetUint(uint64(c.Ver))
	acc := make([]uint32, len(c.Acc))
	for i, a := range c.Acc {
		acc[i] = uint32(a)
	}
	unexported(sv, "compatibleVersions").Set(reflect.ValueOf(acc))
	a := new(app.App)
	cv := c.Cver
	if cv == "" {
		cv = "placeholder"
	}
	a.SetVersionName(cv)
	a.Register(accounttest.NewWithAcc(p.acc)).Register(hsConfig{requireAuth: c.Mode == "verify"}).Register(hsNodeConf{}).Register(svc)
	if err := a.Start(context.Background()); err != nil {
		panic(err)
	}
	if c.Ver == 0 || c.Cver == "" {
		// the two checkers were built in Init from protoVersion / VersionName()
		nv := unexported(sv, "noVerifyChecker").Elem().Elem()
		cred := unexported(nv, "cred").Interface().(*handshakeproto.Credentials)
		cred.Version = uint32(c.Ver)
		cred.ClientVersion = c.Cver
		pv := unexported(sv, "peerSignVerifier").Elem().Elem()
		unexported(pv, "protoVersion").SetUint(uint64(c.Ver))
		unexported(pv, "clientVersion").SetString(c.Cver)
		unexported(sv, "protoVersion").SetUint(uint64(c.Ver))
	}
	if sc.m == nil {
		sc.m = map[svcKey]secureservice.SecureService{}
	}
	sc.m[k] = svc
	return svc
}

// ---------------------------------------------------------------- verdicts

var errPipeClosed = errors.New("verif pipe: closed")

func classify(err error) string {
	switch {
	case err == nil:
		return "ok"
	case errors.Is(err, context.Canceled), errors.Is(err, context.DeadlineExceeded):
		return "ctx"
	case err == error(handshake.ErrPeerDeclinedCredentials):
		return "declined"
	case err == handshake.ErrGotUnexpectedMessage:
		return "notHandshake"
	case err == error(handshake.ErrRemoteIncompatibleProto):
		return "remoteIncompat"
	case errors.Is(err, io.EOF), errors.Is(err, io.ErrUnexpectedEOF), errors.Is(err, errPipeClosed):
		return "io"
	}
	if he, ok := err.(handshake.HandshakeError); ok {
		if he.Err == nil {
			if code, ok := handshakeproto.Error_value[he.Error()]; ok {
				return fmt.Sprintf("he%d", code)
			}
		}
		return "he?:" + he.Error()
	}
	if len(err.Error()) >= 6 && err.Error()[:6] == "proto:" {
		return "unmarshal"
	}
	return "other:" + err.Error()
}

// ctxResult reads what the service attached to the returned context.
func (pb *partyBook) ctxResult(cctx context.Context) (res resT, peerId string, identity []byte) {
	res = noRes
	if cctx == nil {
		return
	}
	peerId, _ = peer.CtxPeerId(cctx)
	identity, _ = peer.CtxIdentity(cctx)
	v, _ := peer.CtxProtoVersion(cctx)
	res = resT{Id: pb.idName(identity), Ver: int(v), Cver: peer.CtxPeerClientVersion(cctx)}
	return
}

// ---------------------------------------------------------------- the pool

//go:linkname handshakePool github.com/anyproto/any-sync/net/secureservice/handshake.handshakePool
var handshakePool *sync.Pool

func (pb *partyBook) projectObj(o any) objT {
	v := reflect.ValueOf(o).Elem()
	cred := unexported(v, "remoteCred").Interface().(*handshakeproto.Credentials)
	ack := unexported(v, "remoteAck").Interface().(*handshakeproto.Ack)
	res := objT{Ctype: "skip", Pay: pb.classifyPayload(cred.Payload), Ver: int(cred.Version), Cver: cred.ClientVersion, Ack: int(ack.Error)}
	if cred.Type == handshakeproto.CredentialsType_SignedPeerIds {
		res.Ctype = "signed"
	}
	rp := unexported(v, "remoteProto").Interface().(*handshakeproto.Proto)
	res.Pt = int(rp.Proto)
	var l []int
	for _, x := range rp.Encodings {
		l = append(l, int(x))
	}
	res.Encs = encsOf(l)
	return res
}

// stripCred removes one field from a credentials frame (other frames pass unchanged)
func (pb *partyBook) stripCred(frame []byte, field string) []byte {
	if len(frame) < 5 || frame[0] != tpCred {
		return frame
	}
	c := &handshakeproto.Credentials{}
	if err := c.UnmarshalVT(frame[5:]); err != nil {
		return frame
	}
	switch field {
	case "ver":
		c.Version = 0
	case "cver":
		c.ClientVersion = ""
	case "pay":
		c.Payload = nil
	case "ctype":
		c.Type = 0
	case "all":
		c = &handshakeproto.Credentials{}
	}
	pl, _ := c.MarshalVT()
	return append(header(tpCred, uint32(len(pl))), pl...)
}
