package hsverif

// hs_test.go : the tests bin/check runs
//
//   TestReplay      behaviours emitted by TLC (HandshakeGen) executed step by step on the real code;
//                   property oracles on the real observations; predictions compared (drift)
//   TestRandom      random schedules / configurations / faults beyond the model-checked bounds; every
//                   run is logged (one event per spec action + observed post-state) for HandshakeTrace.tla
//   TestConcurrent  64 free-running handshakes at a time on the shared pool, distinct identities
//   TestReuse       consecutive connections on one goroutine: whatever a previous peer sent must not
//                   help the next one (no control over sync.Pool needed)

import (
	"encoding/binary"
	"encoding/json"
	"fmt"
	"os"
	"path/filepath"
	"runtime"
	"sort"
	"strconv"
	"sync"
	"testing"
	"time"

	"verifharness/vfutil"
)

type tlcEnd struct {
	S       int    `json:"s"`
	Side    string `json:"side"`
	Verdict string `json:"verdict"`
	Res     resT   `json:"res"`
}
type tlcPooled struct {
	O objT `json:"o"`
	N int  `json:"n"`
}
type tlcBehaviour struct {
	Sess   []sessDesc  `json:"sess"`
	Steps  []step      `json:"steps"`
	Ends   []tlcEnd    `json:"ends"`
	Pooled []tlcPooled `json:"pooled"`
	Origin string      `json:"origin,omitempty"`
	Seed   int64       `json:"seed,omitempty"`
	Resets []string    `json:"resets,omitempty"` // the model variant the behaviour comes from
}

// envMap: parameters of a test body; missing keys fall back to the process environment
type envMap map[string]string

func (e envMap) get(k string) string {
	if v, ok := e[k]; ok {
		return v
	}
	return os.Getenv(k)
}
func (e envMap) num(k string, def int) int {
	if v, ok := e[k]; ok {
		if n, err := strconv.Atoi(v); err == nil {
			return n
		}
		return def
	}
	return vfutil.EnvInt(k, def)
}

// TestAll runs the bodies named by the plan file $VERIF_PLAN (JSON list of {"test": name, "env": {...}}) in one
// process with one report: one build, one set of keys (bin/check uses it; the single tests remain for --replay)
func TestAll(t *testing.T) {
	rep := vfutil.NewReport("C14")
	defer func() { rep.Save(!t.Failed() || rep.NumViolations() > 0) }()
	raw, err := os.ReadFile(os.Getenv("VERIF_PLAN"))
	if err != nil {
		t.Fatal(err)
	}
	var plan []struct {
		Test string            `json:"test"`
		Env  map[string]string `json:"env"`
	}
	if err := json.Unmarshal(raw, &plan); err != nil {
		t.Fatal(err)
	}
	bodies := map[string]func(*testing.T, *vfutil.Report, envMap){
		"TestReplay": replayBody, "TestRandom": randomBody, "TestConcurrent": concurrentBody, "TestReuse": reuseBody,
		"TestProtoReplay": protoReplayBody, "TestProtoReuse": protoReuseBody,
	}
	for _, item := range plan {
		b, ok := bodies[item.Test]
		if !ok {
			t.Fatalf("unknown body %q", item.Test)
		}
		before := rep.Cases
		t0 := time.Now()
		b(t, rep, envMap(item.Env))
		if t.Failed() {
			return
		}
		name := item.Env["VERIF_NAME"]
		if name == "" {
			name = item.Test
		}
		rep.SetExtra("part:"+name, map[string]any{"cases": rep.Cases - before, "seconds": time.Since(t0).Seconds()})
	}
}

// crumb: what is being executed right now, for the orchestrator to report if the code under test
// brings the process down (a panic in the handshake's own worker goroutine cannot be recovered here)
func crumb(v any) {
	p := os.Getenv("VERIF_CRUMB")
	if p == "" {
		return
	}
	b, _ := json.Marshal(v)
	_ = os.WriteFile(p, b, 0o644)
}

type fixture struct {
	pb   *partyBook
	svcs *svcCache
	pool *poolCtl
}

func newFixture() *fixture {
	pb := newPartyBook()
	for _, n := range []string{"A", "B", "M", "Z"} {
		pb.get(n)
	}
	return &fixture{pb: pb, svcs: &svcCache{pb: pb}, pool: &poolCtl{pb: pb}}
}

func sortObjs(o []objT) []string {
	res := make([]string, len(o))
	for i, x := range o {
		res[i] = fmt.Sprintf("%+v", x)
	}
	sort.Strings(res)
	return res
}

// execute one behaviour; conform: compare with the specification's predictions (drift)
func (fx *fixture) execute(rep *vfutil.Report, b tlcBehaviour, seed int64, conform bool, tw *vfutil.TraceWriter) {
	fx.pool.absorb()
	fx.pool.shadow = nil // the specification starts from an empty pool
	// ... and from checkers without history: one secureservice instance per side configuration, created
	// for this behaviour and shared by all its sessions (the checker object is long-lived)
	fx.svcs = &svcCache{pb: fx.pb}
	r := newRunner(fx.pb, fx.svcs, fx.pool, b.Sess, seed)
	complete := true
	for _, st := range b.Steps {
		if !r.apply(st) {
			complete = false
			break
		}
		if r.hang != "" {
			break
		}
	}
	if r.hang == "" && !r.allDone() {
		if complete && conform {
			r.w.driftf("behaviour ended, but a worker is still running")
		}
		r.finish(false)
	}
	fx.pool.absorb()
	rep.AddSteps(len(r.steps))
	replay := tlcBehaviour{Sess: b.Sess, Steps: r.steps, Origin: b.Origin, Seed: seed}
	for _, f := range r.oracles() {
		rep.Violate(f.key, f.desc, replay)
	}
	if conform && r.hang == "" {
		for _, e := range b.Ends {
			_, x := r.side(e.S, e.Side)
			if got := x.verdict(); got != e.Verdict {
				r.w.driftf("%d%s: verdict %s (%v), specification predicts %s", e.S, e.Side, got, x.err, e.Verdict)
			} else if got == "ok" {
				if res, _, _ := fx.pb.ctxResult(x.cctx); res != e.Res {
					r.w.driftf("%d%s: result %+v, specification predicts %+v", e.S, e.Side, res, e.Res)
				}
			}
		}
		var want []objT
		for _, p := range b.Pooled {
			for k := 0; k < p.N; k++ {
				want = append(want, p.O)
			}
		}
		if g, w := sortObjs(fx.pool.bag()), sortObjs(want); fmt.Sprint(g) != fmt.Sprint(w) {
			r.w.driftf("pool contents %v, specification predicts %v", g, w)
		}
	}
	if conform {
		for _, d := range r.w.drift {
			rep.DriftNote("%s [%s]", d, b.Origin)
		}
	} else {
		// probe mode: the behaviour comes from a model of what the code must NOT do; diverging from it is expected
		rep.AddExtra("probe_divergences", len(r.w.drift))
	}
	if tw != nil {
		for _, ev := range r.trace {
			tw.Emit(ev)
		}
		rep.AddExtra("trace_events", len(r.trace))
	}
	rep.Sample(map[string]any{"sessions": b.Sess, "steps": len(r.steps), "verdicts": verdicts(r)})
}

func verdicts(r *runner) map[string]string {
	res := map[string]string{}
	for k, se := range r.sess {
		res[fmt.Sprintf("%dO", k+1)] = se.o.verdict()
		res[fmt.Sprintf("%dI", k+1)] = se.i.verdict()
	}
	return res
}

func caseKey(b tlcBehaviour) string {
	k := ""
	for _, d := range b.Sess {
		k += fmt.Sprintf("%d%v%s/%d%v%s;", d.O.Ver, d.O.Acc, d.O.Mode[:1], d.I.Ver, d.I.Acc, d.I.Mode[:1])
	}
	for _, st := range b.Steps {
		switch st.A {
		case "Replace", "Inject":
			k += fmt.Sprintf("%s%d%s:%s/%s/%s;", st.A, st.S, st.Side, st.F.T, st.F.Sz, st.F.Tag)
		case "Stall", "Kill", "Cancel", "Deadline":
			k += fmt.Sprintf("%s%d%s;", st.A, st.S, st.Side)
		case "Acquire":
			if !st.Fresh {
				k += "pooled;"
			}
		}
	}
	return k
}

func TestReplay(t *testing.T) {
	rep := vfutil.NewReport("C14")
	defer func() { rep.Save(!t.Failed() || rep.NumViolations() > 0) }()
	replayBody(t, rep, nil)
}

func replayBody(t *testing.T, rep *vfutil.Report, env envMap) {
	fx := newFixture()
	fx.pool.begin()
	defer fx.pool.end()
	var bs []tlcBehaviour
	conform := env.get("VERIF_MODE") != "probe"
	if raw, ok := vfutil.ReplayFile(); ok {
		var b tlcBehaviour
		if err := json.Unmarshal(raw, &b); err != nil {
			t.Fatal(err)
		}
		bs = []tlcBehaviour{b}
		conform = false
	} else {
		var err error
		dir := env.get("VERIF_BEHAVIOURS")
		bs, err = vfutil.LoadJSONFiles[tlcBehaviour](dir)
		if err != nil {
			t.Fatal(err)
		}
		for i := range bs {
			bs[i].Origin = filepath.Base(dir) + fmt.Sprintf("#%d", i)
		}
		if env.get("VERIF_DEDUP") != "" {
			// one behaviour per (configuration, adversary step with its complete frame): drops interleavings
			seen := map[string]bool{}
			var sel []tlcBehaviour
			for _, b := range bs {
				k := fmt.Sprintf("%+v%v", b.Sess, b.Resets)
				for idx, st := range b.Steps {
					if st.A == "Acquire" && !st.Fresh {
						k += fmt.Sprintf("|pooled%d%s%+v", st.S, st.Side, *st.O)
					}
					switch st.A {
					case "Replace", "Inject":
						k += fmt.Sprintf("|%s%d%s%+v", st.A, st.S, st.Side, *st.F)
					case "Stall", "Kill", "Cancel":
						k += fmt.Sprintf("|%s%d%s%d@%d", st.A, st.S, st.Side, st.Got, idx)
					}
				}
				if !seen[k] {
					seen[k] = true
					sel = append(sel, b)
				}
			}
			bs = sel
		}
		if max := env.num("VERIF_SAMPLE", 0); max > 0 && len(bs) > max {
			var sel []tlcBehaviour
			for i := 0; i < max; i++ {
				sel = append(sel, bs[i*len(bs)/max])
			}
			bs = sel
		}
	}
	if len(bs) == 0 {
		t.Fatal("no behaviours")
	}
	seed := vfutil.Seed()
	for i, b := range bs {
		s := seed*1000003 + int64(i)
		if b.Seed != 0 {
			s = b.Seed
		}
		rep.Case(caseKey(b))
		rep.AddReplayed(1)
		cb := b
		cb.Seed = s
		crumb(cb)
		fx.execute(rep, b, s, conform, nil)
	}
}

// ---------------------------------------------------------------- random gated runs

var accLists = [][]int{{1}, {0, 1}, {1, 2}, {0, 1, 2}, {2, 3}, {0}, {3}, {1, 2, 3}}

func randomSide(rnd interface{ Intn(int) int }, party string, honest bool) sideCfg {
	c := sideCfg{Ver: rnd.Intn(4), Acc: accLists[rnd.Intn(len(accLists))], Mode: []string{"skip", "verify"}[rnd.Intn(2)],
		Pid: "p" + party, Id: "i" + party, Cver: "cv" + party}
	switch rnd.Intn(8) {
	case 0:
		c.Cver = ""
	case 1:
		c.Cver = "x/" + badCV + "/y"
	}
	if honest || rnd.Intn(3) > 0 { // mostly compatible peers: the interesting paths need a successful start
		c.Ver, c.Acc = 1, []int{1}
		if rnd.Intn(3) == 0 {
			c.Acc = []int{0, 1, 2}
		}
	}
	return c
}

func TestRandom(t *testing.T) {
	rep := vfutil.NewReport("C14")
	defer func() { rep.Save(!t.Failed() || rep.NumViolations() > 0) }()
	randomBody(t, rep, nil)
}

func randomBody(t *testing.T, rep *vfutil.Report, env envMap) {
	fx := newFixture()
	fx.pool.begin()
	defer fx.pool.end()
	rnd := vfutil.Rand()
	path := env.get("VERIF_TRACE_OUT")
	if path == "" {
		path = filepath.Join(t.TempDir(), "trace.ndjson")
	}
	tw := vfutil.NewTraceWriter(path)
	defer tw.Close()
	runs := env.num("VERIF_RUNS", 100)
	for n := 0; n < runs; n++ {
		ns := 1 + rnd.Intn(3)
		var descs []sessDesc
		for k := 0; k < ns; k++ {
			out := []string{"A", "M"}[rnd.Intn(2)]
			descs = append(descs, sessDesc{O: randomSide(rnd, out, k == 0), I: randomSide(rnd, "B", k == 0)})
		}
		seed := rnd.Int63()
		crumb(map[string]any{"test": "TestRandom", "seed": vfutil.Seed(), "runs": n + 1})
		fx.pool.absorb()
		fx.pool.shadow = nil
		fx.svcs = &svcCache{pb: fx.pb} // checkers without history, shared by the sessions of this run
		r := newRunner(fx.pb, fx.svcs, fx.pool, descs, seed)
		opt := randOpts{concurrent: rnd.Intn(2) == 0, maxFaults: rnd.Intn(3), kinds: map[string]bool{}}
		for _, k := range []string{"replace", "inject", "stall", "kill", "cancel"} {
			opt.kinds[k] = rnd.Intn(4) > 0
		}
		r.randomRun(opt)
		if r.hang == "" && !(r.allDone() && r.allStarted()) {
			r.finish(true)
		}
		fx.pool.absorb()
		b := tlcBehaviour{Sess: descs, Steps: r.steps, Origin: fmt.Sprintf("random#%d", n), Seed: seed}
		rep.Case(caseKey(b))
		rep.AddReplayed(1)
		rep.AddSteps(len(r.steps))
		for _, f := range r.oracles() {
			rep.Violate(f.key, f.desc, b)
		}
		for _, d := range r.w.drift {
			rep.DriftNote("%s [random#%d]", d, n)
		}
		r.trace = append(r.trace, map[string]any{"ev": "End", "pool": fx.pool.bag()})
		for _, ev := range r.trace {
			tw.Emit(ev)
		}
		rep.AddExtra("trace_events", len(r.trace))
		if n < 2 {
			rep.Sample(map[string]any{"sessions": descs, "steps": len(r.steps), "verdicts": verdicts(r)})
		}
	}
}

// ---------------------------------------------------------------- free-running sessions

// parse the byte stream an endpoint received into frames; first credentials frame = what it consumed
func firstCred(stream []byte) *wireFrame {
	for len(stream) >= 5 {
		size := int(binary.LittleEndian.Uint32(stream[1:5]))
		if size > len(stream)-5 {
			return nil
		}
		if stream[0] == tpCred {
			return &wireFrame{data: stream[:5+size]}
		}
		stream = stream[5+size:]
	}
	return nil
}

type rxLog struct {
	*endpoint
	mu  sync.Mutex
	log []byte
}

func (l *rxLog) Read(b []byte) (int, error) {
	n, err := l.endpoint.Read(b)
	l.mu.Lock()
	l.log = append(l.log, b[:n]...)
	l.mu.Unlock()
	return n, err
}

// runFree executes sessions concurrently, every worker running freely (no gates)
func (fx *fixture) runFree(descs []sessDesc, seed int64, timeout time.Duration, rewriteO ...func([]byte) []byte) (*runner, bool) {
	r := newRunner(fx.pb, fx.svcs, nil, descs, seed)
	if len(rewriteO) > 0 {
		for _, se := range r.sess {
			se.o.ep.rewrite = rewriteO[0]
			se.tampered, se.faults = true, 1
		}
	}
	logs := map[*sideRun]*rxLog{}
	for _, se := range r.sess {
		for _, x := range []*sideRun{se.o, se.i} {
			x.ep.free = true
			x.svc = fx.svcs.service(x.cfg) // build services before the clock starts
			logs[x] = &rxLog{endpoint: x.ep}
		}
	}
	var wg sync.WaitGroup
	for _, se := range r.sess {
		for _, x := range []*sideRun{se.o, se.i} {
			se, x := se, x
			wg.Add(1)
			go func() {
				defer wg.Done()
				r.launchOn(se, x, logs[x])
				r.waitFinished(x)
			}()
		}
	}
	done := make(chan struct{})
	go func() { wg.Wait(); close(done) }()
	ok := true
	select {
	case <-done:
	case <-time.After(timeout):
		ok = false
	}
	for x, l := range logs {
		l.mu.Lock()
		x.ep.credSeen = firstCred(l.log)
		l.mu.Unlock()
	}
	return r, ok
}

func TestConcurrent(t *testing.T) {
	rep := vfutil.NewReport("C14")
	defer func() { rep.Save(!t.Failed() || rep.NumViolations() > 0) }()
	concurrentBody(t, rep, nil)
}

func concurrentBody(t *testing.T, rep *vfutil.Report, env envMap) {
	fx := newFixture()
	rnd := vfutil.Rand()
	const width = 64
	// distinct identities on both ends of every slot
	for k := 0; k < width; k++ {
		fx.pb.get(fmt.Sprintf("O%d", k))
		fx.pb.get(fmt.Sprintf("I%d", k))
	}
	rounds := env.num("VERIF_ROUNDS", 10)
	for n := 0; n < rounds; n++ {
		var descs []sessDesc
		for k := 0; k < width; k++ {
			o := sideCfg{Ver: 1, Acc: []int{1}, Mode: "verify", Cver: fmt.Sprintf("cvO%d", k), Pid: fmt.Sprintf("pO%d", k), Id: fmt.Sprintf("iO%d", k)}
			i := sideCfg{Ver: 1, Acc: []int{1}, Mode: "verify", Cver: fmt.Sprintf("cvI%d", k), Pid: fmt.Sprintf("pI%d", k), Id: fmt.Sprintf("iI%d", k)}
			switch rnd.Intn(6) {
			case 0: // a peer with the version proto3 does not transmit and without client version
				o.Ver, o.Acc, o.Cver = 0, []int{0, 1}, ""
			case 1:
				i.Ver, i.Acc = 2, []int{1, 2}
			case 2:
				o.Mode = "skip"
			case 3:
				o.Mode, i.Mode = "skip", "skip"
			}
			descs = append(descs, sessDesc{O: o, I: i})
		}
		crumb(map[string]any{"test": "TestConcurrent", "seed": vfutil.Seed(), "round": n})
		r, ok := fx.runFree(descs, rnd.Int63(), 120*time.Second)
		rep.AddReplayed(len(descs))
		replay := map[string]any{"test": "TestConcurrent", "round": n, "seed": vfutil.Seed()}
		if !ok {
			rep.Violate("hang:concurrent", "concurrent handshakes over a reliable pipe did not all end", replay)
			continue
		}
		for k, d := range descs {
			rep.Case(fmt.Sprintf("%d%v%s/%d%v%s", d.O.Ver, d.O.Acc, d.O.Mode, d.I.Ver, d.I.Acc, d.I.Mode))
			se := r.sess[k]
			// with a reliable stream and no fault the outcome is a function of the configuration
			wantOk := d.I.accepts(d.O.Ver) && d.O.accepts(d.I.Ver) && !(d.I.Mode == "verify" && d.O.Mode == "skip") && !(d.O.Mode == "verify" && d.I.Mode == "skip")
			if (se.o.err == nil) != wantOk || (se.i.err == nil) != wantOk {
				if se.o.err == nil || se.i.err == nil {
					// success where the configuration forbids it is caught by the oracles below; a failure
					// where success was possible is not a C14 violation
				}
				if wantOk {
					rep.DriftNote("concurrent slot %d: compatible peers failed: %v / %v", k, se.o.err, se.i.err)
				}
			}
		}
		for _, f := range r.oracles() {
			rep.Violate(f.key, f.desc, replay)
		}
		if n == 0 {
			rep.Sample(map[string]any{"concurrent_sessions": width, "verdicts_slot0": []string{r.sess[0].o.verdict(), r.sess[0].i.verdict()}})
		}
	}
	rep.SetExtra("concurrent_width", width)
}

// TestReuse: connections one after the other on one goroutine (sync.Pool then hands the object of
// the previous connection to the next one): a first connection from an ordinary peer, then
// connections whose credentials leave fields out.
func TestReuse(t *testing.T) {
	rep := vfutil.NewReport("C14")
	defer func() { rep.Save(!t.Failed() || rep.NumViolations() > 0) }()
	reuseBody(t, rep, nil)
}

func reuseBody(t *testing.T, rep *vfutil.Report, env envMap) {
	old := runtime.GOMAXPROCS(1)
	defer runtime.GOMAXPROCS(old)
	fx := newFixture()
	rnd := vfutil.Rand()
	attempts := env.num("VERIF_ATTEMPTS", 30)
	crumb(map[string]any{"test": "TestReuse", "seed": vfutil.Seed()})
	first := []sessDesc{
		{O: sideCfg{Ver: 1, Acc: []int{1}, Mode: "skip", Cver: "cvA", Pid: "pA", Id: "iA"}, I: sideCfg{Ver: 1, Acc: []int{1}, Mode: "skip", Cver: "cvB", Pid: "pB", Id: "iB"}},
		{O: sideCfg{Ver: 1, Acc: []int{1}, Mode: "verify", Cver: "cvA", Pid: "pA", Id: "iA"}, I: sideCfg{Ver: 1, Acc: []int{1}, Mode: "verify", Cver: "cvB", Pid: "pB", Id: "iB"}},
	}
	second := []sessDesc{
		// version 0 and no client version from another peer, then from the same peer
		{O: sideCfg{Ver: 0, Acc: []int{0, 1}, Mode: "skip", Cver: "", Pid: "pM", Id: "iM"}, I: sideCfg{Ver: 1, Acc: []int{1}, Mode: "skip", Cver: "cvB", Pid: "pB", Id: "iB"}},
		{O: sideCfg{Ver: 0, Acc: []int{0, 1}, Mode: "verify", Cver: "", Pid: "pA", Id: "iA"}, I: sideCfg{Ver: 1, Acc: []int{1}, Mode: "verify", Cver: "cvB", Pid: "pB", Id: "iB"}},
		{O: sideCfg{Ver: 1, Acc: []int{1}, Mode: "skip", Cver: "", Pid: "pM", Id: "iM"}, I: sideCfg{Ver: 1, Acc: []int{1}, Mode: "skip", Cver: "cvB", Pid: "pB", Id: "iB"}},
		// the responder is the one that sends version 0
		{O: sideCfg{Ver: 1, Acc: []int{1}, Mode: "skip", Cver: "cvA", Pid: "pA", Id: "iA"}, I: sideCfg{Ver: 0, Acc: []int{0, 1}, Mode: "skip", Cver: "", Pid: "pB", Id: "iB"}},
	}
	for fi, f := range first {
		for si, s := range second {
			for a := 0; a < attempts; a++ {
				key := fmt.Sprintf("first%d/second%d", fi, si)
				rep.Case(key)
				rep.AddReplayed(1)
				replay := map[string]any{"test": "TestReuse", "first": f, "second": s}
				for _, d := range []sessDesc{f, s} {
					r, ok := fx.runFree([]sessDesc{d}, rnd.Int63(), 60*time.Second)
					if !ok {
						rep.Violate("hang:sequential", "a handshake over a reliable pipe did not end", replay)
						continue
					}
					for _, fd := range r.oracles() {
						rep.Violate(fd.key, fd.desc+" (after a connection from an ordinary peer)", replay)
					}
				}
			}
		}
	}
	// the same, the second connection's credentials losing one field on the way (zero values are not
	// transmitted): whatever the previous connection left in the object must not fill the gap
	same := first[1]
	other := same
	other.O.Pid, other.O.Id, other.O.Cver = "pM", "iM", "cvM"
	for _, field := range []string{"ver", "cver", "pay", "ctype", "all"} {
		for si, s := range []sessDesc{same, other, first[0]} {
			for a := 0; a < attempts; a++ {
				rep.Case(fmt.Sprintf("strip-%s/second%d", field, si))
				rep.AddReplayed(1)
				replay := map[string]any{"test": "TestReuse", "first": first[1], "second": s, "strip": field}
				if r, ok := fx.runFree([]sessDesc{first[1]}, rnd.Int63(), 60*time.Second); ok {
					for _, fd := range r.oracles() {
						rep.Violate(fd.key, fd.desc, replay)
					}
				}
				r, ok := fx.runFree([]sessDesc{s}, rnd.Int63(), 60*time.Second, func(b []byte) []byte { return fx.pb.stripCred(b, field) })
				if !ok {
					rep.Violate("hang:sequential", "a handshake over a reliable pipe did not end", replay)
					continue
				}
				for _, fd := range r.oracles() {
					rep.Violate(fd.key, fd.desc+fmt.Sprintf(" (credentials without %s, after a connection from an ordinary peer)", field), replay)
				}
			}
		}
	}
	rep.Sample(map[string]any{"first": first[0], "second": second[0], "attempts": attempts})
}
