package hsverif

// driver_test.go : one primitive per action of Handshake.tla, the post-state projection that
// is logged for trace validation, the property oracles, replay of a behaviour and the random driver

import (
	"bytes"
	"encoding/binary"
	"fmt"
	"strings"
	"time"

	"github.com/anyproto/any-sync/net/secureservice/handshake/handshakeproto"
	"github.com/anyproto/any-sync/util/crypto"
)

type step struct {
	A       string  `json:"a"`
	S       int     `json:"s"`
	Side    string  `json:"side"`
	Fresh   bool    `json:"fresh,omitempty"`
	O       *objT   `json:"o,omitempty"`
	F       *frameT `json:"f,omitempty"`
	Ok      *bool   `json:"ok,omitempty"`
	Q       int     `json:"q,omitempty"`
	Got     int     `json:"got,omitempty"`
	Variant int     `json:"variant,omitempty"`
}

type postT struct {
	Pc      string `json:"pc"`
	Obj     objT   `json:"obj"`
	Closed  bool   `json:"closed"`
	Verdict string `json:"verdict"`
	Res     resT   `json:"res"`
}

func (r *runner) side(s int, side string) (*session, *sideRun) {
	se := r.sess[s-1]
	return se, se.side(side)
}

func (r *runner) pcOf(x *sideRun) string {
	switch {
	case !x.started:
		return "idle"
	case x.finished:
		return "done"
	case x.ep.proto && x.ep.parked == "R":
		if x.ep.side == "O" {
			return "rmsg"
		}
		return "rproto"
	case x.ep.proto && x.ep.parked == "W":
		return "w"
	case x.ep.parked == "R":
		if x.ep.popped == 0 {
			if x.ep.side == "O" {
				return "rmsg"
			}
			return "rcred"
		}
		return "rack"
	case x.ep.parked == "W":
		f, err := r.pb.decodeFrame(x.ep.pend)
		if err != nil {
			return "w?"
		}
		if f.T == "cred" {
			return "wcred"
		}
		if f.Err == 0 {
			return "wack"
		}
		return "ewack"
	}
	return "running"
}

func (r *runner) post(x *sideRun) postT {
	r.w.mu.Lock()
	defer r.w.mu.Unlock()
	p := postT{Pc: r.pcOf(x), Obj: zeroObj, Closed: x.ep.closed, Verdict: x.verdict(), Res: noRes}
	if x.started && !x.finished && x.obj != nil {
		p.Obj = r.pb.projectObj(x.obj)
	}
	if x.finished && x.err == nil && x.panicked == nil && !x.ep.proto {
		p.Res, _, _ = r.pb.ctxResult(x.cctx)
	}
	return p
}

func (r *runner) emit(st step, x *sideRun, extra map[string]any) {
	r.steps = append(r.steps, st)
	ev := map[string]any{"ev": st.A, "s": st.S, "side": st.Side}
	if st.O != nil {
		ev["o"] = *st.O
		ev["fresh"] = st.Fresh
	}
	if st.F != nil {
		ev["f"] = *st.F
	}
	if st.Ok != nil {
		ev["ok"] = *st.Ok
	}
	if st.A == "Recv" {
		ev["q"] = st.Q
	}
	if st.A == "Stall" {
		ev["got"] = st.Got
	}
	if st.A == "Replace" || st.A == "Inject" {
		ev["variant"] = st.Variant
	}
	if x != nil {
		ev["post"] = r.post(x)
	}
	for k, v := range extra {
		ev[k] = v
	}
	r.trace = append(r.trace, ev)
}

func (r *runner) waitFinished(x *sideRun) bool {
	w := r.w
	deadline := time.Now().Add(watchdog)
	t := time.AfterFunc(watchdog+time.Second, func() {
		w.mu.Lock()
		w.cond.Broadcast()
		w.mu.Unlock()
	})
	defer t.Stop()
	w.mu.Lock()
	defer w.mu.Unlock()
	for !x.finished {
		if time.Now().After(deadline) {
			return false
		}
		w.cond.Wait()
	}
	return true
}

func (r *runner) settled(x *sideRun, where string) bool {
	if r.settle(x) {
		return true
	}
	r.hang = fmt.Sprintf("no-progress-after-%s:%s", where, x.ep.side)
	r.w.mu.Lock()
	r.w.hung = true
	r.w.cond.Broadcast()
	r.w.mu.Unlock()
	return false
}

// ---------------------------------------------------------------- system actions

func (r *runner) mayStart(s int, concurrent bool) bool {
	if concurrent {
		return true
	}
	for k := 0; k < s-1; k++ {
		if !r.sess[k].o.finished || !r.sess[k].i.finished {
			return false
		}
	}
	return true
}

func (r *runner) doAcquire(s int, side string, fresh bool, want *objT) bool {
	_, x := r.side(s, side)
	if x.started {
		r.w.driftf("Acquire(%d%s): already started", s, side)
		return false
	}
	pc := r.pool
	var chosen any
	if pc != nil {
		for _, o := range pc.drain() {
			pc.shadow = append(pc.shadow, o)
			r.checkShared(o)
		}
		if !fresh && want != nil {
			for k, o := range pc.shadow {
				if r.pb.projectObj(o) == *want {
					chosen = o
					pc.shadow = append(pc.shadow[:k], pc.shadow[k+1:]...)
					break
				}
			}
			if chosen == nil && len(pc.shadow) > 0 {
				// the specification predicts other contents: take the object released last (drift), so
				// that what the code really left in it is exercised
				r.w.driftf("Acquire(%d%s): no pooled object with contents %+v (pool %+v)", s, side, *want, pc.bag())
				chosen = pc.shadow[len(pc.shadow)-1]
				pc.shadow = pc.shadow[:len(pc.shadow)-1]
			}
			if chosen != nil {
				handshakePool.Put(chosen)
			}
		}
		pc.lastNew = nil
	}
	r.launch(r.sess[s-1], x)
	if !r.settled(x, "start") {
		return false
	}
	if pc != nil {
		left := pc.drain()
		took := chosen != nil
		for _, o := range left {
			if o == chosen {
				took = false
			}
			pc.shadow = append(pc.shadow, o)
		}
		if took {
			x.obj = chosen
		} else {
			x.obj = pc.lastNew
			if chosen != nil {
				r.w.driftf("Acquire(%d%s): the pooled object was not picked up by sync.Pool.Get", s, side)
			}
		}
		if x.obj == nil {
			r.w.driftf("Acquire(%d%s): cannot tell which object the worker holds", s, side)
		}
	}
	st := step{A: "Acquire", S: s, Side: side, Fresh: chosen == nil || x.obj != chosen}
	o := zeroObj
	if x.obj != nil {
		o = r.pb.projectObj(x.obj)
	}
	st.O = &o
	r.collect(x, false)
	r.emit(st, x, nil)
	return true
}

func (r *runner) doWrite(s int, side string, want *frameT, wantOk *bool) bool {
	_, x := r.side(s, side)
	r.w.mu.Lock()
	if x.finished || x.ep.parked != "W" {
		r.w.mu.Unlock()
		r.w.driftf("Write(%d%s): the worker is not at a write (%s)", s, side, r.pcOf(x))
		return false
	}
	f, err := r.pb.decodeFrame(x.ep.pend)
	if err != nil {
		r.w.mu.Unlock()
		r.w.driftf("Write(%d%s): the worker writes something that is not a frame: %v", s, side, err)
		return false
	}
	alive := x.ep.aliveW()
	nIn := len(x.ep.peerEnd.inflight)
	x.ep.parked = ""
	x.ep.grant++
	r.w.cond.Broadcast()
	r.w.mu.Unlock()
	if !r.settled(x, "write") {
		return false
	}
	r.w.mu.Lock()
	if alive && len(x.ep.peerEnd.inflight) == nIn+1 {
		x.ep.peerEnd.inflight[nIn].abs = f
		if f.T == "cred" {
			known := false
			for _, g := range r.recorded {
				known = known || g == f
			}
			if !known {
				r.recorded = append(r.recorded, f)
			}
		}
	} else if alive {
		r.w.driftf("Write(%d%s): frame did not enter the channel", s, side)
	}
	r.w.mu.Unlock()
	if want != nil && !want.same(f) {
		r.w.driftf("Write(%d%s): wrote %+v, specification expects %+v", s, side, f, *want)
	}
	if wantOk != nil && *wantOk != alive {
		r.w.driftf("Write(%d%s): ok=%v, specification expects %v", s, side, alive, *wantOk)
	}
	r.collect(x, false)
	r.emit(step{A: "Write", S: s, Side: side, F: &f, Ok: &alive}, x, nil)
	return true
}

// peerIndependent: the peer of x no longer depends on x (PeerIndependent of the specification): it has read
// everything it reads, or x is the initiator waiting for the last ack (its own ack is already on the wire)
func peerIndependent(se *session, x *sideRun) bool {
	peer := se.o
	if x == se.o {
		peer = se.i
	}
	if x.ep.proto {
		return x.ep.side == "O" // the responder decides on the one frame it reads
	}
	if peer.finished || (peer.ep.side == "I" && peer.ep.popped >= 2) {
		return true
	}
	return x.ep.side == "O" && x.ep.popped >= 1
}

func typeAllowed(x *sideRun, tp byte) bool {
	if x.ep.proto {
		if x.ep.side == "O" {
			return tp == tpProto || tp == tpAck
		}
		return tp == tpProto
	}
	if x.ep.popped == 0 {
		if x.ep.side == "O" {
			return tp == tpCred || tp == tpAck
		}
		return tp == tpCred
	}
	return tp == tpAck
}

// bytes of the head frame the reader needs before it is done with it
func needed(x *sideRun, fr *wireFrame) (full int, hdrOk bool) {
	size := binary.LittleEndian.Uint32(fr.data[1:5])
	hdrOk = typeAllowed(x, fr.data[0]) && size <= sizeLimit
	if !hdrOk || len(fr.data) == 5 {
		return 5, hdrOk
	}
	return len(fr.data), hdrOk
}

// delivery points that are still ahead (as Points(e, f) of the specification)
func (r *runner) points(x *sideRun) []int {
	fr := x.ep.inflight[0]
	full, _ := needed(x, fr)
	var res []int
	if fr.delivered < 1 {
		res = append(res, 1)
	}
	if fr.delivered < 5 {
		res = append(res, 2)
	}
	if full > 5 {
		if fr.delivered <= 5 && full-5 >= 2 {
			res = append(res, 3)
		}
		res = append(res, 4)
	}
	return res
}

func (r *runner) doRecv(s int, side string, q int, want *frameT) bool {
	se, x := r.side(s, side)
	r.w.mu.Lock()
	ep := x.ep
	if x.finished || ep.parked != "R" || len(ep.inflight) == 0 || ep.stalled || *ep.killed || ep.closed {
		r.w.mu.Unlock()
		r.w.driftf("Recv(%d%s,%d): not possible here (%s, %d frames in flight)", s, side, q, r.pcOf(x), len(ep.inflight))
		return false
	}
	fr := ep.inflight[0]
	full, hdrOk := needed(x, fr)
	target := 0
	switch q {
	case 1:
		if fr.delivered >= 4 {
			r.w.mu.Unlock()
			r.w.driftf("Recv(%d%s,1): header already delivered", s, side)
			return false
		}
		target = fr.delivered + 1 + r.rnd.Intn(4-fr.delivered)
	case 2:
		target = 5
	case 3:
		lo := fr.delivered + 1
		if lo < 6 {
			lo = 6
		}
		if full-1 < lo {
			target = full
		} else {
			target = lo + r.rnd.Intn(full-lo)
		}
	default:
		target = full
	}
	if target > full {
		target = full
	}
	if target <= fr.delivered {
		r.w.mu.Unlock()
		r.w.driftf("Recv(%d%s,%d): nothing left to deliver", s, side, q)
		return false
	}
	abs := fr.abs
	ep.inbox = append(ep.inbox, fr.data[fr.delivered:target]...)
	fr.delivered = target
	if target >= 5 && (!hdrOk || abs.Sz == "bad") {
		kind := "malformed"
		switch {
		case abs.Sz == "over":
			kind = "oversize"
		case abs.Sz == "bad":
			kind = "garbage-payload"
		case abs.T == "junk":
			kind = "garbage-type"
		case !hdrOk:
			kind = "out-of-order"
		}
		if ep.consumedCorrupt == "" {
			ep.corruptPeerIndep = peerIndependent(se, x)
		}
		ep.consumedCorrupt = kind
	}
	if target >= full {
		ep.inflight = ep.inflight[1:]
		ep.popped++
		if hdrOk && fr.data[0] == tpCred {
			ep.credSeen = fr
		}
		if hdrOk && abs.Sz != "bad" {
			ep.lastSeen = fr
		}
	}
	ep.parked = ""
	r.w.cond.Broadcast()
	r.w.mu.Unlock()
	if want != nil && !want.same(abs) {
		r.w.driftf("Recv(%d%s): frame in flight %+v, specification expects %+v", s, side, abs, *want)
	}
	if !r.settled(x, "recv") {
		return false
	}
	r.collect(x, false)
	r.emit(step{A: "Recv", S: s, Side: side, Q: q, F: &abs}, x, map[string]any{"popped": target >= full})
	return true
}

func (r *runner) readDeadCond(x *sideRun) bool {
	ep := x.ep
	return x.started && !x.finished && ep.parked == "R" && !ep.closed &&
		(*ep.killed || (ep.peerEnd.closed && (len(ep.inflight) == 0 || ep.stalled)))
}

func (r *runner) doReadDead(s int, side string) bool {
	_, x := r.side(s, side)
	r.w.mu.Lock()
	if !r.readDeadCond(x) {
		r.w.mu.Unlock()
		r.w.driftf("ReadDead(%d%s): the connection is not dead for this reader", s, side)
		return false
	}
	x.ep.parked = ""
	x.ep.grant++
	r.w.cond.Broadcast()
	r.w.mu.Unlock()
	if !r.settled(x, "eof") {
		return false
	}
	r.collect(x, false)
	r.emit(step{A: "ReadDead", S: s, Side: side}, x, nil)
	return true
}

// Deadline / Cancel: the caller's context ends
func (r *runner) doCancel(name string, s int, side string) bool {
	se, x := r.side(s, side)
	if !x.started || x.finished {
		r.w.driftf("%s(%d%s): not running", name, s, side)
		return false
	}
	if name == "Cancel" {
		se.faults++
	}
	x.cancel()
	if !r.waitFinished(x) {
		r.hang = "call-does-not-return-after-context-end:" + side
		return false
	}
	r.collect(x, true)
	r.emit(step{A: name, S: s, Side: side}, x, nil)
	return true
}

// ---------------------------------------------------------------- adversary actions

func (r *runner) doReplace(s int, side string, f frameT, variant int) bool {
	se, x := r.side(s, side)
	r.w.mu.Lock()
	ep := x.ep
	if len(ep.inflight) == 0 || ep.inflight[0].delivered > 0 {
		r.w.mu.Unlock()
		r.w.driftf("Replace(%d%s): no untouched frame in flight", s, side)
		return false
	}
	ep.inflight[0] = &wireFrame{data: r.pb.encodeFrame(f, variant), abs: f}
	se.tampered, se.faults = true, se.faults+1
	r.w.mu.Unlock()
	r.emit(step{A: "Replace", S: s, Side: side, F: &f, Variant: variant}, x, nil)
	return true
}

func (r *runner) doInject(s int, side string, f frameT, variant int) bool {
	se, x := r.side(s, side)
	r.w.mu.Lock()
	ep := x.ep
	if len(ep.inflight) != 0 || ep.parked != "R" {
		r.w.mu.Unlock()
		r.w.driftf("Inject(%d%s): reader not waiting on an empty channel", s, side)
		return false
	}
	ep.inflight = append(ep.inflight, &wireFrame{data: r.pb.encodeFrame(f, variant), abs: f})
	se.tampered, se.faults = true, se.faults+1
	r.w.mu.Unlock()
	r.emit(step{A: "Inject", S: s, Side: side, F: &f, Variant: variant}, x, nil)
	return true
}

func gotOf(fr *wireFrame, x *sideRun) int {
	full, _ := needed(x, fr)
	switch {
	case fr.delivered == 0:
		return 0
	case fr.delivered < 5:
		return 1
	case fr.delivered == 5 && full > 5:
		return 2
	}
	return 3
}

func (r *runner) doStall(s int, side string) bool {
	se, x := r.side(s, side)
	r.w.mu.Lock()
	ep := x.ep
	if len(ep.inflight) == 0 || ep.stalled {
		r.w.mu.Unlock()
		r.w.driftf("Stall(%d%s): nothing in flight", s, side)
		return false
	}
	ep.stalled = true
	got := gotOf(ep.inflight[0], x)
	if got > 0 {
		if ep.consumedCorrupt == "" {
			ep.corruptPeerIndep = peerIndependent(se, x)
		}
		ep.consumedCorrupt = "truncated"
	}
	se.faults++
	r.w.mu.Unlock()
	r.emit(step{A: "Stall", S: s, Side: side, Got: got}, x, nil)
	return true
}

func (r *runner) doKill(s int) bool {
	se := r.sess[s-1]
	r.w.mu.Lock()
	se.killed = true
	se.faults++
	r.w.cond.Broadcast()
	r.w.mu.Unlock()
	r.emit(step{A: "Kill", S: s, Side: "-"}, nil, nil)
	return true
}

// ---------------------------------------------------------------- behaviours

type behaviour struct {
	Sess    []sessDesc          `json:"sess"`
	Steps   []step              `json:"steps"`
	Verdict map[string]string   `json:"verdict,omitempty"` // "1O" -> verdict predicted by the specification
	Res     map[string]resT     `json:"res,omitempty"`
	Pooled  []objT              `json:"pooled,omitempty"`
	Origin  string              `json:"origin,omitempty"`
	Seed    int64               `json:"seed,omitempty"`
}

func (r *runner) apply(st step) bool {
	switch st.A {
	case "Acquire":
		return r.doAcquire(st.S, st.Side, st.Fresh, st.O)
	case "Write":
		return r.doWrite(st.S, st.Side, st.F, st.Ok)
	case "Recv":
		return r.doRecv(st.S, st.Side, st.Q, st.F)
	case "ReadDead":
		return r.doReadDead(st.S, st.Side)
	case "Deadline", "Cancel":
		return r.doCancel(st.A, st.S, st.Side)
	case "Replace":
		return r.doReplace(st.S, st.Side, *st.F, st.Variant)
	case "Inject":
		return r.doInject(st.S, st.Side, *st.F, st.Variant)
	case "Stall":
		return r.doStall(st.S, st.Side)
	case "Kill":
		return r.doKill(st.S)
	}
	r.w.driftf("unknown action %q", st.A)
	return false
}

func (r *runner) allDone() bool {
	for _, se := range r.sess {
		for _, x := range []*sideRun{se.o, se.i} {
			if x.started && !x.finished {
				return false
			}
		}
	}
	return true
}

// finish: complete whatever is still running without adding faults (system actions only)
func (r *runner) finish(startAll bool) {
	for guard := 0; guard < 200 && r.hang == ""; guard++ {
		progressed := false
		for k, se := range r.sess {
			for _, side := range []string{"O", "I"} {
				x := se.side(side)
				if !x.started {
					if startAll {
						progressed = r.doAcquire(k+1, side, true, nil) || progressed
					}
					continue
				}
				if x.finished {
					continue
				}
				r.w.mu.Lock()
				parked := x.ep.parked
				canRecv := parked == "R" && len(x.ep.inflight) > 0 && !x.ep.stalled && !*x.ep.killed && !x.ep.closed
				dead := r.readDeadCond(x)
				r.w.mu.Unlock()
				switch {
				case parked == "W":
					progressed = r.doWrite(k+1, side, nil, nil) || progressed
				case canRecv:
					pts := r.points(x)
					progressed = r.doRecv(k+1, side, pts[len(pts)-1], nil) || progressed
				case dead:
					progressed = r.doReadDead(k+1, side) || progressed
				}
			}
		}
		if r.allDone() && (!startAll || r.allStarted()) {
			return
		}
		if !progressed {
			// stuck: the deadline of one stuck reader fires
			fired := false
			for k, se := range r.sess {
				for _, side := range []string{"O", "I"} {
					x := se.side(side)
					if x.started && !x.finished && !fired {
						fired = r.doCancel("Deadline", k+1, side)
					}
				}
			}
			if !fired {
				return
			}
		}
	}
}

func (r *runner) allStarted() bool {
	for _, se := range r.sess {
		if !se.o.started || !se.i.started {
			return false
		}
	}
	return true
}

// ---------------------------------------------------------------- property oracles (on real observations)

type finding struct{ key, desc string }

func (r *runner) oracles() []finding {
	var res []finding
	add := func(k, f string, a ...any) { res = append(res, finding{k, fmt.Sprintf(f, a...)}) }
	if r.hang != "" {
		add("hang:"+r.hang, "a handshake call or its worker does not end (%s)", r.hang)
	}
	if len(r.shared) > 0 {
		add("pool-object-shared", "a handshake object was put back into the pool while still in use (%v): the next connection shares its state", r.shared)
	}
	for k, se := range r.sess {
		for _, side := range []string{"O", "I"} {
			x := se.side(side)
			if !x.started {
				continue
			}
			who := fmt.Sprintf("session %d side %s (%s, version %d, accepts %v, %s)", k+1, side, x.cfg.Pid, x.cfg.Ver, x.cfg.Acc, x.cfg.Mode)
			if x.panicked != nil {
				add("panic:"+side, "%s panicked: %v", who, x.panicked)
				continue
			}
			if !x.finished || x.err != nil {
				continue
			}
			if x.ep.proto {
				res = append(res, r.protoSound(se, x, fmt.Sprintf("negotiation %d side %s", k+1, side))...)
				if c := x.ep.consumedCorrupt; c != "" {
					add("proto-fault-success:"+c, "negotiation %d side %s succeeded although it consumed a %s frame", k+1, side, c)
				}
				continue
			}
			// ---- success: must be justified by the credentials this side consumed from the wire
			res = append(res, r.successSound(se, x, who)...)
			if c := x.ep.consumedCorrupt; c != "" {
				add("fault-success:"+c, "%s succeeded although it consumed a %s frame", who, c)
			}
		}
		// a malformed / truncated frame must end in an error on BOTH sides, unless the other side no longer
		// depended on the end that consumed it; judged when that frame is the only fault of the session
		for _, pair := range [][2]*sideRun{{se.o, se.i}, {se.i, se.o}} {
			x, peer := pair[0], pair[1]
			if c := x.ep.consumedCorrupt; c != "" && !x.ep.corruptPeerIndep && se.faults == 1 &&
				peer.started && peer.finished && peer.err == nil && peer.panicked == nil {
				add("fault-success-peer:"+c, "session %d: side %s consumed a %s frame and failed (%v), yet side %s reports success",
					k+1, x.ep.side, c, x.err, peer.ep.side)
			}
		}
		if se.faults == 0 && se.o.finished && se.i.finished && se.o.panicked == nil && se.i.panicked == nil {
			if (se.o.err == nil) != (se.i.err == nil) {
				add("agreement", "session %d without faults: initiator %v, responder %v", k+1, se.o.err, se.i.err)
			} else if se.o.ep.proto && se.o.err == nil && se.o.pres != nil && se.i.pres != nil {
				oe, ie := resEncs(se.o.pres), resEncs(se.i.pres)
				if oe.eff() != ie.eff() || se.o.pres.Proto != se.i.pres.Proto {
					add("proto-agreement", "negotiation %d without faults: initiator got proto %v encodings [%s], responder proto %v encodings [%s]",
						k+1, se.o.pres.Proto, oe, se.i.pres.Proto, ie)
				}
			}
		}
	}
	return res
}

func (r *runner) successSound(se *session, x *sideRun, who string) (res []finding) {
	add := func(k, f string, a ...any) { res = append(res, finding{"success-unsound:" + k, who + ": " + fmt.Sprintf(f, a...)}) }
	got, ctxPeer, ctxIdentity := r.pb.ctxResult(x.cctx)
	remote := r.pb.byPid(x.peerCfg.Pid)
	own := r.pb.byPid(x.cfg.Pid)
	if ctxPeer != remote.acc.PeerId {
		add("ctx-peer-id", "context carries peer id %q, the connection's remote peer is %q", ctxPeer, remote.acc.PeerId)
	}
	fr := x.ep.credSeen
	if fr == nil {
		add("no-credentials", "succeeded without having read a credentials frame")
		return
	}
	c := &handshakeproto.Credentials{}
	if err := c.UnmarshalVT(fr.data[5:]); err != nil {
		add("unparsable-credentials", "succeeded on credentials that do not parse: %v", err)
		return
	}
	wv := int(c.Version)
	if !x.cfg.accepts(wv) {
		k := "version-not-accepted"
		if wv == 0 {
			k += ":version-absent-on-wire"
		}
		add(k, "the peer's credentials carry version %d, accepted list is %v; the caller was told version %d, client %q",
			wv, x.cfg.Acc, got.Ver, got.Cver)
	}
	if got.Ver != wv {
		add("ctx-proto-version", "context says protocol version %d, the wire says %d", got.Ver, wv)
	}
	if got.Cver != c.ClientVersion {
		add("ctx-client-version", "context says client version %q, the wire says %q", got.Cver, c.ClientVersion)
	}
	if strings.Contains(c.ClientVersion, badCV) {
		add("banned-client-version", "client version %q is refused by the checkers", c.ClientVersion)
	}
	if x.cfg.Mode == "verify" {
		if c.Type != handshakeproto.CredentialsType_SignedPeerIds {
			add("unsigned-credentials", "verification required, credentials type on the wire is %v", c.Type)
		}
		m := &handshakeproto.PayloadSignedPeerIds{}
		var okSig bool
		if err := m.UnmarshalVT(c.Payload); err == nil {
			if pk, err := crypto.UnmarshalEd25519PublicKeyProto(m.Identity); err == nil {
				okSig, _ = pk.Verify([]byte(remote.acc.PeerId+own.acc.PeerId), m.Sign)
			}
		}
		if !okSig {
			add("signature-endpoints", "verification required, but the payload on the wire (%+v) is not a signature over <remote peer id, own peer id>",
				r.pb.classifyPayload(c.Payload))
		}
		if !bytes.Equal(ctxIdentity, m.Identity) || len(ctxIdentity) == 0 {
			add("identity-mismatch", "context identity %s is not the identity presented on the wire %s", r.pb.idName(ctxIdentity), r.pb.idName(m.Identity))
		}
		if !se.tampered && !bytes.Equal(ctxIdentity, remote.idProt) {
			add("crosstalk-identity", "untampered connection: context identity %s, the peer's identity is i%s", r.pb.idName(ctxIdentity), remote.name)
		}
	} else if len(ctxIdentity) != 0 {
		add("identity-without-verification", "no verification required, yet the context carries identity %s", r.pb.idName(ctxIdentity))
	}
	if !se.tampered {
		if !x.cfg.accepts(x.peerCfg.Ver) || !x.peerCfg.accepts(x.cfg.Ver) {
			add("mutual-version-gating", "untampered connection succeeded: own version %d / accepts %v, peer version %d / accepts %v",
				x.cfg.Ver, x.cfg.Acc, x.peerCfg.Ver, x.peerCfg.Acc)
		}
	}
	return
}

// ---------------------------------------------------------------- random driver

func ptr[T any](v T) *T { return &v }

func credOf(me, pr sideCfg) frameT {
	f := frameT{T: "cred", Sz: "ok", Ctype: "skip", Pay: noPay, Ver: me.Ver, Cver: me.Cver, Tag: "honest"}
	if me.Mode == "verify" {
		f.Ctype = "signed"
		f.Pay = payT{K: "sig", Id: me.Id, A: me.Pid, B: pr.Pid}
	}
	return f
}

func tagged(f frameT, t string) frameT { f.Tag = t; return f }

// replacements mirrors Replacements(e, f) of the specification (me = reader, pr = its peer)
func replacements(me, pr sideCfg, f frameT) []frameT {
	var res []frameT
	g := f
	g.T = "junk"
	res = append(res, tagged(g, "corrupt"))
	g = f
	g.Sz = "over"
	res = append(res, tagged(g, "corrupt"))
	g = f
	g.Sz = "bad"
	res = append(res, tagged(g, "corrupt"))
	res = append(res, tagged(otherF("proto"), "corrupt"))
	if f.T == "cred" {
		res = append(res, tagged(ackF(0), "corrupt"), tagged(ackF(2), "corrupt"))
		for _, p := range []payT{
			{K: "sig", Id: pr.Id, A: pr.Pid, B: "pZ"}, {K: "sig", Id: "iZ", A: "pZ", B: me.Pid},
			{K: "sig", Id: me.Id, A: me.Pid, B: pr.Pid}, {K: "sig", Id: pr.Id, A: "garbled", B: me.Pid},
			{K: "unparse", Id: "-", A: "-", B: "-"}, {K: "badkey", Id: "-", A: "-", B: "-"}} {
			g = f
			g.Ctype, g.Pay = "signed", p
			res = append(res, tagged(g, "replay"))
		}
		strip := func(mod func(*frameT)) {
			g := f
			mod(&g)
			if g != f {
				res = append(res, tagged(g, "strip"))
			}
		}
		strip(func(g *frameT) { g.Ver = 0 })
		strip(func(g *frameT) { g.Cver = "" })
		strip(func(g *frameT) { g.Pay = noPay })
		strip(func(g *frameT) { g.Ctype = "skip" })
		strip(func(g *frameT) { g.Ver, g.Cver, g.Pay, g.Ctype = 0, "", noPay, "skip" })
	} else {
		res = append(res, tagged(credOf(pr, me), "corrupt"))
		e := 0
		if f.Err == 0 {
			e = 6
		}
		res = append(res, tagged(ackF(e), "forge"))
	}
	// the specification's set has no duplicates
	var uniq []frameT
	for _, a := range res {
		dup := false
		for _, b := range uniq {
			dup = dup || a == b
		}
		if !dup {
			uniq = append(uniq, a)
		}
	}
	return uniq
}

func injections(me, pr sideCfg) []frameT {
	over := ackF(0)
	over.Sz = "over"
	return []frameT{tagged(otherF("junk"), "corrupt"), tagged(otherF("proto"), "corrupt"), tagged(ackF(0), "forge"),
		tagged(ackF(2), "forge"), tagged(credOf(pr, me), "forge"), tagged(over, "corrupt")}
}

type randOpts struct {
	concurrent bool
	maxFaults  int
	kinds      map[string]bool
}

// randomRun drives the sessions with a random schedule of enabled actions
func (r *runner) randomRun(opt randOpts) {
	faults := 0
	for guard := 0; guard < 400 && r.hang == ""; guard++ {
		type act struct {
			w  int
			do func() bool
		}
		var acts []act
		for k, se := range r.sess {
			k, se := k, se
			anyRunning := false
			stuck := true
			for _, side := range []string{"O", "I"} {
				side := side
				x := se.side(side)
				if !x.started {
					if r.mayStart(k+1, opt.concurrent) {
						stuck = false
						acts = append(acts, act{3, func() bool { return r.doAcquire(k+1, side, true, nil) }})
						if r.pool != nil {
							r.pool.absorb()
							for _, o := range r.pool.bag() {
								o := o
								acts = append(acts, act{3, func() bool { return r.doAcquire(k+1, side, false, &o) }})
							}
						}
					}
					continue
				}
				if x.finished {
					continue
				}
				anyRunning = true
				r.w.mu.Lock()
				ep := x.ep
				parked := ep.parked
				canRecv := parked == "R" && len(ep.inflight) > 0 && !ep.stalled && !se.killed && !ep.closed
				dead := r.readDeadCond(x)
				var pts []int
				var head *wireFrame
				if len(ep.inflight) > 0 {
					head = ep.inflight[0]
				}
				if canRecv {
					pts = r.points(x)
				}
				r.w.mu.Unlock()
				if parked == "W" {
					stuck = false
					acts = append(acts, act{6, func() bool { return r.doWrite(k+1, side, nil, nil) }})
				}
				for _, q := range pts {
					q := q
					stuck = false
					wgt := 2
					if q == 4 || (q == 2 && len(pts) <= 2) {
						wgt = 6
					}
					acts = append(acts, act{wgt, func() bool { return r.doRecv(k+1, side, q, nil) }})
				}
				if dead {
					stuck = false
					acts = append(acts, act{6, func() bool { return r.doReadDead(k+1, side) }})
				}
				if faults < opt.maxFaults {
					if opt.kinds["cancel"] {
						acts = append(acts, act{1, func() bool { faults++; return r.doCancel("Cancel", k+1, side) }})
					}
					if opt.kinds["stall"] && head != nil && !ep.stalled && !se.killed {
						acts = append(acts, act{1, func() bool { faults++; return r.doStall(k+1, side) }})
					}
					if opt.kinds["replace"] && head != nil && head.delivered == 0 && !ep.stalled && head.abs.Tag == "honest" {
						for _, f := range replacements(x.cfg, x.peerCfg, head.abs) {
							f := f
							acts = append(acts, act{1, func() bool { faults++; return r.doReplace(k+1, side, f, r.rnd.Intn(64)) }})
						}
						if head.abs.T == "cred" { // a credentials frame observed earlier, replayed as it was
							for _, g := range r.recorded {
								if g != head.abs {
									g := tagged(g, "recorded")
									acts = append(acts, act{4, func() bool { faults++; return r.doReplace(k+1, side, g, 0) }})
								}
							}
						}
					}
					if opt.kinds["inject"] && parked == "R" && head == nil && !se.killed {
						for _, f := range injections(x.cfg, x.peerCfg) {
							f := f
							acts = append(acts, act{1, func() bool { faults++; return r.doInject(k+1, side, f, r.rnd.Intn(64)) }})
						}
					}
				}
			}
			if anyRunning && faults < opt.maxFaults && opt.kinds["kill"] && !se.killed {
				acts = append(acts, act{1, func() bool { faults++; return r.doKill(k + 1) }})
			}
			if anyRunning && stuck {
				for _, side := range []string{"O", "I"} {
					side := side
					x := se.side(side)
					if x.started && !x.finished {
						acts = append(acts, act{8, func() bool { return r.doCancel("Deadline", k+1, side) }})
					}
				}
			}
		}
		if len(acts) == 0 {
			return
		}
		total := 0
		for _, a := range acts {
			total += a.w
		}
		n := r.rnd.Intn(total)
		for _, a := range acts {
			if n < a.w {
				if !a.do() {
					r.finish(true)
					return
				}
				break
			}
			n -= a.w
		}
	}
}

func resEncs(p *handshakeproto.Proto) encList {
	var l []int
	for _, x := range p.Encodings {
		l = append(l, int(x))
	}
	return encsOf(l)
}

// protoSound: a successful proto negotiation is justified by the frame this end consumed from the wire
func (r *runner) protoSound(se *session, x *sideRun, who string) (res []finding) {
	add := func(k, f string, a ...any) { res = append(res, finding{"proto-unsound:" + k, who + ": " + fmt.Sprintf(f, a...)}) }
	if x.pres == nil {
		add("no-result", "succeeded without a result")
		return
	}
	got := resEncs(x.pres)
	fr := x.ep.lastSeen
	if fr == nil {
		add("no-frame", "succeeded without having read a frame")
		return
	}
	wf, err := r.pb.decodeFrame(fr.data)
	if err != nil {
		add("unparsable-frame", "succeeded on a frame that does not parse: %v", err)
		return
	}
	contains := func(l []int, v int) bool {
		for _, y := range l {
			if y == v {
				return true
			}
		}
		return false
	}
	if x.ep.side == "I" {
		if wf.T != "proto" {
			add("responder-no-proto", "the responder succeeded on a %s frame", wf.T)
			return
		}
		if !contains(x.pin.Allowed, wf.Pt) || int(x.pres.Proto) != wf.Pt {
			add("responder-proto-type", "wire proto %d, allowed %v, result %d", wf.Pt, x.pin.Allowed, x.pres.Proto)
		}
		if e := got.eff(); e != 0 && (!wf.Encs.has(e) || !contains(x.pin.Supported, e)) {
			add("responder-encoding", "chose encoding %d; on the wire [%s], supported %v", e, wf.Encs, x.pin.Supported)
		}
		if wf.Encs == "" && got != "" {
			add("responder-old-client", "the initiator sent no encodings (old client), the responder reports [%s]", got)
		}
	} else {
		switch wf.T {
		case "ack":
			if wf.Err != 0 || int(x.pres.Proto) != x.pout.Pt || got != "0" {
				add("initiator-ack", "ack %d on the wire, result proto %d encodings [%s]", wf.Err, x.pres.Proto, got)
			}
		case "proto":
			if int(x.pres.Proto) != wf.Pt || got != wf.Encs {
				add("initiator-proto", "the responder's frame says proto %d encodings [%s], the initiator reports proto %d encodings [%s]", wf.Pt, wf.Encs, x.pres.Proto, got)
			}
		default:
			add("initiator-frame", "the initiator succeeded on a %s frame", wf.T)
		}
	}
	if !se.tampered {
		if e := got.eff(); e != 0 && (!x.pout.Encs.has(e) || !contains(x.pin.Supported, e)) {
			add("mutual-choice", "untampered: encoding %d agreed, offered [%s], supported %v", e, x.pout.Encs, x.pin.Supported)
		}
	}
	return
}
