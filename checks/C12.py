"""C12 - key-value store: last-writer-wins convergence and authentic entries only.

spec/kv/KeyValue.tla (cast and configurations: KeyValueMC.tla):
  1. exhaustive TLC: LWW core, authenticity (every mutation class), local Sets, all with sync exchanges
     split at their critical sections and storage faults; invariants LWW, IndexMatchesStore,
     AuthenticOnly, OneExchangeEqualises, action property Monotone;
  2. spec -> code: behaviours generated from KeyValueGen.tla (-simulate) are executed on real
     key-value services (keyvalue.New over any-store behind a fault proxy, real ACL, real dual
     signatures), one call per spec action, oracles evaluated after every step (harness/kv TestReplay);
  3. code -> spec: random runs on three real stores are recorded and validated by KeyValueTrace.tla
     (every invariant on every recorded state; unexplained steps are adopted and counted as drift);
  4. thorough: the "as-is" configurations must still let TLC find each repaired gap (the spec keeps
     distinguishing the unrepaired behaviour), large stores / multi-batch pulls on real stores."""
import os
import re

LEVEL = "model_checking"


def broken(msg):
    from vf import CheckBroken
    return CheckBroken(msg)


def run(ctx):
    thorough = ctx.tier == "thorough"
    if ctx.replay:
        import json
        obj = json.load(open(ctx.replay)).get("replay") or {}
        steps = obj.get("steps") or []
        if steps and steps[0].get("act") == "Large":
            # a violation of the size tests: re-run them with the recorded size and seed
            m = re.match(r"slots=(\d+) seed=(\d+)", steps[0].get("s", ""))
            env = {"VERIF_LARGE_SLOTS": m.group(1), "VERIF_SEED": m.group(2)} if m else {}
            ctx.go_test("./kv", run="TestLarge$", env=env, timeout=2400)
        else:
            ctx.go_test("./kv", run="TestReplay$", timeout=600)
        return
    skip_mc = bool(os.environ.get("VERIF_KV_SKIP_MC"))  # development aid (mutant runs): harness parts only
    if skip_mc:
        ctx.notes.append("exhaustive TLC runs skipped (VERIF_KV_SKIP_MC)")

    # 1. the design, exhaustively - as parallel TLC jobs that run while the harness parts (2-4) proceed
    bg = Jobs(ctx)
    if not skip_mc:
        big = max(2, min(ctx.cores - 4, 12))
        if thorough:
            bg.start(expect_ok, "KeyValueMC", "KeyValue_mc_lww_t.cfg", workers=big, timeout=9000, name="mc-lww")
            bg.start(expect_ok, "KeyValueMC", "KeyValue_mc_local_t.cfg", workers=4, timeout=9000, name="mc-local")
            bg.start(expect_ok, "KeyValueMC", "KeyValue_mc_auth_t.cfg", workers=4, timeout=6000, name="mc-auth")
        else:
            # (quick: the small LWW universe, faults at commit only in mc-auth, local Sets in mc-xauth)
            bg.start(expect_ok, "KeyValueMC", "KeyValue_mc_lww.cfg", workers=max(2, min(ctx.cores // 2, 6)), timeout=6000, name="mc-lww")
            bg.start(expect_ok, "KeyValueMC", "KeyValue_mc_auth.cfg", workers=max(2, min(ctx.cores // 3, 5)), timeout=6000, name="mc-auth")
        # every action of the spec is taken in this one (coverage: a never-taken action fails the run as vacuous)
        bg.start(expect_ok, "KeyValueMC", "KeyValue_mc_xauth.cfg", workers=2, coverage=True, timeout=6000, name="mc-xauth")
        if thorough:
            bg.start(rest_of_thorough)

    try:
        # 2. spec -> code
        emit = os.path.join(ctx.scratch, "emit")
        os.makedirs(emit)
        # _q: 2 stores with different ACL knowledge, the whole cast; _f: small universe, late faults (rollback paths);
        # _t: 3 stores (one a reader that holds r3). TLC's simulator emits every successor of the last step,
        # so a trace yields several behaviours that share a prefix.
        gens = [("KeyValueGen_q.cfg", 30 if not thorough else 150), ("KeyValueGen_f.cfg", 12 if not thorough else 80),
                ("KeyValueGen_t.cfg", 0 if not thorough else 120)]
        def collect(tag, sub):
            # every TLC run numbers its files from 1: move them under a distinct prefix
            for f in sorted(os.listdir(sub)):
                os.rename(os.path.join(sub, f), os.path.join(emit, "%s_%s" % (tag, f)))

        fg = Jobs(ctx)

        def gen(tag, cfg, num, seed):
            sub = os.path.join(ctx.scratch, "emit-" + tag)
            os.makedirs(sub)
            # num = None: exhaustive (every 2-step history of pushes, batches <= 2 over 3 timestamps of one slot, with
            # and without a failing commit - the undo of a failed multi-upsert write needs such short specific histories)
            res = ctx.tlc("kv", "KeyValueGen", cfg, workers=1, simulate=num, depth=40 if num else None, seed=seed, deadlock=False,
                          env={"VERIF_EMIT_DIR": sub}, timeout=2400, count=False, name="gen-" + cfg)
            if res.timed_out or res.error:
                raise broken("behaviour generation failed (%s %s)\n%s" % (res.error, res.error_name, res.out[-3000:]))
            collect(tag, sub)

        for i, (cfg, num) in enumerate(gens):
            if num:
                fg.start(gen, "g%d" % i, cfg, num, ctx.seed * 10 + i)
        fg.start(gen, "x", "KeyValueGen_x.cfg", None, None)
        fg.join()
        n = len(os.listdir(emit))
        if n == 0:
            raise broken("no behaviours emitted")
        ctx.cov["behaviours_generated"] = n
        ctx.go_test("./kv", run="TestReplay$", env={"VERIF_BEHAVIOURS": emit, "VERIF_MAX_BEHAVIOURS": 8000 if thorough else 900},
                    timeout=2400, name="replay")

        # 3. code -> spec
        trace = os.path.join(ctx.scratch, "kv-trace.ndjson")
        rep = ctx.go_test("./kv", run="TestRecord$", env={"VERIF_TRACE_OUT": trace, "VERIF_RUNS": 150 if thorough else 25,
                                                          "VERIF_STEPS": 40 if thorough else 30}, timeout=2400, name="record")
        ctx.cov["trace_events_validated"] = rep["extra"].get("trace_events", 0)
        validate_trace(ctx, trace)

        # 4b. large stores, multi-batch pulls, many receivers
        if thorough:
            ctx.go_test("./kv", run="TestLarge$", timeout=2400, name="large")
        else:
            ctx.go_test("./kv", run="TestLarge$", env={"VERIF_LARGE_SLOTS": 150}, timeout=900, name="large")

    except BaseException:
        # do not leave the background TLC jobs running when the harness part ends the check early
        import subprocess
        subprocess.run(["pkill", "-f", ctx.scratch], check=False)
        drop_placeholders(ctx)
        raise
    try:
        bg.join()
    finally:
        drop_placeholders(ctx)

    ctx.assume("timestamps per slot are distinct among the values a store may hold (the property's premise); "
               "equal timestamps keep the first arrival")
    ctx.assume("ACL knowledge of a store is fixed during a run; the ACL history is the fixed cast of KeyValueMC.tla")
    ctx.assume("one sync exchange at a time per pair of stores; ldiff's range protocol is taken as exact for the "
               "small indexes used here (C07/C08 cover it)")


class Jobs:
    """Parallel ctx.tlc jobs. ctx.tlc names its scratch copy after len(ctx.cov['tlc_runs']) when it starts, so every
    start is preceded by a placeholder entry (removed at join) and a short pause - no two jobs get the same name."""

    def __init__(self, ctx):
        self.ctx, self.threads, self.errors, self.ph = ctx, [], [], []

    def start(self, fn, *a, **kw):
        import threading
        import time
        ph = {"name": "(starting)", "placeholder": True}
        self.ph.append(ph)
        self.ctx.cov["tlc_runs"].append(ph)

        def body():
            try:
                fn(self.ctx, *a, **kw) if fn in (expect_ok, rest_of_thorough) else fn(*a, **kw)
            except BaseException as ex:  # noqa
                self.errors.append(ex)

        t = threading.Thread(target=body, daemon=True)
        t.start()
        self.threads.append(t)
        time.sleep(1.0)

    def join(self):
        # (placeholders stay until drop_placeholders at the end of the check: removing them earlier would let a
        # later run reuse the name of an earlier scratch copy)
        for t in self.threads:
            t.join()
        self.threads = []
        if self.errors:
            raise self.errors[0]


def drop_placeholders(ctx):
    ctx.cov["tlc_runs"][:] = [r for r in ctx.cov["tlc_runs"] if not r.get("placeholder")]


_count_lock = __import__("threading").Lock()


def expect_ok(ctx, module, cfg, **kw):
    res = ctx.tlc_expect_ok("kv", module, cfg, count=False, **kw)
    with _count_lock:
        ctx.cov["states"] += res.distinct
        ctx.cov["transitions"] += res.generated
    return res


def rest_of_thorough(ctx):
    # the spec must keep telling the unrepaired behaviours apart (cheap: TLC stops at the first violation)
    for cfg, inv in (("label", "AuthenticOnly"), ("perm", "AuthenticOnly"), ("ts", "OneExchangeEqualises"),
                     ("rollback", "IndexMatchesStore")):
        res = ctx.tlc("kv", "KeyValueMC", "KeyValue_asis_%s.cfg" % cfg, timeout=1800, workers=2, count=False, name="asis-" + cfg)
        if res.timed_out or res.error != "invariant" or res.error_name != inv:
            raise broken("as-is configuration %s: expected TLC to find a violation of %s, got %s %s\n%s" % (
                cfg, inv, res.error, res.error_name, res.out[-2000:]))
    # side lemma (nothing depends on it): the LWW summary is a semilattice merge
    ctx.tlc_expect_ok("kv", "KVMerge", "KVMerge.cfg", workers=1, timeout=900, count=False, name="lemma-semilattice-tlc")
    apalache_lemma(ctx)


def apalache_lemma(ctx):
    """KVMergeApa.tla with Apalache (symbolic, all maps); an unavailable / failing tool is only noted."""
    import shutil
    import subprocess
    from vf import VERIF
    if not shutil.which("apalache-mc"):
        ctx.notes.append("apalache-mc not found: semilattice lemma checked by TLC only")
        return
    wd = os.path.join(ctx.scratch, "apalache")
    os.makedirs(wd)
    shutil.copy(os.path.join(VERIF, "spec", "kv", "KVMergeApa.tla"), wd)
    try:
        p = subprocess.run(["apalache-mc", "check", "--length=0", "--inv=Laws", "--out-dir=" + os.path.join(wd, "out"),
                            "KVMergeApa.tla"], cwd=wd, stdout=subprocess.PIPE, stderr=subprocess.STDOUT, text=True, timeout=900)
        ok = p.returncode == 0 and "NoError" in p.stdout
        ctx.notes.append("apalache: semilattice laws of the LWW merge: %s" % ("NoError" if ok else "not established (exit %d)" % p.returncode))
        ctx.log("apalache lemma:", "NoError" if ok else p.stdout[-400:])
    except Exception as ex:  # noqa
        ctx.notes.append("apalache run failed: %s" % ex)


def validate_trace(ctx, trace):
    tv = ctx.tlc("kv", "KeyValueTrace", "KeyValueTrace.cfg", workers=1, env={"VERIF_TRACE": trace},
                 timeout=2400, count=False, name="trace-validation")
    m = None
    for m in re.finditer(r'"DRIFT-TOTAL", (\d+)', tv.out):
        pass
    drift = int(m.group(1)) if m else 0
    if drift == 0:
        drift = len(re.findall(r'"DRIFT-AT-LINE"', tv.out))
    ctx.cov["drift"] += drift
    ctx.cov["trace_drift"] = drift
    lines = None
    if tv.timed_out:
        raise broken("trace validation timed out")
    if tv.error in ("invariant", "action_property"):
        lines = open(trace).read().splitlines()
        # the violated predicate was evaluated on a state recorded from the real stores
        pos = re.findall(r"l = (\d+)", tv.out)
        at = int(pos[-1]) - 1 if pos else -1
        start = at
        while start > 0 and '"ev":"Reset"' not in lines[start - 1]:
            start -= 1
        ctx.violation("trace-%s" % tv.error_name,
                      "a state recorded from real stores violates %s of KeyValue.tla at trace line %d: %s" % (
                          tv.error_name, at, lines[at - 1][:600] if 0 < at <= len(lines) else "?"),
                      {"spec": "KeyValueTraceCut", "events": lines[max(0, start - 1):at]})
        return
    if not tv.ok:
        if "TRACE-REJECTED-AT-LINE" in tv.out:
            raise broken("trace validation stopped although unexplained steps are adopted:\n" + tv.out[-3000:])
        raise broken("trace validation failed to run:\n" + tv.out[-3000:])
    if drift:
        ctx.notes.append("trace validation adopted %d recorded steps the spec did not predict (drift)" % drift)
