"""C12 - key-value store: last-writer-wins convergence and authentic entries only.

spec/kv/KeyValue.tla (cast and configurations: KeyValueMC.tla):
  1. exhaustive TLC: LWW core, authenticity (every mutation class), local Sets, all with sync exchanges
     split at their critical sections and storage faults; invariants LWW, IndexMatchesStore,
     AuthenticOnly, OneExchangeEqualises, action property Monotone;
  2. spec -> code: behaviours generated from KeyValueGen.tla (-simulate) are executed on real
     key-value services (keyvalue.New over any-store behind a fault proxy, real ACL, real dual
     signatures), one call per spec action, oracles evaluated after every step (harness/kv TestReplay);
  3. code -> spec: random runs on three real stores are recorded and validated by KeyValueTrace.tla
     (every invariant on every recorded state; unexplained steps are adopted and counted as drift);
  4. thorough: the "as-is" configurations must still let TLC find each repaired gap (the spec keeps
     distinguishing the unrepaired behaviour), large stores / multi-batch pulls on real stores."""
import os
import re

LEVEL = "model_checking"


def broken(msg):
    from vf import CheckBroken
    return CheckBroken(msg)


def run(ctx):
    thorough = ctx.tier == "thorough"
    if ctx.replay:
        import json
        obj = json.load(open(ctx.replay)).get("replay") or {}
        steps = obj.get("steps") or []
        if steps and steps[0].get("act") == "Large":
            # a violation of the size tests: re-run them with the recorded size and seed
            m = re.match(r"slots=(\d+) seed=(\d+)", steps[0].get("s", ""))
            env = {"VERIF_LARGE_SLOTS": m.group(1), "VERIF_SEED": m.group(2)} if m else {}
            ctx.go_test("./kv", run="TestLarge$", env=env, timeout=2400)
        else:
            ctx.go_test("./kv", run="TestReplay$", timeout=600)
        return
    skip_mc = bool(os.environ.get("VERIF_KV_SKIP_MC"))  # development aid (mutant runs): harness parts only
    if skip_mc:
        ctx.notes.append("exhaustive TLC runs skipped (VERIF_KV_SKIP_MC)")

    # 1. the design, exhaustively
    w = max(2, min(ctx.cores, 12))
    if not skip_mc:
        ctx.tlc_expect_ok("kv", "KeyValueMC", "KeyValue_mc_lww_t.cfg" if thorough else "KeyValue_mc_lww.cfg",
                          timeout=6000, workers=w, name="mc-lww")
        ctx.tlc_expect_ok("kv", "KeyValueMC", "KeyValue_mc_auth.cfg", timeout=3000, workers=w, name="mc-auth")
        # every action of the spec is taken in this one (coverage: a never-taken action fails the run as vacuous)
        ctx.tlc_expect_ok("kv", "KeyValueMC", "KeyValue_mc_xauth.cfg", coverage=True, timeout=3000, workers=w, name="mc-xauth")
        if thorough:  # (quick: local Sets are in mc-xauth; KeyValue_mc_local.cfg is the batches-of-1 variant for hand runs)
            ctx.tlc_expect_ok("kv", "KeyValueMC", "KeyValue_mc_local_t.cfg", timeout=6000, workers=w, name="mc-local")

    # 4a. the spec must keep telling the unrepaired behaviours apart (cheap: TLC stops at the first violation)
    if thorough and not skip_mc:
        for cfg, inv in (("label", "AuthenticOnly"), ("perm", "AuthenticOnly"), ("ts", "OneExchangeEqualises"),
                         ("rollback", "IndexMatchesStore")):
            res = ctx.tlc("kv", "KeyValueMC", "KeyValue_asis_%s.cfg" % cfg, timeout=900, workers=2, count=False, name="asis-" + cfg)
            if res.timed_out or res.error != "invariant" or res.error_name != inv:
                raise broken("as-is configuration %s: expected TLC to find a violation of %s, got %s %s\n%s" % (
                    cfg, inv, res.error, res.error_name, res.out[-2000:]))

    # side lemma (nothing depends on it): the LWW summary is a semilattice merge
    if thorough and not skip_mc:
        ctx.tlc_expect_ok("kv", "KVMerge", "KVMerge.cfg", workers=1, timeout=600, count=False, name="lemma-semilattice-tlc")
        apalache_lemma(ctx)

    # 2. spec -> code
    emit = os.path.join(ctx.scratch, "emit")
    os.makedirs(emit)
    # _q: 2 stores with different ACL knowledge, the whole cast; _f: small universe, late faults (rollback paths);
    # _t: 3 stores (one a reader that holds r3). TLC's simulator emits every successor of the last step,
    # so a trace yields several behaviours that share a prefix.
    gens = [("KeyValueGen_q.cfg", 30 if not thorough else 150), ("KeyValueGen_f.cfg", 12 if not thorough else 80),
            ("KeyValueGen_t.cfg", 0 if not thorough else 120)]
    def collect(tag, sub):
        # every TLC run numbers its files from 1: move them under a distinct prefix
        for f in sorted(os.listdir(sub)):
            os.rename(os.path.join(sub, f), os.path.join(emit, "%s_%s" % (tag, f)))

    for i, (cfg, num) in enumerate(gens):
        if num == 0:
            continue
        sub = os.path.join(ctx.scratch, "emit-%d" % i)
        os.makedirs(sub)
        res = ctx.tlc("kv", "KeyValueGen", cfg, workers=1, simulate=num, depth=40, seed=ctx.seed * 10 + i, deadlock=False,
                      env={"VERIF_EMIT_DIR": sub}, timeout=2400, count=False, name="gen-" + cfg)
        if res.timed_out or res.error:
            raise broken("behaviour generation failed (%s %s)\n%s" % (res.error, res.error_name, res.out[-3000:]))
        collect("g%d" % i, sub)
    # exhaustive: every 2-step history of pushes (batches <= 2 over 3 timestamps of one slot, with and without a
    # failing commit) - the undo of a failed multi-upsert write needs exactly such short, specific histories
    sub = os.path.join(ctx.scratch, "emit-x")
    os.makedirs(sub)
    res = ctx.tlc("kv", "KeyValueGen", "KeyValueGen_x.cfg", workers=1, deadlock=False, env={"VERIF_EMIT_DIR": sub},
                  timeout=1200, count=False, name="gen-KeyValueGen_x.cfg")
    if res.timed_out or res.error:
        raise broken("behaviour generation failed (%s %s)\n%s" % (res.error, res.error_name, res.out[-3000:]))
    collect("x", sub)
    n = len(os.listdir(emit))
    if n == 0:
        raise broken("no behaviours emitted")
    ctx.cov["behaviours_generated"] = n
    ctx.go_test("./kv", run="TestReplay$", env={"VERIF_BEHAVIOURS": emit, "VERIF_MAX_BEHAVIOURS": 8000 if thorough else 900},
                timeout=2400, name="replay")

    # 3. code -> spec
    trace = os.path.join(ctx.scratch, "kv-trace.ndjson")
    rep = ctx.go_test("./kv", run="TestRecord$", env={"VERIF_TRACE_OUT": trace, "VERIF_RUNS": 150 if thorough else 25,
                                                      "VERIF_STEPS": 40 if thorough else 30}, timeout=2400, name="record")
    ctx.cov["trace_events_validated"] = rep["extra"].get("trace_events", 0)
    validate_trace(ctx, trace)

    # 4b. large stores, multi-batch pulls, many receivers
    if thorough:
        ctx.go_test("./kv", run="TestLarge$", timeout=2400, name="large")
    else:
        ctx.go_test("./kv", run="TestLarge$", env={"VERIF_LARGE_SLOTS": 150}, timeout=900, name="large")

    ctx.assume("timestamps per slot are distinct among the values a store may hold (the property's premise); "
               "equal timestamps keep the first arrival")
    ctx.assume("ACL knowledge of a store is fixed during a run; the ACL history is the fixed cast of KeyValueMC.tla")
    ctx.assume("one sync exchange at a time per pair of stores; ldiff's range protocol is taken as exact for the "
               "small indexes used here (C07/C08 cover it)")


def apalache_lemma(ctx):
    """KVMergeApa.tla with Apalache (symbolic, all maps); an unavailable / failing tool is only noted."""
    import shutil
    import subprocess
    from vf import VERIF
    if not shutil.which("apalache-mc"):
        ctx.notes.append("apalache-mc not found: semilattice lemma checked by TLC only")
        return
    wd = os.path.join(ctx.scratch, "apalache")
    os.makedirs(wd)
    shutil.copy(os.path.join(VERIF, "spec", "kv", "KVMergeApa.tla"), wd)
    try:
        p = subprocess.run(["apalache-mc", "check", "--length=0", "--inv=Laws", "--out-dir=" + os.path.join(wd, "out"),
                            "KVMergeApa.tla"], cwd=wd, stdout=subprocess.PIPE, stderr=subprocess.STDOUT, text=True, timeout=900)
        ok = p.returncode == 0 and "NoError" in p.stdout
        ctx.notes.append("apalache: semilattice laws of the LWW merge: %s" % ("NoError" if ok else "not established (exit %d)" % p.returncode))
        ctx.log("apalache lemma:", "NoError" if ok else p.stdout[-400:])
    except Exception as ex:  # noqa
        ctx.notes.append("apalache run failed: %s" % ex)


def validate_trace(ctx, trace):
    tv = ctx.tlc("kv", "KeyValueTrace", "KeyValueTrace.cfg", workers=1, env={"VERIF_TRACE": trace},
                 timeout=2400, count=False, name="trace-validation")
    m = None
    for m in re.finditer(r'"DRIFT-TOTAL", (\d+)', tv.out):
        pass
    drift = int(m.group(1)) if m else 0
    if drift == 0:
        drift = len(re.findall(r'"DRIFT-AT-LINE"', tv.out))
    ctx.cov["drift"] += drift
    ctx.cov["trace_drift"] = drift
    lines = None
    if tv.timed_out:
        raise broken("trace validation timed out")
    if tv.error in ("invariant", "action_property"):
        lines = open(trace).read().splitlines()
        # the violated predicate was evaluated on a state recorded from the real stores
        pos = re.findall(r"l = (\d+)", tv.out)
        at = int(pos[-1]) - 1 if pos else -1
        start = at
        while start > 0 and '"ev":"Reset"' not in lines[start - 1]:
            start -= 1
        ctx.violation("trace-%s" % tv.error_name,
                      "a state recorded from real stores violates %s of KeyValue.tla at trace line %d: %s" % (
                          tv.error_name, at, lines[at - 1][:600] if 0 < at <= len(lines) else "?"),
                      {"spec": "KeyValueTraceCut", "events": lines[max(0, start - 1):at]})
        return
    if not tv.ok:
        if "TRACE-REJECTED-AT-LINE" in tv.out:
            raise broken("trace validation stopped although unexplained steps are adopted:\n" + tv.out[-3000:])
        raise broken("trace validation failed to run:\n" + tv.out[-3000:])
    if drift:
        ctx.notes.append("trace validation adopted %d recorded steps the spec did not predict (drift)" % drift)
