"""C02 - only authentic, authorised changes are ever attached or persisted.

spec/treeauth/TreeAuth.tla: the ACL appliers' per-account permission history, PermissionsAtRecord /
closestPermissions, Unmarshall(verify), validateChange, AddRawChanges (normal + rebuild path,
rollback), storage, reopen.  Exhaustive TLC over three focuses (long ACL histories; histories x
trees x batches; all mutation classes x parent kinds x batch positions x tree flavours), every
emitted context built from real ACL records and real signed changes and every candidate batch
delivered to the real tree; byte-offset sweeps; random recorded runs validated by TreeAuthTrace.tla."""
import os
import re

LEVEL = "model_checking"

DEVS = ["Dev_NoVerifyOnRebuild", "Dev_CurrentPerms", "Dev_RollbackKeepsAttached", "Dev_IsAfterStrict",
        "Dev_NoHasHead", "Dev_NoParentAclCheck", "Dev_StaleScratch", "Dev_MemoWriter", "Dev_RollbackOnlyHeads",
        "Dev_CidByDigest", "Dev_KeepUnattached"]


def cfg_text(bounds, fix=True, dev=None):
    s = "SPECIFICATION Spec\nCONSTANTS\n  Bounds <- %s\n  FIX_AddKeepsHistory = %s\n" % (bounds, "TRUE" if fix else "FALSE")
    for d in DEVS:
        s += "  %s = %s\n" % (d, "TRUE" if d == dev else "FALSE")
    s += ("INVARIANT Inv\nINVARIANT PermHistoryFaithful\nINVARIANT StoredStaysValid\nINVARIANT VerdictsAgree\n"
          "PROPERTY RejectedBatchIsNoOp\nCHECK_DEADLOCK FALSE\n")
    return s


_CTX = None


def broken(msg):
    # the CheckBroken class of the running orchestrator module (lib/vf.py may run as __main__)
    import sys
    return sys.modules[type(_CTX).__module__].CheckBroken(msg)


def validate_trace(ctx, trace):
    """TreeAuthTrace.tla over a recorded NDJSON file; a design invariant failing on a recorded
    state of the real code is a violation whose replay object names the recorded run."""
    import json
    tv = ctx.tlc("treeauth", "TreeAuthTrace", "TreeAuthTrace.cfg", workers=1, env={"VERIF_TRACE": trace}, timeout=2400,
                 count=False, name="trace-validation")
    lines = open(trace).read().splitlines()
    if tv.timed_out or (tv.error and tv.error not in ("invariant", "other")):
        raise broken("trace validation did not run: %s\n%s" % (tv.error, tv.out[-3000:]))
    m = re.search(r"TRACE-DRIFT\", (\d+)", tv.out)
    if m:
        ctx.cov["drift"] += int(m.group(1))
        ctx.cov["trace_drift"] = int(m.group(1))
    if tv.error == "invariant":
        # an invariant of the design failed on a state recorded from the real tree / ACL
        lm = re.search(r"/\\ l = (\d+)", tv.trace[-1][1]) if tv.trace else None
        at = int(lm.group(1)) - 1 if lm else -1
        run = None
        for ln in lines[:max(at, 0)]:
            ev = json.loads(ln)
            if ev.get("ev") == "Init":
                run = ev.get("run")
        ctx.violation("trace-invariant-" + str(tv.error_name),
                      "state recorded from the real code violates %s at event %d: %s" % (
                          tv.error_name, at, lines[at - 1] if 0 < at <= len(lines) else "?"),
                      {"record_run": run, "trace_tail": lines[max(0, at - 12):at]})
    elif tv.error == "other" or not tv.ok:
        if "TRACE-REJECTED-AT-LINE" in tv.out:
            mm = re.search(r"TRACE-REJECTED-AT-LINE\", (\d+)", tv.out)
            line = int(mm.group(1)) if mm else -1
            # a line no action explains at all (not even by adoption) means the log itself is off
            raise broken("recorded run is not readable by TreeAuthTrace at event %d: %s" % (
                line, lines[line - 1] if 0 < line <= len(lines) else "?"))
        raise broken("trace validation failed to run:\n" + tv.out[-3000:])
    return tv, lines


def run(ctx):
    global _CTX
    _CTX = ctx
    thorough = ctx.tier == "thorough"
    if ctx.replay:
        import json
        ro = json.load(open(ctx.replay)).get("replay") or {}
        if isinstance(ro, dict) and ro.get("record_run"):
            trace = os.path.join(ctx.scratch, "replay.ndjson")
            ctx.go_test("./treeauth", run="TestRecord$", env={"VERIF_TRACE_OUT": trace})
            validate_trace(ctx, trace)
        else:
            ctx.go_test("./treeauth", run="TestReplay$")
        return

    # 1. the design, exhaustively: authentic / authorised / no-op / faithful permission history
    ctx.tlc_expect_ok("treeauth", "TreeAuthMC", "TreeAuthMC_t.cfg" if thorough else "TreeAuthMC_q.cfg",
                      coverage=thorough, timeout=3000 if thorough else 900, heap="6g")

    # 1b. the invariants bite: every named deviation (and the un-repaired applyAccountsAdd) must be
    #     refuted by TLC on a small instance (spec-level sanity, thorough tier only)
    if thorough:
        for dev in DEVS + ["FIX_off"]:
            txt = cfg_text("BoundsSanity", fix=(dev != "FIX_off"), dev=dev)
            res = ctx.tlc("treeauth", "TreeAuthMC", "sanity.cfg", files={"sanity.cfg": txt}, timeout=900,
                          count=False, name="sanity:" + dev, workers=4)
            if res.timed_out or res.error not in ("invariant", "action_property"):
                raise broken("deviation %s is not refuted by the specification's properties (%s %s)"
                             % (dev, res.error, res.error_name))
            ctx.cov.setdefault("deviations_refuted", {})[dev] = res.error_name or res.error

    # 2. spec -> code: contexts + outcome tables emitted by TLC, replayed on real ACLs and trees
    e_hist = os.path.join(ctx.scratch, "emit-hist")
    e_sim = os.path.join(ctx.scratch, "emit-sim")
    os.makedirs(e_hist)
    os.makedirs(e_sim)
    ctx.tlc_expect_ok("treeauth", "TreeAuthGen", "TreeAuthGen_hist_t.cfg" if thorough else "TreeAuthGen_hist_q.cfg",
                      workers=1, env={"VERIF_EMIT_DIR": e_hist, "VERIF_SEED": str(ctx.seed)}, timeout=1500, count=False,
                      name="gen:hist")
    ctx.tlc_expect_ok("treeauth", "TreeAuthGen", "TreeAuthGen_sim_t.cfg" if thorough else "TreeAuthGen_sim_q.cfg",
                      workers=1, simulate=200 if thorough else 20, depth=12,
                      env={"VERIF_EMIT_DIR": e_sim, "VERIF_SEED": str(ctx.seed)}, timeout=2400, count=False, name="gen:sim")
    if not os.listdir(e_hist) or not os.listdir(e_sim):
        raise broken("no behaviours emitted")
    dirs = e_hist + os.pathsep + e_sim
    ctx.go_test("./treeauth", run="TestReplay$", env={"VERIF_BEHAVIOURS": dirs, "VERIF_MAX_CASES": 30},
                timeout=2400)
    # 2b. byte-offset sweeps of the "bytes altered" classes
    ctx.go_test("./treeauth", run="TestSweep$", env={"VERIF_BEHAVIOURS": e_sim, "VERIF_SWEEP_CONTEXTS": 12 if thorough else 4,
                                                      "VERIF_SWEEP_OFFSETS": 0 if thorough else 30}, timeout=2400)

    # 3. code -> spec: random recorded runs validated against the trace specification
    trace = os.path.join(ctx.scratch, "treeauth-trace.ndjson")
    rep = ctx.go_test("./treeauth", run="TestRecord$", env={"VERIF_TRACE_OUT": trace, "VERIF_RUNS": 400 if thorough else 40,
                                                            "VERIF_STEPS": 16 if thorough else 14}, timeout=2400)
    ctx.cov["trace_events_validated"] = rep["extra"].get("trace_events", 0)
    tv, lines = validate_trace(ctx, trace)
    # 3b. binding self-test: one recorded field corrupted (an accepted change's signature flag) must
    #     make the validation fail on exactly that state
    if thorough and tv.ok:
        import json
        bad, done = [], False
        for ln in lines:
            ev = json.loads(ln)
            if not done and ev.get("ev") == "Deliver" and ev.get("v") == "accept":
                for mb in ev["batch"]:
                    if mb["id"] in ev["att"] and mb["sigOk"]:
                        mb["sigOk"] = False
                        done = True
                        break
            bad.append(json.dumps(ev))
        if done:
            badf = os.path.join(ctx.scratch, "treeauth-trace-corrupted.ndjson")
            open(badf, "w").write("\n".join(bad) + "\n")
            st = ctx.tlc("treeauth", "TreeAuthTrace", "TreeAuthTrace.cfg", workers=1, env={"VERIF_TRACE": badf}, timeout=2400,
                         count=False, name="trace-validation-selftest")
            if st.error != "invariant" or st.error_name != "AttachedOnlyIfAuthentic":
                raise broken("binding self-test: a corrupted recorded trace was not rejected (%s %s)" % (st.error, st.error_name))
            ctx.cov["binding_selftest"] = "corrupted sigOk of an accepted change -> AttachedOnlyIfAuthentic violated"
    ctx.assume("the protobuf decoders and the ed25519 / CID primitives the oracles use to re-read stored bytes are correct")
    ctx.assume("ACL records are appended to the local replica only through AddRawRecord with full validation")
    ctx.assume("one tree object is used under its lock; storage failures are out of scope here (C10)")
