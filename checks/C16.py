"""C16 - object cache keeps at most one live instance per id under any interleaving.

spec/ocache/OCache.tla: every API operation of app/ocache as a process whose steps are the lock
sections / blocking points of the code; exhaustive TLC over every multiset of operations.
Binding: (1) schedule replay - OCacheGen.tla makes TLC print a path through every transition of
the model; the harness forces each schedule on a real cache through the `verif` gates and the
harness-owned LoadFunc / Close / TryClose and evaluates the C16 predicates on the observations;
(2) trace validation - ungated random runs under -race recorded through the same hooks and
validated by OCacheTrace.tla with all invariants."""
import json
import os
import random
import re

from vf import CheckBroken

LEVEL = "model_checking"

_re_beh = re.compile(r'^"?BEH\|([^|]*)\|([^|]*)\|([^|]*)\|(end|cut)"?$', re.M)


def parse_behaviours(out):
    """TLC output -> list of (config, pre, [step codes], end)"""
    res = []
    for m in _re_beh.finditer(out):
        res.append((m.group(1), m.group(2), m.group(3).split(",") if m.group(3) else [], m.group(4) == "end"))
    return res


def leaves(behs):
    """keep the schedules that are not a proper prefix of another schedule of the same
    configuration: together they pass through every printed (state, step) pair"""
    parents = set()
    for cfg, pre, steps, end in behs:
        if steps:
            parents.add((cfg, pre, tuple(steps[:-1])))
    return [b for b in behs if (b[0], b[1], tuple(b[2])) not in parents]


def to_json(b, src):
    cfg, pre, steps, end = b
    ops = []
    for o in cfg.split(","):
        kind, oid, arg = o.split(".")
        ops.append({"kind": kind, "id": oid, "arg": int(arg)})
    st = []
    for s in steps:
        o, pc, c, r, v = s.split(":")
        st.append({"o": int(o), "pc": pc, "c": c, "r": r, "v": int(v) if v else 0})
    return {"ops": ops, "pre": [p for p in pre.split(",") if p], "steps": st, "end": end, "src": src}


def write_behaviours(path, behs, src):
    with open(path, "w") as fh:
        for b in behs:
            fh.write(json.dumps(to_json(b, src)) + "\n")


def harness_env(ctx, extra=None):
    """the harness needs one knob app/ocache does not export (the close deadline): a verif-tagged file
    is added to the package at build time with -overlay; the repository itself is not touched"""
    ov = os.path.join(ctx.scratch, "ocache-overlay.json")
    if not os.path.exists(ov):
        with open(ov, "w") as fh:
            json.dump({"Replace": {os.path.join(ctx.repo, "app/ocache/zz_verif_knobs.go"):
                                   os.path.join(os.path.dirname(os.path.dirname(os.path.abspath(__file__))),
                                                "harness/inpkg/ocache/zz_verif_knobs.go")}}, fh)
    env = {"GOFLAGS": "-mod=mod -overlay=" + ov}
    env.update(extra or {})
    return env


def is_deadline_schedule(b):
    """does the schedule let the deadline of a cache Close expire?"""
    kinds = [o.split(".")[0] for o in b[0].split(",")]
    for st in b[2]:
        f = st.split(":")
        if f[1] == "Cancel" and kinds[int(f[0]) - 1] == "Close":
            return True
    return False


def generate(ctx, cfg, name, simulate=None, depth=None, timeout=1500):
    res = ctx.tlc("ocache", "OCacheGen", cfg, workers=(1 if simulate else min(4, ctx.cores)), simulate=simulate, depth=depth, timeout=timeout,
                  count=False, deadlock=True, name=name)
    if res.timed_out or res.error:
        raise CheckBroken("behaviour generation %s failed: %s %s\n%s" % (name, res.error, res.error_name, res.out[-3000:]))
    behs = parse_behaviours(res.out)
    if not behs:
        raise CheckBroken("behaviour generation %s printed nothing" % name)
    return behs


ASIS = [("OCache_dev_boundloads.cfg", "NoneOpenAfterShutdown", "Close gives up on an in-flight load at its deadline"),
        ("OCache_asis_panic.cfg", "NoPanic", "TryRemove during a load calls TryClose on a nil value"),
        ("OCache_asis_leak.cfg", "NoneOpenAfterShutdown", "Add on a closed cache leaves an open instance"),
        ("OCache_asis_stuck.cfg", "NoStuck", "TryRemove leaves the entry closing when TryClose returns an error")]


def validate_trace(ctx, trace, runs_dir, name="trace-validation", expect_reject=False):
    """OCacheTrace.tla on a recorded NDJSON trace. An invariant that fails on a recorded state is a
    violation; a line the specification cannot follow is drift: validation resumes at the next run."""
    lines = open(trace).read().splitlines()
    offset, rounds, drift_total = 0, 0, 0
    while True:
        rounds += 1
        cur = os.path.join(ctx.scratch, "trace-part-%d.ndjson" % rounds)
        with open(cur, "w") as fh:
            fh.write("\n".join(lines[offset:]) + "\n")
        tv = ctx.tlc("ocache", "OCacheTrace", "OCacheTrace.cfg", workers=1, env={"VERIF_TRACE": cur},
                     timeout=2400, count=False, name=name)
        if expect_reject:
            return tv
        if tv.timed_out or tv.error in ("deadlock", "temporal", "assert", "action_property"):
            raise CheckBroken("trace validation did not run: %s\n%s" % (tv.error, tv.out[-3000:]))
        m = re.search(r'TRACE-DRIFT", (-?\d+)', tv.out)
        if tv.ok and m:
            drift_total += max(0, int(m.group(1)))
            break
        if tv.error == "invariant":
            # the state after the last consumed line violates an invariant of OCache
            depth = len(tv.trace)          # state k has consumed k-1 lines beyond the first
            line = offset + depth          # 1-based line of the event that led to the bad state
            run_no, start = None, offset
            for i in range(min(line, len(lines)) - 1, -1, -1):
                ev = json.loads(lines[i])
                if ev.get("ev") == "reset":
                    run_no, start = ev.get("run"), i
                    break
            replay = None
            rp = os.path.join(runs_dir, "run-%s.json" % run_no)
            if os.path.exists(rp):
                replay = json.load(open(rp))
            ctx.violation("trace:%s" % tv.error_name,
                          "recorded run %s of the real cache violates %s of OCache.tla after event %s"
                          % (run_no, tv.error_name, lines[line - 1] if 0 < line <= len(lines) else "?"),
                          replay if replay is not None else {"events": lines[start:line]})
            break
        m = re.search(r'TRACE-REJECTED-AT-LINE", (\d+)', tv.out)
        if not m:
            raise CheckBroken("trace validation failed to run:\n" + tv.out[-3000:])
        bad = offset + int(m.group(1))     # 1-based line that no action explains
        ctx.cov["drift"] += 1
        ctx.notes.append("trace line %d is not explained by OCacheTrace: %s" % (bad, lines[bad - 1] if bad <= len(lines) else "<end of trace>"))
        nxt = None
        for i in range(bad, len(lines)):
            if '"ev":"reset"' in lines[i]:
                nxt = i
                break
        if nxt is None or rounds > 6:
            break
        offset = nxt
    ctx.cov["drift"] += drift_total
    if drift_total:
        ctx.notes.append("trace validation followed %d recorded decisions that differ from the specification" % drift_total)
    return None


def run(ctx):
    thorough = ctx.tier == "thorough"
    if ctx.replay:
        ctx.go_test("./ocache", run="TestReplay$", timeout=900, env=harness_env(ctx))
        return
    rnd = random.Random(ctx.seed)
    workers = min(12, ctx.cores)
    skip_mc = os.environ.get("C16_SKIP_MC") == "1"
    # 1. the design: every invariant + no-stuck + termination, exhaustively over every operation multiset
    if not skip_mc:
        if thorough:
            ctx.tlc_expect_ok("ocache", "OCacheMC", "OCache_mc_t.cfg", coverage=True, timeout=3000, workers=workers, name="mc 2 ids, 2-3 ops")
            ctx.tlc_expect_ok("ocache", "OCacheMC", "OCache_mc_t4.cfg", timeout=3000, workers=workers, name="mc 1 id, 4 ops")
            ctx.tlc_expect_ok("ocache", "OCacheMC", "OCache_mc_t42.cfg", timeout=3000, workers=workers,
                              name="mc 2 ids, 4 ops (Get/Remove/TryRemove/Close, loads succeed, no cancellation)")
            ctx.tlc_expect_ok("ocache", "OCacheMC", "OCache_sim4.cfg", simulate=5000, depth=150, timeout=1500,
                              workers=workers, count=False, name="random walks 2 ids, 4 ops")
        else:
            ctx.tlc_expect_ok("ocache", "OCacheMC", "OCache_mc_q.cfg", timeout=1500, workers=workers, name="mc 1 id, 2-3 ops")
            ctx.tlc_expect_ok("ocache", "OCacheMC", "OCache_mc_q2.cfg", timeout=1500, workers=workers, name="mc 2 ids, 2 ops")
        # the as-is behaviour of the three repaired defects is kept as disabled deviations; the model
        # checker must still find each of them (otherwise the model lost the ability to see the defect)
        # (quick: only the deviation that is not a repaired defect; thorough: all four)
        for cfg, inv, what in (ASIS if thorough else ASIS[:1]):
            res = ctx.tlc("ocache", "OCacheMC", cfg, workers=2, timeout=600, count=False, name="as-is " + inv)
            if res.timed_out or res.error != "invariant" or res.error_name != inv:
                raise CheckBroken("as-is deviation (%s) is no longer found by TLC: error=%s %s" % (what, res.error, res.error_name))
    # 2. spec -> code: schedules through every transition of the generation model, forced on the real cache
    behs = []
    if os.environ.get("C16_SKIP_REPLAY") == "1":
        os.environ["C16_GEN_CFG"] = ""
    gens = [("OCacheGen_q.cfg", "gen 2 ids, 2 ops", 2000), ("OCacheGen_q3.cfg", "gen 1 id, 3 ops, closer kinds", 3500)]
    if thorough:
        gens = [("OCacheGen_q.cfg", "gen 2 ids, 2 ops", None), ("OCacheGen_t.cfg", "gen 1 id, 3 ops", None)]
    if "C16_GEN_CFG" in os.environ:
        gens = [(c, "gen " + c, None) for c in os.environ["C16_GEN_CFG"].split(",") if c]
    per_gen = {}
    for cfg, name, lim in gens:
        b = leaves(generate(ctx, cfg, name, timeout=3000))
        per_gen[name] = len(b)
        limit = int(os.environ.get("C16_REPLAY_LIMIT", "0") or 0) or lim or len(b)
        if len(b) > limit:
            # the schedules in which Close's deadline expires are few and always replayed (2-op ones all)
            dl = [x for x in b if is_deadline_schedule(x)]
            rest = [x for x in b if not is_deadline_schedule(x)]
            rnd.shuffle(dl)
            rnd.shuffle(rest)
            dl = dl[:1000]
            b = dl + rest[:max(0, limit - len(dl))]
            per_gen[name + " (deadline schedules replayed)"] = len(dl)
        behs += [to_json(x, name) for x in b]
    if "C16_GEN_CFG" not in os.environ:
        sim = generate(ctx, "OCacheGen_sim.cfg", "random schedules 2 ids, 3-4 ops", simulate=(6000 if thorough else 500), depth=200)
        per_gen["random schedules 3-4 ops"] = len(sim)
        behs += [to_json(x, "sim") for x in sim]
    ctx.cov["behaviours_generated"] = per_gen
    path = os.path.join(ctx.scratch, "behaviours.ndjson")
    with open(path, "w") as fh:
        for b in behs:
            fh.write(json.dumps(b) + "\n")
    if os.environ.get("C16_SKIP_REPLAY") != "1":
        ctx.go_test("./ocache", run="TestReplay$", env=harness_env(ctx, {"VERIF_BEHAVIOURS": path}), timeout=3000)
    # 3. code -> spec: ungated random runs under the race detector, recorded through the hooks
    if os.environ.get("C16_SKIP_TRACE") != "1":
        trace = os.path.join(ctx.scratch, "ocache-trace.ndjson")
        runs_dir = os.path.join(ctx.scratch, "runs")
        os.makedirs(runs_dir)
        rep = ctx.go_test("./ocache", run="TestRecord$", race=True, timeout=1500,
                          env=harness_env(ctx, {"VERIF_TRACE_OUT": trace, "VERIF_RUNS_DIR": runs_dir, "VERIF_RUNS": os.environ.get("C16_RUNS") or (40 if thorough else 12)}))
        ctx.cov["trace_events_validated"] = rep["extra"].get("trace_events", 0)
        ctx.cov["recorded_operations"] = rep["extra"].get("recorded_operations", 0)
        validate_trace(ctx, trace, runs_dir)
        if thorough:
            binding_selftest(ctx, trace)
    ctx.assume("LoadFunc, Object.Close and Object.TryClose always return (the cache cannot bound them); "
               "Close's closeTimeout (10 s) does not expire")
    ctx.assume("the verif hooks (build tag verif) report every lock section of app/ocache; a lock section added "
               "without a hook shows up as drift")


def binding_selftest(ctx, trace):
    """the trace binding must notice a corrupted observation: (a) one get.hit turned into get.miss,
    (b) one setclosed line removed"""
    lines = open(trace).read().splitlines()
    # keep it short: first run only
    end = next((i for i in range(1, len(lines)) if '"ev":"reset"' in lines[i]), len(lines))
    lines = lines[:end]
    def variant(kind):
        out, done = [], False
        for ln in lines:
            if not done and kind == "flip" and '"ev":"get.hit"' in ln:
                ln, done = ln.replace('"ev":"get.hit"', '"ev":"get.miss"'), True
            elif not done and kind == "drop" and '"ev":"setclosed"' in ln:
                done = True
                continue
            out.append(ln)
        return out if done else None
    for kind in ("flip", "drop"):
        v = variant(kind)
        if v is None:
            continue
        p = os.path.join(ctx.scratch, "selftest-%s.ndjson" % kind)
        with open(p, "w") as fh:
            fh.write("\n".join(v) + "\n")
        tv = validate_trace(ctx, p, ctx.scratch, name="binding self-test (%s)" % kind, expect_reject=True)
        m = re.search(r'TRACE-DRIFT", (-?\d+)', tv.out)
        if tv.ok and m and int(m.group(1)) == 0:
            raise CheckBroken("binding self-test: a corrupted trace (%s) was accepted without drift" % kind)
        ctx.notes.append("binding self-test %s: %s" % (kind, "invariant " + str(tv.error_name) if tv.error == "invariant"
                         else ("followed with drift " + m.group(1)) if (tv.ok and m) else "rejected"))
