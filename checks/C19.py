"""C19 - outbound messaging is bounded and isolated: a stuck peer blocks nobody.

spec/streampool/StreamPool.tla (written from net/streampool: one action per lock section).
  1. exhaustive TLC over fixed stream plans (kinds x queue sizes), the tag / index part, the dial pool,
     two concurrent callers; liveness (Isolation, CloseCompletes) on the small plan;
  2. spec -> code: random walks of StreamPoolGen.tla replayed on a real pool through gates (one harness
     call per action, projected state compared, property oracles evaluated on the real pool);
  3. code -> spec: a randomised gated driver records action-level traces validated by StreamPoolTrace.tla;
     free-running concurrent executions and the package's own tests (built with -tags verif) record raw
     hook traces validated by StreamPoolHookTrace.tla.
"""
import importlib.util
import json
import os
import re
import subprocess
import sys

LEVEL = "model_checking"

HERE = os.path.dirname(os.path.abspath(__file__))
VERIF = os.path.dirname(HERE)
sys.path.insert(0, os.path.join(VERIF, "lib"))
import vf as _vf  # noqa: E402
_main = sys.modules.get("__main__")
CheckBroken = getattr(_main, "CheckBroken", None) or _vf.CheckBroken
go_env = _vf.go_env

_spec = importlib.util.spec_from_file_location("hooktrace", os.path.join(VERIF, "spec", "streampool", "hooktrace.py"))
hooktrace = importlib.util.module_from_spec(_spec)
_spec.loader.exec_module(hooktrace)

BASE = dict(Peers='{"p1"}', Tags='{"a"}', QSizes='{1}', Kinds='{"healthy", "slow", "blocked", "failing"}', MaxStreams=2,
            MaxMsgs=3, Callers='{"c1"}', Ops='{"addStream", "sendById", "broadcast"}', Workers='{}', DialQSize=1,
            MaxArgLen=1, EagerWriter="FALSE")
P2 = '{"p1", "p2"}'
T2 = '{"a", "b"}'


def mc_cfg(plan, live=False, **kw):
    c = dict(BASE)
    c.update(kw)
    lines = ["SPECIFICATION Spec" if live else "INIT Init\nNEXT Next", "CONSTANTS"]
    lines += ["  %s = %s" % (k, v) for k, v in c.items()]
    lines.append("  Plan <- %s" % plan)
    if not live:
        lines.append("VIEW view")
    lines += ["INVARIANT Inv", "PROPERTY DropBeyondBound", "PROPERTY NoTargetAfterClose"]
    if live:
        lines += ["PROPERTY Isolation", "PROPERTY CloseCompletes"]
    lines.append("CHECK_DEADLOCK FALSE")
    return "\n".join(lines) + "\n"


def plan_module(plans):
    """StreamPoolPlans: generated plans (kind x kind x queue size) for the thorough sweep."""
    out = ["---- MODULE StreamPoolPlans ----", "EXTENDS StreamPoolMC"]
    for name, streams in plans.items():
        recs = ", ".join('St("%s", <<%s>>, %d, "%s")' % (p, ", ".join('"%s"' % t for t in tags), q, k)
                         for (p, tags, q, k) in streams)
        out.append("%s == <<%s>>" % (name, recs))
    out.append("====")
    return "\n".join(out) + "\n"


# name -> (module, plan, live, constants)
QUICK = [
    ("core-failing+blocked", "StreamPoolMC", "Plan_fb1", False, {}),
    ("tags-indexes", "StreamPoolMC", "Plan_tags", False,
     dict(Peers=P2, Tags=T2, MaxMsgs=1, Ops='{"addStream", "broadcast", "addTags", "removeTags", "removeTagsById"}')),
    ("dial", "StreamPoolMC", "Plan_dial", False,
     dict(Peers=P2, MaxMsgs=2, MaxArgLen=2, Workers='{"w1"}', Ops='{"send"}')),
    ("liveness", "StreamPoolMC", "Plan_live", True, dict(MaxMsgs=2, Ops='{"addStream", "broadcast"}')),
]


def thorough_runs():
    runs = list(QUICK)
    plans = {}
    kinds = ["healthy", "slow", "blocked", "failing"]
    for k1 in kinds:
        for k2 in kinds:
            if {k1, k2} <= {"healthy", "slow"}:
                continue  # without a failing or blocked stream nothing beyond the other pairs happens
            name = "Plan_%s_%s" % (k1, k2)
            plans[name] = [("p1", ["a"], 1, k1), ("p1", ["a"], 1, k2)]
            if (k1, k2) != ("failing", "blocked"):
                runs.append(("core-%s+%s" % (k1, k2), "StreamPoolPlans", name, False, {}))
    plans["Plan_q2"] = [("p1", ["a"], 2, "blocked"), ("p2", ["a"], 1, "failing")]
    runs.append(("queue2-two-peers", "StreamPoolPlans", "Plan_q2", False,
                 dict(Peers=P2, QSizes="{1, 2}", MaxMsgs=4, MaxArgLen=2)))
    runs.append(("two-callers", "StreamPoolMC", "Plan_fb1", False, dict(MaxMsgs=2, Callers='{"c1", "c2"}')))
    runs.append(("dial-two-workers", "StreamPoolMC", "Plan_dial", False,
                 dict(Peers=P2, MaxMsgs=3, Workers='{"w1", "w2"}', Ops='{"send"}')))
    return runs, plan_module(plans)


def go_test(ctx, *a, **kw):
    """ctx.go_test + the drift notes of the harness in the log (drift must be 0 on an unchanged tree)."""
    rep = ctx.go_test(*a, **kw)
    if rep.get("drift"):
        for n in (rep.get("drift_notes") or [])[:5]:
            ctx.log("DRIFT (harness %s): %s" % (kw.get("run") or kw.get("name") or "", n[:600]))
            ctx.notes.append("DRIFT %s: %s" % (kw.get("run") or "", n[:300]))
    return rep


def tlc_ok(ctx, covered, all_actions, name, module, cfg_text, files, timeout, coverage):
    fs = dict(files)
    fs["run.cfg"] = cfg_text
    res = ctx.tlc("streampool", module, "run.cfg", files=fs, timeout=timeout, coverage=coverage, name="mc:" + name,
                  workers=min(8, ctx.cores))
    if res.timed_out:
        raise CheckBroken("TLC timed out: mc:%s" % name)
    if not res.ok:
        raise CheckBroken("MODEL-ERROR: TLC reported %s %s on the specification alone (mc:%s)\n%s" % (
            res.error, res.error_name, name, "\n".join(res.out.splitlines()[-60:])))
    for a, (d, g) in res.coverage.items():
        all_actions.add(a)
        if g > 0:
            covered.add(a)
    return res


def validate_trace(ctx, module, cfg, trace, name, what, lines_of, files=None, adopt_cfg=None):
    """Run a trace validation; classify: accepted / invariant or action property violated on a recorded
    state (violation) / not a behaviour (strict rejection: re-run in adopt mode when available)."""
    tv = ctx.tlc("streampool", module, cfg, workers=1, env={"VERIF_TRACE": trace}, timeout=1500, count=False,
                 name=name, files=files)
    if tv.timed_out:
        raise CheckBroken("trace validation timed out: %s" % name)
    if tv.ok:
        return True
    if tv.error in ("invariant", "action_property"):
        m = re.search(r"/\\ l = (\d+)", tv.trace[-1][1]) if tv.trace else None
        line = int(m.group(1)) - 1 if m else -1
        lines = lines_of()
        ev = lines[line - 1] if 0 < line <= len(lines) else "?"
        ctx.violation("trace-%s-%s" % (what, tv.error_name),
                      "recorded %s trace violates %s of the specification at event %d: %s" % (what, tv.error_name, line, ev[:600]),
                      {"kind": "trace", "what": what, "events": lines[max(0, line - 15):line]})
        return False
    if "TRACE-REJECTED-AT-LINE" in tv.out:
        m = re.search(r'TRACE-REJECTED-AT-LINE", (\d+)', tv.out)
        line = int(m.group(1)) if m else -1
        lines = lines_of()
        ev = lines[line - 1] if 0 < line <= len(lines) else "?"
        if adopt_cfg is not None:
            # is a property of the specification violated by the recorded states themselves?
            if not validate_trace(ctx, module, adopt_cfg[0], trace, name + "-adopt", what, lines_of, files=adopt_cfg[1]):
                return False
        # the real code took a step the specification does not allow, but no property failed: drift
        ctx.cov["drift"] += 1
        ctx.notes.append("DRIFT: %s trace is not a behaviour of the specification at event %d: %s" % (what, line, ev[:400]))
        ctx.log("DRIFT (no property violated): %s trace rejected at event %d: %s" % (what, line, ev[:300]))
        return False
    raise CheckBroken("trace validation failed to run (%s):\n%s" % (name, tv.out[-3000:]))


def hook_cfg(max_sid, adopt, slack=1):
    return ("SPECIFICATION Spec\nCONSTANTS\n  MaxSid = %d\n  Adopt = %s\n  Slack = %d\nINVARIANT IndexesConsistent NoEntryAfterClose QueueBounded FifoPerStream SingleWriter DropBeyondBound CloseOnce\nCONSTRAINT Mark\n"
            "POSTCONDITION TraceAccepted\nCHECK_DEADLOCK FALSE\n" % (max_sid, "TRUE" if adopt else "FALSE", slack))


def validate_hook_trace(ctx, raw, name, what):
    prepared = raw + ".prepared"
    n, max_sid, pools = hooktrace.prepare(raw, prepared)
    if n == 0:
        raise CheckBroken("empty hook trace: %s" % raw)
    files = {"hook_strict.cfg": hook_cfg(max_sid, False), "hook_adopt.cfg": hook_cfg(max_sid, True)}
    ok = validate_trace(ctx, "StreamPoolHookTrace", "hook_strict.cfg", prepared, name, what,
                        lambda: open(prepared).read().splitlines(), files=files, adopt_cfg=("hook_adopt.cfg", files))
    return n, pools, ok


def record_repo_tests(ctx, trace):
    """The package's own tests, built with the hooks, record their events (VERIF_STREAMPOOL_TRACE)."""
    e = go_env()
    e["VERIF_STREAMPOOL_TRACE"] = trace
    cmd = ["go", "test", "-count=1", "-vet=off", "-tags", "verif", "-timeout", "600s", "./net/streampool/"]
    p = subprocess.run(cmd, cwd=ctx.repo, env=e, stdout=subprocess.PIPE, stderr=subprocess.STDOUT, text=True, timeout=900)
    ctx.cov["harness_runs"].append({"name": "repo tests net/streampool -tags verif", "exit": p.returncode})
    if "build failed" in p.stdout or "cannot find" in p.stdout or not os.path.exists(trace):
        raise CheckBroken("the repository's streampool tests did not build/run with -tags verif:\n" + p.stdout[-3000:])
    return p.returncode, p.stdout


def run(ctx):
    thorough = ctx.tier == "thorough"
    if ctx.replay:
        obj = json.load(open(ctx.replay)).get("replay") or {}
        kind = obj.get("kind") if isinstance(obj, dict) else None
        if kind == "record":
            go_test(ctx, "./streampool", run="TestRecord$", env={"VERIF_REPLAY_SEED": obj["runSeed"], "VERIF_RUN_LEN": obj["len"], "VERIF_RUNS": 1})
        elif kind == "stress":
            go_test(ctx, "./streampool", run="TestStress$", env={"VERIF_REPLAY_SEED": obj["runSeed"], "VERIF_RUN_LEN": obj["ops"], "VERIF_RUNS": 1})
        elif kind == "multiqueue":
            go_test(ctx, "./streampool", run="TestMultiQueue$", env={"VERIF_REPLAY_SEED": obj["runSeed"], "VERIF_RUN_LEN": obj["len"], "VERIF_RUNS": 1})
        elif kind == "sync-handlemessage":
            run_sync_wiring(ctx)
        elif kind == "trace" and obj.get("what") == "multiqueue":
            run_multiqueue(ctx, False, mc=False)
        elif kind == "trace":
            ctx.log("replay of a trace violation: re-recording the %s traces" % obj.get("what"))
            run_traces(ctx, False)
        else:
            go_test(ctx, "./streampool", run="TestReplay$")
        return

    if os.environ.get("VERIF_C19_ONLY") == "mq":   # development only
        run_multiqueue(ctx, thorough)
        return
    # ---- 1. the design, exhaustively
    runs, plans_mod = (thorough_runs() if thorough else (QUICK, plan_module({})))
    covered, actions = set(), set()
    if os.environ.get("VERIF_C19_SKIP_MC"):   # development only (mutant runs): skip the exhaustive part
        runs = []
    for name, module, plan, live, consts in runs:
        tlc_ok(ctx, covered, actions, name, module, mc_cfg(plan, live, **consts), {"StreamPoolPlans.tla": plans_mod},
               timeout=3000, coverage=True)
    unc = sorted(a for a in actions - covered if not a.startswith("Dev_"))
    ctx.cov["actions_covered"] = sorted(covered)
    if unc:
        raise CheckBroken("vacuous model runs, actions never taken in any configuration: %s" % unc)

    # ---- 2. spec -> code: simulated behaviours replayed on the real pool
    emit = os.path.join(ctx.scratch, "emit")
    os.makedirs(emit)
    gens = [("StreamPoolGen_q.cfg", 300 if thorough else 60, 45), ("StreamPoolGen_dial.cfg", 200 if thorough else 40, 45)]
    if thorough:
        gens.append(("StreamPoolGen_t.cfg", 300, 70))
    dirs = []
    for cfg, num, depth in gens:
        d = os.path.join(emit, cfg.replace(".cfg", ""))
        os.makedirs(d)
        dirs.append(d)
        g = ctx.tlc("streampool", "StreamPoolGen", cfg, workers=1, simulate=num, depth=depth, deadlock=False,
                    env={"VERIF_EMIT_DIR": d}, timeout=3000, count=False, name="gen:" + cfg)
        if g.timed_out or (g.error and g.error != "other") or g.exit not in (0,):
            raise CheckBroken("behaviour generation failed (%s): %s\n%s" % (cfg, g.error, g.out[-2000:]))
        if not os.listdir(d):
            raise CheckBroken("no behaviours emitted by %s" % cfg)
    go_test(ctx, "./streampool", run="TestReplay$", env={"VERIF_BEHAVIOURS": ":".join(dirs)}, timeout=2400)

    # ---- 3. code -> spec
    run_traces(ctx, thorough)

    # ---- 4. the receive side (util/multiqueue) with the same properties
    run_multiqueue(ctx, thorough)
    ctx.assume("a dial (handler.OpenStream) terminates; a dial that never returns occupies a dial worker (quantifier is over streams)")
    ctx.assume("stream contexts are not cancelled behind the pool's back; fake streams fail every MsgSend/MsgRecv once Close was called, as drpc streams do")
    ctx.assume("initial tags of a stream are duplicate free")


def run_multiqueue(ctx, thorough, mc=True):
    if mc and not os.environ.get("VERIF_C19_SKIP_MC"):
        ctx.tlc_expect_ok("streampool", "MultiQueue", "MultiQueue_mc_t.cfg" if thorough else "MultiQueue_mc.cfg",
                          coverage=True, timeout=3000, workers=min(8, ctx.cores), name="mc:multiqueue")
        ctx.tlc_expect_ok("streampool", "MultiQueue", "MultiQueue_live.cfg", timeout=1500, workers=min(8, ctx.cores),
                          name="mc:multiqueue-liveness")
    trace = os.path.join(ctx.scratch, "mq-trace.ndjson")
    rep = go_test(ctx, "./streampool", run="TestMultiQueue$", env={"VERIF_TRACE_OUT": trace, "VERIF_RUNS": 150 if thorough else 25,
                                                                  "VERIF_RUN_LEN": 80 if thorough else 60}, timeout=2400)
    if rep.get("violations"):
        ctx.log("violations during the multiqueue runs; trace validation of the partial trace skipped")
        return
    validate_trace(ctx, "MultiQueueTrace", "MultiQueueTrace.cfg", trace, "trace-validation (multiqueue)", "multiqueue",
                   lambda: open(trace).read().splitlines())
    ctx.cov["trace_events_validated"] = ctx.cov.get("trace_events_validated", 0) + int(rep["extra"].get("mq_trace_events", 0))
    run_sync_wiring(ctx)


def run_sync_wiring(ctx):
    """commonspace/sync wires the multiqueue behind HandleMessage (queue size 100, overflow swallowed):
    scenario test injected into the package (uses its own test fixture)."""
    go_test(ctx, "./commonspace/sync/", run="TestVerifC19HandleMessage$", in_repo=True, timeout=900,
                overlay={"commonspace/sync/zz_verif_c19_test.go": os.path.join(VERIF, "harness", "inpkg", "sync", "zz_verif_c19_test.go")},
                name="commonspace/sync HandleMessage (overlay)")


def run_traces(ctx, thorough):
    # 3a. gated random driver -> action-level trace
    trace = os.path.join(ctx.scratch, "sp-trace.ndjson")
    rep = go_test(ctx, "./streampool", run="TestRecord$", env={"VERIF_TRACE_OUT": trace, "VERIF_RUNS": 120 if thorough else 25,
                                                              "VERIF_RUN_LEN": 100 if thorough else 80}, timeout=2400)
    n_events = int(rep["extra"].get("trace_events", 0))
    if rep.get("violations"):
        ctx.log("violations during recording; trace validation of the partial trace skipped")
    else:
        validate_trace(ctx, "StreamPoolTrace", "StreamPoolTrace.cfg", trace, "trace-validation (gated driver)", "gated",
                       lambda: open(trace).read().splitlines())
    # 3b. free-running concurrent executions -> hook-level trace
    raw = os.path.join(ctx.scratch, "sp-hook.ndjson")
    rep2 = go_test(ctx, "./streampool", run="TestStress$", env={"VERIF_TRACE_OUT": raw, "VERIF_RUNS": 200 if thorough else 40,
                                                              "VERIF_RUN_LEN": 30 if thorough else 25}, timeout=2400)
    n2, pools2, _ = validate_hook_trace(ctx, raw, "trace-validation (free-running, hooks)", "free-running")
    n_events += n2
    ctx.cov["traces_validated_against_impl"] += 0  # counted by the harness reports (one per run)
    # 3c. the repository's own streampool tests, built with the hooks
    raw3 = os.path.join(ctx.scratch, "sp-repotests.ndjson")
    rc, out = record_repo_tests(ctx, raw3)
    n3, pools3, ok3 = validate_hook_trace(ctx, raw3, "trace-validation (repository tests, hooks)", "repo-tests")
    n_events += n3
    ctx.cov["traces_validated_against_impl"] += pools3
    ctx.cov["trace_events_validated"] = n_events
    ctx.cov["repo_tests_exit"] = rc
    if rc != 0:
        ctx.notes.append("the repository's own streampool tests failed with -tags verif (exit %d); their trace was still validated" % rc)
        ctx.log("note: repository streampool tests exit %d\n%s" % (rc, out[-1500:]))
