"""C18 - all participants agree on which nodes are responsible for a space.

spec/nodeconf/NodeConf.tla (thin by design: the consistent-hash ring is an uninterpreted function
constrained by RingContract).  TLC: every configuration of <= 4 (quick) / 5 (thorough) nodes with
every type mix, every viewpoint; a dynamic instance with Boot / Update / Restart.
Binding: every configuration TLC enumerated (NodeConfGen) plus random ones up to 12 nodes are built
as real nodeconf services (one per participant, exported constructor, stub source/store); property
predicates evaluated in Go on every answer; a sample of the answers plus the dynamic scenarios are
recorded and validated against NodeConfTrace.tla (ring/partition values taken from the first answer,
every invariant of NodeConf evaluated on every recorded answer)."""
import json
import os
import re

LEVEL = "model_checking"

OVERLAY = {"nodeconf/zz_verif_nodeconf_race_test.go": "harness/inpkg/nodeconf/zz_verif_nodeconf_race_test.go"}


def broken(msg):
    from vf import CheckBroken
    return CheckBroken(msg)


def write_header(trace):
    nodes, cids = set(), set()
    for line in open(trace):
        if '"ev":"Net"' not in line:
            continue
        o = json.loads(line)
        for c, ns in o["confs"].items():
            cids.add(c)
            nodes.update(ns)
    with open(trace + ".hdr", "w") as fh:
        fh.write(json.dumps({"ev": "Hdr", "nodes": sorted(nodes), "confIds": sorted(cids)}) + "\n")


def replay_for_line(lines, n):
    """replay object (format of harness/nodeconf TestReplay) for trace line n (1-based)."""
    x = json.loads(lines[n - 1])
    net = None
    ids = []          # all ids of the epoch with the same suffix, in order of appearance (the failing one last)
    for i in range(n - 1, -1, -1):
        o = json.loads(lines[i])
        if o["ev"] == "Net":
            net = o
            break
        if o["ev"] == "Query" and x.get("ev") == "Query" and o["space"][-1] == x["space"][-1]:
            sid = ".".join(o["space"])
            if sid not in ids:
                ids.insert(0, sid)
    if net is None or x.get("ev") != "Query":
        return {"trace_tail": lines[max(0, n - 5):n]}

    def conf(cid):
        return {"id": cid, "nodes": [{"id": k, "types": ["coordinator" if t == "coord" else t for t in ent], "addrs": v["a"]}
                                     for k, v in sorted(net["confs"][cid].items()) for ent in v["t"]]}
    cids = sorted(net["confs"])
    if net.get("kind") == "race":
        return {"race": True}
    if net.get("kind") == "dynamic":
        return {"dynamic": True, "c1": conf(net["c1"]), "c2": conf(net["c2"])}
    main = x["cid"] if x["cid"] in net["confs"] else cids[0]
    other = [c for c in cids if c != main]
    return {"conf": conf(main), "variant": conf(other[0]) if other else {"id": "", "nodes": []},
            "groups": [{"Key": x["space"][-1], "Ids": ids}]}


def validate_trace(ctx, trace, name, timeout):
    write_header(trace)
    tv = ctx.tlc("nodeconf", "NodeConfTrace", "NodeConfTrace.cfg", workers=1, env={"VERIF_TRACE": trace},
                 timeout=timeout, count=False, name=name, extra=["-noGenerateSpecTE", "-difftrace"])
    if tv.timed_out:
        raise broken("trace validation timed out (%s)" % name)
    return tv


def report_trace(ctx, tv, trace):
    if tv.ok:
        return
    lines = open(trace).read().splitlines()
    if tv.error == "invariant":
        ls = re.findall(r"^/\\ l = (\d+)", tv.out, re.M)
        n = int(ls[-1]) - 1 if ls else -1
        ev = lines[n - 1] if 0 < n <= len(lines) else "?"
        who = ""
        try:
            who = "/" + ("client" if json.loads(ev)["p"] == "client" else "node")
        except Exception:
            pass
        ctx.violation("trace-invariant-%s%s" % (tv.error_name, who),
                      "an answer recorded from a real nodeconf service violates %s of NodeConf.tla (trace line %d): %s"
                      % (tv.error_name, n, ev[:600]), replay_for_line(lines, n) if n > 0 else None)
        return
    if "TRACE-REJECTED-AT-LINE" in tv.out:
        m = re.search(r'TRACE-REJECTED-AT-LINE", (\d+)', tv.out)
        n = int(m.group(1)) if m else -1
        # every property predicate is an invariant; an unexplained life-cycle line is a harness/spec problem
        raise broken("recorded trace is not a behaviour of NodeConfTrace at line %d: %s" % (
            n, lines[n - 1][:400] if 0 < n <= len(lines) else "?"))
    raise broken("trace validation failed to run:\n" + tv.out[-3000:])


def self_test(ctx, trace):
    """binding self-test: one corrupted answer must be rejected by the trace spec."""
    lines = open(trace).read().splitlines()
    # find a Query by a responsible node and (a) add the node to its own peer list, (b) alter the members of a later answer
    variants = []
    for i, line in enumerate(lines):
        o = json.loads(line)
        if o["ev"] == "Query" and o["resp"] and len(o["members"]) >= 1:
            o2 = dict(o)
            o2["nodeIds"] = o["nodeIds"] + [o["p"]]
            o2["nn"] = len(o2["nodeIds"])
            variants.append(("self-listed", i, o2, "SelfExclusion"))
            break
    seen = set()
    for i, line in enumerate(lines):
        o = json.loads(line)
        if o["ev"] == "Net":
            seen = set()
            pool = sorted(set(k for c in o["confs"].values() for k, v in c.items() if any("tree" in ent for ent in v["t"])))
        if o["ev"] == "Query":
            key = (o["cid"], o["space"][-1])
            cand = [p for p in pool if p not in o["members"]]
            if key in seen and len(o["members"]) >= 1 and cand:
                o2 = dict(o)
                repl = cand[0]
                o2["members"] = [repl] + o["members"][1:]
                o2["nodeIds"] = [m for m in o2["members"] if m != o["p"]]
                o2["nn"] = len(o2["nodeIds"])
                o2["resp"] = o["p"] in o2["members"]
                variants.append(("other-members", i, o2, "Agreement"))
                break
            seen.add(key)
    if len(variants) < 2:
        raise broken("binding self-test: no suitable answers in the trace")
    for nm, i, o2, want in variants:
        path = os.path.join(ctx.scratch, "selftest-%s.ndjson" % nm)
        start = max(k for k in range(i + 1) if '"ev":"Net"' in lines[k])      # the epoch of the corrupted answer only
        with open(path, "w") as fh:
            fh.write("\n".join(lines[start:i] + [json.dumps(o2)] + lines[i + 1:i + 40]) + "\n")
        tv = validate_trace(ctx, path, "binding-selftest-" + nm, 900)
        if tv.error != "invariant" or tv.error_name != want:
            raise broken("binding self-test %s: corrupted trace was not rejected by %s (got %s %s)" % (
                nm, want, tv.error, tv.error_name))
        ctx.log("binding self-test %s: corrupted answer rejected by %s" % (nm, want))
    ctx.cov["binding_selftests"] = len(variants)


def run(ctx):
    thorough = ctx.tier == "thorough"
    verif = os.path.dirname(os.path.dirname(os.path.abspath(__file__)))
    overlay = {k: os.path.join(verif, v) for k, v in OVERLAY.items()}
    if ctx.replay:
        rp = json.load(open(ctx.replay)).get("replay") or {}
        if isinstance(rp, dict) and rp.get("race"):
            ctx.go_test("./nodeconf/", run="TestVerifNodeconfRace$", in_repo=True, tags=None, overlay=overlay)
        else:
            ctx.go_test("./nodeconf", run="TestReplay$")
        return
    # 1. the contract implies the property: all configurations, all viewpoints
    if not os.environ.get("VERIF_DEV_SKIP_MC"):   # development aid only (mutant runs)
        # (static instance: the life-cycle actions are disabled by construction, so coverage is taken on the dynamic one)
        ctx.tlc_expect_ok("nodeconf", "NodeConfMC", "NodeConf_mc_t.cfg" if thorough else "NodeConf_mc.cfg",
                          timeout=3000, workers=min(8, ctx.cores))
        # (coverage is taken on the race instance, which takes every action incl. the two-step lookups)
        ctx.tlc_expect_ok("nodeconf", "NodeConfMC", "NodeConf_dyn.cfg" if thorough else "NodeConf_dyn_q.cfg",
                          timeout=3000, workers=min(8, ctx.cores))
        if thorough:   # lookups in two steps (read lock held) interleaved with the life cycle
            ctx.tlc_expect_ok("nodeconf", "NodeConfMC", "NodeConf_race.cfg", coverage=True, timeout=3000, workers=min(8, ctx.cores))
    # 2. spec -> code: every enumerated configuration is built from real services
    emit = os.path.join(ctx.scratch, "emit")
    os.makedirs(emit)
    ctx.tlc_expect_ok("nodeconf", "NodeConfGen", "NodeConfGen_t.cfg" if thorough else "NodeConfGen_q.cfg", workers=1,
                      env={"VERIF_EMIT_DIR": emit}, timeout=1500, count=False)
    if not os.listdir(emit):
        raise broken("no configurations emitted")
    t1 = os.path.join(ctx.scratch, "nodeconf-static.ndjson")
    rep = ctx.go_test("./nodeconf", run="TestConfigs$", timeout=2400,
                      env={"VERIF_CONFS": emit, "VERIF_TRACE_OUT": t1,
                           "VERIF_RANDOM": 60 if thorough else 10,
                           "VERIF_IDS": 300 if thorough else 40,
                           "VERIF_TRACE_IDS": 16 if thorough else 6})
    ev1 = rep["extra"].get("trace_events", 0)
    t2 = os.path.join(ctx.scratch, "nodeconf-dynamic.ndjson")
    rep2 = ctx.go_test("./nodeconf", run="TestDynamic$", timeout=1200,
                       env={"VERIF_TRACE_OUT": t2, "VERIF_DYN": 40 if thorough else 6})
    ev2 = rep2["extra"].get("trace_events", 0)
    # lookups concurrent with a configuration update (in-package: the active NodeConf is wrapped by a gate)
    t3 = os.path.join(ctx.scratch, "nodeconf-race.ndjson")
    rep3 = ctx.go_test("./nodeconf/", run="TestVerifNodeconfRace$", in_repo=True, tags=None, overlay=overlay, timeout=1800,
                       env={"VERIF_TRACE_OUT": t3, "VERIF_RACE_SCENARIOS": 96 if thorough else 24},
                       name="lookups concurrent with an update (in-package)")
    ev3 = rep3["extra"].get("trace_events", 0)
    ctx.go_test("./nodeconf", run="TestBulk$", timeout=2400,
                env={"VERIF_BULK_IDS": 30000 if thorough else 2500, "VERIF_BULK_CONFS": 4 if thorough else 2})
    # 3. code -> spec: recorded answers validated (static epochs and dynamic scenarios in one file)
    trace = os.path.join(ctx.scratch, "nodeconf-trace.ndjson")
    with open(trace, "w") as fh:
        fh.write(open(t1).read())
        fh.write(open(t2).read())
        fh.write(open(t3).read())
    tv = validate_trace(ctx, trace, "trace-validation", 3000)
    ctx.cov["trace_events_validated"] = ev1 + ev2 + ev3
    if "TRACE-DRIFT-UPDATE-DURING-LOOKUP" in tv.out:
        n = tv.out.count("TRACE-DRIFT-UPDATE-DURING-LOOKUP")
        ctx.cov["drift"] += n
        ctx.notes.append("drift: %d updates were applied while a lookup was in flight (the model's lock forbids it)" % n)
    report_trace(ctx, tv, trace)
    if thorough and tv.ok:
        self_test(ctx, trace)
    ctx.assume("the consistent-hash library (go-chash) is not modelled: it is an uninterpreted function constrained by "
               "RingContract; that it is a deterministic function of (member set, key) is established by observation of the "
               "real services, not by proof")
    ctx.assume("participants that merged application-configured coordinator nodes into a stored configuration (id \"-1\") "
               "hold a private configuration and are outside 'the same configuration' (Dev_MergeCoordinators)")
