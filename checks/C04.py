"""C04 - ACL privilege rules cannot be bypassed by any constructible record.

spec/acl/Acl.tla: transcription of validator.go / aclstate.go (Step) + the privilege predicates.
  1. TLC, exhaustive: [][CodeStep => Props]_vars + OneOwner for every record sequence up to the depth bound,
     single-content records (account sets A, B[, D]) and 2-content batches; candidate pruning justified by PruneSound.
  2. TLC on the "as-is" instances (one validator gap left open each): must find the gap; the counterexample is
     executed on the real list (reproduces on an unrepaired tree, refused on a repaired one).
  3. Binding: TLC emits model states (exhaustive near the start state + seeded random deep ones) with the verdict
     of every alphabet record; the harness renders every selected edge as a raw signed record and submits it to
     a real, fully validating AclList; oracles = the predicates on the real pre/post AclState."""
import importlib.util
import os

LEVEL = "model_checking"


def _helper():
    p = os.path.join(os.path.dirname(os.path.dirname(os.path.abspath(__file__))), "spec", "acl", "aclcheck.py")
    spec = importlib.util.spec_from_file_location("aclcheck", p)
    m = importlib.util.module_from_spec(spec)
    spec.loader.exec_module(m)
    return m


def run(ctx):
    h = _helper()
    thorough = ctx.tier == "thorough"
    if ctx.replay:
        h.replay(ctx, "TestReplay$")
        return
    emit_root = os.path.join(ctx.scratch, "emit")
    J = []  # independent TLC jobs, run concurrently (each is its own JVM)

    def job(f, *a, **kw):
        J.append(lambda: f(ctx, *a, **kw))
    # ---- 1. the design level: do the validator's guards imply the privilege rules?
    # (TLC's -coverage instrumentation does not terminate on this module - one cost-model node per call path -
    #  so non-vacuity is established from the generator's output instead: h.nonvacuous)
    job(h.mc, "rules-A", "Acl_mc_A.cfg", SET="A", MaxDepth=3 if thorough else 2, workers=4, timeout=3000)
    job(h.mc, "prune-A", "Acl_mc_prune.cfg", SET="A", MaxDepth=1 if thorough else 0)
    job(h.mc, "rules-B", "Acl_mc_A.cfg", SET="B", MaxDepth=2 if thorough else 1, timeout=3000)
    job(h.mc, "batch-A", "Acl_mc_batch.cfg", SET="A", MaxDepth=1 if thorough else 0, workers=4 if thorough else 2, timeout=3000)
    if thorough:
        job(h.mc, "rules-D", "Acl_mc_A.cfg", SET="D", MaxDepth=4, workers=4, timeout=3000)
        job(h.mc, "batch-B", "Acl_mc_batch.cfg", SET="B", MaxDepth=0, timeout=3000)
    # ---- 2. the validator as it was found: TLC must find each gap; counterexamples go to the real list
    # (the "no permission" guard of the repair subsumes the "join request" guard for every reachable member, so the
    #  removal-request route shows with both guards off, the stale-join-request route with only the second one off)
    job(h.asis, "accept-any-request-kind", ["Rules"], SET="A", MaxDepth=1, FIX_ACCEPT_KIND=False, FIX_ACCEPT_NOPERM=False)
    job(h.asis, "guest-may-own", ["Rules"], SET="B", MaxDepth=0, FIX_OWNER_NOT_GUEST=False)
    job(h.asis, "accept-stale-request", ["Rules", "OneOwner"], SET="E", MaxDepth=3, FIX_ACCEPT_NOPERM=False, timeout=1800)
    # ---- 3. spec -> code: model states with verdicts
    if thorough:
        job(h.emit, "A", "AclGen.cfg", SET="A", GenDepth=2, FullDepth=1, BatchDepth=1, timeout=3000)
        job(h.emit, "B", "AclGen.cfg", SET="B", GenDepth=1, FullDepth=1, BatchDepth=0, timeout=3000)
        job(h.emit, "D", "AclGen.cfg", SET="D", GenDepth=2, FullDepth=2, BatchDepth=0, timeout=3000)
        job(h.emit, "A-deep", "AclGen.cfg", SET="A", SimDepth=4, SimSample=8, simulate=40, depth=5, timeout=3000)
        job(h.emit, "B-deep", "AclGen.cfg", SET="B", SimDepth=5, SimSample=8, simulate=40, depth=6, timeout=3000)
    else:
        job(h.emit, "D", "AclGen.cfg", SET="D", GenDepth=2, FullDepth=2, BatchDepth=0)
        # set A (two admins + writer) with the verdict of the WHOLE alphabet also in every depth-1 state: admin-vs-admin
        # and admin-vs-member records against an account with a pending request (leaving member, joiner) are judged
        # edge by edge (guard vectors), not only sampled
        job(h.emit, "A", "AclGen.cfg", SET="A", GenDepth=1, FullDepth=1, BatchDepth=0)
        job(h.emit, "B-deep", "AclGen.cfg", SET="B", SimDepth=4, SimSample=8, simulate=6, depth=5)
    h.parallel(ctx, J)
    h.replay(ctx, "TestCounterexamples$", VERIF_CEX=os.path.join(ctx.scratch, "cex"))
    h.nonvacuous(ctx, emit_root)
    h.replay(ctx, "TestReplay$", VERIF_BEHAVIOURS=emit_root)
    ctx.assume("key ciphertexts carried by records are well-formed (they encrypt the then-current read key); "
               "what varies freely is who they are addressed to and every other field")
    ctx.assume("invite and request ids are record ids (hashes): a content cannot name an invite/request created by its own record")
    ctx.cov["rule"] = ("cases = raw signed records submitted to a real fully validating AclList (ValidateRawRecord, accepted ones "
                       "also AddRawRecord on a fork); distinct = depth x content kind x outcome classes")
