"""C10 - tree and ACL persistence is all-or-nothing under crashes and storage faults.

spec/persist/Persist.tla: durable state, transaction stack, live objects; every operation is the
sequence of storage calls the code issues, one spec step per call, fates ok | error | crash.
  1. exhaustive TLC runs of the repaired model (all invariants; coverage in the thorough tier),
  2. the deviations (unrepaired behaviours + two seeded mutants) must each still be caught by TLC -
     a model that no longer distinguishes them has lost its teeth (exit 2, never 1),
  3. PersistGen.tla writes one behaviour per transition class (state between operations, operation,
     boundary, fate, fault points of the two operations before); harness/persist replays them on the
     real storage stack behind a proxy any-store database (recorded call sequences are compared with
     the spec's programs; crash images are reopened with the real constructors),
  4. the same-handle retry of spacestorage.Create (a listed known finding; end of TestReplay),
  5. PersistTrace.tla validates logs recorded from random, larger runs of the real code (3 trees, 9 changes,
     3 ACL records, up to 3 faults per run) and of one AddRawChanges with a chain of 65 changes; in the thorough
     tier corrupted logs must be rejected,
  6. batch size: one AddRawChanges with 1, 2, 65, 130 (thorough: 300) changes on an eager and on a deferred tree
     storage, fault at every (large: every non-insert and sampled insert) boundary (end of TestReplay).
The TLC jobs are independent and run side by side."""
import glob
import json
import os
import re
import shutil
import subprocess
import threading
import time
from concurrent.futures import ThreadPoolExecutor

LEVEL = "model_checking"

DEVIATIONS = ["FIX_NamedResult", "FIX_AclWriteFirst", "FIX_DeferredReset", "FIX_LocalRollback", "FIX_DeleteAfter",
              "FIX_NotifyAfterCommit", "FIX_ValidateFirst", "DEV_HeadsOutsideTx", "DEV_SpaceTwoTx", "DEV_SplitBatch", "DEV_AclBatchOneTx"]

_lock = threading.Lock()


def broken(msg):
    from vf import CheckBroken
    return CheckBroken(msg)


def ptlc(ctx, name, module, cfg, workers=1, env=None, timeout=1500, coverage=False, count=False, heap=None):
    """ctx.tlc for jobs that run side by side (own scratch directory per job, bookkeeping under a lock)."""
    from vf import TlcResult, parse_tlc, VERIF
    src = os.path.join(VERIF, "spec", "persist")
    wd = os.path.join(ctx.scratch, "ptlc-" + re.sub(r"[^A-Za-z0-9_.-]+", "_", name))
    os.makedirs(wd)
    for f in os.listdir(src):
        if os.path.isfile(os.path.join(src, f)):
            shutil.copy(os.path.join(src, f), wd)
    for f in glob.glob(os.path.join(VERIF, "lib", "tla", "*.tla")):
        shutil.copy(f, wd)
    cmd = ["java", "-XX:+UseParallelGC", "-Xss64m"]
    if heap:
        cmd.append("-Xmx%s" % heap)
    cmd += ["-cp", "/opt/veriftools/tla/tla2tools.jar:/opt/veriftools/tla/CommunityModules-deps.jar", "tlc2.TLC",
            "-metadir", os.path.join(wd, "meta"), "-config", cfg, "-workers", str(workers)]
    if coverage:
        cmd += ["-coverage", "1"]
    cmd.append(module)
    e = dict(os.environ)
    e.update({k: str(v) for k, v in (env or {}).items()})
    res = TlcResult()
    res.workdir = wd
    t = time.time()
    try:
        p = subprocess.run(cmd, cwd=wd, env=e, stdout=subprocess.PIPE, stderr=subprocess.STDOUT, timeout=timeout,
                           text=True, errors="replace")
        res.exit, res.out = p.returncode, p.stdout
    except subprocess.TimeoutExpired as ex:
        res.timed_out, res.exit = True, -1
        res.out = (ex.stdout or b"").decode("utf8", "replace") if isinstance(ex.stdout, bytes) else (ex.stdout or "")
        subprocess.run(["pkill", "-f", wd], check=False)
    res.wall = time.time() - t
    parse_tlc(res.out, res)
    run = {"name": name, "generated": res.generated, "distinct": res.distinct, "depth": res.depth,
           "wall_s": round(res.wall, 2), "mode": "exhaustive", "error": res.error, "error_name": res.error_name,
           "timed_out": res.timed_out}
    if coverage:
        run["uncovered_actions"] = res.uncovered_actions()
        run["actions_covered"] = len([a for a, (d, g) in res.coverage.items() if g > 0])
    with _lock:
        ctx.cov["tlc_runs"].append(run)
        if count:
            ctx.cov["states"] += res.distinct
            ctx.cov["transitions"] += res.generated
        ctx.log("tlc %s: %d generated / %d distinct, depth %d, %.1fs, error=%s %s%s" % (
            name, res.generated, res.distinct, res.depth, res.wall, res.error, res.error_name or "",
            " TIMEOUT" if res.timed_out else ""))
    return res


def expect_ok(res, name, coverage=False):
    if res.timed_out:
        raise broken("TLC timed out: %s" % name)
    if not res.ok:
        raise broken("MODEL-ERROR: TLC reported %s %s on the specification alone (%s)\n%s" % (
            res.error, res.error_name, name, "\n".join(res.out.splitlines()[-60:])))
    if coverage:
        unc = [a for a in res.uncovered_actions() if not a.startswith("Dev_")]
        if unc:
            raise broken("vacuous model run, actions never taken: %s" % unc)
    return res


def validate_trace(ctx, trace, runs, selftest, cfg="PersistTrace.cfg", name="trace-validation"):
    """code -> spec: PersistTrace.tla checks that the recorded log is a behaviour of Persist and evaluates
    every invariant on every observed state."""
    tv = ptlc(ctx, name, "PersistTrace", cfg, env={"VERIF_TRACE": trace}, timeout=2400)
    lines = open(trace).read().splitlines()
    if tv.timed_out or (tv.error and tv.error not in ("invariant", "other")):
        raise broken("trace validation did not run: %s\n%s" % (tv.error, tv.out[-3000:]))
    if tv.error == "invariant":
        # an invariant of the design fails on a state the real code produced
        m = re.findall(r"/\\ l = (\d+)", tv.out)
        line = int(m[-1]) - 1 if m else -1
        opline = next((l for l in reversed(lines[:max(line, 0)]) if '"ev":"start"' in l), "?")
        kind = re.search(r'"kind":"(\w+)"', opline)
        with _lock:
            ctx.violation("trace-invariant:%s:%s" % (tv.error_name, kind.group(1) if kind else "?"),
                          "recorded trace violates %s at event %d (operation %s)" % (tv.error_name, line, opline),
                          {"recorded_run": -1, "seed": ctx.seed, "runs": runs, "trace_line": line,
                           "events": lines[max(0, line - 25):line]})
    elif tv.error == "other" or not tv.ok:
        m = re.search(r"TRACE-REJECTED-AT-LINE\", (\d+)", tv.out)
        if not m:
            raise broken("trace validation failed to run:\n" + tv.out[-3000:])
        line = int(m.group(1))
        # the code took a step the spec does not predict; no property predicate failed on it (the driver
        # evaluates those itself): drift, reported in the evidence, not a violation
        with _lock:
            ctx.cov["drift"] += 1
            ctx.notes.append("trace rejected at event %d: %s" % (line, lines[line - 1] if 0 < line <= len(lines) else "?"))
            ctx.log("DRIFT trace rejected at event %d: %s" % (line, lines[line - 1][:300] if 0 < line <= len(lines) else "?"))
    if selftest:
        binding_selftest(ctx, lines)


def binding_selftest(ctx, lines):
    """a corrupted log must be rejected (otherwise the trace spec binds nothing: exit 2)"""
    # 1. the heads update after the commit (two transactions where the spec has one)
    c1, done = list(lines), False
    for i in range(2, len(lines) - 1):
        a, b = json.loads(lines[i]), json.loads(lines[i + 1])
        if a.get("name") == "upsert:heads" and b.get("name") == "commit" and json.loads(lines[i - 1]).get("name") == "insert:changes":
            c1[i], c1[i + 1] = lines[i + 1], lines[i]
            done = True
            break
    # 2. one stored change dropped from an observed durable state
    c2, done2 = list(lines), False
    for i, l in enumerate(lines):
        e = json.loads(l)
        if e.get("ev") == "end" and e["res"] == "ok" and len(e["disk"]["stored"]) > 2:
            e["disk"]["stored"] = e["disk"]["stored"][:-1]
            c2[i] = json.dumps(e)
            done2 = True
            break
    for name, cor, ok in (("calls-swapped", c1, done), ("state-corrupted", c2, done2)):
        if not ok:
            continue
        path = os.path.join(ctx.scratch, "trace-%s.ndjson" % name)
        open(path, "w").write("\n".join(cor) + "\n")
        tv = ptlc(ctx, "binding-selftest " + name, "PersistTrace", "PersistTrace.cfg", env={"VERIF_TRACE": path}, timeout=1200)
        if "TRACE-REJECTED-AT-LINE" not in tv.out and tv.error != "invariant":
            raise broken("binding self-test: the corrupted trace (%s) was accepted" % name)
    ctx.cov["binding_selftest"] = "corrupted traces rejected"


def record(ctx, runs):
    trace = os.path.join(ctx.scratch, "persist-trace.ndjson")
    rep = ctx.go_test("./persist", run="TestRecord$", timeout=1500,
                      env={"VERIF_TRACE_OUT": trace, "VERIF_RUNS": runs, "VERIF_TRACE_OUT_LARGE": trace + ".large"})
    ctx.cov["trace_events_validated"] = rep["extra"].get("trace_events", 0) + rep["extra"].get("trace_events_large", 0)
    return trace


def record_and_validate(ctx, runs, selftest):
    trace = record(ctx, runs)
    # the long batch (65 changes in one AddRawChanges: one begin ... one commit) with a larger id space, side by side
    with ThreadPoolExecutor(max_workers=2) as ex:
        a = ex.submit(validate_trace, ctx, trace, runs, selftest)
        b = ex.submit(validate_trace, ctx, trace + ".large", runs, False, "PersistTraceL.cfg", "trace-validation-large-batch")
        a.result()
        b.result()


def run(ctx):
    thorough = ctx.tier == "thorough"
    runs = 200 if thorough else 20
    if ctx.replay:
        rp = (json.load(open(ctx.replay)).get("replay") or {})
        if "recorded_run" in rp:
            ctx.seed = int(rp.get("seed", ctx.seed))
            record_and_validate(ctx, int(rp.get("runs", runs)), False)
        else:
            ctx.go_test("./persist", run="TestReplay$", timeout=600)
        return
    workers = min(ctx.cores, 12)
    reuse = os.environ.get("VERIF_C10_EMIT")      # development only: replay an existing behaviour directory, no TLC
    if reuse:
        ctx.go_test("./persist", run="TestReplay$", timeout=3000,
                    env={"VERIF_BEHAVIOURS": reuse, "VERIF_WORKERS": workers, "VERIF_MAX_BEHAVIOURS": 0 if thorough else 450})
        ctx.cov["states"] = ctx.cov["transitions"] = 1
        return

    emit = os.path.join(ctx.scratch, "emit")
    os.makedirs(emit)
    jobs = []   # (name, thunk)
    # 1. the design: repaired model, exhaustive
    jobs.append(("mc", lambda: expect_ok(ptlc(ctx, "persist/Persist:Persist_mc.cfg", "Persist", "Persist_mc.cfg", workers=4,
                                              coverage=thorough, count=True), "Persist_mc", thorough)))
    # the ACL log alone with batches of 1-3 records (AddRawRecords), two faults
    jobs.append(("mc_acl", lambda: expect_ok(ptlc(ctx, "persist/Persist:Persist_mc_acl.cfg", "Persist", "Persist_mc_acl.cfg",
                                                  workers=2, count=True), "Persist_mc_acl")))
    if thorough:
        # two faults in one behaviour (error during the retry, crash after an error, ...); a larger universe
        jobs.append(("mc_f2", lambda: expect_ok(ptlc(ctx, "persist/Persist:Persist_mc_f2.cfg", "Persist", "Persist_mc_f2.cfg",
                                                     workers=4, count=True, timeout=3000), "Persist_mc_f2")))
        jobs.append(("mc_t", lambda: expect_ok(ptlc(ctx, "persist/Persist:Persist_mc_t.cfg", "Persist", "Persist_mc_t.cfg",
                                                    workers=8, count=True, timeout=7000, heap="16g"), "Persist_mc_t")))
        jobs.append(("fix_notify", lambda: expect_ok(ptlc(ctx, "persist/Persist:Persist_fix_NotifyAfterCommit.cfg", "Persist",
                                                          "Persist_fix_NotifyAfterCommit.cfg", workers=2), "fix_NotifyAfterCommit")))
    # 2. every deviation is still visible to TLC (sensitivity of the model, not a verdict on the code)
    devs = DEVIATIONS if thorough else [DEVIATIONS[(ctx.seed + k) % len(DEVIATIONS)] for k in (0, 3)]
    caught = {}

    def dev(d):
        r = ptlc(ctx, "deviation %s" % d, "Persist", "Persist_dev_%s.cfg" % d, workers=2, timeout=900)
        if r.timed_out or r.error != "invariant":
            raise broken("deviation %s is not caught by the model any more (TLC: %s %s)" % (d, r.error, r.error_name))
        caught[d] = r.error_name
    for d in devs:
        jobs.append(("dev-" + d, lambda d=d: dev(d)))
    # 3a. behaviour generation: two small universes in the quick tier (2 trees x 1 change x 1 ACL record: creation,
    #     deferred creation, ACL, delete; 1 tree x 2 changes: batches, snapshots, reduction, rebuild), one larger
    #     universe (2 trees x 2 changes) and the 1-tree universe with two faults per behaviour in the thorough tier;
    #     q3 = the ACL log alone, 3 records: AddRawRecord and AddRawRecords batches of 1-3 records
    gens = ([("PersistGen_t.cfg", "t"), ("PersistGen_f2.cfg", "f2"), ("PersistGen_q3.cfg", "q3")] if thorough
            else [("PersistGen_q.cfg", "q"), ("PersistGen_q2.cfg", "q2"), ("PersistGen_q3.cfg", "q3")])
    for cfg, tag in gens:
        d = os.path.join(emit, tag)
        os.makedirs(d)
        jobs.append(("gen-" + tag, lambda cfg=cfg, d=d: expect_ok(
            ptlc(ctx, "persist/PersistGen:" + cfg, "PersistGen", cfg, workers=1, env={"VERIF_EMIT_DIR": d},
                 timeout=5000, heap="12g" if thorough else None), cfg)))
    # 5a. the recorded run of the real code (Go) also runs meanwhile; its validation follows
    jobs.append(("record", lambda: record_and_validate(ctx, runs, thorough)))

    errors = []
    with ThreadPoolExecutor(max_workers=len(jobs)) as ex:
        futs = {name: ex.submit(th) for name, th in jobs}
        for name, f in futs.items():
            try:
                f.result()
            except Exception as e:  # noqa - all jobs are awaited, the first error is raised below
                errors.append((name, e))
    if errors:
        raise errors[0][1]
    ctx.cov["deviations_caught_by_tlc"] = caught

    # 3b. spec -> code and code -> spec: behaviours replayed behind the proxy database
    total, dirs, limits = 0, [], []
    for _, tag in gens:
        d = os.path.join(emit, tag)
        n = len(os.listdir(d))
        if n == 0:
            raise broken("no behaviours emitted (%s)" % tag)
        total += n
        dirs.append(d)
        limits.append(str({"t": 5000, "f2": 2000, "q": 220, "q2": 160, "q3": 0 if thorough else 120}[tag]))
    ctx.go_test("./persist", run="TestReplay$", timeout=4000,
                env={"VERIF_BEHAVIOURS": os.pathsep.join(dirs), "VERIF_WORKERS": workers,
                     "VERIF_MAX_BEHAVIOURS": os.pathsep.join(limits)})
    ctx.cov["behaviours_emitted"] = total

    ctx.assume("SQLite / any-store commit a transaction atomically and recover a copied db + wal + shm file set to the last committed state")
    ctx.assume("an injected Commit error means nothing was committed (the proxy rolls the real transaction back)")
    ctx.assume("faults are injected into mutating storage calls only (begin, savepoint, insert, upsert, delete, create collection/index, commit); read errors are not enumerated")
    ctx.assume("one account, unencrypted changes, valid attachable payloads; the caller holds the tree / ACL lock (no concurrent use of one object)")
