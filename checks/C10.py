"""C10 - tree and ACL persistence is all-or-nothing under crashes and storage faults.

spec/persist/Persist.tla: durable state, transaction stack, live objects; every operation is the
sequence of storage calls the code issues, one spec step per call, fates ok | error | crash.
  1. exhaustive TLC run of the repaired model (all invariants, coverage),
  2. the deviations (unrepaired behaviours + two seeded mutants) must each still be caught by TLC -
     a model that no longer distinguishes them has lost its teeth (exit 2, never 1),
  3. PersistGen.tla writes one behaviour per transition class (state between operations, operation,
     boundary, fate); harness/persist replays them on the real storage stack behind a proxy
     any-store database (recorded call sequences are compared with the spec's programs; crash
     images are reopened with the real constructors),
  4. the same-handle retry of spacestorage.Create (a listed known finding),
  5. PersistTrace.tla validates logs recorded from random, larger runs of the real code (3 trees, 9 changes,
     3 ACL records, up to 3 faults per run); in the thorough tier corrupted logs must be rejected."""
import os

LEVEL = "model_checking"

DEVIATIONS = ["FIX_NamedResult", "FIX_AclWriteFirst", "FIX_DeferredReset", "FIX_LocalRollback", "FIX_DeleteAfter",
              "DEV_HeadsOutsideTx", "DEV_SpaceTwoTx"]


def broken(msg):
    from vf import CheckBroken
    return CheckBroken(msg)


def record_and_validate(ctx, runs, selftest=False):
    """code -> spec: a random driver records the storage calls, results and states of the real code;
    PersistTrace.tla checks that the log is a behaviour of Persist and evaluates every invariant on it."""
    import re
    trace = os.path.join(ctx.scratch, "persist-trace-%d.ndjson" % len(ctx.cov["harness_runs"]))
    rep = ctx.go_test("./persist", run="TestRecord$", env={"VERIF_TRACE_OUT": trace, "VERIF_RUNS": runs}, timeout=1500)
    ctx.cov["trace_events_validated"] = ctx.cov.get("trace_events_validated", 0) + rep["extra"].get("trace_events", 0)
    tv = ctx.tlc("persist", "PersistTrace", "PersistTrace.cfg", workers=1, env={"VERIF_TRACE": trace},
                 timeout=2400, count=False, name="trace-validation")
    lines = open(trace).read().splitlines()
    if tv.timed_out or (tv.error and tv.error not in ("invariant", "other")):
        raise broken("trace validation did not run: %s\n%s" % (tv.error, tv.out[-3000:]))
    if tv.error == "invariant":
        # an invariant of the design fails on a state the real code produced
        m = re.findall(r"/\\ l = (\d+)", tv.out)
        line = int(m[-1]) - 1 if m else -1
        opline = next((l for l in reversed(lines[:max(line, 0)]) if '"ev":"start"' in l), "?")
        kind = re.search(r'"kind":"(\w+)"', opline)
        ctx.violation("trace-invariant:%s:%s" % (tv.error_name, kind.group(1) if kind else "?"),
                      "recorded trace violates %s at event %d (operation %s)" % (tv.error_name, line, opline),
                      {"recorded_run": -1, "seed": ctx.seed, "runs": runs, "trace_line": line,
                       "events": lines[max(0, line - 25):line]})
    elif tv.error == "other" or not tv.ok:
        m = re.search(r"TRACE-REJECTED-AT-LINE\", (\d+)", tv.out)
        if not m:
            raise broken("trace validation failed to run:\n" + tv.out[-3000:])
        line = int(m.group(1))
        # the code took a step the spec does not predict; no property predicate failed on it (the driver
        # evaluates those itself): drift, reported in the evidence, not a violation
        ctx.cov["drift"] += 1
        ctx.notes.append("trace rejected at event %d: %s" % (line, lines[line - 1] if 0 < line <= len(lines) else "?"))
        ctx.log("DRIFT trace rejected at event %d: %s" % (line, lines[line - 1][:300] if 0 < line <= len(lines) else "?"))
    if selftest:
        binding_selftest(ctx, lines)


def binding_selftest(ctx, lines):
    """a corrupted log must be rejected (otherwise the trace spec binds nothing: exit 2)"""
    import json
    # 1. the heads update after the commit (two transactions where the spec has one)
    c1 = list(lines)
    done = False
    for i in range(2, len(lines) - 1):
        a, b = json.loads(lines[i]), json.loads(lines[i + 1])
        if a.get("name") == "upsert:heads" and b.get("name") == "commit" and json.loads(lines[i - 1]).get("name") == "insert:changes":
            c1[i], c1[i + 1] = lines[i + 1], lines[i]
            done = True
            break
    # 2. one stored change dropped from an observed durable state
    c2 = list(lines)
    done2 = False
    for i, l in enumerate(lines):
        e = json.loads(l)
        if e.get("ev") == "end" and e["res"] == "ok" and len(e["disk"]["stored"]) > 2:
            e["disk"]["stored"] = e["disk"]["stored"][:-1]
            c2[i] = json.dumps(e)
            done2 = True
            break
    for name, cor, ok in (("calls-swapped", c1, done), ("state-corrupted", c2, done2)):
        if not ok:
            continue
        path = os.path.join(ctx.scratch, "trace-%s.ndjson" % name)
        open(path, "w").write("\n".join(cor) + "\n")
        tv = ctx.tlc("persist", "PersistTrace", "PersistTrace.cfg", workers=1, env={"VERIF_TRACE": path},
                     timeout=1200, count=False, name="binding-selftest " + name)
        if "TRACE-REJECTED-AT-LINE" not in tv.out and tv.error != "invariant":
            raise broken("binding self-test: the corrupted trace (%s) was accepted" % name)
    ctx.cov["binding_selftest"] = "corrupted traces rejected"


def run(ctx):
    thorough = ctx.tier == "thorough"
    if ctx.replay:
        import json
        rp = (json.load(open(ctx.replay)).get("replay") or {})
        if "recorded_run" in rp:
            ctx.seed = int(rp.get("seed", ctx.seed))
            record_and_validate(ctx, int(rp.get("runs", 200 if thorough else 30)))
        else:
            ctx.go_test("./persist", run="TestReplay$", timeout=600)
        return
    workers = min(ctx.cores, 12)
    reuse = os.environ.get("VERIF_C10_EMIT")      # development only: replay an existing behaviour directory, no TLC
    if reuse:
        ctx.go_test("./persist", run="TestReplay$", timeout=3000,
                    env={"VERIF_BEHAVIOURS": reuse, "VERIF_WORKERS": workers, "VERIF_MAX_BEHAVIOURS": 0 if thorough else 450})
        ctx.cov["states"] = ctx.cov["transitions"] = 1
        return

    # 1. the design: repaired model, exhaustive
    ctx.tlc_expect_ok("persist", "Persist", "Persist_mc.cfg", coverage=thorough, timeout=1500, workers=workers)
    if thorough:
        # two faults in one behaviour (error during the retry, crash after an error, ...)
        ctx.tlc_expect_ok("persist", "Persist", "Persist_mc_f2.cfg", timeout=3000, workers=workers)
        ctx.tlc_expect_ok("persist", "Persist", "Persist_mc_t.cfg", timeout=6000, workers=workers, heap="12g")

    # 2. every deviation is still visible to TLC (sensitivity of the model, not a verdict on the code)
    devs = DEVIATIONS if thorough else [DEVIATIONS[(ctx.seed + k) % len(DEVIATIONS)] for k in (0, 3)]
    caught = {}
    for d in devs:
        r = ctx.tlc("persist", "Persist", "Persist_dev_%s.cfg" % d, timeout=900, workers=4, count=False,
                    name="deviation %s" % d)
        if r.timed_out or r.error != "invariant":
            raise broken("deviation %s is not caught by the model any more (TLC: %s %s)" % (d, r.error, r.error_name))
        caught[d] = r.error_name
    ctx.cov["deviations_caught_by_tlc"] = caught

    # 3. spec -> code and code -> spec: behaviours replayed behind the proxy database
    emit = os.path.join(ctx.scratch, "emit")
    os.makedirs(emit)
    ctx.tlc_expect_ok("persist", "PersistGen", "PersistGen_t.cfg" if thorough else "PersistGen_q.cfg",
                      workers=1, env={"VERIF_EMIT_DIR": emit}, timeout=3000, count=False, heap="8g" if thorough else None)
    n = len(os.listdir(emit))
    if n == 0:
        raise broken("no behaviours emitted")
    ctx.cov["behaviours_emitted"] = n
    env = {"VERIF_BEHAVIOURS": emit, "VERIF_WORKERS": workers}
    if not thorough:
        env["VERIF_MAX_BEHAVIOURS"] = 450
    else:
        env["VERIF_MAX_BEHAVIOURS"] = 4500
    ctx.go_test("./persist", run="TestReplay$", env=env, timeout=3000)
    # (4. the same-handle retry of space creation runs at the end of TestReplay)

    # 5. code -> spec beyond the model-checked bounds: recorded random runs, validated by PersistTrace.tla
    record_and_validate(ctx, 200 if thorough else 20, selftest=thorough)

    ctx.assume("SQLite / any-store commit a transaction atomically and recover a copied db + wal + shm file set to the last committed state")
    ctx.assume("an injected Commit error means nothing was committed (the proxy rolls the real transaction back)")
    ctx.assume("faults are injected into mutating storage calls only (begin, savepoint, insert, upsert, delete, create collection/index, commit); read errors are not enumerated")
    ctx.assume("head-storage observers (head sync) are not attached to the storage under test")
