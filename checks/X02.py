"""X02 - incoming request limiting (extension beyond the listed properties; stand-alone `bin/check X02`).

spec/syncqueues/ReqLimit.tla : util/syncqueues.Limit transcribed statement by statement (adaptive per-peer
  allowance, excluded ids); invariants CounterInRange, TotalIsSum, PeerBound, IdleAdmitted,
  QuiescentIsInitial, action properties NoOpOnRefusal, ExcludedIsolated. Exhaustive (the state space is
  finite without any constraint) for three limiter configurations.
spec/syncqueues/ReqGate.tla  : the gate sequence of requestManager.HandleStreamRequest (incoming guard ->
  limiter -> handler -> releases) composed with the limiter; OnePerObject, GuardIsHandling,
  TokensAreHandlers, ServedBound, Quiescent. Exhaustive for 7 requests / 3 peers / 3 objects.
Binding:
 1. every edge of the three exhaustive ReqLimit state graphs is emitted by TLC and executed on a real
    syncqueues.Limit (shortest path + edge), result and Stats() of every id compared after every call;
 2. simulated behaviours of ReqGate are replayed on a real requestManager (real Guard + Limit) with a
    gated handler; outcome of every request (handled / duplicate / too many / handler error) and the
    limiter's token counts are compared with the model after every step.
"""
import os

LEVEL = "model_checking"


def run(ctx):
    thorough = ctx.tier == "thorough"
    if ctx.replay:
        return
    edges = os.path.join(ctx.scratch, "edges")
    os.makedirs(edges)
    for c in "abc":
        ctx.tlc_expect_ok("syncqueues", "ReqLimitMC", "ReqLimit_%s.cfg" % c, timeout=600)
        d = os.path.join(edges, c)
        os.makedirs(d)
        ctx.tlc_expect_ok("syncqueues", "ReqLimitMC", "ReqLimitEmit_%s.cfg" % c, workers=1, env={"VERIF_EMIT_DIR": d},
                          timeout=600, count=False)
        if not os.listdir(d):
            raise ctx_broken("no edges emitted for configuration " + c)
        ctx.go_test("./syncqueues", run="TestLimitEdges$", env={"VERIF_EDGES": d}, name="limit-edges-" + c)
    ctx.tlc_expect_ok("syncqueues", "ReqGateMC", "ReqGate_mc.cfg", timeout=900)
    emit = os.path.join(ctx.scratch, "gate")
    os.makedirs(emit)
    ctx.tlc_expect_ok("syncqueues", "ReqGateMC", "ReqGate_gen.cfg", workers=1, simulate=3000 if thorough else 400, depth=20,
                      env={"VERIF_EMIT_DIR": emit}, timeout=900, count=False)
    if not os.listdir(emit):
        raise ctx_broken("no gate behaviours emitted")
    ctx.go_test("./syncqueues", run="TestGateReplay$", env={"VERIF_BEHAVIOURS": emit}, name="gate-replay")
    ctx.assume("the limiter and guard are only reached through HandleStreamRequest; the handler is a gated fake")


def ctx_broken(msg):
    from vf import CheckBroken
    return CheckBroken(msg)
