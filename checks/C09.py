"""C09 - full-sync responses are complete, causally ordered and size-bounded.

spec/treeorder/TreeLoad.tla: LoadPlan mirrors loaditerator.go (common snapshot of the two paths,
ancestors of the known requester heads not sent, stored order, batch cut, running heads); the
properties are checked for every ordered pair of replicas of every reachable state of
TreeOrder.tla and every limit.  Binding: the plans TreeLoadGen.tla emits are compared with the
real loader on real sync trees (real byte sizes, limit = model limit x unit), the C09 predicates
are evaluated on the real batches, the batches are applied through the real HandleResponse (or to a
peer without the tree, built like ValidateRawTreeDefault does) and the same requests are served
through HandleStreamRequest -> send().  A sample of the behaviours and every second random run use
signed trees whose own changes are written by the real AddContent (raw size = model size x unit
exactly, content ids mined to the model's rank); batch sizes are always measured on the raw bytes
sent.  Random larger histories with byte limits around every cumulative boundary.
"""
import os

LEVEL = "model_checking"


def broken(msg):
    from vf import CheckBroken
    return CheckBroken(msg)


def emit_and_replay(ctx, cfg, simulate=None, depth=None, timeout=1500, test_env=None):
    emit = os.path.join(ctx.scratch, "emit-%d" % len(ctx.cov["tlc_runs"]))
    os.makedirs(emit)
    ctx.tlc_expect_ok("treeorder", "TreeLoadGen", cfg, workers=1, env={"VERIF_EMIT_DIR": emit},
                      simulate=simulate, depth=depth, timeout=timeout, count=False)
    n = len(os.listdir(emit))
    if n == 0:
        raise broken("no behaviours emitted by %s" % cfg)
    e = {"VERIF_BEHAVIOURS": emit}
    e.update(test_env or {})
    rep = ctx.go_test("./treeorder", run="TestLoadReplay$", env=e, timeout=3000, name="load replay %s (%d behaviours)" % (cfg, n))
    ctx.cov["load_entries"] = ctx.cov.get("load_entries", 0) + int(rep["extra"].get("load_entries", 0))
    ctx.cov["applied_plans"] = ctx.cov.get("applied_plans", 0) + int(rep["extra"].get("applied_plans", 0))
    ctx.cov["handler_entries"] = ctx.cov.get("handler_entries", 0) + int(rep["extra"].get("handler_entries", 0))
    return n


def run(ctx):
    thorough = ctx.tier == "thorough"
    if ctx.replay:
        ctx.go_test("./treeorder", run="TestReplay$")
        return
    # 1. the design
    if thorough:
        ctx.tlc_expect_ok("treeorder", "TreeLoad", "TreeLoad_mc_t.cfg", coverage=True, timeout=5400)
        ctx.tlc_expect_ok("treeorder", "TreeLoad", "TreeLoad_mc4_t.cfg", timeout=5400)
        ctx.tlc_expect_ok("treeorder", "TreeLoad", "TreeLoad_mc3r.cfg", timeout=1200)
    else:
        ctx.tlc_expect_ok("treeorder", "TreeLoad", "TreeLoad_mc.cfg", timeout=1200)
        # three replicas: a responder that was rebuilt back to an older snapshot, a requester that still has the newer one
        ctx.tlc_expect_ok("treeorder", "TreeLoad", "TreeLoad_mc3r.cfg", timeout=1200)
    # 2. spec -> code: predicted plans vs. the real loader / stream handler / requester
    if thorough:
        emit_and_replay(ctx, "TreeLoadGen_q.cfg", test_env={"VERIF_APPLY_EVERY": 2, "VERIF_HANDLER_EVERY": 250, "VERIF_SIGNED_EVERY": 3})
        emit_and_replay(ctx, "TreeLoadGen_3r_t.cfg", test_env={"VERIF_APPLY_EVERY": 4, "VERIF_HANDLER_EVERY": 2000, "VERIF_SIGNED_EVERY": 10})
        emit_and_replay(ctx, "TreeLoadGen_sim.cfg", simulate=120, depth=9, timeout=3000,
                        test_env={"VERIF_APPLY_EVERY": 3, "VERIF_HANDLER_EVERY": 400})
    else:
        emit_and_replay(ctx, "TreeLoadGen_q.cfg", test_env={"VERIF_APPLY_EVERY": 9, "VERIF_HANDLER_EVERY": 1400, "VERIF_SIGNED_EVERY": 10})
        # states in which a tree holds a stale cached snapshot path (reduced to a snapshot, then rebuilt back)
        emit_and_replay(ctx, "TreeLoadGen_stale.cfg", test_env={"VERIF_APPLY_EVERY": 5, "VERIF_HANDLER_EVERY": 0})
    # 3. random larger histories, byte limits around every cumulative boundary
    ctx.go_test("./treeorder", run="TestRandomLoad$", timeout=3000,
                env={"VERIF_RUNS": 120 if thorough else 10, "VERIF_MAX_CHANGES": 24 if thorough else 14})
    ctx.assume("both replicas were reached through honest participation (writers add on their heads with their tree root as snapshot base)")
    ctx.assume("the stream handler's batch limit is the constant synctree.batchSize (1 MiB); other limits are exercised on the loader directly")
