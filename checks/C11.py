"""C11 - hostile or malformed peer input is rejected with an error, never a crash
(structure-aware half only; level: exploration).

spec/hostile/Hostile.tla describes, for every network-facing entry point, the message as a tree
of fields (HostileSchema.tla, generated from the .proto descriptors), the mutation operators per
field kind and the receiver states; TLC enumerates every case (entry point x variant x state x
field x operator x reseal) and both outcomes, and emits every group with its cases
(HostileGen.tla).  harness/hostile renders each case to bytes from a real valid message (real
keys, protobufs, trees, ACLs), delivers it to the real entry point under recover / watchdog /
allocation bound; a panic, hang or runaway allocation in the code under test is a violation keyed
by entry point / operator class / field / panic site."""
import os

LEVEL = "exploration"


def _broken(msg):
    from vf import CheckBroken
    return CheckBroken(msg)


OVERLAYS = {
    # rendered file (written by harness/hostile for entry points that are unexported) -> (package, test, overlay)
    "spacepull": ("./commonspace", "TestVerifHostileSpacePull$",
                  {"commonspace/zz_verif_hostile_test.go": "harness/inpkg/commonspace/zz_verif_hostile_test.go"}),
}


def _overlay(ctx, name, rendered):
    from vf import VERIF
    pkg, test, ov = OVERLAYS[name]
    return ctx.go_test(pkg, run=test, in_repo=True, env={"VERIF_RENDERED": rendered}, timeout=1800,
                       overlay={k: os.path.join(VERIF, v) for k, v in ov.items()},
                       name="overlay %s %s" % (pkg, test))


def _short_func(fn):
    fn = fn.rsplit("/", 1)[-1]
    for part in reversed(fn.split(".")[1:]):
        if not part or part.startswith("func") or part.startswith("(") or part[0].isdigit():
            continue
        return part
    return fn


def _go_test_crash_aware(ctx, pkg, **kw):
    """A panic in a goroutine that the code under test starts itself (IncomingHandshake, OutgoingHandshake and the
    proto handshakes run their body in one) cannot be recovered by the harness: the test binary dies without a
    report.  The harness leaves a breadcrumb (the case it was delivering); if the dying goroutine is inside the
    repository's code, that is the code under test failing on that case -> violation.  Go fatal errors (out of
    memory ...) and crashes outside the repository stay a broken check."""
    import json
    import re
    crumb = os.path.join(ctx.scratch, "crumb-%d.json" % len(ctx.cov["harness_runs"]))
    env = dict(kw.pop("env", None) or {})
    env.update({"VERIF_CRUMB": crumb, "GOTRACEBACK": "single"})
    try:
        return ctx.go_test(pkg, env=env, **kw)
    except Exception as ex:  # lib/vf.py runs as __main__: its CheckBroken is not importable as the same class
        if type(ex).__name__ != "CheckBroken":
            raise
        msg = str(ex)
        m = re.search(r"^panic: (.*)$", msg, re.M)
        if not m or not os.path.exists(crumb):
            raise
        dying = msg[m.start():]
        # the first goroutine printed is the panicking one (GOTRACEBACK=single)
        block = dying.split("\n\ngoroutine ", 2)
        trace = block[1] if len(block) > 1 else dying
        site = None
        for fm in re.finditer(r"^(github\.com/anyproto/any-sync/[^\s(]+(?:\([^)]*\))?[^\s(]*)\(", trace, re.M):
            site = _short_func(fm.group(1))
            break
        if site is None:
            raise
        ro = json.load(open(crumb))
        g, c = ro["group"], ro["case"]
        field = c["op"]
        if c.get("path"):
            last = c["path"][-1].replace("@last", "")
            field = last[:1].upper() + last[1:]
        key = "/".join([g["ep"], c.get("cls") or "unclassified", field, site])
        ro["result"] = {"outcome": "panic", "panic_site": site, "panic_val": m.group(1)[:300],
                        "note": "unrecoverable: raised in a goroutine started by the code under test; the test binary died",
                        "stack": trace[:4000]}
        ctx.violation(key, "%s[%s@%s] %s:%s -> panic in %s (in a goroutine of the code under test; the process died): %s"
                      % (g["ep"], g["v"], g["st"], ".".join(c.get("path") or []), c["op"], site, m.group(1)[:200]), ro)
        return {"extra": {}, "violations": [], "cases": 0, "crashed": True}


def run(ctx):
    thorough = ctx.tier == "thorough"
    if ctx.replay:
        import json
        ro = (json.load(open(ctx.replay)).get("replay") or {})
        if ro.get("overlay"):
            # a case of an in-package entry point: the rendered bytes and the receiver's keys are in the replay object
            rendered = os.path.join(ctx.scratch, "replay.jsonl")
            with open(rendered, "w") as fh:
                fh.write(json.dumps({"setup": ro["setup"], "g": ro["group"]}) + "\n")
                fh.write(json.dumps({"g": ro["group"], "c": ro["case"], "hex": ro["rendered_hex"]}) + "\n")
            _overlay(ctx, ro["overlay"], rendered)
        else:
            _go_test_crash_aware(ctx, "./hostile", run="TestReplay$", timeout=1800)
        return
    # 1. TLC: enumerate all cases and both outcomes (OutcomeOK, ASSUME CoverageComplete) and emit the groups
    emit = os.path.join(ctx.scratch, "emit")
    os.makedirs(emit)
    if thorough:
        ctx.tlc_expect_ok("hostile", "Hostile", "Hostile_mc_t.cfg", coverage=True, timeout=2400)
        ctx.tlc_expect_ok("hostile", "HostileGen", "HostileGen_t.cfg", workers=1, env={"VERIF_EMIT_DIR": emit},
                          timeout=2400, count=False)
    else:
        # one run does both in the quick tier (generation needs a single worker)
        ctx.tlc_expect_ok("hostile", "HostileGen", "HostileGen_q.cfg", workers=1, env={"VERIF_EMIT_DIR": emit},
                          timeout=1200)
    if len(os.listdir(emit)) < 2:
        raise _broken("no cases emitted")
    # 2. every case on the real code
    rendered = os.path.join(ctx.scratch, "rendered")
    os.makedirs(rendered)
    gen = os.path.join(ctx.scratch, "HostileSchema.tla")
    # the handshake entry point runs in a process of its own: its functions execute in goroutines they start
    # themselves, so a panic there takes the test binary down (classified from the crash, see above)
    rep = _go_test_crash_aware(ctx, "./hostile", run="TestCases$", timeout=5400 if thorough else 1500,
                               env={"VERIF_CASES": emit, "VERIF_RENDERED_DIR": rendered, "VERIF_GEN_SCHEMA": gen,
                                    "VERIF_SKIP": "handshake."}, name="./hostile TestCases$ (all but handshake)")
    hrep = _go_test_crash_aware(ctx, "./hostile", run="TestCases$", timeout=1500,
                                env={"VERIF_CASES": emit, "VERIF_ONLY": "handshake."}, name="./hostile TestCases$ (handshake)")
    if rep.get("crashed") or hrep.get("crashed"):
        # a crash of the code under test was reported as a violation; the coverage bookkeeping of that process is lost
        return
    # the schema module of the specification must be the one the repository's descriptors give
    from vf import VERIF
    committed = open(os.path.join(VERIF, "spec", "hostile", "HostileSchema.tla")).read()
    if not os.path.exists(gen) or open(gen).read() != committed:
        raise _broken("spec/hostile/HostileSchema.tla differs from the schema generated from the repository's "
                      "protobuf descriptors (message layout changed): regenerate it with "
                      "VERIF_GEN_SCHEMA=<path> go test -run TestGenSchema ./hostile and review Hostile.tla")
    extra = rep.get("extra") or {}
    if extra.get("unbound_entry_points"):
        raise _broken("entry points of the specification without a binding: %s" % extra["unbound_entry_points"])
    executed = dict(extra.get("executed") or {})
    outcomes = dict(extra.get("outcomes") or {})
    executed.update((hrep.get("extra") or {}).get("executed") or {})
    outcomes.update((hrep.get("extra") or {}).get("outcomes") or {})
    # 2b. entry points that are unexported: delivered by an overlay test inside their package
    for name in sorted(OVERLAYS):
        path = os.path.join(rendered, name + ".jsonl")
        if not os.path.exists(path):
            raise _broken("no cases rendered for the in-package entry point %s" % name)
        orep = _overlay(ctx, name, path)
        oextra = orep.get("extra") or {}
        executed.update(oextra.get("executed") or {})
        outcomes.update(oextra.get("outcomes") or {})
    # 3. non-vacuity on the implementation side: every (entry point x operator class) of the
    #    specification's coverage table was actually executed
    table = extra.get("coverage_table") or {}
    if not table:
        raise _broken("coverage table missing from the emitted cases")
    missing = []
    for ep, classes in sorted(table.items()):
        for cls in classes:
            if not (executed.get(ep) or {}).get(cls):
                missing.append("%s/%s" % (ep, cls))
    if missing:
        raise _broken("operator classes generated by the specification but never executed on the code: %s" % missing)
    ctx.cov["entry_points"] = len(table)
    ctx.cov["operator_classes_executed"] = sum(len(v) for v in executed.values())
    ctx.cov["outcomes"] = outcomes
    ctx.cov["not_applicable_cases"] = extra.get("not_applicable")
    ctx.cov["rule"] = ("evaluations = cases (entry point x variant x receiver state x field x operator x reseal, prefix "
                       "sweeps expanded) rendered to bytes and delivered to the real entry point; distinct = distinct "
                       "(entry point, operator class, field kind, variant) tuples executed")
    ctx.assume("structure-aware mutations only: raw coverage-guided byte fuzzing is a different technique and is not part "
               "of this check (the 'all byte strings' half of the property is not claimed)")
    ctx.assume("a receiver is reused for the next case of its group while every call on it was rejected; the cases "
               "delivered before are part of the replay object")
    ctx.assume("watchdog %s, allocation bound 1024*|input| + 96 MiB: generous, so slow machines do not raise alarms" % "90 s")
