"""Shared orchestration of the ldiff family (C07, C08): spec/ldiff/*, harness/ldiff/*.

Pipeline of both checks
  1. overlay test in app/ldiff dumps the answers of the real genTupleRanges (harness refuses to run if
     its own range arithmetic disagrees);
  2. TLC, exhaustive, on the registered (repaired) configurations of Ldiff.tla - all invariants - and on
     the "asis" configurations, where TLC must find the known defect (sensitivity of the model);
  3. TLC as generator (LdiffGen): behaviours replayed on real ldiff indexes (TestReplay);
  4. random large cases on the real code (TestRandomC07 / TestRandomC08);
  5. random histories recorded from the real code and validated by LdiffTrace.tla.
"""
import os
import re

import sys

# lib/vf.py runs as __main__: take its CheckBroken so that main() recognises what we raise
CheckBroken = getattr(sys.modules.get("__main__"), "CheckBroken", None)
if CheckBroken is None:
    from vf import CheckBroken  # noqa: E402

OVERLAY = {"app/ldiff/zz_verif_tuples_test.go": "/verif/harness/inpkg/ldiff/zz_verif_tuples_test.go"}


def dump_tuples(ctx):
    out = os.path.join(ctx.scratch, "tuples.json")
    ctx.go_test("./app/ldiff/", run="TestVerifDumpTuples$", in_repo=True, overlay=OVERLAY, tags=None,
                env={"VERIF_TUPLES_OUT": out}, count_cases=False, name="dump real genTupleRanges")
    if not os.path.exists(out):
        raise CheckBroken("tuple dump was not written")
    return out


def _cache():
    """Development aid only (never set by a registered command): VERIF_LDIFF_CACHE=<dir> keeps the
    behaviours TLC emitted and skips the exhaustive TLC runs, so that a code mutant can be tried
    against the Go binding in a minute. Evidence of such a run is not meaningful."""
    return os.environ.get("VERIF_LDIFF_CACHE")


def exhaustive(ctx, cfgs, module="LdiffAll", coverage=False, timeout=2400):
    if _cache():
        return
    for cfg in cfgs:
        ctx.tlc_expect_ok("ldiff", module, cfg, coverage=coverage, timeout=timeout, heap="6g")


def must_find(ctx, cfg, invariant, module="LdiffAll"):
    """as-is configuration: the specification with one repair switched off must violate the
    invariant (otherwise the model has lost the behaviour that made the defect visible)."""
    if _cache():
        return
    res = ctx.tlc("ldiff", module, cfg, workers=4, timeout=900, count=False, name="asis:" + cfg)
    if res.timed_out or res.error != "invariant" or res.error_name != invariant:
        raise CheckBroken("MODEL-ERROR: %s should violate %s (deviation switched on) but TLC reported %s %s"
                          % (cfg, invariant, res.error, res.error_name))
    ctx.cov.setdefault("asis_counterexamples", {})[cfg] = {"invariant": invariant, "length": len(res.trace)}


def generate(ctx, jobs):
    """jobs: list of (cfg, simulate_n or None, depth). Returns ':'-joined emit directories."""
    dirs = []
    for i, (cfg, sim, depth) in enumerate(jobs):
        d = os.path.join(ctx.scratch, "emit-%d" % i)
        if _cache():
            d = os.path.join(_cache(), "%s-%s-%s-%s" % (ctx.tier, cfg, sim, ctx.seed if sim else 0))
            if os.path.isdir(d) and os.listdir(d):
                dirs.append(d)
                continue
        os.makedirs(d)
        res = ctx.tlc_expect_ok("ldiff", "LdiffGen", cfg, workers=1, simulate=sim, depth=depth,
                                env={"VERIF_EMIT_DIR": d}, timeout=2400, count=False, name="gen:" + cfg)
        n = len(os.listdir(d))
        if n == 0:
            raise CheckBroken("no behaviours emitted by %s\n%s" % (cfg, res.out[-2000:]))
        ctx.cov.setdefault("behaviours_emitted", {})[cfg] = n
        dirs.append(d)
    return ":".join(dirs)


TRACE_CFGS = {"u2_cur": "LdiffTrace_u2_cur.cfg", "u2_leg": "LdiffTrace_u2_leg.cfg", "u3_cur": "LdiffTrace_u3_cur.cfg",
              "u3_leg": "LdiffTrace_u3_leg.cfg", "u4_cur": "LdiffTrace_u4_cur.cfg", "u4_leg": "LdiffTrace_u4_leg.cfg"}


def record_and_validate(ctx, tuples, files, prop_invariant, runs, env=None, expect_reject=False):
    """Record random histories from the real code and validate them with LdiffTrace.tla.
    prop_invariant: the property predicate evaluated on the logged observations (ObsCanonical for
    C08, ObsDiffExact for C07). Returns the number of rejected traces (for the binding self-test)."""
    tdir = os.path.join(ctx.scratch, "traces-%d" % len(ctx.cov["harness_runs"]))
    os.makedirs(tdir)
    e = {"VERIF_TUPLES": tuples, "VERIF_TRACE_DIR": tdir, "VERIF_RUNS": runs}
    e.update(env or {})
    rep = ctx.go_test("./ldiff", run="TestRecord$", env=e, name="record traces" + (" (corrupted)" if expect_reject else ""),
                      count_cases=not expect_reject)
    if not expect_reject:
        ctx.cov["trace_events_validated"] = ctx.cov.get("trace_events_validated", 0) + int(rep["extra"].get("trace_events", 0))
    rejected = 0
    for f in files:
        src = open(os.path.join(os.path.dirname(os.path.dirname(os.path.abspath(__file__))), "spec", "ldiff", TRACE_CFGS[f])).read()
        src = re.sub(r"^INVARIANT .*\n", "", src, flags=re.M)
        src = src.replace("CONSTRAINT Mark", "INVARIANT %s\nINVARIANT InSync\nCONSTRAINT Mark" % prop_invariant)
        trace = os.path.join(tdir, f + ".ndjson")
        tv = ctx.tlc("ldiff", "LdiffTrace", "trace.cfg", workers=1, env={"VERIF_TRACE": trace}, timeout=1800,
                     count=False, files={"trace.cfg": src}, name="trace-validation:" + f)
        lines = open(trace).read().splitlines()
        m = re.search(r"TRACE-DRIFT\", (\d+)", tv.out)
        if tv.ok:
            drift = int(m.group(1)) if m else 0
            if drift and not expect_reject:
                ctx.cov["drift"] += drift
                ctx.notes.append("trace %s: %d lines not predicted by the specification" % (f, drift))
            if drift:
                rejected += 1
            continue
        if tv.timed_out:
            raise CheckBroken("trace validation timed out on " + f)
        if tv.error == "invariant" and tv.error_name == prop_invariant:
            rejected += 1
            if expect_reject:
                continue
            # a property predicate failed on a state / result logged from the real code
            st = tv.trace[-1][1] if tv.trace else ""
            lm = re.search(r"/\\ l = (\d+)", st)
            line = int(lm.group(1)) - 1 if lm else -1
            ev = lines[line - 1] if 0 < line <= len(lines) else "?"
            kind = "?"
            try:
                import json
                kind = json.loads(ev).get("ev", "?")
            except Exception:
                pass
            start = line
            while start > 1 and '"ev":"Reset"' not in lines[start - 1]:
                start -= 1
            ctx.violation("trace/%s/%s" % (prop_invariant, kind),
                          "%s fails on line %d of the trace recorded from the real code (%s): %s" % (prop_invariant, line, f, ev[:600]),
                          {"kind": "trace", "file": f, "events": lines[max(0, start - 1):line]})
            continue
        if tv.error == "invariant" and tv.error_name == "InSync":
            raise CheckBroken("MODEL-ERROR: trace specification lost track of the logged state (%s)\n%s" % (f, tv.out[-2500:]))
        if "TRACE-REJECTED-AT-LINE" in tv.out:
            rm = re.search(r"TRACE-REJECTED-AT-LINE\", (\d+)", tv.out)
            raise CheckBroken("trace %s is not parseable as a behaviour at line %s\n%s" % (f, rm.group(1) if rm else "?", tv.out[-2500:]))
        raise CheckBroken("trace validation failed to run on %s:\n%s" % (f, tv.out[-3000:]))
    return rejected
