"""C05 - read keys: members can always decrypt, removed accounts never can.

spec/acl/Acl.tla, key layer (cf / held / Der): MembersDeriveAll, RemovedDeriveNoNewer, LiveInvitesHoldCurrent,
RotationCoversExactlyActive.
  1. TLC, exhaustive: membership histories built from the records the client builder can emit (join by request,
     open-invite join, direct add, remove, leave request, invite revoke + rotation in one record, stand-alone
     rotation, re-add), single and 2-content, plus the full hostile alphabet at smaller depth.
  2. "as-is" instances (GrantWithoutKey, DoubleRotation): TLC must find the gap, the counterexample is run on the real list.
  3. Binding (incl. a client-builder pass over every honest history of <= 3 records): after every replayed path each account's private view is rebuilt from the raw log with that account's
     keys only (validating and plain client decoder) and compared with the true keys; a log-level adversary per
     private key (accounts and invite keys) tries every ciphertext; raw rotation recipients are inspected, both of
     hand-made records and of records made by the real client builder.
  4. Tree part: real encrypted AddContent per key generation, stored bytes, every member's reading, refusal to
     build an encrypted change without a key."""
import importlib.util
import os

LEVEL = "model_checking"


def _helper():
    p = os.path.join(os.path.dirname(os.path.dirname(os.path.abspath(__file__))), "spec", "acl", "aclcheck.py")
    spec = importlib.util.spec_from_file_location("aclcheck", p)
    m = importlib.util.module_from_spec(spec)
    spec.loader.exec_module(m)
    return m


def run(ctx):
    h = _helper()
    thorough = ctx.tier == "thorough"
    if ctx.replay:
        h.replay(ctx, "TestReplay$")
        return
    emit_root = os.path.join(ctx.scratch, "emit")
    J = []  # independent TLC jobs, run concurrently

    def job(f, *a, **kw):
        J.append(lambda: f(ctx, *a, **kw))
    # ---- 1. design level
    job(h.mc, "keys-honest-single-C", "Acl_mc_keys.cfg", SET="C", SPECIFICATION="Spec", MaxDepth=3 if thorough else 2, workers=4, timeout=3000)
    job(h.mc, "keys-honest-batch-C", "Acl_mc_keys.cfg", SET="C", MaxDepth=1 if thorough else 0, workers=4 if thorough else 2, timeout=3000)
    job(h.mc, "keys-hostile-B", "Acl_mc_A.cfg", SET="B", MaxDepth=2 if thorough else 1, timeout=3000)
    if thorough:
        job(h.mc, "keys-honest-single-D", "Acl_mc_keys.cfg", SET="D", SPECIFICATION="Spec", MaxDepth=4, workers=4, timeout=3000)
        job(h.mc, "keys-hostile-batch-D", "Acl_mc_batch.cfg", SET="D", MaxDepth=1, workers=4, timeout=3000)
    # ---- 2. the validator as it was found
    job(h.asis, "grant-without-key", ["KeyInv"], SET="B", MaxDepth=0, FIX_PERMCHANGE_MEMBER=False)
    job(h.asis, "double-rotation", ["KeyInv"], SET="E", MaxDepth=1, SPECIFICATION="SpecB", FIX_ONE_ROTATION=False, timeout=1800)
    # ---- 3. spec -> code: private views, log adversary, raw recipients, client builder
    if thorough:
        job(h.emit, "C", "AclGen.cfg", SET="C", GenDepth=2, FullDepth=0, BatchDepth=1, timeout=3000)
        job(h.emit, "B", "AclGen.cfg", SET="B", GenDepth=1, FullDepth=0, BatchDepth=0, timeout=3000)
        job(h.emit, "C-deep", "AclGen.cfg", SET="C", SimDepth=6, SimSample=8, simulate=40, depth=7, timeout=3000)
        job(h.emit, "B-deep", "AclGen.cfg", SET="B", SimDepth=4, SimSample=8, simulate=20, depth=5, timeout=3000)
    else:
        job(h.emit, "D", "AclGen.cfg", SET="D", GenDepth=2, FullDepth=0, BatchDepth=0)
        job(h.emit, "C", "AclGen.cfg", SET="C", GenDepth=1, FullDepth=0, BatchDepth=0)
        job(h.emit, "C-deep", "AclGen.cfg", SET="C", SimDepth=5, SimSample=8, simulate=6, depth=6)
    # honest histories for the client-builder pass (dir names "H-*": every builder-expressible record of every state
    # is built with the acting account's own RecordBuilder): all behaviours of <= 3 (4) records, which contain
    # rotation between request and accept, between invite creation and join, between remove and re-add
    job(h.emit, "H-E", "AclGen.cfg", SET="E", Honest=True, GenDepth=3, FullDepth=0, BatchDepth=0, timeout=3000)
    if thorough:
        job(h.emit, "H-D", "AclGen.cfg", SET="D", Honest=True, GenDepth=3, FullDepth=0, BatchDepth=0, timeout=3000)
    h.parallel(ctx, J)
    h.replay(ctx, "TestCounterexamples$", VERIF_CEX=os.path.join(ctx.scratch, "cex"))
    h.nonvacuous(ctx, emit_root)
    h.replay(ctx, "TestReplay$", VERIF_BEHAVIOURS=emit_root)
    # ---- 4. tree content under each key generation
    h.replay(ctx, "TestTree$")
    ctx.assume("key ciphertexts carried by records are well-formed (they encrypt the then-current read key); a manager "
               "that deliberately publishes garbage ciphertexts or leaks a key is outside the property")
    ctx.assume("being handed the current key by a manager (accept / add, even with permission None) counts as standing at that generation")
    ctx.cov["rule"] = ("cases = raw signed records submitted to a real validating AclList + per-account private views and "
                       "log-adversary evaluations per replayed state + tree reads; distinct = outcome classes")
