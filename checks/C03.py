"""C03 - the ACL log is a tamper-evident chain with deterministic, atomically updated state.

spec/aclchain/AclChain.tla: accepted log, replicas (mode x storage x identity) that add records
one at a time / in batches, restart from storage (also from a database with a permuted order
index), bootstrap from a peer's whole log, catch up from RecordsAfter, exchange head updates and
full-sync answers, and are handed every kind of refusable record - alone and as the tail of a batch
of accepted records (AddRawRecords called directly, by HandleHeadUpdate, by HandleResponse) and
inside the records a list is built from (served records, altered database rows).
  1. TLC, exhaustive, on the design: StateIsFunctionOfLog, ReplicasAgree, OnlyHeadExtends,
     StorageMatchesState, AcceptedWasValid, CatchUpReachesHead, MigratedRebuildAgrees,
     RejectedIsNoOp; the five named deviations (pre-repair RecordsAfter, trusted scan order,
     state swapped before validation, batch applied on one shared state copy, build without
     verification) must each violate their invariant (non-vacuity).
  2. spec -> code: behaviours simulated from AclChainGen are replayed on real AclLists with real
     keys and signatures (harness/aclchain), plus two fixed histories; property predicates are
     evaluated on the real observations after every step.
  3. code -> spec: long random histories driven through the real client builder and acceptor are
     recorded and validated against AclChainTrace.tla (all invariants on the observed states).
"""
import json
import os
import re

from vf import CheckBroken

LEVEL = "model_checking"

DEVIATIONS = [("AclChain_dev_serve.cfg", "CatchUpReachesHead"),
              ("AclChain_dev_scan.cfg", "MigratedRebuildAgrees"),
              ("AclChain_dev_swap.cfg", "RejectedIsNoOp"),
              ("AclChain_dev_batch.cfg", "RejectedIsNoOp"),
              ("AclChain_dev_build.cfg", "RejectedIsNoOp")]


def expect_violation(ctx, cfg, inv):
    res = ctx.tlc("aclchain", "AclChain", cfg, workers=4, timeout=900, count=False, name="deviation:" + cfg)
    if res.timed_out or res.error != "invariant" or res.error_name != inv:
        raise CheckBroken("deviation %s should violate %s in the specification, got %s %s\n%s" % (
            cfg, inv, res.error, res.error_name, "\n".join(res.out.splitlines()[-30:])))


def validate_trace(ctx, trace, name, expect_reject=False):
    tv = ctx.tlc("aclchain", "AclChainTrace", "AclChainTrace.cfg", workers=1, env={"VERIF_TRACE": trace},
                 timeout=1500, count=False, name=name)
    if tv.timed_out:
        raise CheckBroken("trace validation timed out")
    drift = len(re.findall(r"TRACE-DRIFT-", tv.out))
    if expect_reject:
        return not tv.ok
    lines = open(trace).read().splitlines()
    if tv.error == "invariant":
        m = re.search(r"TRACE-REJECTED-AT-LINE\", (\d+)", tv.out)
        # the last state of the counterexample names the line: l = next line to consume
        lm = re.findall(r"/\\ l = (\d+)", tv.trace[-1][1]) if tv.trace else []
        at = int(lm[0]) - 1 if lm else -1
        if drift:
            ctx.cov["drift"] += drift
            ctx.notes.append("trace validation: %d records on which the transcribed validator guards and the real "
                             "validator disagree; invariant %s not evaluated as a verdict" % (drift, tv.error_name))
            return True
        ctx.violation("trace-invariant-" + str(tv.error_name),
                      "a state recorded from real AclLists violates %s at trace line %d: %s" % (
                          tv.error_name, at, lines[at - 1][:600] if 0 < at <= len(lines) else "?"),
                      {"invariant": tv.error_name, "events": lines[max(0, at - 40):at]})
        return False
    if not tv.ok:
        m = re.search(r"TRACE-REJECTED-AT-LINE\", (\d+)", tv.out)
        if m:
            at = int(m.group(1))
            ctx.cov["drift"] += 1
            ctx.notes.append("trace validation: the specification has no step for trace line %d: %s" % (
                at, lines[at - 1][:400] if 0 < at <= len(lines) else "?"))
            return True
        raise CheckBroken("trace validation failed to run:\n" + "\n".join(tv.out.splitlines()[-40:]))
    if drift:
        ctx.cov["drift"] += drift
        ctx.notes.append("trace validation: %d records on which the transcribed validator guards and the real validator disagree" % drift)
    return True


def corrupt(trace, out):
    """binding self-test: change one observed field of one recorded step"""
    lines = open(trace).read().splitlines()
    for i in range(len(lines) - 1, -1, -1):
        e = json.loads(lines[i])
        if e.get("ev") in ("AddOne", "AddBatch", "CatchUp") and e["st"]["head"] > 1:
            e["st"]["head"] -= 1
            lines[i] = json.dumps(e)
            break
    else:
        raise CheckBroken("no step to corrupt in the recorded trace")
    with open(out, "w") as fh:
        fh.write("\n".join(lines) + "\n")


def run(ctx):
    thorough = ctx.tier == "thorough"
    if ctx.replay:
        ctx.go_test("./aclchain", run="TestReplay$", timeout=1500)
        return
    # 1. the design, exhaustively
    if thorough:
        ctx.tlc_expect_ok("aclchain", "AclChain", "AclChain_mc_t.cfg", coverage=True, timeout=3000)
        ctx.tlc_expect_ok("aclchain", "AclChain", "AclChain_mc_t2.cfg", timeout=3000)
        for cfg, inv in DEVIATIONS:
            expect_violation(ctx, cfg, inv)
    else:
        ctx.tlc_expect_ok("aclchain", "AclChain", "AclChain_mc.cfg", timeout=1500)
        expect_violation(ctx, *DEVIATIONS[0])
    # 2. spec -> code
    emit = os.path.join(ctx.scratch, "emit")
    os.makedirs(emit)
    n = 300 if thorough else 60
    ctx.tlc_expect_ok("aclchain", "AclChainGen", "AclChainGen_t.cfg" if thorough else "AclChainGen_q.cfg", workers=1,
                      simulate=n, depth=40 if thorough else 30, env={"VERIF_EMIT_DIR": emit}, timeout=3000, count=False)
    got = len(os.listdir(emit))
    if got < n // 2:
        raise CheckBroken("only %d of %d behaviours emitted" % (got, n))
    ctx.go_test("./aclchain", run="TestReplay$", timeout=3000,
                env={"VERIF_BEHAVIOURS": emit, "VERIF_MATRIX_EVERY": 4 if thorough else 5})
    # 3. code -> spec
    trace = os.path.join(ctx.scratch, "aclchain-trace.ndjson")
    rep = ctx.go_test("./aclchain", run="TestRecord$", timeout=3000,
                      env={"VERIF_TRACE_OUT": trace, "VERIF_RUNS": 30 if thorough else 6, "VERIF_STEPS": 100 if thorough else 70})
    ctx.cov["trace_events_validated"] = rep["extra"].get("trace_events", 0)
    ok = validate_trace(ctx, trace, "trace-validation")
    if ok and (thorough or os.environ.get("VERIF_SELFTEST")):
        bad = os.path.join(ctx.scratch, "aclchain-trace-corrupt.ndjson")
        corrupt(trace, bad)
        if not validate_trace(ctx, bad, "trace-validation-selftest", expect_reject=True):
            raise CheckBroken("binding self-test: a trace with a corrupted observed head was accepted")
    ctx.assume("record contents are abstracted to their effect on the observable projection; the histories stay inside "
               "the part of the record alphabet on which the validator before and after the C04/C05 repairs agrees "
               "(no accept of a non-join request or of an account holding a permission, no re-permissioning of an "
               "account without permission, no guests)")
    ctx.assume("a tampered acceptor signature is only required to be refused by lists built with the network "
               "verifier; fully validating lists (no network id) do not check the acceptor by design")
    ctx.assume("storage faults are not injected here (memory-before-write ordering of AddRawRecord is C10's)")
