"""C14 - handshake: mutual version gating, proven identity, same verdict on both sides.

spec/handshake/Handshake.tla: both ends of the credential handshake, the frame channels with chunked delivery, an
adversary, and the two pieces of state that outlive a connection: the sync.Pool of handshake objects (`pooled`,
`resets`) and the long-lived credential checker (`verified`, `cmode`; the code keeps no state there, deviations
"payload"/"peer" are what-if models).  spec/handshake/ProtoHandshake.tla: the proto negotiation on the same pool.

  phase A (TLC, jobs run in parallel): exhaustive model checking + generation of behaviours
      * every configuration pair without faults; one session x every fault at every point x every chunking
        (coverage: every action taken; termination); two sessions on the shared pool, every pooled choice
      * generation: counterexamples of the what-if models (release() forgets a field / the two it forgot before the
        repair; the checker remembers verified payloads / peers; an oversized frame / unparsable payload is answered
        with ack code Null) - each variant must yield some, i.e. TLC refutes it;
        every tampered frame against every mode combination; simulated two-session behaviours with faults
  phase B (one `go test`): every generated behaviour executed on real secureservice instances through the gated pipe
      (pooled object and checker instance as the behaviour says); random schedules recorded; proto negotiation;
      64 concurrent free-running handshakes; consecutive connections on one goroutine
  phase C (TLC): the recorded runs validated by HandshakeTrace.tla, every property invariant on every recorded state
"""
import concurrent.futures
import copy
import json
import os
import re

from vf import CheckBroken

LEVEL = "model_checking"
AS_IS = ["ack", "ctype", "pay"]


def broken(msg):
    return CheckBroken(msg)


# ---------------------------------------------------------------------------------------------- TLC jobs
def run_jobs(ctx, jobs, threads):
    """jobs: dicts {name, module, cfg, kind: 'mc'|'gen', workers, coverage, simulate, depth, timeout}.
    Each job runs in its own scratch directory (lib/vf.py numbers TLC work directories per Ctx, so a shallow copy
    of the context with another scratch directory is used per job); results are merged here, in the caller's thread."""
    def one(j):
        c = copy.copy(ctx)
        c.scratch = os.path.join(ctx.scratch, "job-" + j["name"])
        os.makedirs(c.scratch)
        env = {}
        if j["kind"] == "gen":
            j["dir"] = os.path.join(ctx.scratch, "beh-" + j["name"])
            os.makedirs(j["dir"])
            env["VERIF_EMIT_DIR"] = j["dir"]
        return c.tlc("handshake", j["module"], j["cfg"], workers=j.get("workers", 1), env=env,
                     timeout=j.get("timeout", 1500), coverage=j.get("coverage", False), count=False,
                     simulate=j.get("simulate"), depth=j.get("depth"), name=("generate " if j["kind"] == "gen" else "") + j["name"])

    with concurrent.futures.ThreadPoolExecutor(max_workers=threads) as ex:
        futs = [(j, ex.submit(one, j)) for j in jobs]
        out = {}
        for j, f in futs:
            res = f.result()
            out[j["name"]] = res
            if res.timed_out:
                raise broken("TLC timed out: %s" % j["name"])
            expect = j.get("expect")  # names of invariants one of which must be violated (what-if models)
            if expect:
                if res.error != "invariant" or res.error_name not in expect:
                    raise broken("the deviating model %s is no longer refuted (%s %s)\n%s" % (j["name"], res.error, res.error_name, res.out[-1500:]))
                ctx.notes.append("%s refuted by TLC: %s after %d states" % (j["name"], res.error_name, res.generated))
                continue
            if not res.ok:
                raise broken("MODEL-ERROR: TLC reported %s %s on the specification alone (%s)\n%s" % (
                    res.error, res.error_name, j["name"], "\n".join(res.out.splitlines()[-60:])))
            if j.get("coverage"):
                unc = [a for a in res.uncovered_actions() if not a.startswith("Dev_")]
                if unc:
                    raise broken("vacuous model run %s, actions never taken: %s" % (j["name"], unc))
            if j["kind"] == "mc" or j.get("counts"):
                ctx.cov["states"] += res.distinct
                ctx.cov["transitions"] += res.generated
            if j["kind"] == "gen":
                n = len(os.listdir(j["dir"]))
                if n == 0:
                    raise broken("no behaviours emitted by %s\n%s" % (j["cfg"], res.out[-1500:]))
                ctx.log("generated %d behaviours (%s)" % (n, j["name"]))
        return out


def variants_present(d, field, wanted, what):
    """every what-if variant must have produced at least one counterexample (= TLC refutes that variant)"""
    seen = set()
    for fn in os.listdir(d):
        v = json.load(open(os.path.join(d, fn))).get(field)
        seen.add(json.dumps(sorted(v) if isinstance(v, list) else v, sort_keys=True))
    missing = [w for w in wanted if json.dumps(w, sort_keys=True) not in seen]
    if missing:
        raise broken("%s: the model no longer refutes the variant(s) %s - the specification lost that piece of state" % (what, missing))


# ---------------------------------------------------------------------------------------------- trace validation
def validate_trace(ctx, trace, label):
    tv = ctx.tlc("handshake", "HandshakeTrace", "HandshakeTrace.cfg", workers=1, env={"VERIF_TRACE": trace},
                 timeout=1500, count=False, name="trace-validation " + label)
    if tv.timed_out:
        raise broken("trace validation timed out")
    m = re.search(r"TRACE-DRIFT\", (\d+)", tv.out)
    if m:
        ctx.cov["drift"] += int(m.group(1))
        if int(m.group(1)):
            ctx.notes.append("trace validation (%s): %s recorded steps were not explained by the specification" % (label, m.group(1)))
    if tv.error == "invariant":
        # a property of the design failed on a state recorded from the real code
        m = re.search(r"TRACE-REJECTED-AT-LINE\", (\d+)", tv.out)
        line = int(m.group(1)) if m else -1
        lines = open(trace).read().splitlines()
        start = max(i for i in range(min(line, len(lines))) if '"ev":"Config"' in lines[i]) if line > 0 else 0
        # the recorded run as a behaviour that --replay executes again on the real code
        evs = [json.loads(x) for x in lines[start:line]]
        steps = []
        for ev in evs[1:]:
            st = {k: v for k, v in ev.items() if k in ("s", "side", "fresh", "o", "f", "ok", "q", "got", "variant")}
            st["a"] = ev["ev"]
            if st["a"] != "End":
                steps.append(st)
        ctx.violation("trace-invariant-%s" % tv.error_name,
                      "a recorded run of the real handshake violates %s of Handshake.tla (trace line %d)" % (tv.error_name, line),
                      {"sess": evs[0]["sess"], "seed": evs[0].get("seed", 0), "steps": steps, "origin": "recorded run",
                       "trace_events": lines[start:line]})
        return tv
    if tv.ok:
        return tv
    if "TRACE-REJECTED-AT-LINE" in tv.out:
        m = re.search(r"TRACE-REJECTED-AT-LINE\", (\d+)", tv.out)
        raise broken("recorded trace is neither explained nor adopted by HandshakeTrace at line %s\n%s" % (
            m.group(1) if m else "?", tv.out[-2500:]))
    raise broken("trace validation failed to run:\n" + tv.out[-3000:])


def selftest(ctx, trace):
    """binding self-test: a corrupted recording must not be accepted silently"""
    lines = open(trace).read().splitlines()
    for i, ln in enumerate(lines):
        ev = json.loads(ln)
        if ev.get("ev") == "Recv" and ev.get("post", {}).get("verdict") == "ok" and ev["post"]["res"]["ver"] == 1:
            ev["post"]["res"]["ver"] = 2
            lines[i] = json.dumps(ev)
            break
    else:
        raise broken("self-test: no successful Recv event to corrupt")
    p = os.path.join(ctx.scratch, "hs-trace-corrupt.ndjson")
    open(p, "w").write("\n".join(lines) + "\n")
    tv = ctx.tlc("handshake", "HandshakeTrace", "HandshakeTrace.cfg", workers=1, env={"VERIF_TRACE": p}, timeout=1500,
                 count=False, name="binding self-test (corrupted recording)")
    m = re.search(r"TRACE-DRIFT\", (\d+)", tv.out)
    if tv.error != "invariant" and not (m and int(m.group(1)) > 0):
        raise broken("binding self-test: a recording with a falsified context version was accepted")
    ctx.notes.append("binding self-test: falsified recording rejected (%s)" % (tv.error_name or "resync"))


# ---------------------------------------------------------------------------------------------- Go harness
def guard_go_test(ctx):
    """A panic in the handshake's own worker goroutine cannot be recovered by the harness: the test binary dies
    without a report. If the dying goroutine is inside net/secureservice, that is the code under test failing on
    the input named by the breadcrumb file -> violation; anything else stays a broken check."""
    orig = ctx.go_test
    crumb = os.path.join(ctx.scratch, "crumb.json")

    def wrapped(pkg, **kw):
        env = dict(kw.pop("env", None) or {})
        env.update({"VERIF_CRUMB": crumb, "GOTRACEBACK": "single"})
        if os.path.exists(crumb):
            os.remove(crumb)
        try:
            return orig(pkg, env=env, **kw)
        except Exception as ex:  # lib/vf.py runs as __main__: its CheckBroken is not the class imported above
            if type(ex).__name__ != "CheckBroken":
                raise
            msg = str(ex)
            m = re.search(r"^panic: (.*)$", msg, re.M)
            block = msg[m.start():].split("\n\n")[0:2] if m else []
            dying = "\n".join(block)
            if not m or "any-sync/net/secureservice" not in dying or not os.path.exists(crumb):
                raise
            fn = re.search(r"any-sync/net/secureservice[\w/]*\.([\w.()*]+)\(", dying)
            ctx.violation("panic:%s" % (fn.group(1) if fn else "secureservice"),
                          "the handshake code panicked (%s) and took the process down" % m.group(1)[:200],
                          json.load(open(crumb)))
            return {"extra": {}, "violations": [], "cases": 0}
    ctx.go_test = wrapped


def run(ctx):
    thorough = ctx.tier == "thorough"
    guard_go_test(ctx)
    if ctx.replay:
        obj = json.load(open(ctx.replay)).get("replay") or {}
        test = obj.get("test") if isinstance(obj, dict) else None
        if isinstance(obj, dict) and obj.get("kind") == "proto":
            ctx.go_test("./handshake", run="TestProtoReplay$")
        elif test in ("TestConcurrent", "TestReuse", "TestRandom", "TestProtoReuse"):
            env = {"VERIF_SEED": obj.get("seed", 1)}
            if "runs" in obj:
                env["VERIF_RUNS"] = obj["runs"]
            ctx.go_test("./handshake", run=test + "$", env=env)
        else:
            ctx.go_test("./handshake", run="TestReplay$")
        return

    binding_only = bool(os.environ.get("VERIF_C14_BINDING_ONLY"))  # development aid (mutant runs): no exhaustive part
    cores = ctx.cores
    mcw = 4 if cores >= 8 else 2
    sim_n, sim2_n = (1500, 1500) if thorough else (60, 40)

    def mc(name, module, cfg, **kw):
        d = {"name": name, "module": module, "cfg": cfg, "kind": "mc", "workers": mcw}
        d.update(kw)
        return d

    def gen(name, cfg, module="HandshakeGen", **kw):
        d = {"name": name, "module": module, "cfg": cfg, "kind": "gen", "workers": 1}
        d.update(kw)
        return d

    jobs = []
    if not binding_only:
        # ---- the design, exhaustively (largest first)
        if thorough:
            jobs += [mc("2 faults", "HandshakeMC", "Handshake_mc_faults2.cfg", timeout=3000),
                     mc("proto, overlapping", "ProtoMC", "Proto_mc.cfg", timeout=3000),
                     mc("pool, overlapping", "HandshakeMC", "Handshake_mc_poolc.cfg", timeout=3000),
                     mc("pool", "HandshakeMC", "Handshake_mc_pool.cfg", timeout=3000),
                     mc("all configurations", "HandshakeMC", "Handshake_mc_cfgs.cfg", timeout=3000),
                     mc("pre-repair release()", "HandshakeMC", "Handshake_mc_asis.cfg", expect=("SuccessSound", "MutualGating")),
                     mc("checker with memory", "HandshakeMC", "Handshake_mc_cache.cfg", expect=("ReplayRejected", "SuccessSound")),
                     mc("error answered with ack Null", "HandshakeMC", "Handshake_mc_ackcode.cfg", expect=("CorruptionEndsBoth",))]
        else:
            jobs += [mc("pool", "HandshakeMC", "Handshake_mc_pool_q.cfg"),
                     mc("all configurations", "HandshakeMC", "Handshake_mc_cfgs_q.cfg")]
        jobs += [mc("1 fault, every chunking", "HandshakeMC", "Handshake_mc_faults.cfg", coverage=True)]
    # ---- generation
    jobs += [gen("residue", "HandshakeGen_residue_t.cfg" if thorough else "HandshakeGen_residue.cfg", timeout=3000),
             gen("checker-memory", "HandshakeGen_cache.cfg"),
             gen("ack-code", "HandshakeGen_ackcode.cfg"),
             gen("tamper", "HandshakeGen_rep.cfg"),
             gen("sim", "HandshakeGen_sim.cfg", simulate=sim_n, depth=60),
             gen("sim2", "HandshakeGen_sim2.cfg", simulate=sim2_n, depth=60),
             gen("proto-residue", "ProtoGen_residue.cfg", module="ProtoMC"),
             # model checking (invariants, termination, coverage) and emission of every distinct end state in one run
             gen("proto-all", "Proto_mc1.cfg", module="ProtoMC", coverage=True, counts=True)]
    if thorough:
        jobs.append(gen("all", "HandshakeGen_all.cfg", timeout=3000))
    run_jobs(ctx, jobs, threads=max(2, min(6, cores // 2)))
    byname = {j["name"]: j for j in jobs}
    # every what-if variant must have produced counterexamples (TLC refutes each of them)
    variants_present(byname["residue"]["dir"], "resets",
                     [AS_IS] + [sorted(set(["ack", "ctype", "pay", "ver", "cver"]) - {f}) for f in ("ack", "ctype", "pay", "ver", "cver")],
                     "forgotten resets")
    variants_present(byname["checker-memory"]["dir"], "cmode", ["payload", "peer"], "checker memory")
    variants_present(byname["ack-code"]["dir"], "ackc", [{"over": 0, "bad": 1}, {"over": 1, "bad": 0}], "error -> ack code mapping")
    # (of the proto variants only "encodings not cleared" is exploitable without a fault)
    variants_present(byname["proto-residue"]["dir"], "resets", [["ack", "pt"]], "forgotten proto resets")

    # ---- the binding: one process
    trace = os.path.join(ctx.scratch, "hs-trace.ndjson")

    def replay(name, mode="conform", test="TestReplay", **env):
        e = {"VERIF_NAME": name, "VERIF_BEHAVIOURS": byname[name]["dir"], "VERIF_MODE": mode}
        e.update({k: str(v) for k, v in env.items()})
        return {"test": test, "env": e}

    plan = [replay("residue", "probe"),
            replay("checker-memory", "probe"),
            replay("ack-code", "probe"),
            replay("tamper", VERIF_DEDUP="" if thorough else "1"),
            replay("sim"), replay("sim2")]
    if thorough:
        plan.append(replay("all", VERIF_DEDUP="1"))
    plan += [{"test": "TestRandom", "env": {"VERIF_TRACE_OUT": trace, "VERIF_RUNS": str(1200 if thorough else 80)}},
             replay("proto-residue", "probe", test="TestProtoReplay"),
             replay("proto-all", test="TestProtoReplay", VERIF_SAMPLE=0 if thorough else 500),
             {"test": "TestProtoReuse", "env": {"VERIF_ATTEMPTS": str(40 if thorough else 6)}},
             {"test": "TestConcurrent", "env": {"VERIF_ROUNDS": str(40 if thorough else 4)}},
             {"test": "TestReuse", "env": {"VERIF_ATTEMPTS": str(40 if thorough else 5)}}]
    planf = os.path.join(ctx.scratch, "plan.json")
    json.dump(plan, open(planf, "w"))
    rep = ctx.go_test("./handshake", run="TestAll$", env={"VERIF_PLAN": planf}, timeout=3000, name="binding (TestAll)")
    for k, v in (rep.get("extra") or {}).items():
        if k.startswith("part:"):
            ctx.log("  %-44s %6d cases %7.1fs" % (k[5:], v.get("cases", 0), v.get("seconds", 0)))
    ctx.cov["trace_events_validated"] = (rep.get("extra") or {}).get("trace_events", 0)

    # ---- recorded runs against the specification
    if os.path.exists(trace) and os.path.getsize(trace) > 0 and rep.get("cases"):
        validate_trace(ctx, trace, "random runs")
        if thorough:
            selftest(ctx, trace)

    if thorough:
        rr = ctx.go_test("./handshake", run="TestConcurrent$", env={"VERIF_ROUNDS": 10}, race=True, timeout=1500,
                         name="./handshake TestConcurrent$ -race", count_cases=False)
        out = rr.get("_out", "")
        if "WARNING: DATA RACE" in out:
            blk = out[out.index("WARNING: DATA RACE"):][:6000]
            if "any-sync/net/secureservice" in blk:
                # two connections touching the same handshake state at the same time
                ctx.violation("data-race:handshake", "the race detector reports concurrent access inside the handshake code "
                              "while 64 handshakes run on the shared pool", {"test": "TestConcurrent", "seed": ctx.seed, "race": blk[:3000]})
            else:
                raise broken("data race outside the code under test (harness?):\n" + blk[:3000])
    ctx.assume("signatures are unforgeable: the adversary only uses signatures it made itself or observed on some connection")
    ctx.assume("the byte stream is the harness pipe (TCP-like): data written before a close stays readable, a write to a peer that "
               "already closed succeeds, a write fails once the own end is closed or the transport is cut")
    ctx.assume("the remote peer id handed to the handshake is the authenticated transport peer id (TLS layer not modelled)")
