"""C14 - handshake: mutual version gating, proven identity, same verdict on both sides.

spec/handshake/Handshake.tla (the sync.Pool of handshake objects is part of the state).
  1. exhaustive TLC: every configuration pair without faults; one session with every fault at every
     point and every chunking; two sessions on the shared pool with every choice of pooled object;
     the pre-repair release() (constant Resets) must still be refuted by TLC.
  2. spec -> code: behaviours emitted by TLC (simulation over two overlapping sessions with faults,
     the counterexamples of the pre-repair model, in the thorough tier every behaviour of a small
     space) are executed step by step on real secureservice instances over a gated pipe, with the
     pooled object chosen as the behaviour says; property oracles on the real observations.
  3. code -> spec: random schedules beyond the model-checked bounds are logged (one event per spec
     action + observed post-state incl. the contents of the pool object) and validated by
     HandshakeTrace.tla, every invariant evaluated on every recorded state.
  4. 64 free-running concurrent handshakes with distinct identities; consecutive connections on one
     goroutine (object reuse without any control over sync.Pool)."""
import os
import re

from vf import CheckBroken

LEVEL = "model_checking"
INVS = ("Agreement", "SuccessSound", "MutualGating", "ReplayRejected", "FaultNeverSuccess")


def validate_trace(ctx, trace, label):
    tv = ctx.tlc("handshake", "HandshakeTrace", "HandshakeTrace.cfg", workers=1, env={"VERIF_TRACE": trace},
                 timeout=1500, count=False, name="trace-validation " + label)
    if tv.timed_out:
        raise CheckBroken("trace validation timed out")
    m = re.search(r"TRACE-DRIFT\", (\d+)", tv.out)
    if m:
        ctx.cov["drift"] += int(m.group(1))
        if int(m.group(1)):
            ctx.notes.append("trace validation (%s): %s recorded steps were not explained by the specification" % (label, m.group(1)))
    if tv.error == "invariant":
        # a property of the design failed on a state recorded from the real code
        m = re.search(r"TRACE-REJECTED-AT-LINE\", (\d+)", tv.out)
        line = int(m.group(1)) if m else -1
        lines = open(trace).read().splitlines()
        start = max(i for i in range(min(line, len(lines))) if '"ev":"Config"' in lines[i]) if line > 0 else 0
        # the recorded run as a behaviour that --replay executes again on the real code
        import json
        evs = [json.loads(x) for x in lines[start:line]]
        steps = []
        for ev in evs[1:]:
            st = {k: v for k, v in ev.items() if k in ("s", "side", "fresh", "o", "f", "ok", "q", "got", "variant")}
            st["a"] = ev["ev"]
            if st["a"] != "End":
                steps.append(st)
        ctx.violation("trace-invariant-%s" % tv.error_name,
                      "a recorded run of the real handshake violates %s of Handshake.tla (trace line %d)" % (tv.error_name, line),
                      {"sess": evs[0]["sess"], "seed": evs[0].get("seed", 0), "steps": steps, "origin": "recorded run",
                       "trace_events": lines[start:line]})
        return
    if tv.ok:
        return
    if "TRACE-REJECTED-AT-LINE" in tv.out:
        m = re.search(r"TRACE-REJECTED-AT-LINE\", (\d+)", tv.out)
        raise CheckBroken("recorded trace is neither explained nor adopted by HandshakeTrace at line %s\n%s" % (
            m.group(1) if m else "?", tv.out[-2500:]))
    raise CheckBroken("trace validation failed to run:\n" + tv.out[-3000:])


def guard_go_test(ctx):
    """A panic in the handshake's own worker goroutine cannot be recovered by the harness: the test binary dies
    without a report. If the dying goroutine is inside net/secureservice, that is the code under test failing on
    the input named by the breadcrumb file -> violation; anything else stays a broken check."""
    import json
    orig = ctx.go_test
    crumb = os.path.join(ctx.scratch, "crumb.json")

    def wrapped(pkg, **kw):
        env = dict(kw.pop("env", None) or {})
        env.update({"VERIF_CRUMB": crumb, "GOTRACEBACK": "single"})
        if os.path.exists(crumb):
            os.remove(crumb)
        try:
            return orig(pkg, env=env, **kw)
        except Exception as ex:  # lib/vf.py runs as __main__: its CheckBroken is not the class imported above
            if type(ex).__name__ != "CheckBroken":
                raise
            msg = str(ex)
            m = re.search(r"^panic: (.*)$", msg, re.M)
            block = msg[m.start():].split("\n\n")[0:2] if m else []
            dying = "\n".join(block)
            if not m or "any-sync/net/secureservice" not in dying or not os.path.exists(crumb):
                raise
            fn = re.search(r"any-sync/net/secureservice[\w/]*\.([\w.()*]+)\(", dying)
            ctx.violation("panic:%s" % (fn.group(1) if fn else "secureservice"),
                          "the handshake code panicked (%s) and took the process down" % m.group(1)[:200],
                          json.load(open(crumb)))
            return {"extra": {}, "violations": [], "cases": 0}
    ctx.go_test = wrapped


def run(ctx):
    thorough = ctx.tier == "thorough"
    guard_go_test(ctx)
    if ctx.replay:
        import json
        obj = json.load(open(ctx.replay)).get("replay") or {}
        test = obj.get("test") if isinstance(obj, dict) else None
        if isinstance(obj, dict) and obj.get("kind") == "proto":
            ctx.go_test("./handshake", run="TestProtoReplay$")
        elif test in ("TestConcurrent", "TestReuse", "TestRandom", "TestProtoReuse"):
            env = {"VERIF_SEED": obj.get("seed", 1)}
            if "runs" in obj:
                env["VERIF_RUNS"] = obj["runs"]
            ctx.go_test("./handshake", run=test + "$", env=env)
        else:
            ctx.go_test("./handshake", run="TestReplay$")
        return
    w = min(ctx.cores, 8)
    if os.environ.get("VERIF_C14_BINDING_ONLY"):   # development aid (mutant runs): skip the exhaustive TLC part
        return binding(ctx, thorough)
    # ---- 1. the design, exhaustively
    ctx.tlc_expect_ok("handshake", "HandshakeMC", "Handshake_mc_faults.cfg", coverage=True, workers=w, timeout=1500)
    ctx.tlc_expect_ok("handshake", "HandshakeMC", "Handshake_mc_cfgs.cfg", workers=w, timeout=1500)
    ctx.tlc_expect_ok("handshake", "HandshakeMC", "Handshake_mc_pool.cfg", workers=w, timeout=1500)
    ctx.tlc_expect_ok("handshake", "ProtoMC", "Proto_mc1.cfg", coverage=True, workers=w, timeout=1500)
    if thorough:
        ctx.tlc_expect_ok("handshake", "ProtoMC", "Proto_mc.cfg", workers=w, timeout=3000)
        ctx.tlc_expect_ok("handshake", "HandshakeMC", "Handshake_mc_faults2.cfg", workers=w, timeout=3000)
        ctx.tlc_expect_ok("handshake", "HandshakeMC", "Handshake_mc_poolc.cfg", workers=w, timeout=3000)
    # the deviation "release() keeps version / client version" must still be refuted by the model
    asis = ctx.tlc("handshake", "HandshakeMC", "Handshake_mc_asis.cfg", workers=w, timeout=900, count=False,
                   name="pre-repair release() (expected: refuted)")
    if asis.error != "invariant" or asis.error_name not in ("SuccessSound", "MutualGating"):
        raise CheckBroken("the model of the pre-repair release() is no longer refuted (%s %s): the specification lost the "
                          "pool residue\n%s" % (asis.error, asis.error_name, asis.out[-1500:]))
    ctx.notes.append("pre-repair release() refuted by TLC: %s after %d states" % (asis.error_name, asis.generated))

    binding(ctx, thorough)


def binding(ctx, thorough):
    # ---- 2. spec -> code
    def gen(cfg, name, simulate=None, depth=None, timeout=1500, module="HandshakeGen"):
        d = os.path.join(ctx.scratch, name)
        os.makedirs(d)
        res = ctx.tlc("handshake", module, cfg, workers=1, env={"VERIF_EMIT_DIR": d}, timeout=timeout,
                      count=False, simulate=simulate, depth=depth, name="generate " + name)
        if res.timed_out or (res.error and not simulate) or (simulate and res.error not in (None,)):
            raise CheckBroken("behaviour generation %s failed: %s %s\n%s" % (name, res.error, res.error_name, res.out[-2000:]))
        n = len(os.listdir(d))
        if n == 0:
            raise CheckBroken("no behaviours emitted by %s\n%s" % (cfg, res.out[-1500:]))
        ctx.log("generated %d behaviours (%s)" % (n, name))
        return d

    d = gen("HandshakeGen_asis.cfg", "prerepair")
    ctx.go_test("./handshake", run="TestReplay$", name="replay pre-repair counterexamples",
                env={"VERIF_BEHAVIOURS": d, "VERIF_MODE": "probe"}, timeout=1500)
    # what the model says could be exploited if release() forgot any one field
    d = gen("HandshakeGen_residue.cfg", "residue")
    ctx.go_test("./handshake", run="TestReplay$", name="replay forgotten-reset counterexamples",
                env={"VERIF_BEHAVIOURS": d, "VERIF_MODE": "probe"}, timeout=3000)
    d = gen("HandshakeGen_rep.cfg", "tamper")
    ctx.go_test("./handshake", run="TestReplay$", name="replay every tampered frame (replayed, stripped, forged, malformed)",
                env={"VERIF_BEHAVIOURS": d, "VERIF_DEDUP": "" if thorough else "1"}, timeout=3000)
    d = gen("HandshakeGen_sim.cfg", "sim", simulate=1500 if thorough else 150, depth=60)
    ctx.go_test("./handshake", run="TestReplay$", name="replay simulated (overlapping sessions, 1 fault)",
                env={"VERIF_BEHAVIOURS": d}, timeout=1500)
    d = gen("HandshakeGen_sim2.cfg", "sim2", simulate=1500 if thorough else 100, depth=60)
    ctx.go_test("./handshake", run="TestReplay$", name="replay simulated (consecutive sessions, 2 faults)",
                env={"VERIF_BEHAVIOURS": d}, timeout=1500)
    if thorough:
        d = gen("HandshakeGen_all.cfg", "all", timeout=3000)
        ctx.go_test("./handshake", run="TestReplay$", name="replay every fault at every point (1 session, 1 fault, interleavings deduplicated)",
                    env={"VERIF_BEHAVIOURS": d, "VERIF_DEDUP": "1"}, timeout=3000)

    # ---- 3. code -> spec
    trace = os.path.join(ctx.scratch, "hs-trace.ndjson")
    rep = ctx.go_test("./handshake", run="TestRandom$", env={"VERIF_TRACE_OUT": trace, "VERIF_RUNS": 1200 if thorough else 120},
                      timeout=1500)
    ctx.cov["trace_events_validated"] = rep["extra"].get("trace_events", 0)
    if os.path.exists(trace) and os.path.getsize(trace) > 0 and rep.get("cases"):
        validate_trace(ctx, trace, "random runs")
        if thorough:
            selftest(ctx, trace)

    # ---- 3b. the proto negotiation (same pool): ProtoHandshake.tla
    d = gen("ProtoGen_residue.cfg", "proto-residue", module="ProtoMC")
    ctx.go_test("./handshake", run="TestProtoReplay$", name="replay forgotten-reset counterexamples (proto negotiation)",
                env={"VERIF_BEHAVIOURS": d, "VERIF_MODE": "probe"}, timeout=1500)
    d = gen("ProtoGen_all.cfg", "proto-all", module="ProtoMC")
    ctx.go_test("./handshake", run="TestProtoReplay$", name="replay every behaviour of one proto negotiation (1 fault)",
                env={"VERIF_BEHAVIOURS": d}, timeout=1500)
    ctx.go_test("./handshake", run="TestProtoReuse$", env={"VERIF_ATTEMPTS": 40 if thorough else 10}, timeout=1500)

    # ---- 4. free-running workers on the shared pool
    ctx.go_test("./handshake", run="TestConcurrent$", env={"VERIF_ROUNDS": 40 if thorough else 6}, timeout=1500)
    ctx.go_test("./handshake", run="TestReuse$", env={"VERIF_ATTEMPTS": 40 if thorough else 8}, timeout=1500)
    if thorough:
        rr = ctx.go_test("./handshake", run="TestConcurrent$", env={"VERIF_ROUNDS": 10}, race=True, timeout=1500,
                         name="./handshake TestConcurrent$ -race", count_cases=False)
        out = rr.get("_out", "")
        if "WARNING: DATA RACE" in out:
            blk = out[out.index("WARNING: DATA RACE"):][:6000]
            if "any-sync/net/secureservice" in blk:
                # two connections touching the same handshake state at the same time
                ctx.violation("data-race:handshake", "the race detector reports concurrent access inside the handshake code "
                              "while 64 handshakes run on the shared pool", {"test": "TestConcurrent", "seed": ctx.seed, "race": blk[:3000]})
            else:
                raise CheckBroken("data race outside the code under test (harness?):\n" + blk[:3000])
    ctx.assume("signatures are unforgeable: the adversary only uses signatures it made itself or recorded on another connection")
    ctx.assume("the byte stream is the harness pipe (TCP-like): data written before a close stays readable, a write to a peer that already closed succeeds, a write fails once the own end is closed or the transport is cut")
    ctx.assume("the remote peer id handed to the handshake is the authenticated transport peer id (TLS layer not modelled)")


def selftest(ctx, trace):
    """binding self-test: a corrupted recording must not be accepted silently"""
    import json
    lines = open(trace).read().splitlines()
    for i, ln in enumerate(lines):
        ev = json.loads(ln)
        if ev.get("ev") == "Recv" and ev.get("post", {}).get("verdict") == "ok" and ev["post"]["res"]["ver"] == 1:
            ev["post"]["res"]["ver"] = 2
            lines[i] = json.dumps(ev)
            break
    else:
        raise CheckBroken("self-test: no successful Recv event to corrupt")
    p = os.path.join(ctx.scratch, "hs-trace-corrupt.ndjson")
    open(p, "w").write("\n".join(lines) + "\n")
    tv = ctx.tlc("handshake", "HandshakeTrace", "HandshakeTrace.cfg", workers=1, env={"VERIF_TRACE": p}, timeout=1500,
                 count=False, name="binding self-test (corrupted recording)")
    m = re.search(r"TRACE-DRIFT\", (\d+)", tv.out)
    if tv.error != "invariant" and not (m and int(m.group(1)) > 0):
        raise CheckBroken("binding self-test: a recording with a falsified context version was accepted")
    ctx.notes.append("binding self-test: falsified recording rejected (%s)" % (tv.error_name or "resync"))
