"""C20 - component container: ordered start, reverse-ordered stop, no use-before-init.

spec/app/AppContainer.tla; exhaustive TLC over all component lists, failure points, close-error
sets and nestings; every terminal behaviour replayed on a real app.App; random larger
configurations recorded and validated by AppContainerTrace.tla."""
import os

LEVEL = "model_checking"


def run(ctx):
    thorough = ctx.tier == "thorough"
    if ctx.replay:
        ctx.go_test("./appc", run="TestReplay$")
        return
    # 1. the design: all invariants + termination, exhaustive
    mc = "AppContainer_mc_t.cfg" if thorough else "AppContainer_mc.cfg"
    ctx.tlc_expect_ok("app", "AppContainer", mc, coverage=True, timeout=1500)
    # 2. spec -> code: emit every terminal behaviour and replay it on the real container
    emit = os.path.join(ctx.scratch, "emit")
    os.makedirs(emit)
    gen = ctx.tlc_expect_ok("app", "AppContainerGen", "AppContainerGen_t.cfg" if thorough else "AppContainerGen_q.cfg",
                            workers=1, env={"VERIF_EMIT_DIR": emit}, timeout=1500, count=False)
    n = len(os.listdir(emit))
    if n == 0:
        raise ctx_broken("no behaviours emitted")
    ctx.go_test("./appc", run="TestReplay$", env={"VERIF_BEHAVIOURS": emit})
    # 3. code -> spec: recorded call logs of random larger configurations validated by the trace spec
    trace = os.path.join(ctx.scratch, "appc-trace.ndjson")
    rep = ctx.go_test("./appc", run="TestRecord$", env={"VERIF_TRACE_OUT": trace, "VERIF_RUNS": 2000 if thorough else 300})
    tv = ctx.tlc("app", "AppContainerTrace", "AppContainerTrace.cfg", workers=1, env={"VERIF_TRACE": trace},
                 timeout=900, count=False, name="trace-validation")
    ctx.cov["trace_events_validated"] = rep["extra"].get("trace_events", 0)
    if tv.timed_out or (tv.error and tv.error not in ("invariant", "other")):
        from vf import CheckBroken
        raise CheckBroken("trace validation did not run: %s\n%s" % (tv.error, tv.out[-3000:]))
    if tv.error == "invariant":
        # an invariant of the design failed on a state recorded from the real container
        ctx.violation("trace-invariant-" + str(tv.error_name),
                      "recorded call log violates %s: %s" % (tv.error_name, tv.trace[-1][1] if tv.trace else ""),
                      {"trace_tail": [s for _, s in tv.trace[-3:]]})
    elif tv.error == "other" or not tv.ok:
        if "TRACE-REJECTED-AT-LINE" in tv.out:
            import re
            m = re.search(r"TRACE-REJECTED-AT-LINE\", (\d+)", tv.out)
            line = int(m.group(1)) if m else -1
            lines = open(trace).read().splitlines()
            ctx.violation("trace-rejected", "recorded call log is not a behaviour of AppContainer at event %d: %s"
                          % (line, lines[line - 1] if 0 < line <= len(lines) else "?"),
                          {"events": lines[max(0, line - 12):line]})
        else:
            from vf import CheckBroken
            raise CheckBroken("trace validation failed to run:\n" + tv.out[-3000:])
    ctx.assume("components' Init/Run/Close are the only observable effects; timing statistics are not modelled")


def ctx_broken(msg):
    from vf import CheckBroken
    return CheckBroken(msg)
