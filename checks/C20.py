"""C20 - component container: ordered start, reverse-ordered stop, no use-before-init.

spec/app/AppContainer.tla; exhaustive TLC over all component lists, failure points, close-error
sets and nestings; every terminal behaviour replayed on a real app.App; random larger
configurations recorded and validated by AppContainerTrace.tla."""
import os

LEVEL = "model_checking"


def run(ctx):
    thorough = ctx.tier == "thorough"
    if ctx.replay:
        ctx.go_test("./appc", run="TestReplay$")
        return
    # 1. the design: all invariants + termination, exhaustive
    mc = "AppContainer_mc_t.cfg" if thorough else "AppContainer_mc.cfg"
    ctx.tlc_expect_ok("app", "AppContainer", mc, coverage=True, timeout=1500)
    # 2. spec -> code: emit every terminal behaviour and replay it on the real container
    emit = os.path.join(ctx.scratch, "emit")
    os.makedirs(emit)
    gen = ctx.tlc_expect_ok("app", "AppContainerGen", "AppContainerGen_t.cfg" if thorough else "AppContainerGen_q.cfg",
                            workers=1, env={"VERIF_EMIT_DIR": emit}, timeout=1500, count=False)
    n = len(os.listdir(emit))
    if n == 0:
        raise ctx_broken("no behaviours emitted")
    ctx.go_test("./appc", run="TestReplay$", env={"VERIF_BEHAVIOURS": emit})
    # 3. code -> spec: recorded call logs of random larger configurations validated by the trace spec
    trace = os.path.join(ctx.scratch, "appc-trace.ndjson")
    rep = ctx.go_test("./appc", run="TestRecord$", env={"VERIF_TRACE_OUT": trace, "VERIF_RUNS": 2000 if thorough else 300})
    tv = ctx.tlc("app", "AppContainerTrace", "AppContainerTrace.cfg", workers=1, env={"VERIF_TRACE": trace},
                 timeout=900, count=False, name="trace-validation")
    ctx.cov["trace_events_validated"] = rep["extra"].get("trace_events", 0)
    if tv.timed_out or (tv.error and tv.error not in ("invariant", "other")):
        from vf import CheckBroken
        raise CheckBroken("trace validation did not run: %s\n%s" % (tv.error, tv.out[-3000:]))
    if tv.error == "invariant":
        # an invariant of the design failed on a state recorded from the real container
        ctx.violation("trace-invariant-" + str(tv.error_name),
                      "recorded call log violates %s: %s" % (tv.error_name, tv.trace[-1][1] if tv.trace else ""),
                      {"trace_tail": [s for _, s in tv.trace[-3:]]})
    elif tv.error == "other" or not tv.ok:
        if "TRACE-REJECTED-AT-LINE" in tv.out:
            import re
            m = re.search(r"TRACE-REJECTED-AT-LINE\", (\d+)", tv.out)
            line = int(m.group(1)) if m else -1
            lines = open(trace).read().splitlines()
            ctx.violation("trace-rejected", "recorded call log is not a behaviour of AppContainer at event %d: %s"
                          % (line, lines[line - 1] if 0 < line <= len(lines) else "?"),
                          {"events": lines[max(0, line - 12):line]})
        else:
            from vf import CheckBroken
            raise CheckBroken("trace validation failed to run:\n" + tv.out[-3000:])
    # 4. code -> spec on the repository's own tests: built with -tags verif every app.App (including the
    #    per-space child containers of commonspace) records its component calls; each recorded life cycle
    #    must be a behaviour of AppContainer and satisfy every invariant.
    repo_traces(ctx, thorough)
    ctx.assume("components' Init/Run/Close are the only observable effects; timing statistics are not modelled")


def repo_traces(ctx, thorough):
    import subprocess, re
    from vf import go_env, CheckBroken
    pkgs = ["./app/", "./nodeconf/...", "./acl/..."]
    if thorough:
        pkgs += ["./commonspace/", "./commonspace/sync/...", "./net/..."]
    trace = os.path.join(ctx.scratch, "repo-app-trace.ndjson")
    env = go_env()
    env["VERIF_APP_TRACE"] = trace
    try:
        p = subprocess.run(["go", "test", "-tags", "verif", "-vet=off", "-count=1", "-timeout", "40m"] + pkgs, cwd=ctx.repo, env=env,
                           stdout=subprocess.PIPE, stderr=subprocess.STDOUT, text=True, errors="replace", timeout=2700)
    except subprocess.TimeoutExpired:
        raise CheckBroken("repository tests with -tags verif did not finish in time (machine overloaded?)")
    if "[build failed]" in p.stdout or "[setup failed]" in p.stdout:
        raise CheckBroken("repository tests do not build with -tags verif:\n" + p.stdout[-2000:])
    # a failing (timing-sensitive) repository test is not this check's business; only the recorded traces are
    if not os.path.exists(trace):
        raise CheckBroken("no container trace recorded (app hooks missing in the tree under test?)\n" + p.stdout[-1500:])
    lines = open(trace).read().splitlines()
    runs = sum(1 for l in lines if '"ev":"Config"' in l)
    maxn = 1
    for l in lines:
        if '"ev":"Config"' in l:
            maxn = max(maxn, l.count('"kind":') - 1)
    if runs == 0:
        raise CheckBroken("empty container trace")
    cfg = open(os.path.join(ctx.scratch, "..", "x"), "w") if False else None
    cfgtxt = open(os.path.join(os.path.dirname(os.path.dirname(os.path.abspath(__file__))), "spec", "app", "AppContainerTrace.cfg")).read()
    cfgtxt = re.sub(r"MaxN = \d+", "MaxN = %d" % max(maxn, 8), cfgtxt)
    tv = ctx.tlc("app", "AppContainerTrace", "AppContainerTrace_repo.cfg", workers=1, env={"VERIF_TRACE": trace},
                 files={"AppContainerTrace_repo.cfg": cfgtxt}, timeout=900, count=False, name="trace-validation-repo-tests")
    ctx.cov["repo_test_container_runs_validated"] = runs
    ctx.cov["repo_test_trace_events_validated"] = len(lines)
    ctx.cov["traces_validated_against_impl"] += runs
    if tv.timed_out:
        raise CheckBroken("trace validation of repository test traces timed out")
    if tv.error == "invariant":
        ctx.violation("repo-trace-invariant-" + str(tv.error_name),
                      "a container life cycle recorded from the repository's own tests violates %s" % tv.error_name,
                      {"trace_tail": [s for _, s in tv.trace[-3:]]})
    elif not tv.ok:
        m = re.search(r'TRACE-REJECTED-AT-LINE", (\d+)', tv.out)
        if m:
            line = int(m.group(1))
            ctx.violation("repo-trace-rejected", "container life cycle recorded from the repository's tests is not a behaviour of AppContainer at event %d: %s"
                          % (line, lines[line - 1] if 0 < line <= len(lines) else "?"), {"events": lines[max(0, line - 40):line]})
        else:
            raise CheckBroken("trace validation of repository test traces failed to run:\n" + tv.out[-3000:])


def ctx_broken(msg):
    from vf import CheckBroken
    return CheckBroken(msg)
