"""C06 - change order is a function of the change set; incremental equals rebuilt.

spec/treeorder/ObjTree.tla + TreeOrder.tla model the object tree (Add = AddContent, Deliver =
AddRawChanges with its in-memory / rebuild-from-storage paths, reduction, Reopen, history trees)
and state the order properties.  1. exhaustive TLC.  2. spec -> code: behaviours emitted by
TreeOrderGen.tla (every transition of the small graph, simulated behaviours of the larger one) are
executed on real object trees (chosen ids; a sample also on the signed path with mined content ids);
they include rejected deliveries (a payload that attaches and is refused by the validator) followed by
a further step.
3. code -> spec: random larger honest histories on real trees are checked by the Go oracles and
their recorded steps are validated by TreeOrderTrace.tla (all invariants on the recorded states).
"""
import json
import os
import re

LEVEL = "model_checking"


def broken(msg):
    from vf import CheckBroken
    return CheckBroken(msg)


def emit_and_replay(ctx, cfg, env, simulate=None, depth=None, timeout=1500, test_env=None, name=None):
    emit = os.path.join(ctx.scratch, "emit-%d" % len(ctx.cov["tlc_runs"]))
    os.makedirs(emit)
    ctx.tlc_expect_ok("treeorder", "TreeOrderGen", cfg, workers=1, env={"VERIF_EMIT_DIR": emit},
                      simulate=simulate, depth=depth, timeout=timeout, count=False, name=name)
    n = len(os.listdir(emit))
    if n == 0:
        raise broken("no behaviours emitted by %s" % cfg)
    e = {"VERIF_BEHAVIOURS": emit}
    e.update(test_env or {})
    ctx.go_test("./treeorder", run="TestReplay$", env=e, timeout=2400, name="replay %s (%d behaviours)" % (cfg, n))
    return n


def validate_trace(ctx, trace, events, selftest=False):
    """TreeOrderTrace.tla on a recorded trace. Returns (tlc result, drift)."""
    tv = ctx.tlc("treeorder", "TreeOrderTrace", "TreeOrderTrace.cfg", workers=1, env={"VERIF_TRACE": trace},
                 timeout=2400, count=False, name="trace-validation%s" % (" (self-test)" if selftest else ""))
    m = re.search(r'"TRACE-DRIFT", (\d+)', tv.out)
    drift = int(m.group(1)) if m else None
    return tv, drift


def reset_before(lines, at):
    for i in range(min(at, len(lines)) - 1, -1, -1):
        try:
            ev = json.loads(lines[i])
        except Exception:
            continue
        if ev.get("ev") == "Reset":
            return ev
    return {}


def run(ctx):
    thorough = ctx.tier == "thorough"
    if ctx.replay:
        ctx.go_test("./treeorder", run="TestReplay$")
        return
    # 1. the design: all order invariants + Append => prefix, exhaustive
    if thorough:
        ctx.tlc_expect_ok("treeorder", "TreeOrder", "TreeOrder_mc_t.cfg", coverage=True, timeout=5400)
        ctx.tlc_expect_ok("treeorder", "TreeOrder", "TreeOrder_mc3_t.cfg", timeout=3600)
    else:
        ctx.tlc_expect_ok("treeorder", "TreeOrder", "TreeOrder_mc.cfg", timeout=1200)
    # 2. spec -> code
    if thorough:
        emit_and_replay(ctx, "TreeOrderGen_qd_t.cfg", {}, test_env={"VERIF_SIGNED_EVERY": 6})   # = _q + duplicated ids
        emit_and_replay(ctx, "TreeOrderGen_t.cfg", {}, timeout=3000, test_env={"VERIF_SIGNED_EVERY": 25})
        emit_and_replay(ctx, "TreeOrderGen_sim.cfg", {}, simulate=250, depth=11, timeout=3000, test_env={"VERIF_SIGNED_EVERY": 10})
        # every <rejected delivery to a multi-head tree, next step> of the <= 4-change graph (single-change deliveries)
        emit_and_replay(ctx, "TreeOrderGen_rej_t.cfg", {}, timeout=3000, test_env={"VERIF_SIGNED_EVERY": 20})
    else:
        emit_and_replay(ctx, "TreeOrderGen_q.cfg", {}, test_env={"VERIF_SIGNED_EVERY": 60})
        emit_and_replay(ctx, "TreeOrderGen_sim.cfg", {}, simulate=8, depth=11, test_env={"VERIF_SIGNED_EVERY": 4})
    # 3. code -> spec: random honest histories, Go oracles + trace validation
    trace = os.path.join(ctx.scratch, "treeorder-trace.ndjson")
    rep = ctx.go_test("./treeorder", run="TestRandomOrder$", timeout=2400,
                      env={"VERIF_TRACE_OUT": trace, "VERIF_RUNS": 150 if thorough else 30,
                           "VERIF_TRACE_RUNS": 100 if thorough else 8, "VERIF_MAX_CHANGES": 14})
    events = int(rep["extra"].get("trace_events", 0))
    ctx.cov["trace_events_validated"] = events
    if thorough:
        # larger DAGs (up to 30 changes): Go oracles only
        ctx.go_test("./treeorder", run="TestRandomOrder$", timeout=2400, env={"VERIF_RUNS": 60, "VERIF_MAX_CHANGES": 30},
                    name="TestRandomOrder (large)")
    if rep.get("violations"):
        return  # the failing run is not in the trace; the Go oracles already reported it
    if events == 0:
        raise broken("no trace events recorded")
    tv, drift = validate_trace(ctx, trace, events)
    lines = open(trace).read().splitlines()
    if tv.timed_out:
        raise broken("trace validation timed out")
    if tv.error in ("invariant", "action_property"):
        # an invariant / step property of the design failed on a state recorded from the real tree
        m = re.search(r"^/\\ l = (\d+)", tv.out, re.M)
        ls = [int(x) for x in re.findall(r"^/\\ l = (\d+)", tv.out, re.M)]
        at = max(ls) if ls else len(lines)
        rs = reset_before(lines, at)
        ctx.violation("trace-" + str(tv.error_name),
                      "recorded run violates %s at event %d: %s" % (tv.error_name, at - 1, lines[at - 2] if 1 < at <= len(lines) + 1 else "?"),
                      {"kind": "random-order", "seed": rs.get("seed", 0), "params": rs.get("params", {})})
    elif not tv.ok:
        raise broken("trace validation failed to run:\n" + tv.out[-3000:])
    else:
        if drift is None:
            raise broken("trace validation printed no drift count")
        ctx.cov["drift"] += drift
        if drift:
            ctx.notes.append("trace validation: %d recorded steps were not predicted by TreeOrder.tla" % drift)
    # binding self-test: a corrupted record must not be accepted silently
    if thorough and tv.ok:
        bad = os.path.join(ctx.scratch, "treeorder-trace-bad.ndjson")
        done = False
        out = []
        for ln in lines:
            ev = json.loads(ln)
            if not done and ev.get("ev") == "Deliver" and len(ev["st"]["store"]) >= 4:
                s = ev["st"]["store"]
                s[-1], s[-2] = s[-2], s[-1]
                done = True
            out.append(json.dumps(ev))
        if done:
            open(bad, "w").write("\n".join(out[:400]) + "\n")
            tb, db = validate_trace(ctx, bad, 400, selftest=True)
            if tb.ok and not db:
                raise broken("binding self-test: a trace with two stored changes swapped was accepted")
            ctx.cov["selftest"] = "corrupted trace rejected (%s, drift %s)" % (tb.error_name or "accepted", db)
    ctx.assume("writers are honest: a change's parents are its writer's heads and its snapshot base is its writer's tree root")
    ctx.assume("ids are compared as the implementation compares them (byte-wise string order)")
    ctx.assume("BuildHistoryTree with no heads left (Heads=[root], IncludeBeforeId=false) is excluded: it does not terminate (reported outside C06)")
