"""C13 - space id binds header, ACL root and settings root; 1-1 derivation is symmetric.

spec/space/SpaceBind.tla: symbolic payloads <<header, aclRoot, settingsRoot>> built by every constructor
(create v0/v1, derive v0/v1, both 1-1 types, two owners), every single-field mutation x {altered, taken
from the other space} x {ids kept, ids recomputed}, id mutations, all cross-splices, forged parts;
Check transcribes ValidateSpaceStorageCreatePayload / ValidateSpaceHeader.  TLC decides
AcceptImpliesBound, AnyMutationRejected (and the converse / header-only variants) exhaustively.
Binding: every TLC case rendered to real bytes (real constructors, real signatures), validated by the
real functions directly and through the create / push / pull paths of spaceService (in-package overlay
test), judged by an independent oracle; single-byte sweeps of every part recorded and validated against
SpaceBindTrace.tla; 1-1 derivation with real key pairs (ids, roots, AclState keys of both parties, third
party)."""
import json
import os
import re

LEVEL = "model_checking"

OVERLAY = {"commonspace/zz_verif_space_test.go": "harness/inpkg/commonspace/zz_verif_space_test.go"}


def broken(msg):
    from vf import CheckBroken
    return CheckBroken(msg)


def validate_trace(ctx, trace, name, timeout=3000):
    tv = ctx.tlc("space", "SpaceBindTrace", "SpaceBindTrace.cfg", workers=1, env={"VERIF_TRACE": trace},
                 timeout=timeout, count=False, name=name, extra=["-noGenerateSpecTE", "-difftrace"])
    if tv.timed_out:
        raise broken("trace validation timed out (%s)" % name)
    m = re.search(r'"TRACE-DRIFT", (\d+)', tv.out)
    drift = int(m.group(1)) if m else None
    return tv, drift


def report_trace(ctx, tv, drift, trace):
    lines = open(trace).read().splitlines()
    if tv.error == "invariant":
        ls = re.findall(r"^/\\ l = (\d+)", tv.out, re.M)
        n = int(ls[-1]) - 1 if ls else -1
        ev = json.loads(lines[n - 1]) if 0 < n <= len(lines) else {}
        ctx.violation("trace-invariant-%s/%s/%s.%s" % (tv.error_name, ev.get("ca"), ev.get("part"), ev.get("field")),
                      "a single-byte mutation recorded from the real validator violates %s of SpaceBind (trace line %d): %s"
                      % (tv.error_name, n, json.dumps(ev)[:500]),
                      {"sweep": True, "ctor": ev.get("ca"), "part": ev.get("part"), "offset": ev.get("offset", 0), "mask": 1,
                       "rehash": ev.get("rehash", False), "class": ev.get("field")})
        return
    if not tv.ok:
        if "TRACE-REJECTED-AT-LINE" in tv.out:
            m = re.search(r'TRACE-REJECTED-AT-LINE", (\d+)', tv.out)
            raise broken("sweep trace is not a behaviour of SpaceBindTrace at line %s" % (m.group(1) if m else "?"))
        raise broken("trace validation failed to run:\n" + tv.out[-3000:])
    if drift is None:
        raise broken("trace validation did not report its drift count:\n" + tv.out[-2000:])
    if drift:
        at = re.findall(r'"TRACE-DRIFT-AT-LINE", (\d+)', tv.out)
        for a in at[:5]:
            ctx.notes.append("drift: prediction of SpaceBind differs from the observation at trace line %s: %s" % (
                a, lines[int(a) - 1][:400] if 0 < int(a) <= len(lines) else "?"))
        ctx.cov["drift"] += drift


def self_test(ctx, trace):
    """binding self-test: corrupted observations must be noticed by the trace specification."""
    lines = open(trace).read().splitlines()
    # (a) a rejected byte mutation turned into an accepted one -> invariant; (b) one fact flipped -> drift
    i = next(k for k, ln in enumerate(lines) if '"field":"sig"' in ln and '"rehash":true' in ln)
    o = json.loads(lines[i])
    a = dict(o, accepted=True, stage="ok")
    b = dict(o, facts=dict(o["facts"], hdrSuffix=not o["facts"]["hdrSuffix"]))
    for nm, obj, want in (("accepted", a, "invariant"), ("fact", b, "drift")):
        path = os.path.join(ctx.scratch, "selftest-%s.ndjson" % nm)
        with open(path, "w") as fh:
            fh.write("\n".join(lines[max(0, i - 20):i] + [json.dumps(obj)] + lines[i + 1:i + 20]) + "\n")
        tv, drift = validate_trace(ctx, path, "binding-selftest-" + nm, 900)
        if want == "invariant" and tv.error != "invariant":
            raise broken("binding self-test: an accepted signature mutation was not rejected by the trace spec (%s)" % tv.error)
        if want == "drift" and not (tv.ok and drift == 1):
            raise broken("binding self-test: a flipped fact was not counted as drift (%s, drift %s)" % (tv.error, drift))
        ctx.log("binding self-test %s: noticed as %s" % (nm, want))
    ctx.cov["binding_selftests"] = 2


def run(ctx):
    thorough = ctx.tier == "thorough"
    if ctx.replay:
        rp = json.load(open(ctx.replay)).get("replay") or {}
        if isinstance(rp, dict) and "service_case" in rp:
            path = os.path.join(ctx.scratch, "svc-replay.ndjson")
            with open(path, "w") as fh:
                fh.write(json.dumps(rp["service_case"]) + "\n")
            ctx.go_test("./commonspace/", run="TestVerifSpaceServicePaths$", in_repo=True,
                        overlay={k: os.path.join(os.path.dirname(os.path.dirname(os.path.abspath(__file__))), v) for k, v in OVERLAY.items()},
                        env={"VERIF_SERVICE_CASES": path}, tags=None)
        elif isinstance(rp, dict) and rp.get("o2o"):
            ctx.go_test("./space", run="TestOneToOne$", env={"VERIF_O2O_PAIRS": 50})
        else:
            ctx.go_test("./space", run="TestReplay$")
        return
    verif = os.path.dirname(os.path.dirname(os.path.abspath(__file__)))
    # 1. the design: acceptance => bound, any mutation rejected; + 2a. generation of every case
    emit = os.path.join(ctx.scratch, "emit")
    os.makedirs(emit)
    if os.environ.get("VERIF_DEV_EMIT"):      # development aid only (mutant runs): cases emitted by an earlier run
        emit = os.environ["VERIF_DEV_EMIT"]
    elif thorough:
        if not os.environ.get("VERIF_DEV_SKIP_MC"):
            ctx.tlc_expect_ok("space", "SpaceBind", "SpaceBind_mc_t.cfg", coverage=True, timeout=3000, workers=min(8, ctx.cores))
        ctx.tlc_expect_ok("space", "SpaceBindGen", "SpaceBindGen_t.cfg", workers=1, env={"VERIF_EMIT_DIR": emit},
                          timeout=3000, count=False)
    else:
        # one run: invariants + coverage + emission
        ctx.tlc_expect_ok("space", "SpaceBindGen", "SpaceBindGen_q.cfg", workers=1, env={"VERIF_EMIT_DIR": emit},
                          timeout=3000, coverage=True)
    n = len(os.listdir(emit))
    if n == 0:
        raise broken("no cases emitted")
    # constructions outside the quantifier that are accepted (observation only, never a verdict)
    if not os.environ.get("VERIF_DEV_SKIP_MC"):
        obs = ctx.tlc("space", "SpaceBind", "SpaceBind_obs.cfg", timeout=1500, workers=min(4, ctx.cores), count=False,
                      name="observations (non-gating)", extra=["-noGenerateSpecTE"])
        if obs.error == "invariant" and obs.error_name == "NoObservation":
            ctx.notes.append("observation (outside the property's quantifier, not a verdict): the specification exhibits accepted "
                             "payloads that are not one of the valid spaces: v0 roots freshly signed by anybody that name the space id "
                             "(V0ForeignRoots), and envelope extensions with recomputed id of a v1 header / v0 settings root")
        elif obs.timed_out or (obs.error and obs.error != "invariant"):
            raise broken("observation config failed: %s" % obs.error)
    # 2b. spec -> code: every case on the real validator, then through the service paths
    svc = os.path.join(ctx.scratch, "service-cases.ndjson")
    ctx.go_test("./space", run="TestCases$", timeout=2400, env={"VERIF_BEHAVIOURS": emit, "VERIF_SERVICE_CASES": svc})
    rep = ctx.go_test("./commonspace/", run="TestVerifSpaceServicePaths$", in_repo=True, tags=None, timeout=2400,
                      overlay={k: os.path.join(verif, v) for k, v in OVERLAY.items()},
                      env={"VERIF_SERVICE_CASES": svc}, name="spaceService create/push/pull paths")
    ex = rep.get("extra") or {}
    if ex.get("pull_of_other_space_stored"):
        ctx.notes.append("observation (not a verdict): spacePullWithPeer stored a consistent space whose id differs from the requested "
                         "one in %s of %s tries (the pull path does not compare the returned header id with the request)"
                         % (ex.get("pull_of_other_space_stored"), ex.get("pull_of_other_space_tried")))
    # 3. code -> spec: single-byte sweeps recorded and validated
    trace = os.path.join(ctx.scratch, "space-sweep.ndjson")
    rep = ctx.go_test("./space", run="TestSweep$", timeout=2400,
                      env={"VERIF_TRACE_OUT": trace, "VERIF_SWEEP_OFFSETS": 0 if thorough else 100,
                           "VERIF_SWEEP_MASKS": 2 if thorough else 1})
    ctx.cov["trace_events_validated"] = rep["extra"].get("trace_events", 0)
    tv, drift = validate_trace(ctx, trace, "trace-validation")
    report_trace(ctx, tv, drift, trace)
    # 4. one-to-one derivation with real key pairs
    ctx.go_test("./space", run="TestOneToOne$", timeout=2400, env={"VERIF_O2O_PAIRS": 3000 if thorough else 100})
    if thorough and tv.ok:
        self_test(ctx, trace)
    ctx.assume("symbolic cryptography: content ids are injective, a signature verifies only for the signing key and the exact "
               "body; the adversary of the quantified cases cannot sign for the owner (forged parts are signed with other keys "
               "or by the owner himself)")
    ctx.assume("v0 headers do not commit to their roots (both roots merely name the space id): freshly signed foreign roots are "
               "accepted for v0; recorded as an observation outside the property's quantifier, never as a verdict")
