"""C08 - advertised range hashes depend only on current contents, not on history.

spec/ldiff/Ldiff.tla (range-tree maintenance transcribed from addElement / removeElement /
makeBottomRanges / recalculateHashes), invariant Canonical: every reachable index equals the index a
fresh fill of the same contents produces. Bound to app/ldiff by replay of TLC-generated histories,
random histories on large indexes and trace validation (see checks/ldiff_common.py)."""
import os
import sys

sys.path.insert(0, os.path.dirname(os.path.abspath(__file__)))
import ldiff_common as lc  # noqa: E402

LEVEL = "model_checking"


def run(ctx):
    thorough = ctx.tier == "thorough"
    tuples = lc.dump_tuples(ctx)
    if ctx.replay:
        ctx.go_test("./ldiff", run="TestReplay$", env={"VERIF_TUPLES": tuples})
        return
    # 1. the design: Canonical & co. on every history, all operation kinds
    if thorough:
        lc.exhaustive(ctx, ["Ldiff_c08_t2.cfg", "Ldiff_c08_t3.cfg", "Ldiff_c08_t4.cfg", "Ldiff_c08_t4m.cfg"], coverage=True)
    else:
        lc.exhaustive(ctx, ["Ldiff_c08_q3.cfg"], coverage=True)
        lc.exhaustive(ctx, ["Ldiff_c08_q2.cfg", "Ldiff_c08_q4m.cfg"])
    # the two behaviours of the code before the repairs are still in the model and still caught
    lc.must_find(ctx, "Ldiff_c08_asis_set.cfg", "Canonical")
    lc.must_find(ctx, "Ldiff_c08_asis_merge.cfg", "Canonical")
    # 2. spec -> code
    if thorough:
        jobs = [("LdiffGen_x1t.cfg", None, None), ("LdiffGen_s1_2.cfg", 400, 13), ("LdiffGen_s1_3.cfg", 300, 13),
                ("LdiffGen_s1_4.cfg", 300, 13), ("LdiffGen_s1_4m.cfg", 300, 13), ("LdiffGen_s2_2.cfg", 100, 11)]
    else:
        jobs = [("LdiffGen_x1.cfg", None, None), ("LdiffGen_s1_2.cfg", 25, 13), ("LdiffGen_s1_3.cfg", 12, 13), ("LdiffGen_s1_4m.cfg", 15, 13)]
    dirs = lc.generate(ctx, jobs)
    ctx.go_test("./ldiff", run="TestReplay$", env={"VERIF_TUPLES": tuples, "VERIF_BEHAVIOURS": dirs}, timeout=2400, name="replay TLC behaviours")
    # 3. large random histories on the real index
    ctx.go_test("./ldiff", run="TestRandomC08$", env={"VERIF_TUPLES": tuples}, timeout=3000, name="random histories")
    # the property where it is used: DiffManager.UpdateHeads history vs. FillDiff after a restart
    ctx.go_test("./ldiff", run="TestDiffManager$", timeout=2400, name="DiffManager: live space hash = hash after restart")
    # 4. code -> spec
    files = ["u2_cur", "u3_cur", "u4_cur"] if thorough else ["u2_cur", "u3_cur"]
    lc.record_and_validate(ctx, tuples, files, "ObsCanonical", 150 if thorough else 12)
    if thorough:
        # binding self-test: one falsified counter in the log must be noticed
        n = lc.record_and_validate(ctx, tuples, ["u2_cur"], "ObsCanonical", 6, env={"VERIF_CORRUPT": "count"}, expect_reject=True)
        if n == 0:
            raise lc.CheckBroken("binding self-test: a falsified logged counter was accepted by LdiffTrace")
    if thorough:
        headsync_extension(ctx)
    ctx.assume("xxhash / blake3 collisions are not modelled (hash terms are symbolic); ids whose 64-bit hashes coincide are not generated")
    ctx.assume("the modelled hash has D = 3..4 digits; deeper trees are covered by the random histories on the real code only")
    ctx.cov["rule"] = ("cases = property evaluations on the real index (one per replayed step / checked random operation / recorded line); "
                       "distinct = distinct (operation kind, parameters, size class) keys")


def headsync_extension(ctx):
    """Extension beyond the listed property: the space-level head-sync round (spec/headsync/HeadSync.tla, checks/X01.py)
    composes this index with tree sync and deletion; its quick tier is run here as extra coverage of
    'two peers holding the same entries recognise that they are in sync'. Its verdict is merged: a violation
    there is reported under its own key, a broken extension never turns into a verdict of C08."""
    import subprocess
    env = dict(os.environ)
    env["VERIF_TIER"] = "quick"
    env.pop("VERIF_NO_EVIDENCE", None)
    verif = os.path.dirname(os.path.dirname(os.path.abspath(__file__)))
    try:
        p = subprocess.run([os.path.join(verif, "bin", "check"), "X01", "--tier", "quick", "--seed", str(ctx.seed)], cwd=verif, env=env,
                           stdout=subprocess.PIPE, stderr=subprocess.STDOUT, text=True, errors="replace", timeout=2400)
    except subprocess.TimeoutExpired:
        ctx.notes.append("head-sync extension X01 timed out (ignored)")
        return
    ctx.cov["headsync_extension_exit"] = p.returncode
    if p.returncode == 1:
        for l in p.stdout.splitlines():
            if l.startswith("  key="):
                ctx.violation("headsync-extension:" + l.split("key=", 1)[1].split(":", 1)[0], "head-sync round extension (X01): " + l.strip(), None)
    elif p.returncode != 0:
        ctx.notes.append("head-sync extension X01 did not run cleanly (exit %s, ignored)" % p.returncode)
