"""C07 - the range-hash diff reports exactly the differing ids.

spec/ldiff/Ldiff.tla: Diff / CompareDiff as the round-based algorithm (getRange, compareResults, the
three branches per range) over the modelled range trees; invariant DiffExactAllRequesters: for every
requester contents AND requester tuning (threshold, divide factor DF or DF^2) and every reachable remote
index tuned on its own (repaired or legacy maintenance) the result is the
set-theoretic difference, each id once, within D+2 rounds. Bound to app/ldiff and both wire adapters by
replay of TLC-generated index pairs / histories, random large sets and trace validation."""
import os
import sys

sys.path.insert(0, os.path.dirname(os.path.abspath(__file__)))
import ldiff_common as lc  # noqa: E402

LEVEL = "model_checking"


def run(ctx):
    thorough = ctx.tier == "thorough"
    tuples = lc.dump_tuples(ctx)
    if ctx.replay:
        ctx.go_test("./ldiff", run="TestReplay$", env={"VERIF_TUPLES": tuples})
        return
    # 1. the design
    if thorough:
        lc.exhaustive(ctx, ["Ldiff_c07_t3.cfg", "Ldiff_c07_t4.cfg", "Ldiff_c07_pair.cfg"], coverage=True)
        lc.exhaustive(ctx, ["Ldiff_c07_t2.cfg", "Ldiff_c07_t4m.cfg", "Ldiff_c07_legacy_t.cfg", "Ldiff_c07_legacy_t3.cfg",
                            "Ldiff_c07_legacy_t4m.cfg"])
    else:
        lc.exhaustive(ctx, ["Ldiff_c07_q3.cfg"], coverage=True)
        lc.exhaustive(ctx, ["Ldiff_c07_q2.cfg", "Ldiff_c07_q4m.cfg", "Ldiff_c07_legacy_q.cfg"])
    lc.must_find(ctx, "Ldiff_c07_asis_nil.cfg", "DiffExactAllRequesters")
    # requester and remote are tuned independently in every configuration above; this deviation is exact
    # for equally tuned peers and must be refuted because they are not
    lc.must_find(ctx, "Ldiff_c07_dev_samecount.cfg", "DiffExactAllRequesters")
    # 2. spec -> code: every pair of contents (fresh fills), histories of two peers, legacy remote
    if thorough:
        jobs = [("LdiffGen_p2t.cfg", None, None), ("LdiffGen_p3t.cfg", None, None), ("LdiffGen_p4m.cfg", None, None),
                ("LdiffGen_s2_2.cfg", 300, 11), ("LdiffGen_s2_3.cfg", 200, 11), ("LdiffGen_s2_4m.cfg", 300, 11),
                ("LdiffGen_l2_2.cfg", 300, 13), ("LdiffGen_l2_3.cfg", 200, 13), ("LdiffGen_l2_4m.cfg", 200, 13)]
    else:
        jobs = [("LdiffGen_p2.cfg", None, None), ("LdiffGen_s2_2.cfg", 12, 11), ("LdiffGen_s2_4m.cfg", 12, 11), ("LdiffGen_l2_2.cfg", 12, 13)]
    dirs = lc.generate(ctx, jobs)
    ctx.go_test("./ldiff", run="TestReplay$", env={"VERIF_TUPLES": tuples, "VERIF_BEHAVIOURS": dirs}, timeout=2400, name="replay TLC behaviours")
    # 3. random large sets, skewed prefixes, every transport, legacy remote
    ctx.go_test("./ldiff", run="TestRandomC07$", env={"VERIF_TUPLES": tuples}, timeout=3000, name="random set pairs")
    # 4. code -> spec
    files = ["u2_cur", "u2_leg", "u3_cur", "u3_leg", "u4_cur", "u4_leg"] if thorough else ["u2_cur", "u2_leg", "u4_cur"]
    lc.record_and_validate(ctx, tuples, files, "ObsDiffExact", 150 if thorough else 12)
    if thorough:
        n = lc.record_and_validate(ctx, tuples, ["u2_cur", "u3_cur"], "ObsDiffExact", 6, env={"VERIF_CORRUPT": "diff"}, expect_reject=True)
        if n == 0:
            raise lc.CheckBroken("binding self-test: a diff result with a dropped id was accepted by LdiffTrace")
    ctx.assume("xxhash / blake3 collisions are not modelled (hash terms are symbolic)")
    ctx.assume("the remote answers honestly from an index maintained by the current or the pinned legacy code; a malicious remote is out of scope")
    ctx.assume("Range.Limit is unused by the code and not modelled")
    ctx.cov["rule"] = ("cases = diff runs (variant x transport) on real indexes compared with the set-theoretic difference plus recorded lines; "
                       "distinct = distinct (variant, transport, remote kind, parameters, size / difference class) keys")
