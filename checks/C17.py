"""C17 - pub/sub delivers exactly to matching member subscriptions and leaks no state.

spec/pubsub/PubSub.tla (serving side: trie refcounts / per-stream records / pool tags, membership,
stream <-> handshake identity, publish ingress, fan-out, relay; client side: receive filters,
signature, dedup ring) is model-checked exhaustively in several small configurations. TLC then
generates behaviours (exhaustive race configurations + seeded simulation) that are executed on the
real engine inside package commonspace/pubsub (overlay test files, harness-owned fake streams and
gates), the declarative matching rule is tabulated by TLC and compared with the real trie for all
pattern sets / topics of a small alphabet, and random operation sequences recorded from the real
engine are validated against PubSubTrace.tla."""
import concurrent.futures
import copy
import json
import os
import random
import re
import shutil

LEVEL = "model_checking"
PKG = "./commonspace/pubsub/"


_CTX_MODULE = [None]


def _broken(msg):
    # the exception class of the running orchestrator (lib/vf.py is executed as __main__ by bin/check)
    import sys
    mod = sys.modules.get(_CTX_MODULE[0] or "") or __import__("vf")
    return mod.CheckBroken(msg)


def _overlay():
    from vf import VERIF
    d = os.path.join(VERIF, "harness", "inpkg", "pubsub")
    return {"commonspace/pubsub/" + f: os.path.join(d, f) for f in sorted(os.listdir(d)) if f.startswith("zz_verif_") and f.endswith("_test.go")}


def _inpkg(ctx, run, env=None, name=None, timeout=1500):
    rep = ctx.go_test(PKG, run=run, env=env, in_repo=True, overlay=_overlay(), tags=None, timeout=timeout, name=name or ("pubsub " + run))
    # drift = the engine and the specification disagree although no property predicate failed there; whether the
    # check can vouch is decided at the end over all jobs (_drift_verdict)
    for n in (rep.get("drift_notes") or [])[:5]:
        ctx.cov.setdefault("drift_notes", []).append("%s: %s" % (run, n[:400]))
    return rep


# ---- constants module for trace validation (see PubSubTrace.tla for why it is generated) ----
def _tla(v):
    if isinstance(v, bool):
        return "TRUE" if v else "FALSE"
    if isinstance(v, int):
        return str(v) if v >= 0 else "(0 - %d)" % -v
    if isinstance(v, str):
        return json.dumps(v)
    if isinstance(v, list):
        return "<<" + ", ".join(_tla(x) for x in v) + ">>"
    raise ValueError(v)


def _tset(items):
    return "{" + ", ".join(sorted(set(items))) + "}"


def trace_consts(trace_path):
    lines = [json.loads(l) for l in open(trace_path)]
    cfg = lines[0]["cfg"]
    frames, lpats, own = [], [], []
    for x in lines:
        if x.get("ev") != "step":
            continue
        a = x["a"]
        if a["act"] in ("SubCheck", "SubReject"):
            frames.append(_tla(a["f"]))
        if a["act"] == "LSubscribe":
            lpats.append(_tla([a["sp"], a["p"]]))
        if a["act"] == "LPublish":
            own.append(str(a["m"]["id"]))
    d = {"Tr_NStreams": str(cfg["nstreams"]), "Tr_StreamAcct": _tla(cfg["streamAcct"]), "Tr_StreamPeer": _tla(cfg["streamPeer"]),
         "Tr_NodePeers": _tset(_tla(x) for x in cfg["nodePeers"]), "Tr_Accounts": _tset(_tla(x) for x in cfg["accounts"]),
         "Tr_Spaces": _tset(_tla(x) for x in cfg["spaces"]), "Tr_BadSpaces": _tset(_tla(x) for x in cfg["badSpaces"]),
         "Tr_NotResp": _tset(_tla(x) for x in cfg["notResp"]), "Tr_InitMember": _tset(_tla(x) for x in cfg["initMember"]),
         "Tr_MaxPerSpace": str(cfg["maxPerSpace"]), "Tr_MaxPerStream": str(cfg["maxPerStream"]),
         "Tr_Burst": _tla(cfg["burst"]), "Tr_RingSize": str(cfg["ringSize"]), "Tr_Self": _tla(cfg["self"]),
         "Tr_SubFrames": _tset(frames), "Tr_LocalPats": _tset(lpats), "Tr_OwnIds": _tset(own),
         # the engine under test asks the membership checker a second time (repaired handleSubscribe) iff the recorder saw it do so
         "Tr_FixRecheck": "TRUE" if any(x.get("ev") == "step" and x["a"]["act"] == "Sub3" for x in lines) else "FALSE"}
    body = "\n".join("%s == %s" % kv for kv in d.items())
    return ("-------------------------- MODULE PubSubTraceConsts --------------------------\n" + body +
            "\n=============================================================================\n"), len(lines)


def validate_trace(ctx, trace, what, expect_reject=False):
    """TLC checks that the recording is a behaviour of PubSub.tla and evaluates every invariant / step
    property on it. Returns 'ok' | 'rejected' | 'violated'."""
    consts, n = trace_consts(trace)
    tv = ctx.tlc("pubsub", "PubSubTrace", "PubSubTrace.cfg", workers=1, env={"VERIF_TRACE": trace}, timeout=1500, count=False,
                 files={"PubSubTraceConsts.tla": consts}, name="trace-validation-" + what)
    if tv.timed_out:
        raise _broken("trace validation timed out (%s)" % what)
    if tv.ok:
        if not expect_reject:
            ctx.cov["trace_events_validated"] = ctx.cov.get("trace_events_validated", 0) + n
        return "ok", tv
    if tv.error in ("invariant", "action_property"):
        return "violated", tv
    if "TRACE-REJECTED-AT-LINE" in tv.out:
        return "rejected", tv
    raise _broken("trace validation failed to run (%s):\n%s" % (what, tv.out[-3000:]))


def _emit(ctx, module, cfg, name, simulate=None, depth=None, timeout=1500, files=None):
    d = os.path.join(ctx.scratch, "emit-" + name)
    os.makedirs(d)
    ctx.tlc_expect_ok("pubsub", module, cfg, workers=1, env={"VERIF_EMIT_DIR": d}, simulate=simulate, depth=depth,
                      timeout=timeout, count=False, files=files, name="generate-" + name)
    n = len(os.listdir(d))
    if n == 0:
        raise _broken("no behaviours emitted by %s" % cfg)
    ctx.log("generated %d behaviours (%s)" % (n, name))
    return d


def _sample_dir(ctx, src, n, name):
    files = sorted(os.listdir(src))
    if len(files) <= n:
        return src
    rnd = random.Random(ctx.seed)
    d = os.path.join(ctx.scratch, "emit-" + name)
    os.makedirs(d)
    for f in rnd.sample(files, n):
        shutil.copy(os.path.join(src, f), d)
    return d


def _cfg_with(ctx, cfg, subst):
    """content of a spec cfg with literal replacements (tier-dependent bounds)"""
    from vf import VERIF
    txt = open(os.path.join(VERIF, "spec", "pubsub", cfg)).read()
    for a, b in subst.items():
        if a not in txt:
            raise _broken("cfg %s has no %r" % (cfg, a))
        txt = txt.replace(a, b)
    return txt


def _sub(ctx, name):
    """shallow copy of the context with its own scratch directory (lib/vf.py numbers work directories and report
    files per context), so that independent TLC / go test jobs can run in parallel threads; results land in the
    shared coverage / violation lists"""
    c = copy.copy(ctx)
    c.scratch = os.path.join(ctx.scratch, "job-" + re.sub(r"[^A-Za-z0-9_.-]+", "_", name))
    os.makedirs(c.scratch, exist_ok=True)
    return c


def _parallel(jobs, threads):
    """jobs: list of (name, callable); returns {name: result}; the first exception is re-raised after all finished"""
    out, err = {}, []
    with concurrent.futures.ThreadPoolExecutor(max_workers=threads) as ex:
        futs = [(n, ex.submit(f)) for n, f in jobs]
        for n, f in futs:
            try:
                out[n] = f.result()
            except Exception as e:  # noqa
                err.append(e)
    if err:
        broken = [e for e in err if e.__class__.__name__ == "CheckBroken"]
        raise (broken or err)[0]
    return out


def _drift_verdict(ctx):
    """Drift next to a violation that is not a known finding: the violation is the verdict (exit 1). Drift alone, or next
    to known findings only: the check cannot vouch for the tree (exit 2) - on a tree the check passes drift must be 0."""
    if not ctx.cov.get("drift"):
        return
    known = {k["key"] for k in ctx.known_findings() if k.get("status") == "known"}
    notes = ctx.cov.get("drift_notes") or []
    if [v for v in ctx.violations if v["key"] not in known]:
        for n in notes[:3]:
            ctx.notes.append("drift (next to a reported violation): " + n[:300])
        return
    raise _broken("DRIFT (%d) without a failing property predicate: %s" % (ctx.cov["drift"], "; ".join(notes)[:3000]))


def run(ctx):
    _CTX_MODULE[0] = ctx.__class__.__module__
    try:
        _run(ctx)
    finally:
        pass
    _drift_verdict(ctx)


def _run(ctx):
    thorough = ctx.tier == "thorough"
    if ctx.replay:
        obj = json.load(open(ctx.replay)).get("replay") or {}
        if isinstance(obj, dict) and obj.get("match"):
            table = _match_table(ctx)
            _inpkg(ctx, "TestVerifMatch$", env={"VERIF_MATCH_TABLE": table})
        elif isinstance(obj, dict) and obj.get("record"):
            _record(ctx, thorough, seed=obj.get("seed"))
        elif isinstance(obj, dict) and obj.get("wiring"):
            _inpkg(ctx, "TestVerifWiring$")
        else:
            _inpkg(ctx, "TestVerifReplay$")
        return
    cores = ctx.cores
    counted = []      # results of the exhaustive runs that count as model-checked states
    dirs = {}
    table = {}

    # ------------------------------------------------------------------ phase A: TLC (jobs in parallel)
    def mc(cfg, workers, coverage=False, files=None, name=None, timeout=3000):
        def f():
            c = _sub(ctx, name or cfg)
            res = c.tlc_expect_ok("pubsub", "PubSubMC", cfg, workers=workers, coverage=coverage, timeout=timeout, count=False, files=files,
                                  name=name or ("pubsub/PubSubMC:" + cfg))
            counted.append(res)
            return res
        return (name or cfg, f)

    def refuted(cfg, kind, prop, what):
        # a deviating design that TLC must refute (the counterexample is reproduced on the engine by the replay)
        def f():
            c = _sub(ctx, cfg)
            res = c.tlc("pubsub", "PubSubMC", cfg, workers=1, timeout=1200, count=False, name="%s (expected counterexample)" % what)
            if res.timed_out or res.error != kind or res.error_name != prop:
                raise _broken("%s: expected %s to fail, got %s %s\n%s" % (what, prop, res.error, res.error_name, res.out[-2000:]))
            ctx.notes.append("%s: refuted by TLC (%s, %d states in the counterexample)" % (what, prop, len(res.trace)))
            return res
        return (cfg, f)

    def gen(cfg, name, simulate=None, depth=None, subst=None, sample=None):
        def f():
            c = _sub(ctx, "gen-" + name)
            files = {cfg: _cfg_with(ctx, cfg, subst)} if subst else None
            d = _emit(c, "PubSubGen", cfg, name, simulate=simulate, depth=depth, files=files)
            dirs[name] = _sample_dir(c, d, sample, name + "-sample") if sample else d
        return ("gen-" + name, f)

    def match_table():
        table["path"] = _match_table(_sub(ctx, "match-table"))

    jobs = []
    if thorough:
        w = max(2, cores // 4)
        jobs += [mc("PubSub_mc_nt.cfg", w, timeout=5400), mc("PubSub_mc_nt2.cfg", w, timeout=5400),
                 mc("PubSub_mc_nq.cfg", 2, coverage=True), mc("PubSub_mc_np.cfg", 2, coverage=True),
                 mc("PubSub_mc_nqa.cfg", 1, coverage=True), mc("PubSub_mc_n2.cfg", 1, coverage=True),
                 mc("PubSub_mc_c1.cfg", 1, coverage=True), mc("PubSub_mc_ct.cfg", 1, coverage=True),
                 refuted("PubSub_mc_nodedup.cfg", "action_property", "PropAtMostOneCopy", "design without Broadcast dedup")]
    else:
        # the small configurations; per-action coverage (an action never taken = vacuous run) on two of them
        jobs += [mc("PubSub_mc_npq.cfg", max(2, cores // 4), name="pubsub/PubSubMC:PubSub_mc_np.cfg (4 topics)",
                    files={"PubSub_mc_npq.cfg": _cfg_with(ctx, "PubSub_mc_np.cfg", {"Topics <- Np_Topics": "Topics <- Npq_Topics"})}),
                 mc("PubSub_mc_nqa.cfg", max(2, cores // 4)),
                 mc("PubSub_mc_n2.cfg", 2, coverage=True), mc("PubSub_mc_c1.cfg", 1, coverage=True)]
    jobs += [refuted("PubSub_mc_strict.cfg", "action_property", "PropReplayStrict", "strict 'replayed never handled' (finite dedup ring)"),
             refuted("PubSub_mc_evrace.cfg", "invariant", "EvictedStayOut", "as-is handleSubscribe (single membership check before the lock)"),
             ("match-table", match_table),
             gen("PubSubGen_race1.cfg", "race1"), gen("PubSubGen_hold.cfg", "hold"), gen("PubSubGen_share.cfg", "share"),
             gen("PubSubGen_evrace.cfg", "evrace", subst=None if thorough else {"MaxSteps = 8": "MaxSteps = 7", "GenActs <- Rv_Acts": "GenActs <- Rvq_Acts"},
                 sample=4000 if thorough else None),
             gen("PubSubGen_resid.cfg", "resid", subst=None if thorough else {"MaxSteps = 5": "MaxSteps = 4"}),
             gen("PubSubGen_node.cfg", "node", simulate=1500 if thorough else 40, depth=1500),
             gen("PubSubGen_client.cfg", "client", simulate=1500 if thorough else 60, depth=600)]
    if thorough:
        jobs.append(gen("PubSubGen_race.cfg", "race2", sample=4000))
    _parallel(jobs, threads=max(2, cores - 2))
    for res in counted:
        ctx.cov["states"] += res.distinct
        ctx.cov["transitions"] += res.generated

    # ------------------------------------------------------------------ phase B: the real engine (go test jobs in parallel)
    beh = ":".join(dirs[k] for k in sorted(dirs))
    recorded = {}
    _parallel([
        ("match", lambda: _inpkg(_sub(ctx, "go-match"), "TestVerifMatch$", env={"VERIF_MATCH_TABLE": table["path"]})),
        ("validate", lambda: _sub(ctx, "go-validate").go_test("./pubsub", run="TestValidate$", env={"VERIF_MATCH_TABLE": table["path"]})),
        ("replay", lambda: _inpkg(_sub(ctx, "go-replay"), "TestVerifReplay$", env={"VERIF_BEHAVIOURS": beh}, timeout=3000)),
        ("wiring", lambda: _inpkg(_sub(ctx, "go-wiring"), "TestVerifWiring$")),
        ("record", lambda: recorded.update(_record_run(_sub(ctx, "go-record"), thorough))),
    ], threads=5)

    # ------------------------------------------------------------------ phase C: recorded runs validated by TLC
    _record_validate(ctx, thorough, recorded)

    ctx.assume("the clock does not advance inside one behaviour: every frame has a fixed freshness class (fresh / past the skew window / "
               "ahead of it / no timestamp) relative to the receiver")
    ctx.assume("relay partners (responsible node peers) are not members of the spaces they relay; membership answers come from a harness-owned checker")
    ctx.assume("the two critical sections of an unsubscribe are interleaved with other operations only in the model (no hook in the engine); "
               "the sections of a subscribe and of a stream close are interleaved on the real engine through harness gates")
    ctx.assume("payload encryption (Deps.Crypto) is not configured: plaintext payloads")


def _match_table(ctx):
    d = os.path.join(ctx.scratch, "emit-match-%d" % len(ctx.cov["tlc_runs"]))
    os.makedirs(d)
    ctx.tlc_expect_ok("pubsub", "PubSubMatch", "PubSubMatch.cfg", workers=1, env={"VERIF_EMIT_DIR": d}, timeout=600, count=False, name="match-table")
    files = sorted(os.listdir(d))
    if len(files) != 1:
        raise _broken("match table not emitted")
    return os.path.join(d, files[0])


def _record_run(ctx, thorough, seed=None):
    prefix = os.path.join(ctx.scratch, "pubsub-trace")
    env = {"VERIF_TRACE_OUT": prefix, "VERIF_RUNS": 150 if thorough else 15, "VERIF_RUN_STEPS": 80 if thorough else 60}
    if seed is not None:
        env["VERIF_SEED"] = seed
    rep = _inpkg(ctx, "TestVerifRecord$", env=env)
    return {"prefix": prefix, "rep": rep}


def _record(ctx, thorough, seed=None):
    _record_validate(ctx, thorough and seed is None, _record_run(ctx, thorough, seed))


def _record_validate(ctx, selftest, recorded):
    prefix, rep = recorded["prefix"], recorded["rep"]

    def one(what):
        trace = "%s-%s.ndjson" % (prefix, what)
        verdict, tv = validate_trace(_sub(ctx, "tv-" + what), trace, what)
        if verdict == "violated":
            # an invariant / step property of the design fails on a state or step recorded from the real engine
            ctx.violation("recorded-%s-run-violates:%s" % (what, tv.error_name),
                          "a recorded %s-role run violates %s of PubSub.tla: %s" % (what, tv.error_name, (tv.trace[-1][1] if tv.trace else "")[:1500]),
                          {"record": True, "seed": ctx.seed, "role": what, "trace_tail": [s for _, s in tv.trace[-2:]]})
        elif verdict == "rejected":
            m = re.search(r"TRACE-REJECTED-AT-LINE\", (\d+)", tv.out)
            line = int(m.group(1)) if m else -1
            lines = open(trace).read().splitlines()
            ctx.cov["drift"] += 1
            ctx.cov.setdefault("drift_notes", []).append("recorded %s-role run is not a behaviour of PubSub.tla at event %d: %s" % (
                what, line, lines[line - 1][:600] if 0 < line <= len(lines) else "?"))

    def selftest_job():
        # binding self-test: a corrupted recording must be rejected
        trace = "%s-node.ndjson" % prefix
        lines = open(trace).read().splitlines()
        idx = next((i for i, l in enumerate(lines) if '"act":"Sub2"' in l and '"tags":[[[' in l), None)
        if idx is None:
            raise _broken("binding self-test: no accepted subscribe in the recording")
        x = json.loads(lines[idx])
        for t in x["st"]["tags"]:
            if t:
                t.pop()
                break
        lines[idx] = json.dumps(x)
        bad = prefix + "-corrupted.ndjson"
        open(bad, "w").write("\n".join(lines) + "\n")
        verdict, _ = validate_trace(_sub(ctx, "tv-selftest"), bad, "self-test (one pool tag dropped from a recorded state)", expect_reject=True)
        if verdict == "ok":
            raise _broken("binding self-test failed: a corrupted recording was accepted")
        ctx.notes.append("binding self-test: recording with one pool tag removed from the state after event %d -> %s" % (idx + 1, verdict))

    jobs = [("tv-node", lambda: one("node")), ("tv-client", lambda: one("client"))]
    if selftest:
        jobs.append(("tv-selftest", selftest_job))
    _parallel(jobs, threads=3)
