"""C15 - deletion is permanent: a deleted object is never resurrected or re-advertised.

spec/deletion/Deletion.tla (status / storage / head index / in-memory mirrors / deletion worker split into
its storage and tree-manager calls / observer queue / put + fetch split at their tombstone check /
restart and crash) is model-checked exhaustively; the counterexamples of its deviation and mutant
configurations and random TLC behaviours are executed as schedules on a real space (in-package overlay
test reusing the repository's space fixture, with a second real space as remote replica), the property
predicates are evaluated on the observed states and the recorded trace is validated against the
specification (DeletionTrace.tla). spec/deletion/SettingsLog.tla + harness/deletion bind the settings
state builder (grow-only, incremental = from scratch over every delivery order and grouping)."""
import json
import os
import re

LEVEL = "model_checking"

OVERLAY = {
    "commonspace/zz_verif_deletion_test.go": "harness/inpkg/commonspace/zz_verif_deletion_test.go",
    "commonspace/zz_verif_deletion_world_test.go": "harness/inpkg/commonspace/zz_verif_deletion_world_test.go",
    "commonspace/zz_verif_deletion_run_test.go": "harness/inpkg/commonspace/zz_verif_deletion_run_test.go",
}

# deviation / mutant switches of Deletion.tla and the property expected to catch each in the model
SWITCHES = [
    ("asfound-no-tombstone-recheck", "FIX_TombRecheck = TRUE", "FIX_TombRecheck = FALSE"),
    ("mutant-no-fetch-check", "M_NoFetchCheck = FALSE", "M_NoFetchCheck = TRUE"),
    ("mutant-readd", "M_ReAdd = FALSE", "M_ReAdd = TRUE"),
    ("mutant-no-late-child", "M_NoLateChild = FALSE", "M_NoLateChild = TRUE"),
    ("mutant-no-orphan-scan", "M_NoOrphanScan = FALSE", "M_NoOrphanScan = TRUE"),
    ("mutant-no-exists", "M_NoExists = FALSE", "M_NoExists = TRUE"),
]

_re_last = re.compile(r"last = \[([^\]]*)\]")


def _broken(msg):
    from vf import CheckBroken
    return CheckBroken(msg)


def _verif():
    return os.path.dirname(os.path.dirname(os.path.abspath(__file__)))


def _schedule_from_trace(trace):
    """counterexample states -> [{a,i,s}] (the `last` history variable of every state but the first)"""
    steps = []
    for _, body in trace[1:]:
        m = _re_last.search(body.replace("\n", " "))
        if not m:
            continue
        txt = m.group(1)
        a = re.search(r'a \|-> "([^"]*)"', txt)
        i = re.search(r'i \|-> "([^"]*)"', txt)
        s = re.search(r"s \|-> \{([^}]*)\}", txt)
        ids = re.findall(r'"([^"]*)"', s.group(1)) if s else []
        if a:
            steps.append({"a": a.group(1), "i": i.group(1) if i else "-", "s": ids})
    return steps


def _overlay():
    v = _verif()
    return {k: os.path.join(v, p) for k, p in OVERLAY.items()}


def run(ctx):
    thorough = ctx.tier == "thorough"
    if ctx.replay:
        obj = json.load(open(ctx.replay)).get("replay") or {}
        if "ops" in obj:
            ctx.go_test("./deletion", run="TestSettingsLog$", timeout=600)
        else:
            ctx.go_test("./commonspace/", run="TestVerifDeletion$", in_repo=True, overlay=_overlay(), timeout=600)
        return

    # 1. the design: every invariant / step property, exhaustively. Quick: parent + child, 3 pending
    #    notifications per object. Thorough: the same with 4 (exhaustive), and parent + child +
    #    unrelated object by simulation.
    ctx.tlc_expect_ok("deletion", "DeletionMC", "Deletion_mc.cfg", coverage=True, timeout=2400, workers=min(ctx.cores, 12))
    if thorough:
        base4 = open(os.path.join(_verif(), "spec", "deletion", "Deletion_mc.cfg")).read().replace("MaxObs = 3", "MaxObs = 4")
        ctx.tlc_expect_ok("deletion", "DeletionMC", "mc4.cfg", files={"mc4.cfg": base4}, timeout=3000,
                          workers=min(ctx.cores, 12), name="deletion/DeletionMC:2-objects-MaxObs-4")
        # three objects: the exhaustive graph has several million states (measured > 2.5 M distinct with
        # the tightest useful bounds), so this configuration is explored by random walks
        ctx.tlc_expect_ok("deletion", "DeletionMC", "Deletion_mc_t.cfg", simulate=4000, depth=45, timeout=2400,
                          workers=min(ctx.cores, 8), name="deletion/DeletionMC:3-objects-simulation")

    # 2. the model separates the code as found / each acceptance mutant from the repaired code; the
    #    counterexamples become schedules for the real code. Quick tier: the as-found switch is
    #    re-run, the other counterexamples are taken from spec/deletion/schedules (written by the
    #    thorough tier's run of this step, committed).
    sched = os.path.join(ctx.scratch, "schedules")
    os.makedirs(sched)
    static = os.path.join(_verif(), "spec", "deletion", "schedules")
    base = open(os.path.join(_verif(), "spec", "deletion", "Deletion_mc.cfg")).read()
    for n, (name, old, new) in enumerate(SWITCHES):
        assert old in base
        fn = "a%02d-%s.json" % (n, name)
        if thorough or n == 0 or not os.path.exists(os.path.join(static, fn)):
            res = ctx.tlc("deletion", "DeletionMC", "sw.cfg", files={"sw.cfg": base.replace(old, new)},
                          workers=4, timeout=900, count=False, name="switch:" + name)
            if res.timed_out or res.error not in ("invariant", "action_property"):
                raise _broken("the specification no longer separates %s (TLC: %s %s)" % (name, res.error, res.error_name))
            steps = _schedule_from_trace(res.trace)
            if not steps:
                raise _broken("no counterexample trace parsed for %s" % name)
            ctx.cov.setdefault("model_separates", {})[name] = res.error_name
            if os.environ.get("VERIF_WRITE_SCHEDULES"):
                os.makedirs(static, exist_ok=True)
                with open(os.path.join(static, fn), "w") as fh:
                    json.dump(steps, fh)
        else:
            steps = json.load(open(os.path.join(static, fn)))
        with open(os.path.join(sched, fn), "w") as fh:
            json.dump(steps, fh)
    # hand-written schedules (interleavings worth keeping), if any
    if os.path.isdir(static):
        for f in sorted(os.listdir(static)):
            if f.startswith("h") and f.endswith(".json"):
                with open(os.path.join(sched, f), "w") as fh:
                    fh.write(open(os.path.join(static, f)).read())

    # 3. random behaviours of the specification (TLC simulation)
    emit = os.path.join(ctx.scratch, "emit")
    os.makedirs(emit)
    traces = 80 if thorough else 12
    ctx.tlc_expect_ok("deletion", "DeletionGen", "DeletionGen_q.cfg", workers=1, simulate=traces, depth=29,
                      env={"VERIF_EMIT_DIR": emit}, timeout=1500, count=False, name="schedule-generation")
    files = sorted(os.listdir(emit))
    if not files:
        raise _broken("no schedules emitted")
    want = 450 if thorough else 55
    stride = max(1, len(files) // want)
    picked = files[(ctx.seed % stride)::stride][:want]
    for f in picked:
        os.rename(os.path.join(emit, f), os.path.join(sched, "s-" + f))

    # 4. spec -> code: execute the schedules on a real space; oracles = the property predicates
    trace = os.path.join(ctx.scratch, "deletion-trace.ndjson")
    rep = ctx.go_test("./commonspace/", run="TestVerifDeletion$", in_repo=True, overlay=_overlay(),
                      env={"VERIF_SCHEDULES": sched, "VERIF_TRACE_OUT": trace}, timeout=2400)
    ctx.cov["trace_events_recorded"] = (rep.get("extra") or {}).get("trace_events", 0)

    # 5. code -> spec: the recorded trace must be a behaviour of Deletion and satisfy its properties
    _validate_trace(ctx, trace)

    # 6. the settings log -> deleted ids function (grow-only union; incremental = from scratch)
    ctx.tlc_expect_ok("deletion", "SettingsLog", "SettingsLog_mc_t.cfg" if thorough else "SettingsLog_mc.cfg",
                      coverage=True, timeout=2400, workers=min(ctx.cores, 12))
    lemit = os.path.join(ctx.scratch, "log-emit")
    os.makedirs(lemit)
    ctx.tlc_expect_ok("deletion", "SettingsLogGen", "SettingsLogGen_q.cfg", workers=1, simulate=(150 if thorough else 30),
                      depth=14, env={"VERIF_EMIT_DIR": lemit}, timeout=1500, count=False, name="settings-log-generation")
    lfiles = sorted(os.listdir(lemit))
    if not lfiles:
        raise _broken("no settings-log behaviours emitted")
    lwant = 250 if thorough else 40
    lstride = max(1, len(lfiles) // lwant)
    keep = set(lfiles[(ctx.seed % lstride)::lstride][:lwant])
    for f in lfiles:
        if f not in keep:
            os.remove(os.path.join(lemit, f))
    lstatic = os.path.join(_verif(), "spec", "deletion", "logcases")
    for f in sorted(os.listdir(lstatic)) if os.path.isdir(lstatic) else []:
        with open(os.path.join(lemit, "a-" + f), "w") as fh:
            fh.write(open(os.path.join(lstatic, f)).read())
    ctx.go_test("./deletion", run="TestSettingsLog$", env={"VERIF_BEHAVIOURS": lemit}, timeout=1800)

    ctx.assume("the tree manager, storage provider, peer pool and peer manager are harness-owned (the repository's "
               "test fixture); the remote peer is a second real space that never deletes")
    ctx.assume("storage errors other than the injected worker abort are not modelled; a crash is a restart between two "
               "durable writes of the worker")


def _validate_trace(ctx, trace):
    lines = open(trace).read().splitlines()
    start = 0
    rounds = 0
    validated = 0
    while start < len(lines) and rounds < 5:
        rounds += 1
        part = os.path.join(ctx.scratch, "trace-part-%d.ndjson" % rounds)
        with open(part, "w") as fh:
            fh.write("\n".join(lines[start:]) + "\n")
        tv = ctx.tlc("deletion", "DeletionTrace", "DeletionTrace.cfg", workers=1, env={"VERIF_TRACE": part},
                     timeout=1800, count=False, name="trace-validation")
        if tv.timed_out:
            raise _broken("trace validation timed out")
        if tv.ok:
            validated += len(lines) - start
            break
        if tv.error in ("invariant", "action_property"):
            # a property of the specification fails on a state / step recorded from the real code
            m = re.search(r"l = (\d+)", tv.trace[-1][1]) if tv.trace else None
            at = start + int(m.group(1)) - 1 if m else -1
            ev = lines[at - 1] if 0 < at <= len(lines) else "?"
            a = json.loads(ev).get("a", "?") if ev != "?" else "?"
            ctx.violation("trace-property-%s:%s" % (tv.error_name, a),
                          "recorded real execution violates %s at event %d: %s" % (tv.error_name, at, ev[:600]),
                          {"events": lines[max(0, at - 15):at]})
            nxt = _next_reset(lines, at)
        elif "TRACE-REJECTED-AT-LINE" in tv.out:
            m = re.search(r'TRACE-REJECTED-AT-LINE", (\d+)', tv.out)
            rel = int(m.group(1)) if m else 1
            at = start + rel
            ev = lines[at - 1] if 0 < at <= len(lines) else "?"
            ctx.cov["drift"] += 1
            ctx.notes.append("drift: recorded event %d is not a step of Deletion.tla: %s" % (at, ev[:400]))
            ctx.log("DRIFT at trace event %d: %s" % (at, ev[:300]))
            validated += rel - 1
            nxt = _next_reset(lines, at)
        else:
            raise _broken("trace validation failed to run:\n" + tv.out[-3000:])
        if nxt is None:
            break
        start = nxt
    ctx.cov["trace_events_validated"] = validated


def _next_reset(lines, at):
    for k in range(max(at, 0), len(lines)):
        if '"a":"Reset"' in lines[k]:
            return k
    return None
