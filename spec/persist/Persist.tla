------------------------------- MODULE Persist -------------------------------
(* Persistence of a space (any-sync commonspace): space storage, object-tree storage,      *)
(* deferred tree storage, ACL storage, on top of a transactional document store            *)
(* (any-store / SQLite).                                                                    *)
(*                                                                                          *)
(* Granularity: ONE SPEC STEP PER MUTATING STORAGE CALL the implementation issues          *)
(* (WriteTx = begin / savepoint, Insert, UpsertId, Find().Delete, Collection / EnsureIndex  *)
(* when they create, Commit / release).  An operation is the *program* (sequence of calls)  *)
(* the code issues for it; the programs below were read from                                *)
(*   spacestorage.Create, objecttree.CreateStorage(Tx), storage.AddAll,                     *)
(*   storageDeferredCreation.createStorageAndDoInTx, storage.Delete, list.storage.AddAll,   *)
(* and are validated against the call sequences recorded from the real code                 *)
(* (harness/persist).  Every call has a fate: ok | error (injected, non fatal) | crash.     *)
(*                                                                                          *)
(* The in-memory side (`mem`) models what the live objects do around the write:             *)
(*   objectTree.AddContentWithValidator / AddRawChangesWithUpdater mutate the tree first     *)
(*   and write afterwards; aclList.AddRawRecord; objectTree.Delete; the deferred storage     *)
(*   handle.  The behaviours of the unrepaired code are kept as switchable deviations:      *)
(*     FIX_NamedResult   = FALSE : storage.AddAll / AddAllNoError / acl storage.AddAll lose  *)
(*                                 the Commit error (unnamed result + deferred assignment)   *)
(*     FIX_AclWriteFirst = FALSE : AddRawRecord swaps the in-memory state before the write   *)
(*     FIX_DeferredReset = FALSE : storageDeferredCreation keeps the handle of a storage     *)
(*                                 whose creating transaction was rolled back                *)
(*     FIX_LocalRollback = FALSE : AddContent does not rebuild the tree after a failed write *)
(*     FIX_DeleteAfter   = FALSE : objectTree.Delete marks the tree deleted before the write *)
(*     FIX_ValidateFirst = FALSE : AddContentWithValidator drops the in-memory tree of a       *)
(*                                 snapshot before the caller's validator has accepted it     *)
(*     FIX_NotifyAfterCommit = FALSE : headstorage.UpdateEntry tells its observers (head sync) *)
(*                                 the new heads inside the write transaction, before it     *)
(*                                 commits; NOT repaired in the code (any-store has no       *)
(*                                 commit hook): the registered configurations keep FALSE    *)
(*                                 and leave ObserverSeesCommitted out (listed known finding)*)
(*   and two seeded mutants (acceptance tests of the machinery):                            *)
(*     DEV_HeadsOutsideTx = TRUE : heads entry written after the change transaction          *)
(*     DEV_SpaceTwoTx     = TRUE : space creation split into two transactions                *)
(*     DEV_AclBatchOneTx  = TRUE : AclList.AddRawRecords writes a batch with one storage.AddAll  *)
(*                                 and puts the accepted ids into its index before the write,  *)
(*                                 without taking them back when the write fails               *)
(*     DEV_SplitBatch     = n > 0: storage.AddAll writes a batch of more than n changes in parts *)
(*                                 of n, each in its own transaction, heads with the last part  *)
(*                                 (the batch SIZE matters: programs are parametric in the     *)
(*                                 number of inserts; the harness drives 1, 2, 65, 130, 300)   *)
EXTENDS Integers, Sequences, FiniteSets, TLC

CONSTANTS NT,          \* trees; their roots are the change ids 1..NT; tree 1 = space settings tree
          MaxId,       \* largest change id (bounds the universe of changes)
          MaxAcl,      \* ACL records beyond the root
          MaxFaults,   \* injected errors + crashes in one behaviour
          FIX_NamedResult, FIX_AclWriteFirst, FIX_DeferredReset, FIX_LocalRollback, FIX_DeleteAfter,
          FIX_NotifyAfterCommit, FIX_ValidateFirst,
          DEV_HeadsOutsideTx, DEV_SpaceTwoTx,
          DEV_AclBatchOneTx, \* TRUE: AddRawRecords writes the whole batch with one AddAll and reserves the ids first
          DEV_SplitBatch, \* 0, or n > 0: AddAll writes a batch of more than n changes in parts of n, one transaction each
          GEN          \* TRUE: keep the history variable (behaviour generation); FALSE: model checking

Trees  == 1..NT
Ids    == 1..MaxId
AclIdx == 1..(MaxAcl + 1)          \* record 1 = ACL root; record i has prev i-1 and order i

VARIABLES U,       \* universe of changes that exist in the world: [Ids -> change], `on` = exists
          disk,    \* durable state
          tx,      \* stack of working copies: <<>> = no transaction, tx[1] = write tx, deeper = savepoints
          mem,     \* live objects
          op,      \* operation in flight
          pre,     \* durable state when the operation in flight (or the last one) started
          post,    \* pre with all data calls of its program applied
          last,    \* result of the last finished operation
          pend,    \* operation that failed with an injected error and is re-issued next
          faults,  \* faults used
          prov,    \* provenance for behaviour generation: fault points of the last two operations (hidden by VIEW)
          hist     \* history for behaviour generation (hidden by VIEW when model checking)
vars == <<U, disk, tx, mem, op, pre, post, last, pend, faults, prov, hist>>
view == <<U, disk, tx, mem, op, pre, post, last, pend, faults>>

(* ------------------------------------------------------------------ changes *)
\* acl = index of the ACL record the change names as its ACL head (part of the signed content, hence of the id)
NoChange == [on |-> FALSE, tree |-> 0, prev |-> {}, base |-> 0, snap |-> FALSE, loc |-> FALSE, acl |-> 0]
RootChange(t) == [on |-> TRUE, tree |-> t, prev |-> {}, base |-> 0, snap |-> TRUE, loc |-> FALSE, acl |-> 1]

OfTree(t) == {i \in Ids : U[i].on /\ U[i].tree = t}

\* a is b or an ancestor of b (ids grow along edges, so the recursion is well founded)
RECURSIVE Anc(_, _)
Anc(a, b) == a = b \/ (a < b /\ \E p \in U[b].prev : Anc(a, p))

\* snapshots on the base chain of c (c itself if it is a snapshot)
RECURSIVE Chain(_)
Chain(c) == IF c = 0 THEN {} ELSE (IF U[c].snap THEN {c} ELSE {}) \cup Chain(U[c].base)

Max(S) == CHOOSE x \in S : \A y \in S : y <= x
Maxl(S) == {c \in S : ~\E d \in S : c \in U[d].prev}          \* maximal elements = heads
\* latest snapshot common to the base chains of all heads
CSnap(H) == LET common == {s \in Ids : \A h \in H : s \in Chain(h)} IN IF common = {} THEN 0 ELSE Max(common)

\* treeBuilder.lowestSnapshots + commonSnapshot: cache = payload changes not yet attached, heads = announced heads
\* among them, root = our current root
RECURSIVE LowestKnown(_, _)
LowestKnown(s, cache) == IF s \in cache /\ U[s].base # 0 THEN LowestKnown(U[s].base, cache) ELSE s
BuilderRoot(cache, heads, root) ==
    LET snaps == {LowestKnown(U[h].base, cache) : h \in heads} \cup {root}
        common == {s \in Ids : \A x \in snaps : s \in Chain(x)}
    IN IF common = {} THEN 0 ELSE Max(common)

(* ------------------------------------------------------------------ durable state *)
NoHead == [on |-> FALSE, hs |-> {}, cs |-> 0]
EmptyDisk == [schema |-> {}, space |-> FALSE, heads |-> [t \in Trees |-> NoHead],
              ord |-> [i \in Ids |-> 0], acl |-> {}, aclHead |-> 0]

Stored(d, t) == {i \in OfTree(t) : d.ord[i] # 0}
TreeLive(d, t) == d.heads[t].on /\ d.ord[t] # 0

(* ------------------------------------------------------------------ storage calls *)
Call(c, a, b, s, x) == [c |-> c, a |-> a, b |-> b, s |-> s, x |-> x]
Begin      == Call("begin", 0, 0, {}, "")
Savepoint  == Call("sp", 0, 0, {}, "")
Commit     == Call("commit", 0, 0, {}, "")
CommitL    == Call("commit", 0, 0, {}, "lossy")    \* the Commit inside an AddAll (error lost when ~FIX_NamedResult)
Release    == Call("release", 0, 0, {}, "")
ReleaseL   == Call("release", 0, 0, {}, "lossy")
Mk(n)      == Call("mk", n, 0, {}, "")
InsState   == Call("insstate", 0, 0, {}, "")
InsC(i, o) == Call("insc", i, o, {}, "")
UpsH(t, hs, cs) == Call("upsh", t, cs, hs, "")
InsA(i)    == Call("insa", i, 0, {i}, "")
InsAS(S)   == Call("insa", 0, 0, S, "")            \* one Insert call with several records
UpsA(i)    == Call("upsa", i, 0, {}, "")
Del(t)     == Call("del", t, 0, {}, "")

IsTxCall(k) == k.c \in {"begin", "sp", "commit", "release"}

Eff(d, k) ==
    CASE k.c = "mk"       -> [d EXCEPT !.schema = @ \cup {k.a}]
      [] k.c = "insstate" -> [d EXCEPT !.space = TRUE]
      [] k.c = "insc"     -> [d EXCEPT !.ord[k.a] = k.b]
      [] k.c = "upsh"     -> [d EXCEPT !.heads[k.a] = [on |-> TRUE, hs |-> k.s, cs |-> k.b]]
      [] k.c = "insa"     -> [d EXCEPT !.acl = @ \cup k.s]
      [] k.c = "upsa"     -> [d EXCEPT !.aclHead = k.a]
      [] k.c = "del"      -> [d EXCEPT !.ord = [i \in Ids |-> IF U[i].on /\ U[i].tree = k.a THEN 0 ELSE @[i]]]
      [] OTHER            -> d

\* an insert of a document that exists fails by itself (ErrDocExists), no fault needed
NaturalFail(d, k) == \/ k.c = "insc" /\ d.ord[k.a] # 0
                     \/ k.c = "insa" /\ k.s \cap d.acl # {}
                     \/ k.c = "insstate" /\ d.space

RECURSIVE FoldEff(_, _, _)
FoldEff(d, prog, n) == IF n > Len(prog) THEN d ELSE FoldEff(Eff(d, prog[n]), prog, n + 1)

View == IF tx = <<>> THEN disk ELSE tx[Len(tx)]

(* ------------------------------------------------------------------ programs *)
\* schema objects created by spacestorage.Create, in the order the code creates them
SchemaNames == <<"mkcoll:changes", "mkindex:changes", "mkcoll:state", "mkcoll:heads", "mkindex:heads", "mkindex:heads",
                 "mkindex:heads", "mkcoll:acl", "mkindex:acl">>
SpaceSchema1 == <<Mk(1), Mk(2), Mk(3)>>
SpaceSchema2 == <<Mk(4), Mk(5), Mk(6), Mk(7), Mk(8), Mk(9)>>
SpaceProg ==
    IF DEV_SpaceTwoTx
      THEN <<Begin>> \o SpaceSchema1 \o <<InsState, Commit, Begin>> \o SpaceSchema2
           \o <<InsA(1), UpsA(1), InsC(1, 1), UpsH(1, {1}, 1), Commit>>
      ELSE <<Begin>> \o SpaceSchema1 \o <<InsState>> \o SpaceSchema2
           \o <<InsA(1), UpsA(1), InsC(1, 1), UpsH(1, {1}, 1), Commit>>

CreateProg(t) == <<Begin, InsC(t, 1), UpsH(t, {t}, t), Commit>>

\* news: sequence of <<id, ord>> in insertion order
Inserts(news) == [n \in 1..Len(news) |-> InsC(news[n][1], news[n][2])]
\* a batch written in parts of at most n changes, one write transaction per part, the heads entry with the last part
RECURSIVE SplitProg(_, _, _, _, _)
SplitProg(t, news, hs, cs, n) ==
    IF Len(news) <= n THEN <<Begin>> \o Inserts(news) \o <<UpsH(t, hs, cs), CommitL>>
    ELSE <<Begin>> \o Inserts(SubSeq(news, 1, n)) \o <<CommitL>> \o SplitProg(t, SubSeq(news, n + 1, Len(news)), hs, cs, n)

AddProg(t, news, hs, cs, def) ==
    IF def # "pending" /\ DEV_SplitBatch > 0 /\ Len(news) > DEV_SplitBatch THEN SplitProg(t, news, hs, cs, DEV_SplitBatch) ELSE
    IF def = "pending"
      THEN <<Begin, InsC(t, 1), UpsH(t, {t}, t), Savepoint>> \o Inserts(news) \o <<UpsH(t, hs, cs), ReleaseL, Commit>>
      ELSE IF DEV_HeadsOutsideTx
             THEN <<Begin>> \o Inserts(news) \o <<CommitL, UpsH(t, hs, cs)>>
             ELSE <<Begin>> \o Inserts(news) \o <<UpsH(t, hs, cs), CommitL>>

\* list.storage.AddAll ends with `return s.headStorage.UpdateEntry(...)`: with the unnamed result the deferred
\* function still sees err = nil and COMMITS the inserted record although the heads update failed
UpsAL(i)     == Call("upsa", i, 0, {}, "commits")
AclProg(i)   == <<Begin, InsA(i), UpsAL(i), CommitL>>
DeleteProg(t) == <<Begin, Del(t), Commit>>

(* ------------------------------------------------------------------ live objects *)
ClosedTree == [st |-> "closed", hs |-> {}, root |-> 0, att |-> {}, mx |-> 0, def |-> "no"]
\* obs / obsAcl: the heads the head-storage observers (head sync) were told last
\* acl = length of the live ACL list (its head), known = the record indices its id index answers HasHead for
ClosedMem  == [space |-> FALSE, acl |-> 0, known |-> {}, tr |-> [t \in Trees |-> ClosedTree], obs |-> [t \in Trees |-> {}], obsAcl |-> 0]
\* an observer that attaches to a stored space reads the stored heads first
ObsFromDisk(m, d) == [m EXCEPT !.obs = [t \in Trees |-> IF d.heads[t].on THEN d.heads[t].hs ELSE {}], !.obsAcl = d.aclHead]
\* headstorage.UpdateEntry -> observers, at the call (as the code does) or when the write transaction commits
Notify(m, k, d2, committed) ==
    IF ~m.space THEN m
    ELSE IF FIX_NotifyAfterCommit
           THEN IF committed THEN ObsFromDisk(m, d2) ELSE m
           ELSE IF k.c = "upsh" THEN [m EXCEPT !.obs[k.a] = k.s]
                ELSE IF k.c = "upsa" THEN [m EXCEPT !.obsAcl = k.a] ELSE m

\* what BuildObjectTree / rebuildFromStorage(nil) yields from a durable state
FromDisk(d, t) ==
    IF TreeLive(d, t) /\ d.heads[t].cs # 0
      THEN LET att == {c \in Stored(d, t) : Anc(d.heads[t].cs, c)}
           IN [st |-> "open", hs |-> d.heads[t].hs, root |-> d.heads[t].cs, att |-> att,
               mx |-> Max({d.ord[c] : c \in att} \cup {1}), def |-> "no"]
      ELSE ClosedTree
\* the not-yet-created deferred storage serves its root only
FreshDeferred(t) == [st |-> "open", hs |-> {t}, root |-> t, att |-> {t}, mx |-> 1, def |-> "pending"]

\* ACL adds: i = record being written, lo = first record of the payload, more = records of the payload after i,
\* batch = AddRawRecords (FALSE: AddRawRecord), cont = the next record of a batch (not a call of its own)
NoOp == [kind |-> "none", t |-> 0, snap |-> FALSE, new |-> <<>>, set |-> {}, i |-> 0, lo |-> 0, more |-> 0,
         batch |-> FALSE, cont |-> FALSE, prog |-> <<>>, pc |-> 0,
         retry |-> FALSE, fat |-> 0, fate |-> "ok"]
Idle == op.kind = "none"

(* ------------------------------------------------------------------ projections for the replay harness *)
DiskProj(d) == [space |-> d.space, schema |-> Cardinality(d.schema),
                heads |-> [t \in Trees |-> d.heads[t]],
                stored |-> {i \in Ids : d.ord[i] # 0}, acl |-> d.acl, aclHead |-> d.aclHead]
MemProj(m) == [space |-> m.space, acl |-> m.acl, known |-> m.known, obs |-> m.obs, obsAcl |-> m.obsAcl,
               tr |-> [t \in Trees |-> [st |-> m.tr[t].st, hs |-> m.tr[t].hs, root |-> m.tr[t].root, def |-> m.tr[t].def]]]
CallStr(k) == IF IsTxCall(k) THEN (IF k.c = "sp" THEN "sp" ELSE k.c)
              ELSE IF k.c = "mk" THEN SchemaNames[k.a]
              ELSE IF k.c = "insc" THEN "insert:changes"
              ELSE IF k.c = "del" THEN "delete:changes"
              ELSE IF k.c \in {"upsh", "upsa"} THEN "upsert:heads"
              ELSE IF k.c = "insa" THEN "insert:acl" ELSE "insert:state"
ProgStr(p) == [n \in 1..Len(p) |-> CallStr(p[n])]
ChangeProj(i) == [id |-> i, tree |-> U[i].tree, prev |-> U[i].prev, base |-> U[i].base, snap |-> U[i].snap, loc |-> U[i].loc,
                  acl |-> U[i].acl]

HistEntry(a, o, res, d, m) ==
    [a |-> a, kind |-> o.kind, lo |-> o.lo, more |-> o.more, batch |-> o.batch, cont |-> o.cont, t |-> o.t, snap |-> o.snap, new |-> [n \in 1..Len(o.new) |-> o.new[n][1]], set |-> o.set, i |-> o.i,
     prog |-> ProgStr(o.prog), fat |-> o.fat, fate |-> o.fate, res |-> res, retry |-> o.retry,
     disk |-> DiskProj(d), mem |-> MemProj(m)]

Log(e) == IF GEN THEN Append(hist, e) ELSE hist
\* (kind, program length, fault point, fate) of the operation that just ended and of the one before it
\* (operations without a fault all look the same here)
ProvEntry(o) == IF o.fate = "ok" THEN [kind |-> "", n |-> 0, fat |-> 0, fate |-> "ok"]
                ELSE [kind |-> o.kind, n |-> Len(o.prog), fat |-> o.fat, fate |-> o.fate]
Prov(o) == IF GEN THEN <<ProvEntry(o)>> \o (IF prov = <<>> THEN <<>> ELSE <<prov[1]>>) ELSE prov

(* ------------------------------------------------------------------ initial state *)
Init ==
    /\ U = [i \in Ids |-> IF i \in Trees THEN RootChange(i) ELSE NoChange]
    /\ disk = EmptyDisk /\ tx = <<>> /\ mem = ClosedMem /\ op = NoOp
    /\ pre = EmptyDisk /\ post = EmptyDisk
    /\ last = [res |-> "none", retry |-> FALSE, kind |-> "none", snap |-> FALSE]
    /\ pend = NoOp /\ faults = 0 /\ prov = <<>> /\ hist = <<>>

(* ------------------------------------------------------------------ finishing an operation *)
\* in-memory effects that happen only after the write succeeded
MemOnOk(o, m) ==
    CASE o.kind = "space"  -> [m EXCEPT !.space = TRUE, !.acl = 1, !.known = {1}, !.obs[1] = {1}, !.obsAcl = 1]
      [] o.kind = "create" -> [m EXCEPT !.tr[o.t] = [st |-> "open", hs |-> {o.t}, root |-> o.t, att |-> {o.t}, mx |-> 1, def |-> "no"]]
      [] o.kind \in {"local", "remote"} -> [m EXCEPT !.tr[o.t].def = "no"]
      [] o.kind = "acl"    -> [m EXCEPT !.acl = o.i, !.known = @ \cup 1..o.i]
      [] o.kind = "delete" -> [m EXCEPT !.tr[o.t].st = "deleted"]
      [] OTHER -> m

\* what the code does with its live object when the write failed at call number pc; d = durable state after the rollback
MemOnErr(o, m, d, pc) ==
    CASE o.kind \in {"local", "remote"} ->
            LET cur == m.tr[o.t]
                rollsBack == o.kind = "remote" \/ FIX_LocalRollback        \* rebuildFromStorage(nil, nil, nil)
            IN IF cur.def = "pending"
                 THEN IF pc > 3 /\ ~FIX_DeferredReset
                        \* createStorage succeeded inside the rolled-back tx: the handle stays; the rebuild reads
                        \* through it, finds nothing and leaves the mutated tree in place
                        THEN [m EXCEPT !.tr[o.t].def = "wedged"]
                        ELSE IF rollsBack THEN [m EXCEPT !.tr[o.t] = FreshDeferred(o.t)] ELSE m
                 ELSE IF cur.def = "wedged"
                        THEN m
                        ELSE IF rollsBack /\ TreeLive(d, o.t) THEN [m EXCEPT !.tr[o.t] = FromDisk(d, o.t)] ELSE m
      [] OTHER -> m     \* space / create have no live object yet; acl and delete: see Start (deviation = already mutated)

Finish(o, res, d, m) ==
    /\ op' = NoOp
    /\ last' = [res |-> res, retry |-> o.retry, kind |-> o.kind, snap |-> o.snap] /\ prov' = Prov(o)
    /\ pend' = IF res = "injected"
                 \* the caller re-issues the same input (a batch: the same payload; what is known is skipped)
                 THEN [o EXCEPT !.pc = 0, !.prog = <<>>, !.fat = 0, !.fate = "ok", !.retry = TRUE, !.cont = FALSE]
                 ELSE IF res = "ok" /\ o.kind = "acl" /\ o.more > 0
                 \* AddRawRecords goes on with the next record of its payload: a transaction of its own
                 THEN [o EXCEPT !.pc = 0, !.prog = <<>>, !.fat = 0, !.fate = "ok", !.cont = TRUE]
                 ELSE NoOp
    /\ mem' = m
    /\ hist' = Log(HistEntry("op", o, res, d, m))

(* ------------------------------------------------------------------ starting operations *)
\* o: op record without program bookkeeping; m1: live objects after the in-memory part that precedes the write
Start(o, prog, m1) ==
    /\ pre' = disk /\ post' = FoldEff(disk, prog, 1)
    /\ op' = [o EXCEPT !.prog = prog, !.pc = 1]
    /\ mem' = m1
    /\ pend' = NoOp
    /\ UNCHANGED <<disk, tx, last, faults, prov, hist>>

\* an operation that returns without touching storage
Immediate(o, res) ==
    /\ pre' = disk
    /\ post' = IF o.kind = "delete" THEN Eff(disk, Del(o.t))
               \* a batch add that reports success has its whole payload stored
               ELSE IF o.kind = "acl" /\ o.batch /\ res = "ok"
                      THEN [disk EXCEPT !.acl = @ \cup (o.lo..(o.i + o.more)), !.aclHead = Max({@, o.i + o.more})]
               ELSE disk
    /\ op' = NoOp /\ pend' = NoOp
    /\ last' = [res |-> res, retry |-> o.retry, kind |-> o.kind, snap |-> o.snap] /\ prov' = Prov(o)
    /\ hist' = Log(HistEntry("op", o, res, disk, mem))
    /\ UNCHANGED <<disk, tx, mem, faults>>

Base(kind, t, retry) == [NoOp EXCEPT !.kind = kind, !.t = t, !.retry = retry]

StartSpace(retry) ==
    /\ ~mem.space /\ ~disk.space
    /\ Start(Base("space", 1, retry), SpaceProg, mem) /\ UNCHANGED U

StartCreate(t, retry) ==
    /\ mem.space /\ t # 1 /\ mem.tr[t].st = "closed" /\ ~disk.heads[t].on
    /\ Start(Base("create", t, retry), CreateProg(t), mem) /\ UNCHANGED U

\* the change AddContent builds on the current in-memory heads; content and timestamp are fixed, so the id is a
\* function of (tree, heads, snapshot base, flag): re-issuing the same call on the same tree state yields the same id
Existing(t, prev, base, snap, loc, acl) ==
    {i \in Ids : U[i].on /\ U[i].tree = t /\ U[i].prev = prev /\ U[i].base = base /\ U[i].snap = snap /\ U[i].loc = loc
                  /\ U[i].acl = acl}
Fresh == {i \in Ids : ~U[i].on}

StartLocal(t, snap, retry) ==
    LET m == mem.tr[t]
        ex == Existing(t, m.hs, m.root, snap, TRUE, mem.acl)
    IN /\ mem.space /\ m.st = "open"
       /\ ex # {} \/ Fresh # {}
       /\ LET c == IF ex # {} THEN Max(ex) ELSE CHOOSE i \in Fresh : \A j \in Fresh : i <= j
              o == m.mx + 1
              m2 == IF snap
                      THEN [m EXCEPT !.hs = {c}, !.root = c, !.att = {c}, !.mx = o]      \* ot.tree = &Tree{}; AddMergedHead
                      ELSE [m EXCEPT !.hs = {c}, !.att = @ \cup {c}, !.mx = o]
          IN /\ c \notin m.att
             /\ U' = [U EXCEPT ![c] = [on |-> TRUE, tree |-> t, prev |-> m.hs, base |-> m.root, snap |-> snap, loc |-> TRUE,
                                       acl |-> mem.acl]]
             /\ Start([Base("local", t, retry) EXCEPT !.snap = snap, !.new = <<<<c, o>>>>],
                      AddProg(t, <<<<c, o>>>>, m2.hs, m2.root, m.def),
                      [mem EXCEPT !.tr[t] = m2])

\* AddContentWithValidator whose validator rejects the change: nothing is written; the tree must stay as it is
StartLocalRejected(t, snap) ==
    LET m == mem.tr[t] IN
    /\ mem.space /\ m.st = "open"
    /\ IF snap /\ ~FIX_ValidateFirst
         \* `ot.tree = &Tree{}` has already happened when the validator runs
         THEN /\ mem' = [mem EXCEPT !.tr[t] = [m EXCEPT !.hs = {}, !.root = 0, !.att = {}]]
              /\ pre' = disk /\ post' = disk /\ op' = NoOp /\ pend' = NoOp
              /\ last' = [res |-> "refused", retry |-> FALSE, kind |-> "localv", snap |-> snap]
              /\ prov' = Prov([Base("localv", t, FALSE) EXCEPT !.snap = snap])
              /\ hist' = Log(HistEntry("op", [Base("localv", t, FALSE) EXCEPT !.snap = snap], "refused", disk, mem'))
              /\ UNCHANGED <<disk, tx, faults>>
         ELSE Immediate([Base("localv", t, FALSE) EXCEPT !.snap = snap], "refused")
    /\ UNCHANGED U

\* sequence of the elements of a set of ids in increasing order, paired with consecutive order numbers after mx
RECURSIVE Ordered(_, _)
Ordered(S, mx) == IF S = {} THEN <<>>
                  ELSE LET x == CHOOSE y \in S : \A z \in S : y <= z IN <<<<x, mx + 1>>>> \o Ordered(S \ {x}, mx + 1)

\* AddRawChanges with payload P (changes of tree t that exist in the world)
StartRemote(t, P, retry) ==
    LET m == mem.tr[t]
        unknown == P \ m.att                       \* changes already attached are skipped before unmarshalling
        stored == Stored(disk, t)
        snapsNew == {s \in unknown : U[s].snap}
        \* a change based on a snapshot outside the (reduced) in-memory tree: rebuildFromStorage; the tree builder
        \* then drops the payload changes that storage already has
        rebuild == \E c \in unknown : U[c].base # m.root /\ U[c].base \notin m.att /\ U[c].base \notin snapsNew
        new == IF rebuild THEN unknown \ stored ELSE unknown
        cand == IF rebuild THEN stored \cup new ELSE m.att \cup new
        \* Without a rebuild every attached change is a possible root and the tree is reduced to the common snapshot
        \* of its heads.  A rebuild starts from the snapshot the tree builder picks - the common snapshot of our
        \* root and, for every announced head that is new, the first snapshot on its base chain that is not itself
        \* part of the payload - and is NOT reduced afterwards (rebuildFromStorage clears the possible roots).
        root2 == IF new = {} THEN m.root
                 ELSE IF rebuild THEN BuilderRoot(unknown, Maxl(P) \cap unknown, m.root)
                 ELSE CSnap(Maxl(cand))
        att2 == {c \in cand : Anc(root2, c)}
        hs2 == Maxl(att2)
        news == Ordered(new, m.mx)
        m2 == IF new = {} THEN m ELSE [m EXCEPT !.hs = hs2, !.root = root2, !.att = att2, !.mx = m.mx + Cardinality(new)]
    IN /\ mem.space /\ m.st = "open"
       /\ P # {} /\ P \subseteq (OfTree(t) \ {t})
       \* only attachable payloads (missing ancestors are the sync protocol's business, property C01)
       /\ \A c \in new : U[c].prev \subseteq (new \cup m.att \cup (IF rebuild THEN stored ELSE {}))
       /\ root2 # 0
       /\ Start([Base("remote", t, retry) EXCEPT !.set = P, !.new = news],
                AddProg(t, news, m2.hs, m2.root, m.def),
                [mem EXCEPT !.tr[t] = m2])
       /\ UNCHANGED U

\* AddRawRecord (batch = FALSE, lo = hi) / AddRawRecords (batch = TRUE) with the records lo..hi of the ACL log.
\* AddRawRecords adds one record after the other, each with a transaction of its own, and skips the records its
\* index knows (ErrRecordAlreadyExists is ignored); one spec operation per record, chained through `pend`.
StartAcl(lo, hi, batch, cont, retry) ==
    LET unknown == {j \in lo..hi : j \notin mem.known}
        o == [Base("acl", 0, retry) EXCEPT !.lo = lo, !.batch = batch, !.cont = cont]
    IN
    /\ mem.space /\ mem.acl > 0 /\ lo > 1 /\ lo <= hi /\ hi \in AclIdx
    /\ IF unknown = {}
         THEN Immediate([o EXCEPT !.i = hi], IF batch THEN "ok" ELSE "refused") /\ UNCHANGED U   \* ErrRecordAlreadyExists
         ELSE LET i == CHOOSE j \in unknown : \A k \in unknown : j <= k IN
              /\ i = mem.acl + 1                                    \* the record applies to the live state
              /\ IF batch /\ DEV_AclBatchOneTx
                   \* seeded mutant: the ids are reserved first, one AddAll for all of them, nothing is taken back
                   THEN /\ unknown = i..hi
                        /\ Start([o EXCEPT !.i = hi], <<Begin, InsAS(unknown), UpsAL(hi), CommitL>>,
                                 [mem EXCEPT !.known = @ \cup unknown])
                   ELSE Start([o EXCEPT !.i = i, !.more = hi - i], AclProg(i),
                              IF FIX_AclWriteFirst THEN mem ELSE [mem EXCEPT !.acl = i, !.known = @ \cup {i}])
              /\ UNCHANGED U

StartDelete(t, retry) ==
    LET m == mem.tr[t] IN
    /\ mem.space /\ m.st \in {"open", "deleted"} /\ m.def = "no" /\ t # 1
    /\ IF m.st = "deleted"
         THEN retry /\ Immediate(Base("delete", t, retry), "ok") /\ UNCHANGED U                   \* `if ot.isDeleted { return nil }`
         ELSE /\ Start(Base("delete", t, retry), DeleteProg(t),
                       IF FIX_DeleteAfter THEN mem ELSE [mem EXCEPT !.tr[t].st = "deleted"])
              /\ UNCHANGED U

Dispatch(o, retry) ==
    CASE o.kind = "space"  -> StartSpace(retry)
      [] o.kind = "create" -> StartCreate(o.t, retry)
      [] o.kind = "local"  -> StartLocal(o.t, o.snap, retry)
      [] o.kind = "remote" -> StartRemote(o.t, o.set, retry)
      [] o.kind = "acl"    -> StartAcl(o.lo, o.i + o.more, o.batch, o.cont, retry)
      [] o.kind = "delete" -> StartDelete(o.t, retry)
      [] OTHER -> FALSE

Quiet == Idle /\ pend.kind = "none"

OpSpace   == Quiet /\ StartSpace(FALSE)
OpCreate  == Quiet /\ \E t \in Trees : StartCreate(t, FALSE)
OpLocal   == Quiet /\ \E t \in Trees, s \in BOOLEAN : StartLocal(t, s, FALSE)
OpLocalV  == Quiet /\ \E t \in Trees, s \in BOOLEAN : StartLocalRejected(t, s)
OpRemote  == Quiet /\ \E t \in Trees : \E P \in SUBSET (OfTree(t) \ {t}) : StartRemote(t, P, FALSE)
OpAcl     == Quiet /\ StartAcl(mem.acl + 1, mem.acl + 1, FALSE, FALSE, FALSE)
OpAclBatch == Quiet /\ \E n \in 1..3 : StartAcl(mem.acl + 1, mem.acl + n, TRUE, FALSE, FALSE)
OpDelete  == Quiet /\ \E t \in Trees : StartDelete(t, FALSE)
\* the caller re-issues the operation that failed with a (non fatal) injected error
\* ... or AddRawRecords goes on with the next record of its payload
OpRetry   == Idle /\ pend.kind # "none" /\ Dispatch(pend, pend.retry)

(* ------------------------------------------------------------------ steps without storage writes *)
Silent(a, t, d, m) == hist' = Log(HistEntry(a, [NoOp EXCEPT !.t = t], "ok", d, m))

\* TreeStorage + BuildObjectTree of a stored tree
OpenTree ==
    /\ Quiet /\ mem.space
    /\ \E t \in Trees :
         /\ mem.tr[t].st = "closed" /\ TreeLive(disk, t) /\ FromDisk(disk, t).st = "open"
         /\ mem' = [mem EXCEPT !.tr[t] = FromDisk(disk, t)]
         /\ Silent("open", t, disk, mem')
    /\ UNCHANGED <<U, disk, tx, op, pre, post, last, pend, faults, prov>>

\* CreateStorageWithDeferredCreation + BuildObjectTree: nothing is written until the first add
OpenDeferred ==
    /\ Quiet /\ mem.space
    /\ \E t \in Trees :
         /\ t # 1 /\ mem.tr[t].st = "closed" /\ ~disk.heads[t].on
         /\ mem' = [mem EXCEPT !.tr[t] = FreshDeferred(t)]
         /\ Silent("deferred", t, disk, mem')
    /\ UNCHANGED <<U, disk, tx, op, pre, post, last, pend, faults, prov>>

\* another replica creates a change (the world grows; nothing happens on the replica under test)
AuthorAddAt(t, snap, prev) ==
    /\ Quiet /\ Fresh # {}
    /\ prev \subseteq OfTree(t) /\ prev # {} /\ Cardinality(prev) <= 2 /\ Maxl(prev) = prev
    /\ LET base == CSnap(prev)
           c == CHOOSE i \in Fresh : \A j \in Fresh : i <= j
           acl == Max({U[p].acl : p \in prev})          \* a change never names an older ACL head than its parents
       IN /\ base # 0
          /\ Existing(t, prev, base, snap, FALSE, acl) = {}
          /\ U' = [U EXCEPT ![c] = [on |-> TRUE, tree |-> t, prev |-> prev, base |-> base, snap |-> snap, loc |-> FALSE,
                                    acl |-> acl]]
          /\ hist' = Log([HistEntry("author", [NoOp EXCEPT !.t = t, !.snap = snap, !.set = prev, !.i = c], "ok", disk, mem)
                             EXCEPT !.new = <<c>>])
    /\ UNCHANGED <<disk, tx, mem, op, pre, post, last, pend, faults, prov>>
AuthorAdd == \E t \in Trees, snap \in BOOLEAN : \E prev \in SUBSET OfTree(t) : AuthorAddAt(t, snap, prev)

\* after a crash: spacestorage.New + BuildAclListWithIdentity on what is on disk
Reopen ==
    /\ Idle /\ last.res = "crash" /\ ~mem.space /\ disk.space
    /\ mem' = ObsFromDisk([ClosedMem EXCEPT !.space = TRUE, !.acl = disk.aclHead, !.known = disk.acl], disk)
    /\ last' = [last EXCEPT !.res = "reopened"]
    /\ Silent("reopen", 0, disk, mem')
    /\ UNCHANGED <<U, disk, tx, op, pre, post, pend, faults, prov>>

(* ------------------------------------------------------------------ one storage call *)
Pop(s) == SubSeq(s, 1, Len(s) - 1)

\* the call is performed
CallOk(k) ==
    LET d2 == IF k.c \in {"commit", "release"} /\ Len(tx) = 1 THEN tx[1]
              ELSE IF ~IsTxCall(k) /\ tx = <<>> THEN Eff(disk, k) ELSE disk
        tx2 == IF k.c \in {"begin", "sp"} THEN Append(tx, View)
               ELSE IF k.c \in {"commit", "release"}
                      THEN IF Len(tx) = 1 THEN <<>> ELSE Append(Pop(Pop(tx)), tx[Len(tx)])
               ELSE IF tx = <<>> THEN tx ELSE [tx EXCEPT ![Len(tx)] = Eff(@, k)]
        m2 == Notify(mem, k, d2, k.c \in {"commit", "release"} /\ Len(tx) = 1)
    IN /\ disk' = d2 /\ tx' = tx2
       /\ IF op.pc = Len(op.prog)
            THEN Finish(op, "ok", d2, MemOnOk(op, m2))
            ELSE op' = [op EXCEPT !.pc = @ + 1] /\ mem' = m2 /\ UNCHANGED <<last, pend, prov, hist>>

\* the call returns an error; injected = it uses up a fault, otherwise the call fails by itself
CallErr(k, injected) ==
    LET o == IF injected THEN [op EXCEPT !.fat = op.pc, !.fate = "error"] ELSE op
        lost == injected /\ k.x = "lossy" /\ ~FIX_NamedResult
    IN IF lost
         \* the failing Commit rolled its own level back, the caller of AddAll sees success and goes on
         THEN /\ tx' = Pop(tx) /\ disk' = disk
              /\ IF op.pc = Len(op.prog)
                   THEN Finish(o, "ok", disk, MemOnOk(o, mem))
                   ELSE op' = [o EXCEPT !.pc = @ + 1] /\ UNCHANGED <<mem, last, pend, prov, hist>>
         ELSE IF injected /\ k.x = "commits" /\ ~FIX_NamedResult /\ Len(tx) = 1
         \* the error is returned, but the deferred function commits what the transaction did so far
         THEN /\ tx' = <<>> /\ disk' = tx[1]
              /\ Finish(o, "injected", tx[1], MemOnErr(o, mem, tx[1], op.pc))
         ELSE /\ tx' = <<>> /\ disk' = disk
              /\ Finish(o, IF injected THEN "injected" ELSE "refused", disk, MemOnErr(o, mem, disk, op.pc))

Step ==
    /\ ~Idle
    /\ LET k == op.prog[op.pc] IN
         \/ /\ ~NaturalFail(View, k) /\ CallOk(k) /\ UNCHANGED faults
         \/ /\ NaturalFail(View, k) /\ CallErr(k, FALSE) /\ UNCHANGED faults
         \/ /\ faults < MaxFaults /\ ~NaturalFail(View, k) /\ CallErr(k, TRUE) /\ faults' = faults + 1
    /\ UNCHANGED <<U, pre, post>>

\* the process dies before the next call is performed (the crash image is the database as it is now)
Crash ==
    /\ ~Idle /\ faults < MaxFaults
    /\ faults' = faults + 1
    /\ tx' = <<>> /\ mem' = ClosedMem /\ op' = NoOp /\ pend' = NoOp
    /\ last' = [res |-> "crash", retry |-> op.retry, kind |-> op.kind, snap |-> op.snap] /\ prov' = Prov([op EXCEPT !.fat = op.pc, !.fate = "crash"])
    /\ hist' = Log(HistEntry("op", [op EXCEPT !.fat = op.pc, !.fate = "crash"], "crash", disk, ClosedMem))
    /\ UNCHANGED <<U, disk, pre, post>>

Next == OpSpace \/ OpCreate \/ OpLocal \/ OpLocalV \/ OpRemote \/ OpAcl \/ OpAclBatch \/ OpDelete \/ OpRetry
        \/ OpenTree \/ OpenDeferred \/ AuthorAdd \/ Reopen \/ Step \/ Crash

Spec == Init /\ [][Next]_vars

(* ------------------------------------------------------------------ properties *)
\* all-or-nothing: at every call boundary the durable state is the state before or after the operation
Atomic == disk = pre \/ disk = post

\* what an operation reports is what happened
OkMeansPost  == (Idle /\ last.res = "ok") => disk = post
ErrMeansPre  == (Idle /\ last.res \in {"injected", "refused"}) => disk = pre

\* durable consistency, on the durable state at all times
HeadsNameStored ==
    /\ \A t \in Trees : TreeLive(disk, t) =>
          /\ disk.heads[t].hs # {} /\ disk.heads[t].hs \subseteq Stored(disk, t)
          /\ disk.heads[t].cs \in Stored(disk, t)
    /\ \A i \in Ids : disk.ord[i] # 0 => TreeLive(disk, U[i].tree)                 \* no orphan changes
ParentsAndBaseStored ==
    \A i \in Ids : (disk.ord[i] # 0 /\ i \notin Trees) =>
        /\ U[i].prev # {} /\ \A p \in U[i].prev : disk.ord[p] # 0
        /\ disk.ord[U[i].base] # 0
OrderRespectsCausality ==
    /\ \A i \in Ids : disk.ord[i] # 0 => \A p \in U[i].prev : disk.ord[p] # 0 => disk.ord[p] < disk.ord[i]
    /\ \A i, j \in Ids : (i # j /\ disk.ord[i] # 0 /\ U[i].tree = U[j].tree) => disk.ord[i] # disk.ord[j]
AclHeadIsLastRecord ==
    /\ disk.acl = 1..Cardinality(disk.acl)             \* a chain root..n (record i follows i-1, order i)
    /\ disk.aclHead = Cardinality(disk.acl)
SpaceAllOrNothing ==
    IF disk.space
      THEN /\ 1 \in disk.acl /\ TreeLive(disk, 1)
           /\ disk.schema = 1..Len(SchemaNames)
      ELSE disk = EmptyDisk

\* reopening yields valid objects with the recorded heads
CanReopen(d) ==
    d.space =>
        /\ d.aclHead \in d.acl /\ \A i \in 1..d.aclHead : i \in d.acl             \* head -> root walk succeeds
        /\ \A t \in Trees : TreeLive(d, t) =>
              LET m == FromDisk(d, t) IN
              /\ m.st = "open" /\ m.hs = d.heads[t].hs /\ m.hs \subseteq m.att
              /\ \A c \in m.att : c = m.root \/ U[c].prev \subseteq m.att           \* the tree builds without gaps
ReopenValid == CanReopen(disk)

\* between operations a live object says what storage says
TreeAgrees(t) ==
    LET m == mem.tr[t] IN
    CASE m.st = "open" /\ m.def = "no" -> /\ TreeLive(disk, t) /\ m.hs = disk.heads[t].hs
                                          /\ m.root = disk.heads[t].cs /\ m.att \subseteq Stored(disk, t)
      [] m.st = "open" /\ m.def = "pending" -> ~disk.heads[t].on /\ m.hs = {t}
      [] m.st = "open" /\ m.def = "wedged" -> FALSE
      [] m.st = "deleted" -> Stored(disk, t) = {}
      [] OTHER -> TRUE
LiveAgreesWithDisk ==
    Idle => /\ (mem.acl > 0 => (mem.acl = disk.aclHead /\ mem.known = disk.acl))
            /\ \A t \in Trees : TreeAgrees(t)
            /\ (mem.space => disk.space)

\* head sync only ever advertises committed heads (known finding: violated by the code as it is)
ObserverSeesCommitted ==
    (Idle /\ mem.space) => /\ \A t \in Trees : disk.heads[t].on => mem.obs[t] = disk.heads[t].hs
                            /\ mem.obsAcl = disk.aclHead

\* the same input is accepted again after a failed write
RetrySucceeds == (Idle /\ last.retry /\ last.res # "crash" /\ last.res # "reopened") => last.res \in {"ok", "injected"}

TypeOK ==
    /\ Len(tx) <= 2
    /\ faults \in 0..MaxFaults
    /\ \A i \in Ids : U[i].on => (U[i].prev \subseteq 1..(i - 1) /\ U[i].base < i)

Inv == /\ TypeOK /\ Atomic /\ OkMeansPost /\ ErrMeansPre
       /\ HeadsNameStored /\ ParentsAndBaseStored /\ OrderRespectsCausality /\ AclHeadIsLastRecord
       /\ SpaceAllOrNothing /\ ReopenValid /\ LiveAgreesWithDisk /\ RetrySucceeds
=============================================================================
