SPECIFICATION Spec
CONSTANTS
  NT = 2
  MaxId = 3
  MaxAcl = 1
  MaxFaults = 1
  FIX_NamedResult = TRUE
  FIX_AclWriteFirst = TRUE
  FIX_DeferredReset = TRUE
  FIX_LocalRollback = TRUE
  FIX_DeleteAfter = TRUE
  FIX_ValidateFirst = TRUE
  FIX_NotifyAfterCommit = FALSE
  DEV_HeadsOutsideTx = FALSE
  DEV_SpaceTwoTx = FALSE
  DEV_AclBatchOneTx = FALSE
  DEV_SplitBatch = 0
  GEN = FALSE
INVARIANT TypeOK
INVARIANT Atomic
INVARIANT OkMeansPost
INVARIANT ErrMeansPre
INVARIANT HeadsNameStored
INVARIANT ParentsAndBaseStored
INVARIANT OrderRespectsCausality
INVARIANT AclHeadIsLastRecord
INVARIANT SpaceAllOrNothing
INVARIANT ReopenValid
INVARIANT LiveAgreesWithDisk
INVARIANT RetrySucceeds
VIEW view
CHECK_DEADLOCK FALSE
