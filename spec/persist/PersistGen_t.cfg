SPECIFICATION Spec
CONSTANTS
  NT = 2
  MaxId = 4
  MaxAcl = 1
  MaxFaults = 1
  FIX_NamedResult = TRUE
  FIX_AclWriteFirst = TRUE
  FIX_DeferredReset = TRUE
  FIX_LocalRollback = TRUE
  FIX_DeleteAfter = TRUE
  FIX_ValidateFirst = TRUE
  FIX_NotifyAfterCommit = FALSE
  DEV_HeadsOutsideTx = FALSE
  DEV_SpaceTwoTx = FALSE
  DEV_AclBatchOneTx = FALSE
  DEV_SplitBatch = 0
  GEN = TRUE
INVARIANT Emit
VIEW genview
CHECK_DEADLOCK FALSE
