---------------------------- MODULE PersistTrace ----------------------------
(* Trace validation (code -> spec): a log recorded from the real storage stack by a random   *)
(* driver (harness/persist TestRecord: bigger universes, several faults per run) must be a    *)
(* behaviour of Persist.  One log line per spec step:                                         *)
(*   reset                                  a new run starts (fresh database)                  *)
(*   author / open / deferred / reopen      the steps without storage writes                   *)
(*   start   kind, tree, payload, retry     an operation starts (arguments as the driver chose)*)
(*           cont                           AddRawRecords goes on with its next record (one    *)
(*                                          spec operation and one transaction per record)     *)
(*   call    name, fate                     ONE line per storage call recorded by the proxy    *)
(*                                          database: the name must be the next call of the    *)
(*                                          spec's program (two transactions where the spec    *)
(*                                          has one, a missing or additional call: rejected)   *)
(*   end     result, durable + live state   what the real code reported and what the real      *)
(*                                          database / live objects contain afterwards         *)
(* Every invariant of Persist is evaluated on every observed state.                            *)
EXTENDS Persist, VerifEmit, SequencesExt

ASSUME HwReset
Trace == ndJsonDeserialize(TraceFileName)
VARIABLE l
tvars == <<vars, l>>

Set(s) == {s[n] : n \in DOMAIN s}          \* JSON arrays -> sets
X == Trace[l]
IsEvent(e) == l <= Len(Trace) /\ Trace[l].ev = e /\ l' = l + 1

InitVals == /\ U' = [i \in Ids |-> IF i \in Trees THEN RootChange(i) ELSE NoChange]
            /\ disk' = EmptyDisk /\ tx' = <<>> /\ mem' = ClosedMem /\ op' = NoOp
            /\ pre' = EmptyDisk /\ post' = EmptyDisk
            /\ last' = [res |-> "none", retry |-> FALSE, kind |-> "none", snap |-> FALSE]
            /\ pend' = NoOp /\ faults' = 0 /\ prov' = <<>> /\ hist' = <<>>

TraceInit == Init /\ l = 1
TrReset == IsEvent("reset") /\ InitVals

TrAuthor == /\ IsEvent("author") /\ AuthorAddAt(X.t, X.snap, Set(X.prev))
            /\ U'[X.id].on /\ ~U[X.id].on
TrOpen     == IsEvent("open") /\ OpenTree /\ mem.tr[X.t].st = "closed" /\ mem'.tr[X.t].st = "open"
TrDeferred == IsEvent("deferred") /\ OpenDeferred /\ mem.tr[X.t].st = "closed" /\ mem'.tr[X.t].def = "pending"
TrReopen   == IsEvent("reopen") /\ Reopen

\* an operation starts with the arguments of the log line; a re-issued operation must be the pending one
TrStart ==
    /\ IsEvent("start")
    /\ IF X.retry \/ X.cont
         \* a re-issued operation / the next record of an AddRawRecords call must be the pending one
         THEN /\ pend.kind = X.kind /\ pend.t = X.t /\ pend.cont = X.cont /\ OpRetry
         ELSE /\ Quiet
              /\ CASE X.kind = "space"  -> StartSpace(FALSE)
                   [] X.kind = "create" -> StartCreate(X.t, FALSE)
                   [] X.kind = "local"  -> StartLocal(X.t, X.snap, FALSE)
                   [] X.kind = "localv" -> StartLocalRejected(X.t, X.snap)
                   [] X.kind = "remote" -> StartRemote(X.t, Set(X.set), FALSE)
                   [] X.kind = "acl"    -> StartAcl(X.lo, X.hi, X.batch, FALSE, FALSE)
                   [] X.kind = "delete" -> StartDelete(X.t, FALSE)
                   [] OTHER -> FALSE
    \* the change AddContent built has the id the spec expects
    /\ (X.kind = "local" /\ op'.kind = "local") => op'.new[1][1] = X.id

\* one storage call of the program, with the fate the log says
TrCall ==
    /\ IsEvent("call") /\ ~Idle
    /\ CallStr(op.prog[op.pc]) = X.name
    /\ LET k == op.prog[op.pc] IN
         CASE X.fate = "ok"    -> ~NaturalFail(View, k) /\ CallOk(k) /\ UNCHANGED faults
           [] X.fate = "error" -> ~NaturalFail(View, k) /\ CallErr(k, TRUE) /\ faults' = faults + 1
           [] X.fate = "fails" -> NaturalFail(View, k) /\ CallErr(k, FALSE) /\ UNCHANGED faults
           [] OTHER -> FALSE
    /\ UNCHANGED <<U, pre, post>>
TrCrash == IsEvent("crash") /\ Crash

\* what the real code reported and left behind
HeadsEq(h, x) == h.on = x.on /\ (h.on => (h.hs = Set(x.hs) /\ h.cs = x.cs))
TrEnd ==
    /\ IsEvent("end") /\ Idle
    /\ last.res = X.res
    /\ disk.space = X.disk.space
    /\ {i \in Ids : disk.ord[i] # 0} = Set(X.disk.stored)
    /\ \A t \in Trees : HeadsEq(disk.heads[t], X.disk.heads[t])
    /\ disk.acl = Set(X.disk.acl) /\ disk.aclHead = X.disk.aclHead
    /\ mem.acl = X.mem.acl /\ mem.known = Set(X.mem.known)
    /\ mem.space => (mem.obsAcl = X.mem.obsAcl /\ \A t \in Trees : mem.obs[t] = Set(X.mem.obs[t]))
    /\ \A t \in Trees : /\ (mem.tr[t].st = "open") = (X.mem.tr[t].st = "open")
                        /\ (mem.tr[t].st = "open" /\ mem.tr[t].def # "pending") =>
                              (mem.tr[t].hs = Set(X.mem.tr[t].hs) /\ mem.tr[t].root = X.mem.tr[t].root)
    /\ UNCHANGED vars

TraceNext == TrReset \/ TrAuthor \/ TrOpen \/ TrDeferred \/ TrReopen \/ TrStart \/ TrCall \/ TrCrash \/ TrEnd
TraceSpec == TraceInit /\ [][TraceNext]_tvars

Mark == HwMark(l)
TraceAccepted == HwAccepted(Len(Trace))
=============================================================================
