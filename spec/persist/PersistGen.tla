----------------------------- MODULE PersistGen -----------------------------
(* Behaviour generation for the replay harness.                                            *)
(*                                                                                          *)
(* Goal: every transition of the state graph at operation granularity - (state between      *)
(* operations, operation, boundary, fate) - is executed on the real code at least once,     *)
(* not every path.  The generation VIEW keeps exactly what determines the future            *)
(* (U, disk, tx, mem, op, pend, faults, last) plus `prov`, the fault points of the last TWO  *)
(* operations (a failed write shows in the operation after it: the retry after a failure at  *)
(* boundary k must be executed for every k although all of them end in the same state), and  *)
(* drops pre / post / hist; TLC then carries one history (the first one found, breadth first *)
(* = a shortest one) per such class, and the class is written out when an operation has just *)
(* finished.                                                                                 *)
EXTENDS Persist, VerifEmit
ASSUME EmitReset
genview == <<U, disk, tx, mem, op, pend, faults, last, prov>>
Behaviour == [steps |-> hist, changes |-> [i \in Ids |-> ChangeProj(i)], nt |-> NT]
\* (not in the middle of an AddRawRecords call: its records are one call of the code)
JustFinished == Idle /\ hist # <<>> /\ hist[Len(hist)].a = "op" /\ ~pend.cont
Emit == EmitWhen(JustFinished, Behaviour)
=============================================================================
