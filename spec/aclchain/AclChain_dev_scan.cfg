SPECIFICATION Spec
CONSTANTS
  Accounts = {"a", "b"}
  Replicas = {"r1", "r2"}
  MaxLog = 3
  GrantPerms = {"writer", "admin"}
  MaxContents = 1
  Cfgs <- McCfgs
  ServeFromIndexNotOrder = FALSE
  TrustScanOrder = TRUE
  SwapBeforeApply = FALSE
  BatchOnSharedCopy = FALSE
  BuildTrustsStorage = FALSE
INVARIANT MigratedRebuildAgrees
CHECK_DEADLOCK FALSE
