---------------------------- MODULE AclChainTrace ----------------------------
(* Trace validation: an execution recorded from real AclLists (one NDJSON line per action   *)
(* of AclChain, with its arguments and the projected state the acting list shows afterwards) *)
(* must be a behaviour of AclChain, and every invariant of AclChain must hold on the          *)
(* observed states: obsL / obs[r] are the logged projections, lst / st[r] what the spec       *)
(* computes for the same arguments. Many runs are concatenated; a Config line starts a run.   *)
EXTENDS AclChain, VerifEmit

ASSUME HwReset
Trace == ndJsonDeserialize(TraceFileName)

VARIABLES l,      \* next line to consume
          obsL,   \* observed state of the acceptor (the log)
          obs     \* obs[r]: observed state of replica r
tvars == <<vars, l, obsL, obs>>

ToSet(sq) == {sq[i] : i \in 1..Len(sq)}
ObsState(e) == [perm |-> e.perm, status |-> e.status, invites |-> ToSet(e.invites), reqs |-> ToSet(e.reqs),
                keys |-> e.keys, head |-> e.head]
Cs(e) == [i \in 1..Len(e.cs) |-> C(e.cs[i].k, e.cs[i].acc, e.cs[i].p, e.cs[i].ref, e.cs[i].t)]

StartRun(e) ==
    /\ log' = <<RootRec>> /\ lst' = RootState
    /\ cfg' = [r \in Replicas |-> [mode |-> e.cfg[r].mode, storage |-> e.cfg[r].storage, ident |-> e.cfg[r].ident]]
    /\ applied' = [r \in Replicas |-> 1]
    /\ st' = [r \in Replicas |-> RootState]
    /\ mem' = [r \in Replicas |-> <<1>>]
    /\ stor' = [r \in Replicas |-> [recs |-> <<SRec(RootRec, 1)>>, head |-> 1]]
    /\ okCatch' = TRUE /\ okMig' = TRUE /\ okRej' = TRUE
    /\ obsL' = RootState /\ obs' = [r \in Replicas |-> RootState]

TraceInit ==
    /\ l = 1
    /\ log = <<RootRec>> /\ lst = RootState
    /\ cfg = [r \in Replicas |-> RC("validating", "inmemory")]
    /\ applied = [r \in Replicas |-> 1] /\ st = [r \in Replicas |-> RootState]
    /\ mem = [r \in Replicas |-> <<1>>]
    /\ stor = [r \in Replicas |-> [recs |-> <<SRec(RootRec, 1)>>, head |-> 1]]
    /\ okCatch = TRUE /\ okMig = TRUE /\ okRej = TRUE
    /\ obsL = RootState /\ obs = [r \in Replicas |-> RootState]

IsEvent(e) == l <= Len(Trace) /\ Trace[l].ev = e /\ l' = l + 1
Saw(r, e) == obs' = [obs EXCEPT ![r] = ObsState(e.st)] /\ obsL' = obsL

TrConfig == IsEvent("Config") /\ StartRun(Trace[l])

\* the acceptor accepted the record: it becomes part of the log whatever the spec's guards say;
\* a record the transcribed guards refuse is reported as drift of the specification
TrAccept == /\ IsEvent("Accept")
            /\ LET e == Trace[l] rec == Rec(Len(log) + 1, Len(log), e.a, Cs(e))
               IN /\ IF ApplyRec(lst, rec).ok THEN TRUE ELSE PrintT(<<"TRACE-DRIFT-ACCEPTED-BUT-INVALID-IN-SPEC", l>>)
                  /\ Accept(e.a, Cs(e))
                  /\ obsL' = ObsState(e.st) /\ obs' = obs
\* the client builder or the acceptor refused the record: the spec must refuse it too
TrRefused == /\ IsEvent("Refused")
             /\ LET e == Trace[l] rec == Rec(Len(log) + 1, Len(log), e.a, Cs(e))
                IN IF ~ApplyRec(lst, rec).ok THEN TRUE ELSE PrintT(<<"TRACE-DRIFT-REFUSED-BUT-VALID-IN-SPEC", l>>)
             /\ UNCHANGED <<vars, obsL, obs>>
TrAddOne == IsEvent("AddOne") /\ LET e == Trace[l] IN AddOne(e.r) /\ Saw(e.r, e)
TrAddBatch == IsEvent("AddBatch") /\ LET e == Trace[l] IN AddBatch(e.r, e.i, e.j) /\ Saw(e.r, e)
TrRestart == IsEvent("Restart") /\ LET e == Trace[l] IN Restart(e.r) /\ Saw(e.r, e)
TrMigrated == IsEvent("MigratedRestart") /\ LET e == Trace[l] IN MigratedRestart(e.r, e.i, e.j) /\ Saw(e.r, e)
TrBootstrap == IsEvent("Bootstrap") /\ LET e == Trace[l] IN Bootstrap(e.r, e.p) /\ Saw(e.r, e)
TrCatchUp == IsEvent("CatchUp") /\ LET e == Trace[l] IN CatchUp(e.r, e.p, e.after, e.start) /\ Saw(e.r, e)
TrAnnounce == IsEvent("Announce") /\ LET e == Trace[l] IN Announce(e.p, e.r, e.i, e.start) /\ Saw(e.r, e)
TrTamper == IsEvent("Tamper") /\ LET e == Trace[l] IN Tamper(e.r, e.kind, e.other, e.a, Cs(e)) /\ Saw(e.r, e)

TrAddBatchTail == IsEvent("AddBatchTail") /\ LET e == Trace[l] IN
                     AddBatchTail(e.r, e.i, e.j, e.kind, e.other, e.a, Cs(e)) /\ Saw(e.r, e)

TrBuildTampered == IsEvent("BuildTampered") /\ LET e == Trace[l] IN
                      BuildTampered(e.r, e.k, e.m, e.kind, e.other, e.a, Cs(e)) /\ Saw(e.r, e)

TraceNext == TrConfig \/ TrAccept \/ TrRefused \/ TrAddOne \/ TrAddBatch \/ TrRestart \/ TrMigrated
             \/ TrBootstrap \/ TrCatchUp \/ TrAnnounce \/ TrTamper \/ TrAddBatchTail \/ TrBuildTampered
TraceSpec == TraceInit /\ [][TraceNext]_tvars

\* the invariants of the design evaluated on what the real lists showed
ObservedLogState == obsL = lst
ObservedReplicaStates == \A r \in Replicas : obs[r] = st[r]
ObservedStateIsFunctionOfLog ==
    /\ obsL = F(log)
    /\ \A r \in Replicas : obs[r] = F(Prefix(r))
ObservedReplicasAgree == \A r, p \in Replicas : applied[r] = applied[p] => obs[r] = obs[p]

TraceInv == /\ TypeOK /\ StateIsFunctionOfLog /\ ReplicasAgree /\ OnlyHeadExtends /\ StorageMatchesState
            /\ CatchUpReachesHead /\ MigratedRebuildAgrees /\ RejectedIsNoOp

Mark == HwMark(l)
TraceAccepted == HwAccepted(Len(Trace))
=============================================================================
