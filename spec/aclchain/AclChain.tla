------------------------------ MODULE AclChain ------------------------------
(* The ACL record log of a space (commonspace/object/acl/list) as a tamper-evident chain    *)
(* whose derived state is a function of the accepted record sequence (property C03).       *)
(*                                                                                         *)
(* What is modelled (one action per entry point / critical section of the implementation): *)
(*   Accept(a, cs)      the acceptor (node-side acl service: ValidateRawRecord on a fully  *)
(*                      validating list, then the consensus node signs) appends a record   *)
(*   AddOne(r)          AclList.AddRawRecord of the next log record on replica r           *)
(*   AddBatch(r,i,j)    AclList.AddRawRecords(log[i..j]) (known records are skipped)       *)
(*   Restart(r)         BuildAclListWithIdentity on r's storage (loadRecords: order scan,  *)
(*                      isContiguousChain cross-check, fallback to the head->root walk)    *)
(*   MigratedRestart    the same on a copy of the storage whose order index is permuted    *)
(*   Bootstrap(r,p)     NewInMemoryStorage(p.RecordsAfter("")) + build (joining client,    *)
(*                      acl waiter, node-side acl object)                                  *)
(*   CatchUp(r,p,after,start) r.AddRawRecords(p.RecordsAfter(after)) (full-sync response)  *)
(*   Announce(p,r,i,..) syncAclHandler: head update with records log[i..head of p] from p to *)
(*                      r, followed by the full-sync request / response when they do not   *)
(*                      connect (HandleHeadUpdate, HandleStreamRequest, HandleResponse)     *)
(*   Tamper(r,kind,..)  a mutated / misplaced / unaccepted record is handed to AddRawRecord*)
(*   BuildTampered(..)  a list is built from a log that holds such a record in place k       *)
(*   AddBatchTail(..)   AddRawRecords(log[i..j] ++ <<such a record made for the state after*)
(*                      record j>>): the accepted records stay, the tail leaves no trace    *)
(*                                                                                         *)
(* Record contents are abstracted to their effect on the observable projection of AclState *)
(* (permissions, statuses, invites, pending requests, read-key generation ids, head); the  *)
(* guards are transcribed from validator.go, the effects from aclstate.go apply*.          *)
(* Cryptography is symbolic: a record carries three booleans (cidOk, sigOk, accOk); the    *)
(* harness renders a false boolean in several ways (altered bytes, a genuine value          *)
(* transplanted from another accepted record, a value made with another key, none).         *)
(*                                                                                         *)
(* Deviations (constants, FALSE in every registered configuration):                        *)
(*   ServeFromIndexNotOrder  RecordsAfter passes the 0-based index of the record to        *)
(*                           Storage.GetAfterOrder (1-based orders) - the pre-repair code  *)
(*   TrustScanOrder          loadRecords trusts the order scan without the PrevId check    *)
(*   SwapBeforeApply         AddRawRecord applies the contents to the live state           *)
(*   BatchOnSharedCopy       AddRawRecords applies the whole batch to one copy of the state *)
(*                           and commits that copy with the records in front of a refused   *)
(*                           one (the refused record's first contents come along)          *)
(*   BuildTrustsStorage      building a list decodes the stored / served records without     *)
(*                           checking acceptor, author signature and id                      *)
EXTENDS Integers, Sequences, FiniteSets, TLC

CONSTANTS Accounts,     \* account names besides the owner "o" (strings)
          Replicas,     \* replica names (strings)
          MaxLog,       \* maximal length of the accepted log (root included)
          GrantPerms,   \* permissions that add / accept / change / anyone-invites hand out
          MaxContents,  \* 1..2 contents per record
          Cfgs,         \* set of configurations [Replicas -> [mode, storage, ident]]
          ServeFromIndexNotOrder, TrustScanOrder, SwapBeforeApply, BatchOnSharedCopy, BuildTrustsStorage

Owner == "o"
All   == {Owner} \cup Accounts
Modes == {"validating", "partial"}     \* ValidateFull (content rules, no acceptor) / network verifier (acceptor, keep-only-ours decode)
Stores == {"anystore", "inmemory"}

VARIABLES log,      \* Seq of records: the accepted log, log[i].id = i, log[1] = root
          lst,      \* abstract state after the whole log (the acceptor's state)
          cfg,      \* configuration of the replicas (chosen initially)
          applied,  \* applied[r]: number of log records r holds
          st,       \* st[r]: r's in-memory abstract state
          mem,      \* mem[r]: ids of r's in-memory record list (aclList.records / indexes)
          stor,     \* stor[r]: [recs: Seq of [id, prev, ord], head: id]
          okCatch,  \* history: the last CatchUp brought the requester to the server's head
          okMig,    \* history: the last MigratedRestart rebuilt the same state
          okRej     \* history: the last refused record left the replica (state, list, storage) untouched
vars == <<log, lst, cfg, applied, st, mem, stor, okCatch, okMig, okRej>>

(* ------------------------------ abstract ACL state ------------------------------ *)
CanManage(p) == p \in {"admin", "owner"}

RootState == [perm    |-> [x \in All |-> IF x = Owner THEN "owner" ELSE "none"],
              status  |-> [x \in All |-> IF x = Owner THEN "active" ELSE "absent"],
              invites |-> {},      \* [id, t, p]
              reqs    |-> {},      \* [id, acc, kind]
              keys    |-> <<1>>,   \* ids of the records that introduced a read-key generation
              head    |-> 1]

C(k, acc, p, ref, t) == [k |-> k, acc |-> acc, p |-> p, ref |-> ref, t |-> t]

HasInv(s, id)  == \E i \in s.invites : i.id = id
InvOf(s, id)     == CHOOSE i \in s.invites : i.id = id
HasReq(s, id)  == \E q \in s.reqs : q.id = id
Req(s, id)     == CHOOSE q \in s.reqs : q.id = id
Pending(s, a)  == \E q \in s.reqs : q.acc = a

\* validator.go (the validating mode). Two guards are deliberately the stricter ones that the
\* repairs of C04/C05 introduce (accept only a join request of an account holding no
\* permission; change only an account holding a permission): the histories generated here stay
\* inside the part of the alphabet on which both versions of the validator agree.
Guard(s, a, c) ==
  CASE c.k = "Invite" ->
         /\ CanManage(s.perm[a])
         /\ IF c.t = "any" THEN c.p \in {"reader", "writer", "admin"} /\ (c.p = "admin" => s.perm[a] = "owner")
                           ELSE c.p = "none"
    [] c.k = "InviteRevoke" -> CanManage(s.perm[a]) /\ HasInv(s, c.ref)
    [] c.k = "InviteChange" ->
         /\ CanManage(s.perm[a]) /\ HasInv(s, c.ref)
         /\ InvOf(s, c.ref).t = "any" /\ InvOf(s, c.ref).p # c.p
         /\ c.p \in {"reader", "writer", "admin"} /\ (c.p = "admin" => s.perm[a] = "owner")
    [] c.k = "RequestJoin" ->
         /\ HasInv(s, c.ref) /\ InvOf(s, c.ref).t = "req"
         /\ s.perm[a] = "none" /\ ~Pending(s, a)
    [] c.k = "RequestAccept" ->
         /\ CanManage(s.perm[a]) /\ HasReq(s, c.ref)
         /\ Req(s, c.ref).acc = c.acc /\ Req(s, c.ref).kind = "join" /\ s.perm[c.acc] = "none"
         /\ c.p \in {"reader", "writer", "admin"} /\ (c.p = "admin" => s.perm[a] = "owner")
    [] c.k = "RequestDecline" -> CanManage(s.perm[a]) /\ HasReq(s, c.ref) /\ Req(s, c.ref).kind = "join"
    [] c.k = "RequestCancel"  -> HasReq(s, c.ref) /\ Req(s, c.ref).acc = a
    [] c.k = "RequestRemove"  -> s.perm[a] \notin {"none", "owner"} /\ ~Pending(s, a)
    [] c.k = "AccountRemove"  ->
         /\ CanManage(s.perm[a]) /\ c.acc # a
         /\ s.perm[c.acc] \notin {"none", "owner"} /\ (s.perm[c.acc] = "admin" => s.perm[a] = "owner")
    [] c.k = "ReadKeyChange"  -> CanManage(s.perm[a])
    [] c.k = "PermChange" ->
         /\ CanManage(s.perm[a]) /\ c.acc # a
         /\ s.perm[c.acc] \notin {"none", "owner"} /\ (s.perm[c.acc] = "admin" => s.perm[a] = "owner")
         /\ c.p \in {"reader", "writer", "admin"} /\ (c.p = "admin" => s.perm[a] = "owner")
    [] c.k = "AccountsAdd" ->
         /\ CanManage(s.perm[a]) /\ s.perm[c.acc] = "none"
         /\ c.p \in {"reader", "writer", "admin"} /\ (c.p = "admin" => s.perm[a] = "owner")
    [] c.k = "InviteJoin" -> s.perm[a] = "none" /\ HasInv(s, c.ref) /\ InvOf(s, c.ref).t = "any"
    [] c.k = "Ownership"  ->
         /\ s.perm[a] = "owner" /\ s.perm[c.acc] \notin {"none", "owner"} /\ s.status[c.acc] = "active"
         /\ c.p \in {"reader", "writer", "admin"}
    [] c.k = "Options" -> s.perm[a] = "owner"
    [] OTHER -> FALSE

\* aclstate.go apply*: the effect of content c of record n authored by a
Eff(s, a, c, n) ==
  CASE c.k = "Invite"       -> [s EXCEPT !.invites = @ \cup {[id |-> n, t |-> c.t, p |-> c.p]}]
    [] c.k = "InviteRevoke" -> [s EXCEPT !.invites = {i \in @ : i.id # c.ref}]
    [] c.k = "InviteChange" -> [s EXCEPT !.invites = {IF i.id = c.ref THEN [i EXCEPT !.p = c.p] ELSE i : i \in @}]
    [] c.k = "RequestJoin"  -> [s EXCEPT !.reqs = @ \cup {[id |-> n, acc |-> a, kind |-> "join"]},
                                         !.status[a] = "joining", !.perm[a] = "none"]
    [] c.k = "RequestAccept"  -> [s EXCEPT !.perm[c.acc] = c.p, !.status[c.acc] = "active",
                                           !.reqs = {q \in @ : q.id # c.ref}]
    [] c.k = "RequestDecline" -> [s EXCEPT !.status[Req(s, c.ref).acc] = "declined",
                                           !.reqs = {q \in @ : q.id # c.ref}]
    [] c.k = "RequestCancel"  -> [s EXCEPT !.status[Req(s, c.ref).acc] =
                                               IF Req(s, c.ref).kind = "join" THEN "canceled" ELSE "active",
                                           !.reqs = {q \in @ : q.id # c.ref}]
    [] c.k = "RequestRemove"  -> [s EXCEPT !.reqs = @ \cup {[id |-> n, acc |-> a, kind |-> "remove"]},
                                           !.status[a] = "removing"]
    [] c.k = "AccountRemove"  -> [s EXCEPT !.status[c.acc] = "removed", !.perm[c.acc] = "none",
                                           !.reqs = {q \in @ : q.acc # c.acc}, !.keys = Append(@, n)]
    [] c.k = "ReadKeyChange"  -> [s EXCEPT !.keys = Append(@, n)]
    [] c.k = "PermChange"     -> [s EXCEPT !.perm[c.acc] = c.p]
    [] c.k = "AccountsAdd"    -> [s EXCEPT !.perm[c.acc] = c.p, !.status[c.acc] = "active"]
    [] c.k = "InviteJoin"     -> [s EXCEPT !.perm[a] = InvOf(s, c.ref).p, !.status[a] = "active",
                                           !.reqs = {q \in @ : q.acc # a}]
    [] c.k = "Ownership"      -> [s EXCEPT !.perm[a] = c.p, !.perm[c.acc] = "owner"]
    [] OTHER -> s

\* AclState.ApplyRecord on a copy: contents one after the other, the first failing guard aborts
RECURSIVE ApplyCs(_, _, _, _, _)
ApplyCs(s, a, cs, n, k) ==
    IF k > Len(cs) THEN [ok |-> TRUE, s |-> s]
    ELSE IF ~Guard(s, a, cs[k]) THEN [ok |-> FALSE, s |-> s]   \* s = the partially updated copy
    ELSE ApplyCs(Eff(s, a, cs[k], n), a, cs, n, k + 1)

ApplyRec(s, rec) ==
    LET res == ApplyCs(s, rec.author, rec.cs, rec.id, 1)
    IN IF res.ok THEN [ok |-> TRUE, s |-> [res.s EXCEPT !.head = rec.id]] ELSE res

\* F: the state as a function of a record sequence (root first)
RECURSIVE Fold(_, _, _)
Fold(s, recs, k) == IF k > Len(recs) THEN s ELSE Fold(ApplyRec(s, recs[k]).s, recs, k + 1)
F(recs) == Fold(RootState, recs, 2)

(* ------------------------------ record alphabet ------------------------------ *)
\* order in which AclRecordBuilder.BuildBatchRequest emits the contents of a multi-content record
Rank(c) == CASE c.k = "AccountRemove" -> 1 [] c.k = "AccountsAdd" -> 2 [] c.k = "PermChange" -> 3
             [] c.k = "RequestAccept" -> 4 [] c.k = "RequestDecline" -> 5 [] c.k = "InviteRevoke" -> 6
             [] c.k = "ReadKeyChange" -> 7 [] c.k = "InviteChange" -> 8 [] c.k = "Invite" -> 9
             [] OTHER -> 0                      \* never part of a batch

Cands(s) ==
       {C("Invite", "-", "none", 0, "req")} \cup {C("Invite", "-", p, 0, "any") : p \in GrantPerms}
  \cup {C("InviteRevoke", "-", "-", i.id, "-") : i \in s.invites}
  \cup {C("InviteChange", "-", p, i.id, "-") : i \in s.invites, p \in GrantPerms}
  \cup {C("RequestJoin", "-", "-", i.id, "-") : i \in s.invites}
  \cup {C("InviteJoin", "-", "-", i.id, "-") : i \in s.invites}
  \cup {C("RequestAccept", q.acc, p, q.id, "-") : q \in s.reqs, p \in GrantPerms}
  \cup {C("RequestDecline", "-", "-", q.id, "-") : q \in s.reqs}
  \cup {C("RequestCancel", "-", "-", q.id, "-") : q \in s.reqs}
  \cup {C("RequestRemove", "-", "-", 0, "-"), C("ReadKeyChange", "-", "-", 0, "-"), C("Options", "-", "-", 0, "-")}
  \cup {C("AccountRemove", x, "-", 0, "-") : x \in All}
  \cup {C(k, x, p, 0, "-") : k \in {"PermChange", "AccountsAdd", "Ownership"}, x \in All, p \in GrantPerms}

\* what the client builder can put into one multi-content record
BatchOk(c1, c2) ==
    /\ Rank(c1) > 0 /\ Rank(c2) > 0 /\ Rank(c1) <= Rank(c2)
    /\ ~(c1.k = "AccountRemove" /\ c2.k = "AccountRemove")
    /\ ~(c1.k = "Invite" /\ c2.k = "Invite")          \* both would be filed under the record id
    /\ c1.k # "AccountsAdd"                            \* BuildBatchRequest wraps additions with the key of the
    /\ c2.k = "AccountsAdd" => (c1.k = "AccountRemove" /\ c1.acc # c2.acc)   \* removal in the same record (and needs
                                                         \* one); it checks the added account against the state before the record
    /\ ~(c1.k = "AccountRemove" /\ c2.k = "Invite" /\ c2.t = "any")   \* the builder would hand the new invite the key
                                                         \* the removal retires; nobody can join through it until the next rotation
    /\ c2.k = "ReadKeyChange" => c1.k \in {"RequestDecline", "InviteRevoke"}
    /\ c1.k # "ReadKeyChange"

Singles(s, a) == {<<c>> : c \in {c \in Cands(s) : Guard(s, a, c)}}
Seconds(s1, a, c1) == {c \in Cands(s1) : BatchOk(c1, c) /\ Guard(s1, a, c)}
Doubles(s, a, n) ==
    IF MaxContents < 2 THEN {}
    ELSE UNION {{<<c1, c2>> : c2 \in Seconds(Eff(s, a, c1, n), a, c1)}
                : c1 \in {c \in Cands(s) : Rank(c) > 0 /\ Guard(s, a, c)}}
ValidCs(s, a, n) == Singles(s, a) \cup Doubles(s, a, n)

\* records the acceptor refuses: a valid first content followed by one that names nothing
\* (multi-content record that fails half-way), and a content whose author may not issue it
BadSecond == {C("InviteRevoke", "-", "-", 0, "-"), C("RequestDecline", "-", "-", 0, "-")}
BadCs(s, a) ==
       {<<c1, c2>> : c1 \in {c \in Cands(s) : Rank(c) \in 1..6 /\ c.k # "AccountsAdd" /\ Guard(s, a, c)}, c2 \in BadSecond}
  \cup (IF CanManage(s.perm[a]) THEN {} ELSE {<<C("Invite", "-", "none", 0, "req")>>})

Rec(id, prev, a, cs) == [id |-> id, prev |-> prev, author |-> a, cs |-> cs,
                         cidOk |-> TRUE, sigOk |-> TRUE, accOk |-> TRUE]
RootRec == Rec(1, 0, Owner, <<>>)

(* ------------------------------ storage ------------------------------ *)
SRec(rec, ord) == [id |-> rec.id, prev |-> rec.prev, ord |-> ord]
RecOf(id) == log[id]          \* raw bytes of an accepted record (ids are positions in the log)

RECURSIVE SortByOrd(_)
SortByOrd(S) == IF S = {} THEN <<>>
                ELSE LET m == CHOOSE x \in S : \A y \in S : x.ord <= y.ord
                     IN <<m>> \o SortByOrd(S \ {m})
Range(sq) == {sq[i] : i \in 1..Len(sq)}

\* AclList.RecordsAfter(id) serves raw records from storage (Storage.GetAfterOrder). What the
\* requester needs, and all this specification fixes, is the contract: a run of the server's
\* records in chain order that starts at or before the named record and ends at the server's
\* head (records the requester already has are skipped by AddRawRecords). Both storages stay
\* inside it: they serve from the named record; before the query of the any-store storage was
\* repaired (it dropped its order bound) that storage served the whole log - also inside.
\* Pre-repair (ServeFromIndexNotOrder): the 0-based list index of the record is passed as the
\* 1-based storage order; inMemoryStorage answers an order below 1 with nothing.
ServeStarts(p, after) ==
    IF ~ServeFromIndexNotOrder THEN 1..after
    ELSE IF cfg[p].storage = "anystore" THEN {1}
    ELSE IF after - 1 < 1 THEN {0}            \* 0: nothing is served
    ELSE {after - 1}
Served(p, start) == IF start = 0 THEN <<>> ELSE SubSeq(log, start, applied[p])

\* loadRecords: order scan, trusted only if it is the PrevId chain root..head; else head->root walk
Contiguous(sq, head) ==
    /\ Len(sq) > 0 /\ sq[1].id = 1 /\ sq[Len(sq)].id = head
    /\ \A i \in 2..Len(sq) : sq[i].prev = sq[i-1].id
RECURSIVE WalkBack(_, _)
WalkBack(S, id) == IF id = 0 THEN <<>>
                   ELSE LET x == CHOOSE y \in S : y.id = id IN WalkBack(S, x.prev) \o <<x>>
LoadRecords(sto) ==
    LET scan == SortByOrd(Range(sto.recs))
    IN IF TrustScanOrder \/ Contiguous(scan, sto.head) THEN scan ELSE WalkBack(Range(sto.recs), sto.head)
\* aclStateBuilder.Build on the loaded records (every record is re-verified and applied in that order)
RECURSIVE BuildFrom(_, _, _)
BuildFrom(s, ids, k) ==
    IF k > Len(ids) THEN [ok |-> TRUE, s |-> s]
    ELSE IF RecOf(ids[k]).prev # s.head THEN [ok |-> FALSE, s |-> s]
    ELSE BuildFrom(ApplyRec(s, RecOf(ids[k])).s, ids, k + 1)
Ids(sq) == [i \in 1..Len(sq) |-> sq[i].id]

(* ------------------------------ AddRawRecord ------------------------------ *)
NeedsAcceptor(r) == cfg[r].mode = "partial"
Validates(r)     == cfg[r].mode = "validating"

\* one replica as a record, so that AddRawRecords can be folded
Rep(r) == [st |-> st[r], mem |-> mem[r], stor |-> stor[r]]

\* result of AclList.AddRawRecord(rec) on replica image x (of replica r); leak: the contents are
\* applied to a state that is kept even when the record is refused (deviations only)
TryAddL(r, x, rec, leak) ==
    IF \E i \in 1..Len(x.mem) : x.mem[i] = rec.id THEN [res |-> "exists", x |-> x]
    ELSE IF NeedsAcceptor(r) /\ ~rec.accOk THEN [res |-> "acceptor", x |-> x]
    ELSE IF ~rec.sigOk THEN [res |-> "signature", x |-> x]
    ELSE IF ~rec.cidOk THEN [res |-> "cid", x |-> x]
    ELSE IF rec.prev # x.st.head THEN [res |-> "sequence", x |-> x]
    ELSE LET ap == ApplyRec(x.st, rec)   \* partial mode skips the guards; they are vacuous there because the
                                         \* acceptor signs valid records only (AcceptedWasValid) and unsigned ones stop above
         IN IF ~ap.ok
              THEN [res |-> "content", x |-> IF leak THEN [x EXCEPT !.st = ap.s] ELSE x]
              ELSE [res |-> "ok",
                    x |-> [st   |-> ap.s,
                           mem  |-> Append(x.mem, rec.id),
                           stor |-> [recs |-> Append(x.stor.recs, SRec(rec, Len(x.mem) + 1)), head |-> rec.id]]]
TryAdd(r, x, rec) == TryAddL(r, x, rec, SwapBeforeApply)

\* AclList.AddRawRecords: one AddRawRecord per record; known records are skipped, the first other
\* error stops the loop and the records added before it stay (res: "ok" or the class of that error).
\* added: some record of this call has been added (only the BatchOnSharedCopy deviation cares).
RECURSIVE AddManyResA(_, _, _, _, _)
AddManyResA(r, x, recs, k, added) ==
    IF k > Len(recs) THEN [x |-> x, res |-> "ok"]
    ELSE LET t == TryAddL(r, x, recs[k], SwapBeforeApply \/ (BatchOnSharedCopy /\ added))
         IN IF t.res \in {"ok", "exists"} THEN AddManyResA(r, t.x, recs, k + 1, added \/ t.res = "ok")
            ELSE [x |-> t.x, res |-> t.res]
AddManyRes(r, x, recs, k) == AddManyResA(r, x, recs, k, FALSE)
AddMany(r, x, recs, k) == AddManyRes(r, x, recs, k).x

Install(r, x) ==
    /\ st' = [st EXCEPT ![r] = x.st]
    /\ mem' = [mem EXCEPT ![r] = x.mem]
    /\ stor' = [stor EXCEPT ![r] = x.stor]
    /\ applied' = [applied EXCEPT ![r] = Len(x.mem)]

(* ------------------------------ actions ------------------------------ *)
Init ==
    /\ log = <<RootRec>> /\ lst = RootState
    /\ cfg \in Cfgs
    /\ applied = [r \in Replicas |-> 1]
    /\ st = [r \in Replicas |-> RootState]
    /\ mem = [r \in Replicas |-> <<1>>]
    /\ stor = [r \in Replicas |-> [recs |-> <<SRec(RootRec, 1)>>, head |-> 1]]
    /\ okCatch = TRUE /\ okMig = TRUE /\ okRej = TRUE

\* the acceptor validates against the whole log and signs. (How the identities inside the record
\* are encoded - canonically or in a byte-different, semantically equal way - is no part of the
\* abstract record; the behaviour generator and the recorder vary it.)
Accept(a, cs) ==
    /\ Len(log) < MaxLog             \* cs \in ValidCs(lst, a, Len(log) + 1): supplied by Next
    /\ LET rec == Rec(Len(log) + 1, Len(log), a, cs)
       IN /\ log' = Append(log, rec)
          /\ lst' = ApplyRec(lst, rec).s
    /\ UNCHANGED <<cfg, applied, st, mem, stor, okCatch, okMig, okRej>>

AddOne(r) ==
    /\ applied[r] < Len(log)
    /\ LET t == TryAdd(r, Rep(r), log[applied[r] + 1]) IN t.res = "ok" /\ Install(r, t.x)
    /\ UNCHANGED <<log, lst, cfg, okCatch, okMig, okRej>>

AddBatch(r, i, j) ==
    /\ i \in 1..(applied[r] + 1) /\ j \in (applied[r] + 1)..Len(log) /\ j > i
    /\ Install(r, AddMany(r, Rep(r), SubSeq(log, i, j), 1))
    /\ UNCHANGED <<log, lst, cfg, okCatch, okMig, okRej>>

Restart(r) ==
    /\ LET ids == Ids(LoadRecords(stor[r])) b == BuildFrom(RootState, ids, 2)
       IN /\ b.ok
          /\ st' = [st EXCEPT ![r] = b.s] /\ mem' = [mem EXCEPT ![r] = ids]
          /\ applied' = [applied EXCEPT ![r] = Len(ids)]
    /\ UNCHANGED <<log, lst, cfg, stor, okCatch, okMig, okRej>>

\* a database whose order index does not follow the PrevId chain (e.g. after a migration):
\* orders i and j of a copy of r's storage are exchanged, then the list is built from the copy
MigratedRestart(r, i, j) ==
    /\ cfg[r].storage = "anystore"
    /\ i \in 2..Len(stor[r].recs) /\ j \in 2..Len(stor[r].recs) /\ i < j    \* the root keeps order 1
    /\ LET sw == [k \in 1..Len(stor[r].recs) |->
                    [stor[r].recs[k] EXCEPT !.ord = IF k = i THEN j ELSE IF k = j THEN i ELSE k]]
           ids == Ids(LoadRecords([recs |-> sw, head |-> stor[r].head]))
           b == BuildFrom(RootState, ids, 2)
       IN okMig' = (b.ok /\ b.s = st[r] /\ ids = mem[r])
    /\ UNCHANGED <<log, lst, cfg, applied, st, mem, stor, okCatch, okRej>>

\* joining client / acl waiter / node-side acl object: in-memory storage from a peer's whole log
Bootstrap(r, p) ==
    /\ r # p /\ cfg[r].storage = "inmemory"
    /\ LET recs == Served(p, 1)             \* RecordsAfter(""): the whole log
           sto == [recs |-> [k \in 1..Len(recs) |-> SRec(recs[k], k)], head |-> recs[Len(recs)].id]
           ids == Ids(LoadRecords(sto)) b == BuildFrom(RootState, ids, 2)
       IN /\ Len(recs) > 0 /\ b.ok
          /\ Install(r, [st |-> b.s, mem |-> ids, stor |-> sto])
    /\ UNCHANGED <<log, lst, cfg, okCatch, okMig, okRej>>

\* full-sync response: p serves RecordsAfter(after) - the run log[start..head of p] -, r adds it
CatchUp(r, p, after, start) ==
    /\ r # p /\ after \in 1..applied[r] /\ after <= applied[p]
    /\ start \in ServeStarts(p, after)
    /\ LET x == AddMany(r, Rep(r), Served(p, start), 1)
       IN /\ Install(r, x)
          /\ okCatch' = (Len(x.mem) >= applied[p])
    /\ UNCHANGED <<log, lst, cfg, okMig, okRej>>

\* syncAclHandler: p announces its head together with the records log[i..head of p] (i = head + 1:
\* a bare head announcement). HandleHeadUpdate on r adds them; when they do not connect to r's head
\* (ErrIncorrectRecordSequence), or a bare announcement names a head r does not have, r sends a
\* full-sync request with its own head, p answers RecordsAfter(that head) (HandleStreamRequest)
\* and r adds the answer (HandleResponse).
Announce(p, r, i, start) ==
    /\ r # p /\ i \in 1..(applied[p] + 1)
    /\ LET recs == SubSeq(log, i, applied[p])
           t == AddManyRes(r, Rep(r), recs, 1)
           needSync == IF recs = <<>> THEN applied[p] > applied[r] ELSE t.res = "sequence"
       IN IF needSync
            THEN /\ start \in ServeStarts(p, applied[r])
                 /\ LET x == AddMany(r, t.x, Served(p, start), 1)
                    IN Install(r, x) /\ okCatch' = (Len(x.mem) >= applied[p])
            ELSE /\ start = 0
                 /\ Install(r, t.x) /\ okCatch' = (Len(t.x.mem) >= applied[p])
    /\ UNCHANGED <<log, lst, cfg, okMig, okRej>>

\* ---- records that must be refused; every one of these steps leaves the replica unchanged ----
TamperKinds == {"byte", "id", "prevId", "authorSig", "acceptorSig", "nonHeadPrev", "gap", "dup", "unaccepted"}

\* the refusable record for a list that holds log[1..at] and is in state s
TamperedAt(at, s, kind, other, a, cs) ==
    LET nxt == IF at < Len(log) THEN log[at + 1] ELSE RootRec
    IN CASE kind = "byte"        -> [nxt EXCEPT !.cidOk = FALSE]            \* payload byte changed, id kept
         [] kind = "id"          -> [nxt EXCEPT !.id = 0, !.cidOk = FALSE]  \* another id on the same bytes (another digest, or
                                                                            \* another spelling of the same digest: the id is a string)
         [] kind = "prevId"      -> [nxt EXCEPT !.id = 0, !.prev = other, !.sigOk = FALSE, !.accOk = FALSE] \* PrevId rewritten, both signatures stale, id recomputed
         [] kind = "authorSig"   -> [nxt EXCEPT !.id = 0, !.sigOk = FALSE]
         [] kind = "acceptorSig" -> [nxt EXCEPT !.id = 0, !.accOk = FALSE]
         [] kind = "nonHeadPrev" -> [nxt EXCEPT !.id = 0, !.prev = other]   \* re-signed by author and acceptor on an older record
         [] kind = "gap"         -> log[other]                               \* an accepted record that is not the next one
         [] kind = "dup"         -> log[other]                               \* an accepted record the replica already has
         [] kind = "unaccepted"  -> [Rec(0, s.head, a, cs) EXCEPT !.accOk = FALSE]
Tampered(r, kind, other, a, cs) == TamperedAt(applied[r], st[r], kind, other, a, cs)

TamperEnabledAt(r, at, kind, other, a, cs) ==
    CASE kind \in {"byte", "id", "authorSig"} -> at < Len(log) /\ other = 0 /\ a = Owner /\ cs = <<>>
      [] kind = "acceptorSig" -> at < Len(log) /\ NeedsAcceptor(r) /\ other = 0 /\ a = Owner /\ cs = <<>>
      [] kind \in {"prevId", "nonHeadPrev"} -> at < Len(log) /\ other \in 0..(at - 1) /\ a = Owner /\ cs = <<>>
      [] kind = "gap" -> other \in (at + 2)..Len(log) /\ a = Owner /\ cs = <<>>
      [] kind = "dup" -> other \in 1..at /\ a = Owner /\ cs = <<>>
      [] kind = "unaccepted" -> other = 0      \* cs \in BadCs(state at the prefix, a): supplied by Next
TamperEnabled(r, kind, other, a, cs) == TamperEnabledAt(r, applied[r], kind, other, a, cs)

Tamper(r, kind, other, a, cs) ==
    /\ TamperEnabled(r, kind, other, a, cs)
    /\ LET t == TryAdd(r, Rep(r), Tampered(r, kind, other, a, cs))
       IN /\ Install(r, t.x)            \* whatever AddRawRecord left behind
          /\ okRej' = (t.res # "ok" /\ t.x = Rep(r))
    /\ UNCHANGED <<log, lst, cfg, okCatch, okMig>>

\* AddRawRecords (called directly, by HandleHeadUpdate for an announced batch, by HandleResponse
\* for a full-sync answer) with accepted records log[i..j], at least one of them new, FOLLOWED by a
\* refusable record made for the state after record j - in particular a correctly signed record on
\* the right head whose first content applies and whose second does not. The accepted records
\* stay, the refused tail must leave nothing behind.
TailKinds == TamperKinds \ {"dup"}      \* a known record inside a batch is skipped, not refused
AddBatchTail(r, i, j, kind, other, a, cs) ==
    /\ i \in 1..(applied[r] + 1) /\ j \in (applied[r] + 1)..Len(log) /\ kind \in TailKinds
    /\ TamperEnabledAt(r, j, kind, other, a, cs)
    /\ LET good == SubSeq(log, i, j)
           tail == TamperedAt(j, F(SubSeq(log, 1, j)), kind, other, a, cs)
           t == AddManyRes(r, Rep(r), Append(good, tail), 1)
       IN /\ Install(r, t.x)
          /\ okRej' = (t.res # "ok" /\ t.x = AddMany(r, Rep(r), good, 1))
    /\ UNCHANGED <<log, lst, cfg, okCatch, okMig>>

\* Building a list is the other way records enter it: BuildAclListWithIdentity over a storage that
\* holds records received from the network (NewInMemoryStorage(served records): joining client, acl
\* waiter, node-side acl object) or over a database whose rows may have been altered. Every record is
\* verified again while it is loaded, so a log log[1..k-1] ++ <<refusable record in place k>> ++
\* log[k+1..m] must not yield a list that contains the refusable record: the build fails.
RECURSIVE BuildGo(_, _, _, _)
BuildGo(r, recs, s, n) ==
    IF n > Len(recs) THEN TRUE
    ELSE LET rec == recs[n]
         IN IF ~BuildTrustsStorage /\ ((NeedsAcceptor(r) /\ ~rec.accOk) \/ ~rec.sigOk \/ ~rec.cidOk) THEN FALSE
            ELSE IF rec.prev # s.head THEN FALSE
            ELSE IF Validates(r) /\ ~ApplyRec(s, rec).ok THEN FALSE
            ELSE BuildGo(r, recs, [ApplyRec(s, rec).s EXCEPT !.head = rec.id], n + 1)
BuildChecked(r, recs) ==
    IF recs[1].cidOk \/ BuildTrustsStorage THEN BuildGo(r, recs, RootState, 2) ELSE FALSE    \* the root is verified as well

ChainKinds == {"byte", "id", "prevId", "authorSig", "acceptorSig", "nonHeadPrev"}   \* made from the record in place k
BuildTampered(r, k, m, kind, other, a, cs) ==
    /\ k \in 1..(Len(log) + 1) /\ kind \in TailKinds
    /\ k = 1 => kind = "byte"
    /\ TamperEnabledAt(r, k - 1, kind, other, a, cs)
    /\ IF kind \in ChainKinds THEN m \in k..Len(log) ELSE m = k
    /\ LET tampered == TamperedAt(k - 1, F(SubSeq(log, 1, k - 1)), kind, other, a, cs)
           recs == SubSeq(log, 1, k - 1) \o <<tampered>> \o (IF kind \in ChainKinds THEN SubSeq(log, k + 1, m) ELSE <<>>)
       IN okRej' = ~BuildChecked(r, recs)
    /\ UNCHANGED <<log, lst, cfg, applied, st, mem, stor, okCatch, okMig>>

Next ==
    \/ \E a \in All : \E cs \in ValidCs(lst, a, Len(log) + 1) : Accept(a, cs)
    \/ \E r \in Replicas : AddOne(r)
    \/ \E r \in Replicas : \E i \in 1..MaxLog, j \in 1..MaxLog : AddBatch(r, i, j)
    \/ \E r \in Replicas : Restart(r)
    \/ \E r \in Replicas : \E i \in 1..MaxLog, j \in 1..MaxLog : MigratedRestart(r, i, j)
    \/ \E r \in Replicas, p \in Replicas : Bootstrap(r, p)
    \/ \E r \in Replicas, p \in Replicas : \E after \in 1..MaxLog, start \in 0..MaxLog : CatchUp(r, p, after, start)
    \/ \E r \in Replicas, p \in Replicas : \E i \in 1..MaxLog, start \in 0..MaxLog : Announce(p, r, i, start)
    \/ \E r \in Replicas, kind \in TamperKinds \ {"unaccepted"} : \E other \in 0..MaxLog : Tamper(r, kind, other, Owner, <<>>)
    \/ \E r \in Replicas, a \in All : \E cs \in BadCs(st[r], a) : Tamper(r, "unaccepted", 0, a, cs)
    \/ \E r \in Replicas, kind \in TailKinds \ {"unaccepted"} : \E i \in 1..MaxLog, j \in 1..MaxLog, other \in 0..MaxLog :
          AddBatchTail(r, i, j, kind, other, Owner, <<>>)
    \/ \E r \in Replicas, a \in All : \E i \in 1..MaxLog, j \in 2..MaxLog :
          /\ j \in (applied[r] + 1)..Len(log)
          /\ \E cs \in BadCs(F(SubSeq(log, 1, j)), a) : AddBatchTail(r, i, j, "unaccepted", 0, a, cs)

    \/ \E r \in Replicas, kind \in TailKinds \ {"unaccepted"} : \E k \in 1..MaxLog, m \in 1..MaxLog, other \in 0..MaxLog :
          BuildTampered(r, k, m, kind, other, Owner, <<>>)
    \/ \E r \in Replicas, a \in All : \E k \in 2..MaxLog :
          /\ k <= Len(log) + 1
          /\ \E cs \in BadCs(F(SubSeq(log, 1, k - 1)), a) : BuildTampered(r, k, k, "unaccepted", 0, a, cs)

Spec == Init /\ [][Next]_vars

Idents == All \cup {"n"}      \* whose keys a replica holds: the owner, an account, or a node that is never in the ACL
AllCfgs == [Replicas -> [mode : Modes, storage : Stores, ident : Idents]]
\* the model's transitions do not depend on the identity, so the exhaustive runs fix it; the two
\* replicas r1, r2 of those runs cover both modes and both storages in both pairings
RC(m, sto) == [mode |-> m, storage |-> sto, ident |-> Owner]
McCfgsA == {[r \in Replicas |-> IF r = "r1" THEN RC("validating", "anystore") ELSE RC("partial", "inmemory")]}
McCfgsB == {[r \in Replicas |-> IF r = "r1" THEN RC("partial", "anystore") ELSE RC("validating", "inmemory")]}
McCfgs == McCfgsA \cup McCfgsB

(* ------------------------------ properties ------------------------------ *)
Prefix(r) == SubSeq(log, 1, applied[r])

\* the derived state of every replica is the function F of the record sequence it holds
StateIsFunctionOfLog ==
    /\ lst = F(log)
    /\ \A r \in Replicas : st[r] = F(Prefix(r)) /\ mem[r] = [i \in 1..applied[r] |-> i]

\* replicas that hold the same records have the same head and state, whatever their mode,
\* storage, identity and the way they got there
ReplicasAgree == \A r, p \in Replicas : applied[r] = applied[p] => st[r] = st[p] /\ mem[r] = mem[p]

\* the log (and every replica's storage) is one chain: each record extends the previous head
OnlyHeadExtends ==
    /\ \A i \in 1..Len(log) : log[i].id = i /\ log[i].prev = i - 1
    /\ \A r \in Replicas :
         /\ stor[r].head = st[r].head /\ Len(stor[r].recs) = applied[r]
         /\ \A i \in 1..applied[r] : stor[r].recs[i] = [id |-> i, prev |-> i - 1, ord |-> i]

\* storage is what a rebuild would reproduce the live state from
StorageMatchesState ==
    \A r \in Replicas : LET ids == Ids(LoadRecords(stor[r])) IN ids = mem[r] /\ BuildFrom(RootState, ids, 2).s = st[r]

\* every accepted record was valid where it was accepted
AcceptedWasValid == \A i \in 2..Len(log) : ApplyRec(F(SubSeq(log, 1, i - 1)), log[i]).ok

CatchUpReachesHead == okCatch
MigratedRebuildAgrees == okMig

\* a refused record changes neither the state nor the list nor the storage
RejectedIsNoOp == okRej

TypeOK ==
    /\ Len(log) \in 1..MaxLog
    /\ \A r \in Replicas : applied[r] \in 1..Len(log)

Inv == TypeOK /\ StateIsFunctionOfLog /\ ReplicasAgree /\ OnlyHeadExtends /\ StorageMatchesState
       /\ AcceptedWasValid /\ CatchUpReachesHead /\ MigratedRebuildAgrees /\ RejectedIsNoOp
=============================================================================
