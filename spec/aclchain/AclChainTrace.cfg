SPECIFICATION TraceSpec
CONSTANTS
  Accounts = {"a", "b", "c"}
  Replicas = {"r1", "r2", "r3"}
  MaxLog = 200
  GrantPerms = {"reader", "writer", "admin"}
  MaxContents = 2
  Cfgs <- McCfgs
  ServeFromIndexNotOrder = FALSE
  TrustScanOrder = FALSE
  SwapBeforeApply = FALSE
  BatchOnSharedCopy = FALSE
  BuildTrustsStorage = FALSE
INVARIANT TraceInv
INVARIANT ObservedLogState
INVARIANT ObservedReplicaStates
INVARIANT ObservedStateIsFunctionOfLog
INVARIANT ObservedReplicasAgree
CONSTRAINT Mark
POSTCONDITION TraceAccepted
CHECK_DEADLOCK FALSE
