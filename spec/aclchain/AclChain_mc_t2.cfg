SPECIFICATION Spec
CONSTANTS
  Accounts = {"a", "b"}
  Replicas = {"r1", "r2"}
  MaxLog = 4
  GrantPerms = {"writer", "admin"}
  MaxContents = 1
  Cfgs <- McCfgsA
  ServeFromIndexNotOrder = FALSE
  TrustScanOrder = FALSE
  SwapBeforeApply = FALSE
  BatchOnSharedCopy = FALSE
  BuildTrustsStorage = FALSE
INVARIANT Inv
CHECK_DEADLOCK FALSE
