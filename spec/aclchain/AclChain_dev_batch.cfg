SPECIFICATION Spec
CONSTANTS
  Accounts = {"a", "b"}
  Replicas = {"r1", "r2"}
  MaxLog = 3
  GrantPerms = {"writer", "admin"}
  MaxContents = 2
  Cfgs <- McCfgs
  ServeFromIndexNotOrder = FALSE
  TrustScanOrder = FALSE
  SwapBeforeApply = FALSE
  BatchOnSharedCopy = TRUE
  BuildTrustsStorage = FALSE
INVARIANT RejectedIsNoOp
CHECK_DEADLOCK FALSE
