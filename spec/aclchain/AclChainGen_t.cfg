INIT GenInit
NEXT GenNext
CONSTANTS
  Accounts = {"a", "b", "c"}
  Replicas = {"r1", "r2", "r3"}
  MaxLog = 12
  GrantPerms = {"reader", "writer", "admin"}
  MaxContents = 2
  Cfgs <- GenCfgs
  ServeFromIndexNotOrder = FALSE
  TrustScanOrder = FALSE
  SwapBeforeApply = FALSE
  BatchOnSharedCopy = FALSE
  BuildTrustsStorage = FALSE
  MaxSteps = 36
INVARIANT Emit
CHECK_DEADLOCK FALSE
