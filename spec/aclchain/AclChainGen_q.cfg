INIT GenInit
NEXT GenNext
CONSTANTS
  Accounts = {"a", "b"}
  Replicas = {"r1", "r2", "r3"}
  MaxLog = 8
  GrantPerms = {"reader", "writer", "admin"}
  MaxContents = 2
  Cfgs <- GenCfgs
  ServeFromIndexNotOrder = FALSE
  TrustScanOrder = FALSE
  SwapBeforeApply = FALSE
  BatchOnSharedCopy = FALSE
  BuildTrustsStorage = FALSE
  MaxSteps = 24
INVARIANT Emit
CHECK_DEADLOCK FALSE
