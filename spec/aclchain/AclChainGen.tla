----------------------------- MODULE AclChainGen -----------------------------
(* Behaviour generation for the replay on real AclLists: AclChain with a history variable  *)
(* that records every step with its parameters and what the specification predicts.        *)
(* Run with -simulate -workers 1: every simulated behaviour ends in one Finish step and is  *)
(* written as one JSON file. The parameters of a step are drawn with RandomElement, so a    *)
(* state has about a dozen successors (one or two per kind of action) instead of hundreds.  *)
EXTENDS AclChain, VerifEmit

CONSTANT MaxSteps
VARIABLES hist, done
gvars == <<vars, hist, done>>

ASSUME EmitReset

Step(x) == hist' = Append(hist, x) /\ done' = FALSE
One(S) == IF S = {} THEN {} ELSE {RandomElement(S)}

\* the identity (whose keys a replica holds) does not influence the model; the harness assigns it
GenCfgs == [Replicas -> [mode : Modes, storage : Stores, ident : {"-"}]]

GenInit == Init /\ hist = <<>> /\ done = FALSE

\* one random valid record: a random kind among those some account can issue now, a random
\* (author, content) of that kind, and (one time in three) a random second content the client
\* builder can batch with it
ValidFirsts == UNION {{<<a, c>> : c \in {c \in Cands(lst) : Guard(lst, a, c)}} : a \in All}
\* enc: how the identities inside the record are encoded - canonically, or in one of two byte-different
\* but semantically equal ways another client implementation may emit. It is no part of the abstract
\* record (every consumer parses identities before comparing them); it is drawn here so that the
\* replay covers it.
Encs == <<"canonical", "canonical", "typeSpelled", "unknownField">>
GAcceptPick(a, c1, coin) ==
    LET n == Len(log) + 1
        s1 == Eff(lst, a, c1, n)
        snd == IF MaxContents < 2 \/ coin # 1 \/ Rank(c1) = 0 THEN {} ELSE Seconds(s1, a, c1)
    IN \E cs \in (IF snd = {} THEN {<<c1>>} ELSE {<<c1, RandomElement(snd)>>}) : \E e \in One(1..4) :
          Accept(a, cs) /\ Step([act |-> "Accept", a |-> a, cs |-> cs, id |-> n, enc |-> Encs[e], exp |-> lst'])
GAccept == /\ Len(log) < MaxLog
           /\ LET vf == ValidFirsts
              IN \E draw \in 1..3 : \E k \in One({x[2].k : x \in vf}) :
                   \E x \in One({y \in vf : y[2].k = k}) : \E coin \in One(1..3) : GAcceptPick(x[1], x[2], coin)
GAddOne == \E r \in One({r \in Replicas : applied[r] < Len(log)}) :
              AddOne(r) /\ Step([act |-> "AddOne", r |-> r, applied |-> applied'[r]])
GAddBatch == \E x \in One({<<r, i, j>> \in Replicas \X (1..MaxLog) \X (1..MaxLog) :
                              i <= applied[r] + 1 /\ applied[r] + 1 <= j /\ j <= Len(log) /\ j > i}) :
              AddBatch(x[1], x[2], x[3])
              /\ Step([act |-> "AddBatch", r |-> x[1], i |-> x[2], j |-> x[3], applied |-> applied'[x[1]]])
GRestart == \E r \in One(Replicas) : Restart(r) /\ Step([act |-> "Restart", r |-> r, applied |-> applied'[r]])
GMigrated == \E x \in One({<<r, i, j>> \in Replicas \X (2..MaxLog) \X (2..MaxLog) :
                              cfg[r].storage = "anystore" /\ i < j /\ j <= applied[r]}) :
              MigratedRestart(x[1], x[2], x[3])
              /\ Step([act |-> "MigratedRestart", r |-> x[1], i |-> x[2], j |-> x[3], applied |-> applied[x[1]]])
GBootstrap == \E x \in One({<<r, p>> \in Replicas \X Replicas : r # p /\ cfg[r].storage = "inmemory"}) :
              Bootstrap(x[1], x[2]) /\ Step([act |-> "Bootstrap", r |-> x[1], p |-> x[2], applied |-> applied'[x[1]]])
GCatchUp == \E x \in One({<<r, p, after>> \in Replicas \X Replicas \X (1..MaxLog) :
                              r # p /\ after <= applied[r] /\ after <= applied[p]}) :
            \E start \in One(ServeStarts(x[2], x[3])) :
              CatchUp(x[1], x[2], x[3], start)
              /\ Step([act |-> "CatchUp", r |-> x[1], p |-> x[2], after |-> x[3], start |-> start, applied |-> applied'[x[1]]])
\* the common case of anti-entropy: the requester names its own head
GCatchUpHead == \E x \in One({<<r, p>> \in Replicas \X Replicas : r # p /\ applied[r] <= applied[p]}) :
            \E start \in One(ServeStarts(x[2], applied[x[1]])) :
              CatchUp(x[1], x[2], applied[x[1]], start)
              /\ Step([act |-> "CatchUp", r |-> x[1], p |-> x[2], after |-> applied[x[1]], start |-> start,
                       applied |-> applied'[x[1]]])
GAnnounce == \E x \in One({<<p, r, i>> \in Replicas \X Replicas \X (1..MaxLog) : r # p /\ i <= applied[p] + 1}) :
             \E start \in One(ServeStarts(x[1], applied[x[2]]) \cup {0}) :
              Announce(x[1], x[2], x[3], start)
              /\ Step([act |-> "Announce", p |-> x[1], r |-> x[2], i |-> x[3], start |-> start, applied |-> applied'[x[2]]])
GTamper == \E kind \in One({k \in TamperKinds \ {"unaccepted"} :
                              \E r \in Replicas, other \in 0..MaxLog : TamperEnabled(r, k, other, Owner, <<>>)}) :
           \E x \in One({<<r, other>> \in Replicas \X (0..MaxLog) : TamperEnabled(r, kind, other, Owner, <<>>)}) :
              Tamper(x[1], kind, x[2], Owner, <<>>)
              /\ Step([act |-> "Tamper", r |-> x[1], kind |-> kind, other |-> x[2], a |-> Owner, cs |-> <<>>,
                       res |-> TryAdd(x[1], Rep(x[1]), Tampered(x[1], kind, x[2], Owner, <<>>)).res,
                       applied |-> applied[x[1]]])
\* refused records for the state s: mostly the two-content ones (first content applies)
BadPicks(s) ==
    LET all == UNION {{<<a, cs>> : cs \in BadCs(s, a)} : a \in All}
        two == {y \in all : Len(y[2]) = 2}
    IN IF two # {} /\ RandomElement(1..4) # 1 THEN two ELSE all
GUnaccepted == \E r \in One(Replicas) : \E y \in One(BadPicks(st[r])) :
              Tamper(r, "unaccepted", 0, y[1], y[2])
              /\ Step([act |-> "Tamper", r |-> r, kind |-> "unaccepted", other |-> 0, a |-> y[1], cs |-> y[2],
                       res |-> TryAdd(r, Rep(r), Tampered(r, "unaccepted", 0, y[1], y[2])).res,
                       applied |-> applied[r]])

\* a batch of accepted records (at least one new) with a refusable tail; half of the time the tail
\* is the unaccepted multi-content record whose first content applies (when one exists), and the
\* batch travels through one of the three callers of AddRawRecords
Vias == {"direct", "headUpdate", "response"}
BatchSlots == {<<r, i, j>> \in Replicas \X (1..MaxLog) \X (1..MaxLog) :
                  i <= applied[r] + 1 /\ applied[r] + 1 <= j /\ j <= Len(log)}
GTailUnaccepted ==
    \E x \in One(BatchSlots) : \E y \in One(BadPicks(F(SubSeq(log, 1, x[3])))) : \E via \in One(Vias) :
        AddBatchTail(x[1], x[2], x[3], "unaccepted", 0, y[1], y[2])
        /\ Step([act |-> "AddBatchTail", r |-> x[1], i |-> x[2], j |-> x[3], kind |-> "unaccepted", other |-> 0,
                 a |-> y[1], cs |-> y[2], via |-> via, applied |-> applied'[x[1]]])
GTailOther ==
    \E x \in One(BatchSlots) :
    \E ko \in One({y \in (TailKinds \ {"unaccepted"}) \X (0..MaxLog) : TamperEnabledAt(x[1], x[3], y[1], y[2], Owner, <<>>)}) :
    \E via \in One(Vias) :
        AddBatchTail(x[1], x[2], x[3], ko[1], ko[2], Owner, <<>>)
        /\ Step([act |-> "AddBatchTail", r |-> x[1], i |-> x[2], j |-> x[3], kind |-> ko[1], other |-> ko[2],
                 a |-> Owner, cs |-> <<>>, via |-> via, applied |-> applied'[x[1]]])

\* a list built from a log with a refusable record in place k (and the genuine continuation up to m)
GBuildTampered ==
    \E r \in One(Replicas) : \E k \in One(1..(Len(log) + 1)) :
    \E ko \in One({y \in (TailKinds \ {"unaccepted"}) \X (0..MaxLog) :
                      TamperEnabledAt(r, k - 1, y[1], y[2], Owner, <<>>) /\ (k = 1 => y[1] = "byte")}) :
    \E m \in One(IF ko[1] \in ChainKinds THEN k..Len(log) ELSE {k}) :
        BuildTampered(r, k, m, ko[1], ko[2], Owner, <<>>)
        /\ Step([act |-> "BuildTampered", r |-> r, k |-> k, m |-> m, kind |-> ko[1], other |-> ko[2],
                 a |-> Owner, cs |-> <<>>, applied |-> applied[r]])
GBuildUnaccepted ==
    \E r \in One(Replicas) : \E k \in One(2..(Len(log) + 1)) : \E y \in One(BadPicks(F(SubSeq(log, 1, k - 1)))) :
        BuildTampered(r, k, k, "unaccepted", 0, y[1], y[2])
        /\ Step([act |-> "BuildTampered", r |-> r, k |-> k, m |-> k, kind |-> "unaccepted", other |-> 0,
                 a |-> y[1], cs |-> y[2], applied |-> applied[r]])

Finish == Len(hist) = MaxSteps /\ ~done /\ done' = TRUE /\ UNCHANGED <<vars, hist>>

\* a disjunct that occurs twice is simply drawn twice as often
GenNext ==
  \/ /\ Len(hist) < MaxSteps
     /\ \/ GAccept
        \/ GAddOne \/ GAddOne \/ GAddBatch
        \/ GRestart \/ GMigrated \/ GBootstrap
        \/ GCatchUp \/ GCatchUpHead \/ GAnnounce \/ GAnnounce
        \/ GTamper \/ GTamper \/ GUnaccepted
        \/ GTailUnaccepted \/ GTailUnaccepted \/ GTailOther
        \/ GBuildTampered \/ GBuildTampered \/ GBuildUnaccepted
  \/ Finish

GenSpec == GenInit /\ [][GenNext]_gvars

Behaviour == [spec |-> "AclChain", accounts |-> Accounts, cfg |-> cfg, steps |-> hist]
Emit == EmitWhen(done, Behaviour)
=============================================================================
