---------------------------- MODULE KeyValueTrace ----------------------------
(* Trace validation: runs of real stores (harness/kv TestRecord: random values, orders,       *)
(* groupings, repetitions, exchanges, local Sets and storage faults on three stores) are       *)
(* checked to be behaviours of KeyValue, and every invariant of KeyValue is evaluated on       *)
(* every recorded state.  One NDJSON line per spec action:                                     *)
(*   {"ev":"PushBatch","s":"s1","batch":[..values..],"fault":{..},"st":{"s1":{"vals":{..},    *)
(*    "index":{..},"entryOk":true,"clock":0},..}}                                              *)
(* A line that no spec step explains is adopted (Resync): the recorded state replaces the      *)
(* predicted one and the drift counter (TLC register 3) is incremented - spec/code drift is    *)
(* reported, the invariants decide about violations.                                           *)
EXTENDS KeyValueMC, VerifEmit

ASSUME HwReset /\ TLCSet(3, 0)
Trace == ndJsonDeserialize(TraceFileName)
VARIABLE l
tvars == <<vars, l>>

Fn(f) == [k \in DOMAIN f |-> f[k]]          \* a JSON object as a function
SameFn(f, g) == DOMAIN f = DOMAIN g /\ \A k \in DOMAIN f : f[k] = g[k]

IsEvent(e) == l <= Len(Trace) /\ Trace[l].ev = e /\ l' = l + 1

\* the recorded projection of every store after the step binds the primed variables
Post(x) == \A s \in Stores : /\ SameFn(vals'[s], x.st[s].vals)
                             /\ SameFn(index'[s], x.st[s].index)
                             /\ (entry'[s] = index'[s]) = x.st[s].entryOk
                             /\ clock'[s] = x.st[s].clock

Adopt(x, delivered) ==
  /\ TLCSet(3, TLCGet(3) + 1)
  /\ PrintT(<<"DRIFT-AT-LINE", l, x.ev>>)
  /\ vals'  = [s \in Stores |-> Fn(x.st[s].vals)]
  /\ index' = [s \in Stores |-> Fn(x.st[s].index)]
  /\ entry' = [s \in Stores |-> IF x.st[s].entryOk THEN Fn(x.st[s].index) ELSE [stale |-> 0]]
  /\ clock' = [s \in Stores |-> x.st[s].clock]
  /\ received' = [s \in Stores |-> received[s]
                     \cup (IF s = x.s /\ x.ok THEN {v \in delivered : Authentic(s, v)} ELSE {})
                     \cup {v \in Range(Fn(x.st[s].vals)) : Authentic(s, v)}]
  /\ exch' = Idle

Step(x, A, delivered) == (A /\ Post(x)) \/ (~ENABLED (A /\ Post(x)) /\ Adopt(x, delivered))

TrReset == /\ IsEvent("Reset")
           /\ vals' = [s \in Stores |-> <<>>] /\ index' = [s \in Stores |-> <<>>] /\ entry' = [s \in Stores |-> <<>>]
           /\ received' = [s \in Stores |-> {}] /\ clock' = [s \in Stores |-> 0] /\ exch' = Idle
TrPush  == IsEvent("PushBatch") /\ LET x == Trace[l] IN Step(x, PushBatch(x.s, x.batch, x.fault), Range(x.batch))
TrLocal == IsEvent("LocalSet") /\ LET x == Trace[l] IN Step(x, LocalSet(x.s, x.key, x.fault), {LocalValue(x.s, x.key)})
TrDenied == IsEvent("LocalSetDenied") /\ LET x == Trace[l] IN Step(x, LocalSetDenied(x.s, x.key), {})
TrStart == IsEvent("ExchStart") /\ LET x == Trace[l] IN Step(x, ExchStart(x.s, x.peer), {})
TrServe == IsEvent("ExchServe") /\ LET x == Trace[l] IN Step(x, ExchServe(x.fault), {})
TrApply == IsEvent("ExchApply") /\ LET x == Trace[l] IN Step(x, ExchApply(x.fault), {})
TrRestart == IsEvent("Restart") /\ LET x == Trace[l] IN Step(x, Restart(x.s), {})
TrFinish == IsEvent("ExchFinish") /\ LET x == Trace[l] IN Step(x, ExchFinish, {})

TraceInit == Init /\ l = 1
TraceNext == TrReset \/ TrPush \/ TrLocal \/ TrDenied \/ TrStart \/ TrServe \/ TrApply \/ TrFinish \/ TrRestart
TraceSpec == TraceInit /\ [][TraceNext]_tvars

\* Monotone of KeyValue, except across the Reset lines that separate recorded runs
MonotoneT == [][(l <= Len(Trace) /\ Trace[l].ev # "Reset") => MonoStep]_tvars

Mark == HwMark(l)
TraceAccepted == PrintT(<<"DRIFT-TOTAL", TLCGet(3)>>) /\ HwAccepted(Len(Trace))
=============================================================================
