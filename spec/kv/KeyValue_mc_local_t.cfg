\* Local Sets against remote values from their past and future: 2 stores, one local Set each on a slot
\* that remote values also target, batches <= 2, exchanges, faults at upsert and commit.
SPECIFICATION Spec
CONSTANTS
  Stores <- S2
  Universe <- U_local
  KnowsUpTo <- KnowsSame
  LocalAcc <- AccW
  LocalDev <- Devs
  LocalKeys = {"k1"}
  MaxLocal = 1
  MaxBatch = 2
  ApplyBatch = 2
  Exchanges = TRUE
  FaultPoints <- LateFaults
  FIX_LABEL = TRUE
  FIX_PERM = TRUE
  FIX_TS = TRUE
  FIX_ROLLBACK = TRUE
  RecOrder <- MCRecOrder
  WriterAt <- MCWriterAt
  LocalBase = 10
  TsLimit = 90
  UBig = 1000
INVARIANT Inv
PROPERTY Monotone
CHECK_DEADLOCK FALSE
