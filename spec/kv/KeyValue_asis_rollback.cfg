\* The unrepaired behaviour (rollback): TLC must find a violation of IndexMatchesStore (checks/C12.py fails as broken otherwise).
SPECIFICATION Spec
CONSTANTS
  Stores <- S2
  Universe <- U_lww
  KnowsUpTo <- KnowsSame
  LocalAcc <- AccW
  LocalDev <- Devs
  LocalKeys = {"k1"}
  MaxLocal = 0
  MaxBatch = 2
  ApplyBatch = 2
  Exchanges = TRUE
  FaultPoints <- LateFaults
  FIX_LABEL = TRUE
  FIX_PERM = TRUE
  FIX_TS = TRUE
  FIX_ROLLBACK = FALSE
  RecOrder <- MCRecOrder
  WriterAt <- MCWriterAt
  LocalBase = 10
  TsLimit = 90
  UBig = 1000
INVARIANT IndexMatchesStore
CHECK_DEADLOCK FALSE
