INIT GenInit
NEXT GenNext
CONSTANTS
  Stores <- S2
  Universe <- U_fault
  RecOrder <- MCRecOrder
  KnowsUpTo <- KnowsSame
  WriterAt <- MCWriterAt
  LocalAcc <- AccW
  LocalDev <- Devs
  LocalKeys = {"k1"}
  LocalBase = 10
  MaxLocal = 3
  MaxBatch = 3
  ApplyBatch = 100
  Exchanges = TRUE
  FaultPoints <- LateFaults2
  TsLimit = 90
  UBig = 1000
  FIX_LABEL = TRUE
  FIX_PERM = TRUE
  FIX_TS = TRUE
  FIX_ROLLBACK = TRUE
  MaxSteps = 12
  FaultPct = 4
INVARIANT Emit
CHECK_DEADLOCK FALSE
