\* Exchanges between stores with different ACL knowledge: a value citing a record only the other store
\* holds, a relabelled value, a reader's value and two valid ones; each store ends with the best of what
\* it may hold.
SPECIFICATION Spec
CONSTANTS
  Stores <- S2
  Universe <- U_xauth
  KnowsUpTo <- KnowsMixed
  LocalAcc <- AccWR
  LocalDev <- Devs
  LocalKeys = {"k1"}
  MaxLocal = 1
  MaxBatch = 1
  ApplyBatch = 1
  Exchanges = TRUE
  FaultPoints <- NoFaults
  FIX_LABEL = TRUE
  FIX_PERM = TRUE
  FIX_TS = TRUE
  FIX_ROLLBACK = TRUE
  RecOrder <- MCRecOrder
  WriterAt <- MCWriterAt
  LocalBase = 10
  TsLimit = 90
  UBig = 1000
INVARIANT Inv
PROPERTY Monotone
CHECK_DEADLOCK FALSE
