SPECIFICATION TraceSpec
CONSTANTS
  Stores <- S3
  Universe = {}
  RecOrder <- MCRecOrder
  KnowsUpTo <- Knows3
  WriterAt <- MCWriterAt
  LocalAcc <- Acc3
  LocalDev <- Devs3
  LocalKeys = {}
  LocalBase = 10
  MaxLocal = 10
  MaxBatch = 1
  ApplyBatch = 100
  Exchanges = TRUE
  FaultPoints <- AllFaults
  TsLimit = 90
  UBig = 1000
  FIX_LABEL = TRUE
  FIX_PERM = TRUE
  FIX_TS = TRUE
  FIX_ROLLBACK = TRUE
INVARIANT LWW
INVARIANT IndexMatchesStore
INVARIANT AuthenticOnly
INVARIANT OneExchangeEqualises
PROPERTY MonotoneT
CONSTRAINT Mark
POSTCONDITION TraceAccepted
CHECK_DEADLOCK FALSE
