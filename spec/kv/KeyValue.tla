------------------------------ MODULE KeyValue ------------------------------
(***************************************************************************)
(* The space key-value store of any-sync (property C12).                   *)
(*                                                                         *)
(* commonspace/object/keyvalue/keyvaluestorage/storage.go        Set, SetRaw *)
(* .../keyvaluestorage/innerstorage/keyvaluestorage.go   Set, updateValues  *)
(* .../keyvaluestorage/innerstorage/element.go           KeyValueFromProto  *)
(* commonspace/object/keyvalue/keyvalue.go   syncWithPeer,                  *)
(*                                           HandleStoreElementsRequest     *)
(*                                                                         *)
(* One action per critical section of the implementation:                  *)
(*   LocalSet      storage.Set under s.mx (permission check, sign, write)  *)
(*   PushBatch     storage.SetRaw under s.mx for a head-update batch       *)
(*   ExchStart     syncWithPeer: compare-diff with the peer's index, read  *)
(*                 the values to push, send them and the ids asked for     *)
(*   ExchServe     HandleStoreElementsRequest: read + stream the asked     *)
(*                 values newest first, then SetRaw the pushed ones        *)
(*   ExchApply     syncWithPeer: SetRaw one batch (<= ApplyBatch) of the   *)
(*                 streamed values                                         *)
(*   Restart       keyvaluestorage.New on an existing collection: the      *)
(*                 index is rebuilt from the rows, the heads entry written *)
(* Every write can be hit by a storage fault (the transaction does not     *)
(* commit).  The as-is gaps of the implementation are switchable           *)
(* deviations: FIX_x = TRUE is the repaired behaviour (registered configs),*)
(* FIX_x = FALSE the behaviour of the unrepaired code ("asis" configs).    *)
(***************************************************************************)
EXTENDS Integers, Sequences, FiniteSets, TLC

CONSTANTS
  Stores,       \* store names
  Universe,     \* values the network may deliver (records, see Value below)
  RecOrder,     \* the ACL record history, oldest first (sequence of record names)
  KnowsUpTo,    \* [Stores -> 1..Len(RecOrder)]  prefix of the history a store holds
  WriterAt,     \* [account -> set of records at which it holds write permission]
  LocalAcc,     \* [Stores -> account]  identity that signs local Sets
  LocalDev,     \* [Stores -> device]
  LocalKeys,    \* keys local Sets may write
  LocalBase,    \* timestamp of the first local Set (later ones count up)
  MaxLocal,     \* local Sets per store
  MaxBatch,     \* values per pushed batch
  ApplyBatch,   \* applyBatchSize of keyvalue.go
  FaultPoints,  \* fault kinds that may hit a write: subset of {"begin","find","upsert","heads","commit"}
  Exchanges,    \* BOOLEAN: stores sync with each other (FALSE: only pushes and local Sets)
  TsLimit,      \* first timestamp the float64 row field cannot hold exactly (2^53 in the code)
  UBig,         \* 2^64 in the code: offset of negative timestamps in the unsigned reading
  FIX_LABEL,    \* KeyValueFromProto rejects a value filed under a slot other than key+device inside the signed bytes
  FIX_PERM,     \* SetRaw requires write permission of the signing account at the cited record
  FIX_TS,       \* KeyValueFromProto rejects timestamps outside 0..TsLimit-1
  FIX_ROLLBACK  \* innerstorage.Set undoes its index update when the transaction fails

VARIABLES
  vals,      \* [Stores -> [label -> value]]   the collection
  index,     \* [Stores -> [label -> ts]]      the in-memory diff advertised to peers
  entry,     \* [Stores -> [label -> ts]]      what the heads entry of the store id was computed from
  received,  \* [Stores -> set of values]      history: authentic values delivered by successful calls
  clock,     \* [Stores -> 0..MaxLocal]        local Sets done
  exch       \* the sync exchange in progress

vars == <<vals, index, entry, received, clock, exch>>

(* ---------------------------------------------------------------- values *)
Slot(v)  == v.key \o "|" \o v.dev
Recs     == {RecOrder[i] : i \in 1..Len(RecOrder)}
Knows(s) == {RecOrder[i] : i \in 1..KnowsUpTo[s]}
HeadRec(s) == RecOrder[KnowsUpTo[s]]

TsOk(t)  == t >= 0 /\ t < TsLimit
\* the row field "t" is a float64: odd timestamps from TsLimit on are rounded (to even)
Rnd(t)   == IF t >= TsLimit /\ t % 2 = 1 THEN t + 1 ELSE t
\* order of the 8-byte big-endian heads of the index
U(t)     == IF t < 0 THEN t + UBig ELSE t

\* the property's notion of a value that may be stored by store s
Authentic(s, v) == /\ v.sigDev /\ v.sigAcc
                   /\ v.label = Slot(v)
                   /\ v.rec \in Knows(s)
                   /\ v.acc \in DOMAIN WriterAt /\ v.rec \in WriterAt[v.acc]
                   /\ TsOk(v.ts)

Range(f) == {f[x] : x \in DOMAIN f}
Put(f, k, x) == [y \in DOMAIN f \cup {k} |-> IF y = k THEN x ELSE f[y]]

\* last-writer-wins summary of a set of values: per slot the one with the greatest timestamp
Best(S) == [l \in {Slot(v) : v \in S} |->
              CHOOSE v \in S : Slot(v) = l /\ \A w \in S : Slot(w) = l => w.ts <= v.ts]

IndexOf(f) == [l \in DOMAIN f |-> Rnd(f[l].ts)]

(* -------------------------------------------------- SetRaw / inner.Set *)
NoFault == [point |-> "none", nth |-> 0]

\* KeyValueFromProto(kv, verify = true): an element that fails is skipped, not the batch
DecodeOk(v) == /\ v.sigAcc /\ v.sigDev
               /\ FIX_LABEL => v.label = Slot(v)
               /\ FIX_TS => TsOk(v.ts)
\* SetRaw, per element, against the index as it is before the call
PassIndex(idx, v) == ~(v.label \in DOMAIN idx /\ U(idx[v.label]) >= U(v.ts))
PassAcl(s, v)     == /\ v.rec \in Knows(s)       \* ReadKeyForAclId
                     /\ FIX_PERM => (v.acc \in DOMAIN WriterAt /\ v.rec \in WriterAt[v.acc])
Kept(s, b) == SelectSeq(b, LAMBDA v : DecodeOk(v) /\ PassIndex(index[s], v) /\ PassAcl(s, v))

\* updateValues: in order, inside the transaction; compares with the row's (signed) timestamp
RECURSIVE Upd(_, _, _)
Upd(cur, kept, i) ==
  IF i > Len(kept) THEN cur
  ELSE LET v == kept[i] IN
       IF v.label \in DOMAIN cur /\ Rnd(cur[v.label].ts) >= v.ts
       THEN Upd(cur, kept, i + 1)
       ELSE Upd(Put(cur, v.label, v), kept, i + 1)
RECURSIVE NUps(_, _, _)
NUps(cur, kept, i) ==
  IF i > Len(kept) THEN 0
  ELSE LET v == kept[i] IN
       IF v.label \in DOMAIN cur /\ Rnd(cur[v.label].ts) >= v.ts
       THEN NUps(cur, kept, i + 1)
       ELSE 1 + NUps(Put(cur, v.label, v), kept, i + 1)

\* is the fault point reached by the write of `kept` over `cur`?
FaultReached(f, cur, kept) ==
  CASE f.point = "none"   -> TRUE
    [] f.point = "begin"  -> f.nth = 1
    [] f.point = "find"   -> f.nth \in 1..Len(kept)
    [] f.point = "upsert" -> f.nth \in 1..NUps(cur, kept, 1)
    [] f.point = "heads"  -> f.nth = 1
    [] f.point = "commit" -> f.nth = 1
    [] OTHER -> FALSE
\* "find" / "upsert" may hit the first or the second element of a batch
Faults == {NoFault} \cup {[point |-> p, nth |-> n] : p \in FaultPoints \cap {"find", "upsert"}, n \in 1..2}
                    \cup {[point |-> p, nth |-> 1] : p \in FaultPoints \ {"find", "upsert"}}

\* inner.Set(kept) on store s with fault f; delivered = values counted as received on success
Write(s, kept, f, delivered) ==
  LET new  == Upd(vals[s], kept, 1)
      chg  == {l \in DOMAIN new : l \notin DOMAIN vals[s] \/ new[l] # vals[s][l]}
      nidx == [l \in DOMAIN index[s] \cup chg |-> IF l \in chg THEN Rnd(new[l].ts) ELSE index[s][l]]
  IN /\ FaultReached(f, vals[s], kept)
     /\ IF f.point = "none"
        THEN /\ vals'  = [vals  EXCEPT ![s] = new]
             /\ index' = [index EXCEPT ![s] = nidx]
             /\ entry' = [entry EXCEPT ![s] = nidx]
             /\ received' = [received EXCEPT ![s] = @ \cup {v \in delivered : Authentic(s, v)}]
        ELSE /\ UNCHANGED <<vals, entry, received>>
             /\ index' = IF FIX_ROLLBACK \/ f.point \in {"begin", "find", "upsert"}
                         THEN index ELSE [index EXCEPT ![s] = nidx]

\* storage.SetRaw(batch): nothing is written (and nothing can fail) when no element survives
SetRaw(s, b, f) ==
  LET kept == Kept(s, b) IN
  IF kept = <<>>
  THEN /\ f = NoFault
       /\ UNCHANGED <<vals, index, entry>>
       /\ received' = [received EXCEPT ![s] = @ \cup {v \in Range(b) : Authentic(s, v)}]
  ELSE Write(s, kept, f, Range(b))

(* ------------------------------------------------------------- actions *)
Idle == [phase |-> "idle"]
\* an exchange stays "clean" while nothing else touches its two stores and nothing fails
Touch(s) == IF exch.phase # "idle" /\ s \in {exch.c, exch.r} THEN [exch EXCEPT !.clean = FALSE] ELSE exch

CanWriteNow(s) == LocalAcc[s] \in DOMAIN WriterAt /\ HeadRec(s) \in WriterAt[LocalAcc[s]]
LocalValue(s, k) == [key |-> k, dev |-> LocalDev[s], ts |-> LocalBase + clock[s], acc |-> LocalAcc[s],
                     rec |-> HeadRec(s), sigDev |-> TRUE, sigAcc |-> TRUE,
                     label |-> k \o "|" \o LocalDev[s], mut |-> "local"]

LocalSet(s, k, f) ==
  /\ clock[s] < MaxLocal /\ CanWriteNow(s)
  /\ LET v == LocalValue(s, k) IN Write(s, <<v>>, f, {v})
  /\ clock' = [clock EXCEPT ![s] = @ + 1]
  /\ exch' = Touch(s)

\* a reader (or removed) account: Set returns ErrInsufficientPermissions, nothing changes
LocalSetDenied(s, k) ==
  /\ clock[s] < MaxLocal /\ ~CanWriteNow(s)
  /\ clock' = [clock EXCEPT ![s] = @ + 1]
  /\ UNCHANGED <<vals, index, entry, received, exch>>

PushBatch(s, b, f) ==
  /\ SetRaw(s, b, f)
  /\ exch' = Touch(s)
  /\ UNCHANGED clock

\* any sequence holding the elements of S once each
SeqsOf(S) == {q \in [1..Cardinality(S) -> S] : \A x \in S : \E i \in DOMAIN q : q[i] = x}
SomeSeq(S) == CHOOSE q \in SeqsOf(S) : TRUE

ExchStart(c, r) ==
  /\ Exchanges /\ exch.phase = "idle" /\ c # r
  /\ LET ci == index[c]
         ri == index[r]
         both    == DOMAIN ci \cap DOMAIN ri
         mine    == DOMAIN ci \ DOMAIN ri                                   \* "removed"
         ours    == {l \in both : ci[l] # ri[l] /\ ~(U(ri[l]) > U(ci[l]))}   \* "changed"
         theirs  == {l \in both : U(ri[l]) > U(ci[l])}                       \* "theirChanged"
         new     == DOMAIN ri \ DOMAIN ci
         pushL   == mine \cup ours
     IN /\ pushL \subseteq DOMAIN vals[c]     \* GetKeyPeerId: a missing row aborts the sync
        /\ exch' = [phase |-> "started", c |-> c, r |-> r, clean |-> TRUE,
                    push |-> SomeSeq({vals[c][l] : l \in pushL}),
                    ask |-> theirs \cup new, reply |-> <<>>]
  /\ UNCHANGED <<vals, index, entry, received, clock>>

\* newest first by index head (ties in any order); ids without a row are skipped
NewestFirst(r, q) == \A i, j \in DOMAIN q : i < j => U(Rnd(q[i].ts)) >= U(Rnd(q[j].ts))
ExchServe(f) ==
  /\ exch.phase = "started"
  /\ LET r == exch.r
         have == {vals[r][l] : l \in exch.ask \cap DOMAIN vals[r]}
     IN \E q \in SeqsOf(have) :
          /\ NewestFirst(r, q)
          /\ IF exch.push = <<>>
             THEN f = NoFault /\ UNCHANGED <<vals, index, entry, received>>
             ELSE SetRaw(r, exch.push, f)
          /\ exch' = [exch EXCEPT !.phase = "served", !.reply = q,
                                  !.clean = exch.clean /\ f = NoFault]
  /\ UNCHANGED clock

ExchApply(f) ==
  /\ exch.phase = "served"
  /\ LET c == exch.c
         n == IF Len(exch.reply) < ApplyBatch THEN Len(exch.reply) ELSE ApplyBatch
         b == SubSeq(exch.reply, 1, n)
         rest == SubSeq(exch.reply, n + 1, Len(exch.reply))
     IN IF exch.reply = <<>>
        THEN /\ f = NoFault
             /\ exch' = [exch EXCEPT !.phase = "done"]
             /\ UNCHANGED <<vals, index, entry, received>>
        ELSE /\ SetRaw(c, b, f)
             /\ exch' = IF f = NoFault
                        THEN [exch EXCEPT !.reply = rest, !.phase = IF rest = <<>> THEN "done" ELSE "served"]
                        ELSE [exch EXCEPT !.reply = <<>>, !.phase = "done", !.clean = FALSE]  \* the pull is aborted
  /\ UNCHANGED clock

\* the service is closed and opened again over the same database (not in the middle of an exchange
\* of this store): innerstorage.New reads every row into a fresh index and rewrites the heads entry
Restart(s) ==
  /\ ~(exch.phase # "idle" /\ s \in {exch.c, exch.r})
  /\ index' = [index EXCEPT ![s] = IndexOf(vals[s])]
  /\ entry' = [entry EXCEPT ![s] = IndexOf(vals[s])]
  /\ UNCHANGED <<vals, received, clock, exch>>

ExchFinish ==
  /\ exch.phase = "done"
  /\ exch' = Idle
  /\ UNCHANGED <<vals, index, entry, received, clock>>

Batches == UNION {[1..n -> Universe] : n \in 1..MaxBatch}

Init ==
  /\ vals = [s \in Stores |-> <<>>]
  /\ index = [s \in Stores |-> <<>>]
  /\ entry = [s \in Stores |-> <<>>]
  /\ received = [s \in Stores |-> {}]
  /\ clock = [s \in Stores |-> 0]
  /\ exch = Idle

Next ==
  \/ \E s \in Stores, k \in LocalKeys, f \in Faults : LocalSet(s, k, f)
  \/ \E s \in Stores, k \in LocalKeys : LocalSetDenied(s, k)
  \/ \E s \in Stores, b \in Batches, f \in Faults : PushBatch(s, b, f)
  \/ \E c, r \in Stores : ExchStart(c, r)
  \/ \E f \in Faults : ExchServe(f)
  \/ \E f \in Faults : ExchApply(f)
  \/ ExchFinish
  \/ \E s \in Stores : Restart(s)

Spec == Init /\ [][Next]_vars

(* ---------------------------------------------------------- properties *)
\* distinct timestamps per slot among the values a store may hold (the property's premise)
DistinctTs == \A v, w \in Universe : (v # w /\ Slot(v) = Slot(w) /\ v.label = Slot(v) /\ w.label = Slot(w)
                                        /\ v.sigDev /\ v.sigAcc /\ w.sigDev /\ w.sigAcc) => v.ts # w.ts

\* LWW: what a store holds is a function of the SET of authentic values it was given by
\* successful calls - independent of their order, grouping and repetition
LWW == \A s \in Stores : vals[s] = Best(received[s])

\* the advertised index (and the heads entry) describe exactly what is stored - always,
\* in particular after a failed write
IndexMatchesStore == \A s \in Stores : index[s] = IndexOf(vals[s]) /\ entry[s] = index[s]

AuthenticOnly == \A s \in Stores : \A l \in DOMAIN vals[s] : vals[s][l].label = l /\ Authentic(s, vals[s][l])

\* an undisturbed, fault-free exchange leaves both stores with the best of what either held
\* (restricted to what each may hold); with equal ACL knowledge the stores are equal
OneExchangeEqualises ==
  (exch.phase = "done" /\ exch.clean) =>
     LET c == exch.c
         r == exch.r
     IN /\ \A l \in DOMAIN vals[r] : Authentic(c, vals[r][l]) =>
                                        (l \in DOMAIN vals[c] /\ vals[c][l].ts >= vals[r][l].ts)
        /\ \A l \in DOMAIN vals[c] : Authentic(r, vals[c][l]) =>
                                        (l \in DOMAIN vals[r] /\ vals[r][l].ts >= vals[c][l].ts)
        /\ KnowsUpTo[c] = KnowsUpTo[r] => (vals[c] = vals[r] /\ index[c] = index[r])

TypeOK == /\ \A s \in Stores : DOMAIN index[s] \subseteq {v.label : v \in Universe} \cup {k \o "|" \o LocalDev[s] : k \in LocalKeys}
          /\ \A s \in Stores : clock[s] \in 0..MaxLocal
          /\ exch.phase \in {"idle", "started", "served", "done"}

Inv == TypeOK /\ LWW /\ IndexMatchesStore /\ AuthenticOnly /\ OneExchangeEqualises

\* a slot never loses its value and its timestamp never goes back; the history only grows
MonoStep == \A s \in Stores :
              /\ received[s] \subseteq received'[s]
              /\ \A l \in DOMAIN vals[s] : l \in DOMAIN vals'[s] /\ vals'[s][l].ts >= vals[s][l].ts
Monotone == [][MonoStep]_vars
=============================================================================
