------------------------------ MODULE KVMerge ------------------------------
(* Side lemma of C12 (nothing depends on it): the last-writer-wins summary is a semilattice      *)
(* merge - commutative, associative, idempotent - and Best of a union is the merge of the Bests. *)
(* This is why order, grouping and repetition of deliveries cannot matter once every delivery    *)
(* is folded in with this merge (what KeyValue.tla checks the implementation's two-stage          *)
(* comparison to amount to).  Checked exhaustively by TLC over all maps of 2 slots x 3            *)
(* timestamps (KVMerge.cfg: the ASSUME is evaluated at start-up) and, as an inductive-free        *)
(* bounded check, by Apalache (KVMergeApa.tla).                                                   *)
EXTENDS Integers, FiniteSets

CONSTANTS Slots, MaxTs

Maps == UNION {[D -> 1..MaxTs] : D \in SUBSET Slots}
Merge(a, b) == [l \in DOMAIN a \cup DOMAIN b |->
                  IF l \notin DOMAIN b THEN a[l]
                  ELSE IF l \notin DOMAIN a THEN b[l]
                  ELSE IF a[l] >= b[l] THEN a[l] ELSE b[l]]

Vals == Slots \X (1..MaxTs)
BestTs(S) == [l \in {v[1] : v \in S} |-> CHOOSE t \in {v[2] : v \in {w \in S : w[1] = l}} :
                                            \A w \in S : w[1] = l => w[2] <= t]

Comm  == \A a, b \in Maps : Merge(a, b) = Merge(b, a)
Assoc == \A a, b, c \in Maps : Merge(Merge(a, b), c) = Merge(a, Merge(b, c))
Idem  == \A a \in Maps : Merge(a, a) = a
Hom   == \A S, T \in SUBSET Vals : BestTs(S \cup T) = Merge(BestTs(S), BestTs(T))

ASSUME Semilattice == Comm /\ Assoc /\ Idem /\ Hom

VARIABLE x
Init == x = 0
Next == UNCHANGED x
=============================================================================
