\* Authenticity: every mutation class of the property (relabel to another device's slot / another key,
\* either signature by somebody else, flipped value byte, reader, removed writer, pre-membership,
\* unknown record, record known to one store only, negative and unrepresentable timestamps) with 3 valid
\* values, in every batch (<= 2) position, order and repetition, on two stores with different ACL
\* knowledge (s2's local account is a reader), faults after the index update.  No exchanges here
\* (KeyValue_mc_xauth.cfg).
SPECIFICATION Spec
CONSTANTS
  Stores <- S2
  Universe <- U_auth
  KnowsUpTo <- KnowsMixed
  LocalAcc <- AccWR
  LocalDev <- Devs
  LocalKeys = {"k1"}
  MaxLocal = 1
  MaxBatch = 2
  ApplyBatch = 1
  Exchanges = FALSE
  FaultPoints <- LateFaults2
  FIX_LABEL = TRUE
  FIX_PERM = TRUE
  FIX_TS = TRUE
  FIX_ROLLBACK = TRUE
  RecOrder <- MCRecOrder
  WriterAt <- MCWriterAt
  LocalBase = 10
  TsLimit = 90
  UBig = 1000
INVARIANT Inv
PROPERTY Monotone
CHECK_DEADLOCK FALSE
