INIT GenInit
NEXT GenNextAll
CONSTANTS
  Stores <- OnlyS1
  Universe <- U_ladder
  RecOrder <- MCRecOrder
  KnowsUpTo <- KnowsSame
  WriterAt <- MCWriterAt
  LocalAcc <- AccW
  LocalDev <- Devs
  LocalKeys = {"k1"}
  LocalBase = 10
  MaxLocal = 0
  MaxBatch = 2
  ApplyBatch = 100
  Exchanges = FALSE
  FaultPoints <- CommitOnly
  TsLimit = 90
  UBig = 1000
  FIX_LABEL = TRUE
  FIX_PERM = TRUE
  FIX_TS = TRUE
  FIX_ROLLBACK = TRUE
  MaxSteps = 2
  FaultPct = 4
INVARIANT Emit
CHECK_DEADLOCK FALSE
