\* The unrepaired behaviour (ts): TLC must find a violation of OneExchangeEqualises (checks/C12.py fails as broken otherwise).
SPECIFICATION Spec
CONSTANTS
  Stores <- S2
  Universe <- U_ts
  KnowsUpTo <- KnowsSame
  LocalAcc <- AccW
  LocalDev <- Devs
  LocalKeys = {"k1"}
  MaxLocal = 0
  MaxBatch = 1
  ApplyBatch = 2
  Exchanges = TRUE
  FaultPoints <- NoFaults
  FIX_LABEL = TRUE
  FIX_PERM = TRUE
  FIX_TS = FALSE
  FIX_ROLLBACK = TRUE
  RecOrder <- MCRecOrder
  WriterAt <- MCWriterAt
  LocalBase = 10
  TsLimit = 90
  UBig = 1000
INVARIANT OneExchangeEqualises
CHECK_DEADLOCK FALSE
