INIT Init
NEXT Next
CONSTANTS
  Slots = {"a", "b"}
  MaxTs = 3
