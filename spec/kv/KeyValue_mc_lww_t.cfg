\* LWW core, thorough tier: 2 stores, 2 slots x 3 timestamps, every order / grouping (<= 2) / repetition of
\* pushed batches, sync exchanges in both directions interleaved with pushes, the pull applied one value
\* per batch (faults and mutants are in the other configurations).
SPECIFICATION Spec
CONSTANTS
  Stores <- S2
  Universe <- U_lww6
  RecOrder <- MCRecOrder
  KnowsUpTo <- KnowsSame
  WriterAt <- MCWriterAt
  LocalAcc <- AccW
  LocalDev <- Devs
  LocalKeys = {"k1"}
  LocalBase = 10
  MaxLocal = 0
  MaxBatch = 2
  ApplyBatch = 1
  Exchanges = TRUE
  FaultPoints <- NoFaults
  TsLimit = 90
  UBig = 1000
  FIX_LABEL = TRUE
  FIX_PERM = TRUE
  FIX_TS = TRUE
  FIX_ROLLBACK = TRUE
INVARIANT Inv
PROPERTY Monotone
CHECK_DEADLOCK FALSE
