----------------------------- MODULE KeyValueMC -----------------------------
(* The cast used by every configuration of KeyValue: accounts, ACL history, devices and the  *)
(* named values (valid ones and every mutation class of the property).  The Go harness       *)
(* renders exactly these with real keys, a real ACL and real signatures (harness/kv).        *)
EXTENDS KeyValue

V(k, d, t, a, r) == [key |-> k, dev |-> d, ts |-> t, acc |-> a, rec |-> r,
                     sigDev |-> TRUE, sigAcc |-> TRUE, label |-> k \o "|" \o d, mut |-> ""]

\* r0 root (owner O), r1 adds W (writer), R (reader), X (writer), r2 removes X, r3 adds L (writer);
\* rX is a record id nobody holds
MCRecOrder == <<"r0", "r1", "r2", "r3">>
MCWriterAt == [O |-> {"r0", "r1", "r2", "r3"}, W |-> {"r1", "r2", "r3"}, R |-> {}, X |-> {"r1"}, L |-> {"r3"}]

\* valid values: two slots, three timestamps each (1, 2 in the past of every local Set, 30 in its future)
A1 == V("k1", "d1", 1, "W", "r1")
A2 == V("k1", "d1", 2, "O", "r0")
A3 == V("k1", "d1", 30, "W", "r2")
B1 == V("k1", "d2", 1, "X", "r1")      \* X was a writer at r1
B2 == V("k1", "d2", 2, "W", "r2")
B3 == V("k1", "d2", 30, "W", "r1")
Valid == {A1, A2, A3, B1, B2, B3}
\* the local slot of store s2 (device d2, key k1) coincides with slot B; of s1 with slot A

\* mutations of the property's quantifier; all carry a timestamp that would win if stored
Relabel   == [V("k1", "d1", 31, "W", "r1") EXCEPT !.label = "k1|d2"]   \* re-filed under the other slot
RelabelK  == [V("k1", "d1", 32, "W", "r1") EXCEPT !.label = "k2|d1"]   \* re-filed under another key
\* the label is an unsigned free string: relabellings that are structurally related to the signed slot
\* (signed key a proper prefix of the target key, with and without the key/peer separator in between; target key a
\* proper prefix of the signed key) - a slot comparison done piecewise must still reject all of them
RelabelExt == [V("k1", "d1", 40, "W", "r1") EXCEPT !.label = "k1x|d1"]     \* target key extends the signed key
RelabelSep == [V("k1", "d1", 41, "W", "r1") EXCEPT !.label = "k1-k2|d1"]   \* ... by separator + another key
RelabelCut == [V("k1x", "d1", 42, "W", "r1") EXCEPT !.label = "k1|d1"]     \* target key is a prefix of the signed key
BadDev    == [V("k1", "d1", 33, "W", "r1") EXCEPT !.sigDev = FALSE]    \* device signature by somebody else
BadAcc    == [V("k1", "d2", 33, "W", "r1") EXCEPT !.sigAcc = FALSE]    \* account signature by somebody else
Flipped   == [V("k1", "d1", 34, "W", "r1") EXCEPT !.sigDev = FALSE, !.sigAcc = FALSE, !.mut = "flip"] \* one value byte changed
ByReader  == V("k1", "d2", 35, "R", "r1")                              \* reader account
ByRemoved == V("k1", "d2", 36, "X", "r2")                              \* writer removed at the cited record
PreMember == V("k1", "d1", 37, "L", "r2")                              \* cites a record before its membership
Unknown   == V("k1", "d1", 38, "W", "rX")                              \* cites a record nobody holds
Late      == V("k1", "d2", 39, "L", "r3")                              \* authentic only for a store that holds r3
Negative  == V("k1", "d2", 0 - 1, "W", "r1")                           \* negative timestamp
Huge1     == V("k1", "d1", 99, "W", "r1")                              \* 2^53+3 (rounded to 2^53+4 by the row field)
Huge2     == V("k1", "d1", 100, "W", "r1")                             \* 2^53+4
Mutants == {Relabel, RelabelK, RelabelExt, RelabelSep, RelabelCut, BadDev, BadAcc, Flipped, ByReader, ByRemoved, PreMember, Unknown, Late, Negative, Huge1, Huge2}

\* universes of the configurations
U_lww   == Valid \cup {Relabel, ByReader}
U_lww4  == {A1, A3, B1, B3, Relabel}          \* quick tier: 2 slots x 2 timestamps + the relabelled value
U_lww6  == Valid                              \* thorough tier: 2 slots x 3 timestamps
U_auth  == {A1, A3, B2} \cup Mutants
U_auth_q == {A1, B2} \cup Mutants              \* quick tier
U_ts    == {B2, Negative, Huge1, Huge2}
U_xauth == {A1, B2, Late, Relabel, ByReader}
U_local == {A1, A3, B3, Relabel}
U_fault == {A1, A2, A3, B1}
U_ladder == {A1, A2, A3}
OnlyS1 == {"s1"}
CommitOnly == {"commit"}
U_gen   == Valid \cup Mutants

S1 == {"s1"}
S2 == {"s1", "s2"}
KnowsSame  == [s \in S2 |-> 3]
KnowsMixed == [s \in S2 |-> IF s = "s1" THEN 3 ELSE 4]
AccW   == [s \in S2 |-> "W"]
AccWR  == [s \in S2 |-> IF s = "s1" THEN "W" ELSE "R"]
Devs   == [s \in S2 |-> IF s = "s1" THEN "d1" ELSE "d2"]
\* three stores (behaviour generation, trace validation): s3 is a reader that also holds r3
S3 == {"s1", "s2", "s3"}
Knows3 == [s \in S3 |-> IF s = "s3" THEN 4 ELSE 3]
Acc3   == [s \in S3 |-> IF s = "s3" THEN "R" ELSE "W"]
Devs3  == [s \in S3 |-> IF s = "s1" THEN "d1" ELSE IF s = "s2" THEN "d2" ELSE "d3"]
NoFaults  == {}
AllFaults == {"begin", "find", "upsert", "heads", "commit"}
LateFaults == {"upsert", "commit"}
LateFaults2 == {"heads", "commit"}

=============================================================================
