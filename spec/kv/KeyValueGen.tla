----------------------------- MODULE KeyValueGen -----------------------------
(* Behaviour generation for the replay on real stores: the actions of KeyValue with a history *)
(* variable.  Used with -simulate: every behaviour of MaxSteps steps is written as JSON       *)
(* (lib/tla/VerifEmit).  Batches and faults are drawn with RandomElement so that the action   *)
(* kinds stay balanced (TLC's simulator picks uniformly among successor states).              *)
EXTENDS KeyValueMC, VerifEmit

CONSTANTS MaxSteps,
          FaultPct      \* chance (in tenths) that a drawn fault is not "none"
VARIABLE hist
gvars == <<vars, hist>>

ASSUME EmitReset

Exp == [vals |-> vals', index |-> index', entryOk |-> [s \in Stores |-> entry'[s] = index'[s]]]
Rec(act, s, key, batch, f, peer) ==
  hist' = Append(hist, [act |-> act, s |-> s, key |-> key, batch |-> batch, fault |-> f, peer |-> peer, exp |-> Exp])

\* mostly no fault; a fault only where the write reaches it (the action is disabled otherwise)
\* (the definitions mention `hist` so that TLC does not evaluate them once as constants)
Z == 0 * Len(hist)
SomeFault == IF FaultPoints = {} \/ RandomElement(1..(10 + Z)) > FaultPct THEN NoFault ELSE RandomElement(IF Z = 0 THEN Faults ELSE {})
SomeBatch == LET n == RandomElement(1..(MaxBatch + Z)) IN [i \in 1..n |-> RandomElement(IF Z = 0 THEN Universe ELSE {})]

\* a "ladder": two or three values of one slot in ascending timestamp order - every one of them is
\* upserted by the same transaction (the undo of a failed write has to restore the oldest head)
Ladders == {q \in UNION {[1..n -> Universe] : n \in 2..3} :
              \A i \in 1..(Len(q) - 1) : q[i].label = q[i + 1].label /\ q[i].ts < q[i + 1].ts}
SomeLadder == RandomElement(IF Z = 0 THEN Ladders ELSE {})

\* while an exchange is in progress the other actions are taken less often, so that exchanges complete
Other == exch.phase = "idle" \/ RandomElement(1..(4 + Z)) = 1

GenInit == Init /\ hist = <<>>
GenNext ==
  /\ Len(hist) < MaxSteps
  \* (\E x \in {e} binds the random draw once; a LET would draw again at every use)
  /\ \/ \E s \in Stores, k \in LocalKeys, f \in {SomeFault} : Other /\ LocalSet(s, k, f) /\ Rec("LocalSet", s, k, <<>>, f, "")
     \/ \E s \in Stores, k \in LocalKeys : Other /\ LocalSetDenied(s, k) /\ Rec("LocalSetDenied", s, k, <<>>, NoFault, "")
     \/ \E s \in Stores, b \in {SomeBatch}, f \in {SomeFault} : Other /\ PushBatch(s, b, f) /\ Rec("PushBatch", s, "", b, f, "")
     \/ \E s \in Stores, b \in {SomeBatch} : Other /\ PushBatch(s, b, NoFault) /\ Rec("PushBatch", s, "", b, NoFault, "")
     \/ \E s \in Stores, b \in {SomeLadder}, f \in {SomeFault} : Other /\ PushBatch(s, b, f) /\ Rec("PushBatch", s, "", b, f, "")
     \/ \E c, r \in Stores : ExchStart(c, r) /\ Rec("ExchStart", c, "", <<>>, NoFault, r)
     \/ \E f \in {SomeFault} : ExchServe(f) /\ Rec("ExchServe", exch.r, "", <<>>, f, exch.c)
     \/ ExchServe(NoFault) /\ Rec("ExchServe", exch.r, "", <<>>, NoFault, exch.c)
     \/ \E f \in {SomeFault} : ExchApply(f) /\ Rec("ExchApply", exch.c, "", <<>>, f, exch.r)
     \/ ExchApply(NoFault) /\ Rec("ExchApply", exch.c, "", <<>>, NoFault, exch.r)
     \/ ExchFinish /\ Rec("ExchFinish", "", "", <<>>, NoFault, "")
     \/ \E s \in Stores : RandomElement(1..(3 + Z)) = 1 /\ Restart(s) /\ Rec("Restart", s, "", <<>>, NoFault, "")

\* exhaustive variant (no -simulate): every sequence of MaxSteps pushes / local Sets, every batch, every fault
GenNextAll ==
  /\ Len(hist) < MaxSteps
  /\ \/ \E s \in Stores, k \in LocalKeys, f \in Faults : LocalSet(s, k, f) /\ Rec("LocalSet", s, k, <<>>, f, "")
     \/ \E s \in Stores, b \in Batches, f \in Faults : PushBatch(s, b, f) /\ Rec("PushBatch", s, "", b, f, "")

Behaviour == [spec |-> "KeyValue", stores |-> [s \in Stores |-> [acc |-> LocalAcc[s], dev |-> LocalDev[s], knows |-> KnowsUpTo[s]]],
              localBase |-> LocalBase, steps |-> hist]
Emit == EmitWhen(Len(hist) = MaxSteps, Behaviour)
=============================================================================
