---------------------------- MODULE KVMergeApa ----------------------------
(* The semilattice laws of the LWW merge (KVMerge.tla) for Apalache: three arbitrary maps over  *)
(* 2 slots x timestamps 0..3 (0 = absent) are chosen in Init, the laws are the invariant (bounded check,      *)
(* length 0).  apalache-mc check --length=0 --inv=Laws KVMergeApa.tla                            *)
EXTENDS Integers

VARIABLES
  \* @type: Str -> Int;
  a,
  \* @type: Str -> Int;
  b,
  \* @type: Str -> Int;
  c

Slots == {"a", "b"}
\* a map as a total function: timestamp 0 stands for "slot absent" (the bottom element)
\* @type: (Str -> Int, Str -> Int) => (Str -> Int);
Merge(f, g) == [l \in Slots |-> IF f[l] >= g[l] THEN f[l] ELSE g[l]]

Init == a \in [Slots -> 0..3] /\ b \in [Slots -> 0..3] /\ c \in [Slots -> 0..3]
Next == UNCHANGED <<a, b, c>>
Laws == /\ Merge(a, b) = Merge(b, a)
        /\ Merge(Merge(a, b), c) = Merge(a, Merge(b, c))
        /\ Merge(a, a) = a
=============================================================================
