INIT GenInit
NEXT GenNext
CONSTANTS
  Stores <- S3
  Universe <- U_gen
  RecOrder <- MCRecOrder
  KnowsUpTo <- Knows3
  WriterAt <- MCWriterAt
  LocalAcc <- Acc3
  LocalDev <- Devs3
  LocalKeys = {"k1", "k2"}
  LocalBase = 10
  MaxLocal = 3
  MaxBatch = 3
  ApplyBatch = 100
  Exchanges = TRUE
  FaultPoints <- AllFaults
  TsLimit = 90
  UBig = 1000
  FIX_LABEL = TRUE
  FIX_PERM = TRUE
  FIX_TS = TRUE
  FIX_ROLLBACK = TRUE
  MaxSteps = 18
  FaultPct = 3
INVARIANT Emit
CHECK_DEADLOCK FALSE
