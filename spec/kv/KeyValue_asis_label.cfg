\* The unrepaired behaviour (label): TLC must find a violation of AuthenticOnly (checks/C12.py fails as broken otherwise).
SPECIFICATION Spec
CONSTANTS
  Stores <- S2
  Universe <- U_lww
  KnowsUpTo <- KnowsSame
  LocalAcc <- AccW
  LocalDev <- Devs
  LocalKeys = {"k1"}
  MaxLocal = 0
  MaxBatch = 2
  ApplyBatch = 2
  Exchanges = TRUE
  FaultPoints <- NoFaults
  FIX_LABEL = FALSE
  FIX_PERM = TRUE
  FIX_TS = TRUE
  FIX_ROLLBACK = TRUE
  RecOrder <- MCRecOrder
  WriterAt <- MCWriterAt
  LocalBase = 10
  TsLimit = 90
  UBig = 1000
INVARIANT AuthenticOnly
CHECK_DEADLOCK FALSE
