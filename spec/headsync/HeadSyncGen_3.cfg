SPECIFICATION GenSpec
CONSTANTS
  Peers <- P3
  PeerSeq <- PS3
  Trees <- T2
  Acl <- AclS
  Kv <- None
  Changes <- C2
  MaxPend = 3
  Dev <- None
  Budget <- Bg3
  GenDepth = 50
INVARIANT Emit
CHECK_DEADLOCK FALSE
