SPECIFICATION GenSpec
CONSTANTS
  Peers <- P2
  PeerSeq <- PS2
  Trees <- T1
  Acl <- None
  Kv <- None
  Changes <- C2
  MaxPend = 3
  NoSpace <- None
  Dev <- None
  Budget <- Bg
  GenDepth = 30
INVARIANT Emit
CHECK_DEADLOCK FALSE
