------------------------- MODULE HeadSyncTraceConsts -------------------------
(* Placeholder: checks/X01.py generates this module from the constants the recorder wrote next to  *)
(* each trace (peers, tree ids, acl / key-value ids, change names).                                 *)
EXTENDS HeadSyncConsts
TracePeers   == {"p1", "p2"}
TraceTrees   == {"o00000", "o00001", "o00002"}
TraceAcl     == {"acl"}
TraceKv      == {"kv"}
TraceChanges == {"c1", "c2", "c3", "c4"}
TraceNoSpace == {}
TraceBudget  == B(100000, 100000, 100000, 100000, 100000)
=============================================================================
