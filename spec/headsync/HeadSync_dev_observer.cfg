SPECIFICATION Spec
CONSTANTS
  Peers = {p1, p2}
  PeerSeq <- PSAll
  Trees = {t1}
  Acl <- None
  Kv <- None
  Changes = {c1, c2}
  MaxPend = 2
  NoSpace <- None
  Dev <- DevObserver
  Budget <- Bdev
SYMMETRY Sym
INVARIANT TypeOK
INVARIANT IdxFollowsStore
INVARIANT HashPersisted
INVARIANT DeletedNeverRequested
INVARIANT NoSpecialToTreeSyncer
INVARIANT NoJobsWithoutDiff
INVARIANT CleanRoundConverges
PROPERTY TombstoneKept
PROPERTY EqualHashMeansNoTraffic
PROPERTY FailureIsolated
PROPERTY PushGivesSpace
CHECK_DEADLOCK FALSE
