----------------------------- MODULE HeadSyncGen -----------------------------
(* Behaviour generation for the Go replay (harness/headsync TestReplay): the actions of HeadSync with   *)
(* a history variable. Every step records the action, its arguments, what the specification predicts   *)
(* the code hands out in that step (result of the hash check, diff lists, the SyncAll arguments) and    *)
(* the projected post-state (index contents, persisted-hash contents, queue lengths, round state,       *)
(* stores, jobs). Used with -simulate: one JSON file per behaviour, written when the single Done step   *)
(* is taken after GenDepth steps.                                                                       *)
EXTENDS HeadSyncConsts, VerifEmit

CONSTANTS GenDepth
VARIABLES hist, done
gvars == <<vars, hist, done>>
ASSUME EmitReset

ObsP == [idx |-> idx', phash |-> phash', store |-> store', online |-> online', space |-> space',
         pendn |-> [p \in Peers |-> Len(pend'[p])],
         rnd |-> [p \in Peers |-> [st |-> rnd'[p].st, cur |-> rnd'[p].cur, nreq |-> rnd'[p].nreq,
                                   new |-> rnd'[p].new, chg |-> rnd'[p].chg, rem |-> rnd'[p].rem]],
         tasks |-> tasks']
Rec(a, p, q, i, c, out) == hist' = Append(hist, [a |-> a, p |-> p, q |-> q, i |-> i, c |-> c, out |-> out, obs |-> ObsP])
NoOut == [x |-> 0]

CheckOut(p) == LET q == rnd[p].cur IN
                 [res |-> IF ~online[q] THEN "fail" ELSE IF ~space[q] THEN "missing" ELSE IF idx[p] = idx[q] THEN "equal" ELSE "differs"]
DiffOut(p)  == LET q == rnd[p].cur IN
                 IF ~online[q] THEN [res |-> "fail"]
                 ELSE [res |-> "ok", new |-> DNew(idx[p], idx[q]), chg |-> DChg(idx[p], idx[q]), rem |-> DRem(idx[p], idx[q])]
ApplyOut(p) == [missing |-> ApplyMissing(p), existing |-> ApplyExisting(p),
                acl |-> ApplyExistAll(p) \cap Acl # {}, kv |-> ApplyExistAll(p) \cap Kv # {},
                tomb |-> TombSet(p), nreq |-> rnd[p].nreq]
SyncOut(t)  == [effect |-> ~NoEffect(t.f, t.t, t.i)]

GenInit == Init /\ hist = <<>> /\ done = FALSE
GenStep ==
    \/ \E p \in Peers :
         \/ \E i \in Ids : \/ Create(p, i) /\ Rec("Create", p, NoPeer, i, "", NoOut)
                           \/ Delete(p, i) /\ Rec("Delete", p, NoPeer, i, "", NoOut)
                           \/ DeleteFinish(p, i) /\ Rec("DeleteFinish", p, NoPeer, i, "", NoOut)
                           \/ \E c \in Changes : Edit(p, i, c) /\ Rec("Edit", p, NoPeer, i, c, NoOut)
         \/ Restart(p) /\ Rec("Restart", p, NoPeer, "", "", NoOut)
         \/ \E i \in Ids, c \in Changes : RestartEdit(p, i, c) /\ Rec("RestartEdit", p, NoPeer, i, c, NoOut)
         \/ Flip(p) /\ Rec("Flip", p, NoPeer, "", "", NoOut)
         \/ IndexApply(p) /\ Rec("IndexApply", p, NoPeer, Head(pend[p]).id, "", [u |-> Head(pend[p])])
         \/ RoundBegin(p) /\ Rec("RoundBegin", p, NoPeer, "", "", NoOut)
         \/ RoundCheck(p) /\ Rec("RoundCheck", p, rnd[p].cur, "", "", CheckOut(p))
         \/ RoundPush(p) /\ Rec("RoundPush", p, rnd[p].cur, "", "", [res |-> IF online[rnd[p].cur] THEN "ok" ELSE "fail"])
         \/ RoundDiff(p) /\ Rec("RoundDiff", p, rnd[p].cur, "", "", DiffOut(p))
         \/ RoundApply(p) /\ Rec("RoundApply", p, rnd[p].cur, "", "", ApplyOut(p))
    \/ \E t \in tasks : TreeSync(t) /\ Rec("TreeSync", t.f, t.t, t.i, t.k, SyncOut(t))
GenNext == IF Len(hist) < GenDepth
             THEN GenStep /\ done' = FALSE
             ELSE ~done /\ done' = TRUE /\ UNCHANGED <<vars, hist>>
GenSpec == GenInit /\ [][GenNext]_gvars

Behaviour == [spec |-> "HeadSync", peers |-> Peers, peerseq |-> PeerSeq, trees |-> Trees, acl |-> Acl, kv |-> Kv,
              changes |-> Changes, maxpend |-> MaxPend, nospace |-> NoSpace, steps |-> hist]
Emit == EmitWhen(done, Behaviour)
=============================================================================
