SPECIFICATION Spec
CONSTANTS
  Peers = {p1, p2}
  PeerSeq <- PSAll
  Trees = {t1, t2}
  Acl <- None
  Kv <- None
  Changes = {c1}
  MaxPend = 2
  NoSpace <- None
  Dev <- None
  Budget <- Bt2
SYMMETRY Sym
INVARIANT TypeOK
INVARIANT IdxFollowsStore
INVARIANT HashPersisted
INVARIANT DeletedNeverRequested
INVARIANT NoSpecialToTreeSyncer
INVARIANT NoJobsWithoutDiff
INVARIANT CleanRoundConverges
PROPERTY TombstoneKept
PROPERTY EqualHashMeansNoTraffic
PROPERTY FailureIsolated
PROPERTY PushGivesSpace
CHECK_DEADLOCK FALSE
