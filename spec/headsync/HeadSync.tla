------------------------------ MODULE HeadSync ------------------------------
(* The space-level head-sync round of any-sync (commonspace/headsync), as the code does it.        *)
(*                                                                                                  *)
(* It composes three mechanisms that have their own specifications:                                 *)
(*   - the range-hash diff (app/ldiff, spec/ldiff/Ldiff.tla: C07 exactness, C08 canonical hashes)  *)
(*     appears here as the operator Diff(A,B) = (new, changed, removed) over index contents and as *)
(*     "equal contents <=> equal top hash";                                                          *)
(*   - per-object tree sync (spec/treesync/TreeSync.tla, C01) appears as the atomic effect         *)
(*     "after a sync of object i both peers hold the join of their heads" (SyncEffect);             *)
(*   - deletion (spec/deletion, C15) appears as the tombstone kept in the head storage and in the  *)
(*     deletion state: a tombstoned object is never created / changed by a sync.                    *)
(*                                                                                                  *)
(* One action per critical section / gate of the code:                                              *)
(*   store writes (head storage UpdateEntry + observer -> headUpdater queue): Create, Edit,        *)
(*     Delete (deletionState.Add), DeleteFinish (deletionState.Delete), SyncEffect of TreeSync      *)
(*   IndexApply      headUpdater.process -> DiffManager.UpdateHeads (one queued entry)              *)
(*   Restart         headSync.Close + new component: FillDiff from the head storage                 *)
(*   RestartEdit     the same with a local change landing between the subscription and FillDiff's   *)
(*                   read of the head storage (the order of headSync.Run matters)                   *)
(*   RoundBegin      diffSyncer.Sync: GetResponsiblePeers, AcquireDrpcConn of the first peer        *)
(*   RoundCheck      remote.DiffTypeCheck: HeadSync request for the top range, hash comparison      *)
(*   RoundPush       onDiffError: the peer answered ErrSpaceMissing -> SpacePush (acl root + settings  *)
(*                   root only), then the exchange starts again on the same connection                *)
(*   RoundDiff       ldiff.Diff through NewRemoteDiff / HandleRangeRequest                          *)
(*   RoundApply      applyDiff: deletionState.Filter, acl / key-value routing, TreeSyncer.SyncAll   *)
(*   TreeSync        one (peer, object) job of the tree syncer (outside the repository; abstract)   *)
(*   Flip            a peer goes offline / comes back (requests to it fail, jobs to it are lost)    *)
(*                                                                                                  *)
(* Heads of an object are abstracted as the set of changes it contains beyond the root (join =     *)
(* union, {} = root only).  Deliberate abstractions are listed in design.d/X01.md.                  *)
EXTENDS Naturals, Sequences, FiniteSets, TLC

CONSTANTS Peers,        \* peer ids
          PeerSeq,      \* [Peers -> Seq(Peers)]: the responsible peers of each peer, in the order Sync visits them
          Trees,        \* ordinary object (tree) ids
          Acl,          \* {} or {acl id}: the acl list, head kept in the same head storage
          Kv,           \* {} or {key-value store id}
          Changes,      \* changes an object can contain beyond its root
          MaxPend,      \* bound of the headUpdater queue (bounds the model only)
          NoSpace,      \* peers that do not hold the space at the start (they get it by SpacePush)
          Budget,       \* [cr, ed, de, fl, rs |-> Nat]: creations, edits, deleted ids, offline flips, restarts
          Dev           \* deviations switched on (sensitivity runs only; {} = what the code does):
                        \*   "NoExistsCheck"  UpdateHeads does not consult the deletion state
                        \*   "NoFilter"       applyDiff does not filter the new ids by the deletion state
                        \*   "NoRemovedPush"  applyDiff drops the ids that only the local index has
                        \*   "NoObserver"     a changed entry is not always announced to the headUpdater
                        \*   "FillBeforeSubscribe"  headSync.Run fills the index before it subscribes

Ids     == Trees \cup Acl \cup Kv
Special == Acl \cup Kv
Absent  == {"~"}            \* "no element for this id" (a set, so that it is comparable with head sets)
NoPeer  == "-"
DelSt   == {"none", "queued", "deleted"}

VARIABLES store,    \* [Peers -> [Ids -> [has, hd, del]]]  head storage entry (+ tree storage existence)
          idx,      \* [Peers -> [Ids -> head set or Absent]]  contents of the ldiff index
          phash,    \* [Peers -> index contents]  what the persisted space hash was computed from
          pend,     \* [Peers -> Seq(update)]  headUpdater queue: resulting entries not yet applied to idx
          online,   \* [Peers -> BOOLEAN]
          space,    \* [Peers -> BOOLEAN]  the peer holds (has opened) the space
          rnd,      \* [Peers -> round record]  the Sync call in progress (one per peer)
          tasks,    \* set of [f, t, i, k]: jobs handed to the tree syncer / acl / key-value syncers
          budget,   \* remaining environment budget
          clean     \* [Peers -> {"no","run"}] history: the current / last round of p ran without disturbance
vars == <<store, idx, phash, pend, online, space, rnd, tasks, budget, clean>>

Tomb(p, i)  == store[p][i].del # "none"
TombSet(p)  == {i \in Ids : Tomb(p, i)}
Live(p, i)  == store[p][i].has /\ ~Tomb(p, i)

\* what a quiescent index shows for an entry: live objects that are not bare roots. A bare acl root is
\* indexed by FillDiff (no common snapshot, not derived) and never by UpdateHeads; the acl exists
\* before the component starts, so FillDiff has always seen it. The head of the key-value store is the
\* hash of its own index, never its id: it is always indexed.
ViewE(e, i) == IF e.has /\ e.del = "none" /\ (e.hd # {} \/ i \in Special) THEN e.hd ELSE Absent
Fill(p)     == [i \in Ids |-> ViewE(store[p][i], i)]

Upd(i, e) == [id |-> i, hd |-> e.hd, del |-> e.del]
\* HeadStorage.UpdateEntry notifies the observers only when the entry was modified
Enq(pd, p, i, old, new) == IF old = new \/ ("NoObserver" \in Dev /\ new.del = "none" /\ old.hd # {})
                             THEN pd ELSE [pd EXCEPT ![p] = Append(@, Upd(i, new))]

\* ---- the range-hash diff as an operator (exactness is C07's business) ----
DNew(a, b) == {i \in Ids : a[i] = Absent /\ b[i] # Absent}
DChg(a, b) == {i \in Ids : a[i] # Absent /\ b[i] # Absent /\ a[i] # b[i]}
DRem(a, b) == {i \in Ids : a[i] # Absent /\ b[i] = Absent}

IdleRound == [st |-> "idle", cur |-> NoPeer, todo |-> <<>>, new |-> {}, chg |-> {}, rem |-> {}, nreq |-> 0]

\* Sync walks over the responsible peers; AcquireDrpcConn fails for an offline peer and the loop goes on
RECURSIVE FirstOnline(_, _)
FirstOnline(s, on) == IF s = <<>> THEN 0 ELSE IF on[Head(s)] THEN 1 ELSE
                         LET k == FirstOnline(Tail(s), on) IN IF k = 0 THEN 0 ELSE k + 1
Advance(todo, on) ==
    LET k == FirstOnline(todo, on)
    IN  IF k = 0 THEN IdleRound
        ELSE [IdleRound EXCEPT !.st = "check", !.cur = todo[k], !.todo = SubSeq(todo, k + 1, Len(todo))]

AllIdle    == \A p \in Peers : rnd[p].st = "idle"
Drained    == \A p \in Peers : pend[p] = <<>>
Quiet      == Drained /\ tasks = {} /\ AllIdle /\ \A p \in Peers : online[p]
Disturb    == clean' = [p \in Peers |-> "no"]

Init ==
    /\ store  = [p \in Peers |-> [i \in Ids |-> [has |-> i \in Special /\ p \notin NoSpace, hd |-> {}, del |-> "none"]]]
    /\ idx    = [p \in Peers |-> Fill(p)]
    /\ space  = [p \in Peers |-> p \notin NoSpace]
    /\ phash  = idx
    /\ pend   = [p \in Peers |-> <<>>]
    /\ online = [p \in Peers |-> TRUE]
    /\ rnd    = [p \in Peers |-> IdleRound]
    /\ tasks  = {}
    /\ budget = Budget
    /\ clean  = [p \in Peers |-> "no"]

(* ------------------------------ store writes ------------------------------ *)
Write(p, i, new) ==
    /\ space[p]
    /\ Len(pend[p]) < MaxPend
    /\ store' = [store EXCEPT ![p][i] = new]
    /\ pend'  = Enq(pend, p, i, store[p][i], new)

\* a new tree: CreateTreeStorage writes heads = [root id]
Create(p, i) ==
    /\ budget.cr > 0 /\ i \in Trees
    /\ ~store[p][i].has /\ ~Tomb(p, i)
    /\ Write(p, i, [has |-> TRUE, hd |-> {}, del |-> "none"])
    /\ budget' = [budget EXCEPT !.cr = @ - 1]
    /\ Disturb /\ UNCHANGED <<idx, phash, online, space, rnd, tasks>>

\* a local change (tree AddContent, acl record, key-value Set): new heads
Edit(p, i, c) ==
    /\ budget.ed > 0
    /\ Live(p, i) /\ c \notin store[p][i].hd
    /\ Write(p, i, [store[p][i] EXCEPT !.hd = @ \cup {c}])
    /\ budget' = [budget EXCEPT !.ed = @ - 1]
    /\ Disturb /\ UNCHANGED <<idx, phash, online, space, rnd, tasks>>

\* deletionState.Add (the settings object learned the deletion): status Queued, also for an unknown id
DeletedIds == {i \in Ids : \E p \in Peers : Tomb(p, i)}
Delete(p, i) ==
    /\ i \in Trees /\ ~Tomb(p, i)
    /\ i \in DeletedIds \/ Cardinality(DeletedIds) < budget.de
    /\ Write(p, i, [store[p][i] EXCEPT !.del = "queued"])
    /\ Disturb /\ UNCHANGED <<idx, phash, online, space, rnd, tasks, budget>>

\* the deleter removed the tree storage: deletionState.Delete, status Deleted
DeleteFinish(p, i) ==
    /\ store[p][i].del = "queued"
    /\ Write(p, i, [store[p][i] EXCEPT !.del = "deleted", !.has = FALSE])
    /\ Disturb /\ UNCHANGED <<idx, phash, online, space, rnd, tasks, budget>>

(* ------------------------------ the index ------------------------------ *)
\* DiffManager.UpdateHeads on the oldest queued entry (the entry is the one that resulted from the write;
\* the deletion state is consulted now)
ApplyTo(ix, p, u) ==
    IF u.del # "none" THEN [ix EXCEPT ![u.id] = Absent]
    ELSE IF (Tomb(p, u.id) /\ "NoExistsCheck" \notin Dev) \/ (u.hd = {} /\ u.id \notin Kv) THEN ix
    ELSE [ix EXCEPT ![u.id] = u.hd]
IndexApply(p) ==
    /\ pend[p] # <<>>
    /\ idx'   = [idx EXCEPT ![p] = ApplyTo(@, p, Head(pend[p]))]
    /\ phash' = [phash EXCEPT ![p] = idx'[p]]      \* SetHash in the same call (skipped when nothing changes)
    /\ pend'  = [pend EXCEPT ![p] = Tail(@)]
    /\ UNCHANGED <<store, online, space, rnd, tasks, budget, clean>>

\* the space is closed and opened again: the queue and the tree syncer's jobs are gone, FillDiff
Restart(p) ==
    /\ budget.rs > 0 /\ rnd[p].st = "idle" /\ space[p]
    /\ idx'   = [idx EXCEPT ![p] = Fill(p)]
    /\ phash' = [phash EXCEPT ![p] = Fill(p)]
    /\ pend'  = [pend EXCEPT ![p] = <<>>]
    /\ tasks' = {t \in tasks : t.f # p}
    /\ budget' = [budget EXCEPT !.rs = @ - 1]
    /\ Disturb /\ UNCHANGED <<store, online, space, rnd>>

\* a local change lands while the space is being opened: headSync.Run subscribes to the head storage first
\* (syncer.Run) and fills the index afterwards, so a write after FillDiff's read is announced to the new queue
RestartEdit(p, i, c) ==
    /\ budget.rs > 0 /\ budget.ed > 0 /\ rnd[p].st = "idle" /\ space[p]
    /\ Live(p, i) /\ c \notin store[p][i].hd
    /\ idx'   = [idx EXCEPT ![p] = Fill(p)]                  \* the read happened before the write
    /\ phash' = [phash EXCEPT ![p] = Fill(p)]
    /\ store' = [store EXCEPT ![p][i].hd = @ \cup {c}]
    /\ pend'  = [pend EXCEPT ![p] = IF "FillBeforeSubscribe" \in Dev THEN <<>> ELSE <<Upd(i, store'[p][i])>>]
    /\ tasks' = {t \in tasks : t.f # p}
    /\ budget' = [budget EXCEPT !.rs = @ - 1, !.ed = @ - 1]
    /\ Disturb /\ UNCHANGED <<online, space, rnd>>

(* ------------------------------ the round ------------------------------ *)
RoundBegin(p) ==
    /\ rnd[p].st = "idle" /\ space[p]
    /\ rnd' = [rnd EXCEPT ![p] = Advance(PeerSeq[p], online)]
    /\ clean' = [q \in Peers |-> IF q = p /\ Quiet THEN "run" ELSE "no"]
    /\ UNCHANGED <<store, idx, phash, pend, online, space, tasks, budget>>

\* DiffTypeCheck: one HeadSync request (top range); equal hashes end the exchange
RoundCheck(p) ==
    /\ rnd[p].st = "check"
    /\ LET q == rnd[p].cur IN
         rnd' = [rnd EXCEPT ![p] =
                   IF ~online[q] THEN Advance(@.todo, online)                    \* request failed: next peer
                   ELSE IF ~space[q] THEN [@ EXCEPT !.st = "push"]                \* ErrSpaceMissing
                   ELSE IF idx[p] = idx[q] THEN [@ EXCEPT !.st = "apply", !.nreq = 1]
                   ELSE [@ EXCEPT !.st = "diff", !.nreq = 1]]
    /\ UNCHANGED <<store, idx, phash, pend, online, space, tasks, budget, clean>>

\* onDiffError: SpacePush registers the space on the peer with the acl root and the settings root only, then
\* one more TryDiff on the same connection (whose failure ends the exchange like any other)
RoundPush(p) ==
    /\ rnd[p].st = "push"
    /\ LET q == rnd[p].cur IN
         IF ~online[q]
           THEN /\ rnd' = [rnd EXCEPT ![p] = Advance(@.todo, online)]
                /\ UNCHANGED <<store, idx, phash, space>>
           ELSE /\ rnd' = [rnd EXCEPT ![p] = [@ EXCEPT !.st = "check"]]
                /\ space' = [space EXCEPT ![q] = TRUE]
                /\ store' = [store EXCEPT ![q] = [i \in Ids |-> [has |-> i \in Special, hd |-> {}, del |-> "none"]]]
                /\ idx'   = [idx EXCEPT ![q] = [i \in Ids |-> ViewE(store'[q][i], i)]]
                /\ phash' = [phash EXCEPT ![q] = idx'[q]]
    /\ UNCHANGED <<pend, online, tasks, budget, clean>>

\* ldiff.Diff against the remote index (both indexes are read when the request is answered)
RoundDiff(p) ==
    /\ rnd[p].st = "diff"
    /\ LET q == rnd[p].cur IN
         rnd' = [rnd EXCEPT ![p] =
                   IF ~online[q] THEN Advance(@.todo, online)
                   ELSE [@ EXCEPT !.st = "apply", !.nreq = 2,
                                  !.new = DNew(idx[p], idx[q]), !.chg = DChg(idx[p], idx[q]), !.rem = DRem(idx[p], idx[q])]]
    /\ UNCHANGED <<store, idx, phash, pend, online, space, tasks, budget, clean>>

\* applyDiff: what is handed to the tree syncer (deletion state consulted now)
ApplyMissing(p)  == IF "NoFilter" \in Dev THEN rnd[p].new ELSE rnd[p].new \ TombSet(p)
ApplyExistAll(p) == ((IF "NoRemovedPush" \in Dev THEN {} ELSE rnd[p].rem) \cup rnd[p].chg) \ TombSet(p)
ApplyExisting(p) == ApplyExistAll(p) \ Special          \* acl / key-value ids go to their own syncers
Jobs(p) == LET q == rnd[p].cur IN
       {[f |-> p, t |-> q, i |-> i, k |-> "missing"]  : i \in ApplyMissing(p)}
  \cup {[f |-> p, t |-> q, i |-> i, k |-> "existing"] : i \in ApplyExisting(p)}
  \cup {[f |-> p, t |-> q, i |-> i, k |-> "acl"]      : i \in ApplyExistAll(p) \cap Acl}
  \cup {[f |-> p, t |-> q, i |-> i, k |-> "kv"]       : i \in ApplyExistAll(p) \cap Kv}
RoundApply(p) ==
    /\ rnd[p].st = "apply"
    /\ tasks' = tasks \cup Jobs(p)
    /\ rnd' = [rnd EXCEPT ![p] = Advance(@.todo, online)]
    /\ UNCHANGED <<store, idx, phash, pend, online, space, budget, clean>>

\* one job of the tree syncer (C01: afterwards both hold the join; C15: never for a tombstoned object;
\* a job towards an offline peer is lost)
NoEffect(p, q, i) == \/ ~online[q] \/ ~space[q] \/ Tomb(p, i) \/ Tomb(q, i)
                     \/ (~store[p][i].has /\ ~store[q][i].has)
Joined(p, q, i) == [has |-> TRUE, del |-> "none",
                    hd |-> (IF store[p][i].has THEN store[p][i].hd ELSE {}) \cup
                           (IF store[q][i].has THEN store[q][i].hd ELSE {})]
TreeSync(t) ==
    /\ t \in tasks
    /\ tasks' = tasks \ {t}
    /\ LET p == t.f  q == t.t  i == t.i IN
         IF NoEffect(p, q, i)
           THEN /\ UNCHANGED <<store, pend>>
                /\ clean' = IF online[q] THEN clean ELSE [r \in Peers |-> "no"]
           ELSE /\ Len(pend[p]) < MaxPend /\ Len(pend[q]) < MaxPend
                /\ store' = [store EXCEPT ![p][i] = Joined(p, q, i), ![q][i] = Joined(p, q, i)]
                /\ pend'  = Enq(Enq(pend, p, i, store[p][i], Joined(p, q, i)), q, i, store[q][i], Joined(p, q, i))
                /\ clean' = clean
    /\ UNCHANGED <<idx, phash, online, space, rnd, budget>>

Flip(q) ==
    /\ budget.fl > 0
    /\ online' = [online EXCEPT ![q] = ~@]
    /\ budget' = [budget EXCEPT !.fl = @ - 1]
    /\ Disturb /\ UNCHANGED <<store, idx, phash, pend, space, rnd, tasks>>

EnvNext == \E p \in Peers :
              \/ \E i \in Ids : Create(p, i) \/ Delete(p, i) \/ DeleteFinish(p, i) \/ \E c \in Changes : Edit(p, i, c)
              \/ Restart(p) \/ Flip(p) \/ \E i \in Ids, c \in Changes : RestartEdit(p, i, c)
TreeSyncAny == \E t \in tasks : TreeSync(t)
SysNext == \/ \E p \in Peers : IndexApply(p) \/ RoundBegin(p) \/ RoundCheck(p) \/ RoundPush(p) \/ RoundDiff(p) \/ RoundApply(p)
           \/ TreeSyncAny
Next == EnvNext \/ SysNext

Fairness == /\ \A p \in Peers : /\ WF_vars(IndexApply(p)) /\ WF_vars(RoundBegin(p)) /\ WF_vars(RoundCheck(p))
                                /\ WF_vars(RoundDiff(p)) /\ WF_vars(RoundApply(p)) /\ WF_vars(RoundPush(p))
            /\ WF_vars(TreeSyncAny)
Spec     == Init /\ [][Next]_vars
LiveSpec == Spec /\ Fairness

(* ------------------------------ properties ------------------------------ *)
HeadVals == SUBSET Changes \cup {Absent}
TypeOK ==
    /\ \A p \in Peers, i \in Ids : store[p][i].hd \subseteq Changes /\ store[p][i].del \in DelSt
    /\ \A p \in Peers, i \in Ids : idx[p][i] \in HeadVals
    /\ \A p \in Peers : Len(pend[p]) <= MaxPend
    /\ \A p \in Peers : rnd[p].st \in {"idle", "check", "push", "diff", "apply"}
    /\ \A p \in Peers : ~space[p] => (rnd[p].st = "idle" /\ pend[p] = <<>> /\ \A i \in Ids : ~store[p][i].has /\ idx[p][i] = Absent)

\* NoLostUpdate (safety half): once the queue is drained the index shows exactly the stored live heads -
\* no write is lost on its way to the index, whatever was going on when it was made
IdxFollowsStore == \A p \in Peers : pend[p] = <<>> => idx[p] = Fill(p)

\* the persisted space hash always belongs to the current index contents
HashPersisted == phash = idx

\* DeletedNeverRequested: nothing handed to the tree syncer is tombstoned at the moment of the call ...
DeletedNeverRequested == \A p \in Peers : rnd[p].st = "apply" =>
                            (ApplyMissing(p) \cup ApplyExistAll(p)) \cap TombSet(p) = {}
\* ... a tombstoned object is never created or changed by a job, and never enters the index again
TombstoneKept == [][\A p \in Peers, i \in Ids : Tomb(p, i) =>
                       /\ Tomb(p, i)' /\ store'[p][i].hd = store[p][i].hd
                       /\ (store'[p][i].has => store[p][i].has)
                       /\ (idx[p][i] = Absent => idx'[p][i] = Absent)]_vars
\* the tree syncer never gets the acl / key-value ids
NoSpecialToTreeSyncer == \A t \in tasks : t.k \in {"missing", "existing"} => t.i \in Trees

\* EqualHashMeansNoTraffic: equal indexes end the exchange after the top-hash request with empty lists
EqualHashMeansNoTraffic ==
    [][\A p \in Peers : (rnd[p].st = "check" /\ rnd'[p].st # "check" /\ online[rnd[p].cur] /\ space[rnd[p].cur] /\ idx[p] = idx[rnd[p].cur])
          => /\ rnd'[p].st = "apply" /\ rnd'[p].nreq = 1
             /\ rnd'[p].new = {} /\ rnd'[p].chg = {} /\ rnd'[p].rem = {}]_vars
NoJobsWithoutDiff == \A p \in Peers : (rnd[p].st = "apply" /\ rnd[p].nreq = 1) => Jobs(p) = {}

\* FailureIsolated: whatever happens with one responsible peer (failed request, finished exchange), Sync turns
\* to the next responsible peer that is online
FailureIsolated == [][\A p \in Peers : (rnd[p].st \in {"check", "push", "diff", "apply"} /\ rnd'[p].cur # rnd[p].cur)
                          => rnd'[p] = Advance(rnd[p].todo, online)]_vars

\* Converged: equal index entries for every id that is tombstoned on neither side
Converged(p, q) == \A i \in Ids : (~Tomb(p, i) /\ ~Tomb(q, i)) => idx[p][i] = idx[q][i]
AllConverged    == \A p, q \in Peers : Converged(p, q)
\* RoundReducesDifference: one undisturbed loss-free round of p with its only responsible peer, its jobs
\* done and the queues drained, leaves the two indexes converged (one direction is enough, because a sync
\* of an existing object is a two-way merge and "removed" ids are pushed)
CleanRoundConverges ==
    \A p \in Peers : (clean[p] = "run" /\ Len(PeerSeq[p]) = 1 /\ rnd[p].st = "idle" /\ tasks = {} /\ Drained)
                        => Converged(p, PeerSeq[p][1])

\* PushGivesSpace: a peer that answered ErrSpaceMissing holds the space after the push (unless it went offline)
\* and the exchange with it starts again in the same round
PushGivesSpace == [][\A p \in Peers : (rnd[p].st = "push" /\ rnd'[p].st # "push" /\ online[rnd[p].cur])
                         => (space'[rnd[p].cur] /\ rnd'[p].st = "check" /\ rnd'[p].cur = rnd[p].cur)]_vars

\* liveness: when the environment is done and everybody stays online, repeated rounds converge (this is the
\* other half of NoLostUpdate: a change made during a round is picked up by a later round)
AllOnline == \A p \in Peers : online[p]
EventuallyConverged == (<>[]AllOnline) => <>[](AllConverged /\ Drained)
=============================================================================
