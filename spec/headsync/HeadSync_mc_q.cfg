SPECIFICATION Spec
CONSTANTS
  Peers <- P2
  PeerSeq <- PS2
  Trees <- T2
  Acl <- None
  Kv <- None
  Changes <- C2
  MaxPend = 2
  Budget <- Bq
INVARIANT TypeOK
INVARIANT IdxFollowsStore
INVARIANT HashPersisted
INVARIANT DeletedNeverRequested
INVARIANT NoSpecialToTreeSyncer
INVARIANT NoJobsWithoutDiff
INVARIANT CleanRoundConverges
PROPERTY TombstoneKept
PROPERTY EqualHashMeansNoTraffic
CHECK_DEADLOCK FALSE
