SPECIFICATION LiveSpec
CONSTANTS
  Peers = {p1, p2}
  PeerSeq <- PSAll
  Trees = {t1}
  Acl <- None
  Kv <- None
  Changes = {c1, c2}
  MaxPend = 1
  NoSpace <- None
  Dev <- None
  Budget <- Bl
PROPERTY EventuallyConverged
CHECK_DEADLOCK FALSE
