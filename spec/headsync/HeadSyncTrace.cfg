SPECIFICATION TraceSpec
CONSTANTS
  Peers <- TracePeers
  PeerSeq <- PSAll
  Trees <- TraceTrees
  Acl <- TraceAcl
  Kv <- TraceKv
  Changes <- TraceChanges
  MaxPend = 100000
  NoSpace <- TraceNoSpace
  Dev <- None
  Budget <- TraceBudget
INVARIANT ObsIdxFollowsStore
INVARIANT ObsHashPersisted
INVARIANT ObsNoSpecial
INVARIANT ObsCleanRoundConverges
INVARIANT ObsDeletedNeverRequested
INVARIANT ObsEqualHashNoTraffic
INVARIANT ObsCheckSound
PROPERTY ObsTombstoneKept
CONSTRAINT Mark
POSTCONDITION TraceAccepted
CHECK_DEADLOCK FALSE
