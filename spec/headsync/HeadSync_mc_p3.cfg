SPECIFICATION Spec
CONSTANTS
  Peers = {p1, p2, p3}
  PeerSeq <- PSAll
  Trees = {t1}
  Acl <- None
  Kv <- None
  Changes = {c1}
  MaxPend = 1
  NoSpace <- None
  Dev <- None
  Budget <- Bp3
SYMMETRY Sym
INVARIANT TypeOK
INVARIANT IdxFollowsStore
INVARIANT HashPersisted
INVARIANT DeletedNeverRequested
INVARIANT NoSpecialToTreeSyncer
INVARIANT NoJobsWithoutDiff
INVARIANT CleanRoundConverges
PROPERTY TombstoneKept
PROPERTY EqualHashMeansNoTraffic
PROPERTY FailureIsolated
PROPERTY PushGivesSpace
CHECK_DEADLOCK FALSE
