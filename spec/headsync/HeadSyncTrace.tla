---------------------------- MODULE HeadSyncTrace ----------------------------
(* Trace validation (code -> spec). harness/headsync TestRecord drives real headsync components    *)
(* (real diffSyncer / DiffManager / ldiff / head storage / deletion state, fake peers looping the   *)
(* HeadSync rpc back through the real client and wire adapter) with random actions and writes one   *)
(* NDJSON line per action: name, arguments, what the code handed out in that step (result of the    *)
(* type check, the SyncAll lists, tombstone hits among them) and the observed post-state (index     *)
(* contents, whether the persisted hash fits the index, head-storage entries, queue lengths, round  *)
(* position, jobs).                                                                                 *)
(*                                                                                                  *)
(* Every line is processed in two steps:                                                            *)
(*   act: the named action of HeadSync with the logged arguments (must be enabled: the harness only *)
(*        does what the specification allows) - the state is now the specification's prediction;    *)
(*   cmp: the prediction is compared with the logged observation (a mismatch is counted as drift)   *)
(*        and the observation is ADOPTED: index, persisted hash, stores, jobs and round position    *)
(*        become what the real code showed.                                                         *)
(* So every state after a cmp step is a state observed on the real code, and the invariants and     *)
(* action properties of HeadSync evaluated there are verdicts about the code: IdxFollowsStore,      *)
(* HashPersisted, TombstoneKept (prediction -> observation: a tombstone never disappears, a         *)
(* tombstoned id never enters the index), NoSpecialToTreeSyncer, CleanRoundConverges, and the       *)
(* line-level predicates ObsDeletedNeverRequested / ObsEqualHashNoTraffic on the logged SyncAll     *)
(* calls. Many runs are concatenated; a Reset line starts a new one.                                *)
EXTENDS HeadSyncTraceConsts, VerifEmit

ASSUME HwReset /\ TLCSet(3, ndJsonDeserialize(TraceFileName)) /\ TLCSet(4, 0)
Trace == TLCGet(3)

VARIABLES l, phase, drift
tvars == <<vars, l, phase, drift>>

ToSet(s) == {s[k] : k \in 1..Len(s)}

ObsIdx(o)   == [p \in Peers |-> [i \in Ids |-> ToSet(o.idx[p][i])]]
ObsStore(o) == [p \in Peers |-> [i \in Ids |-> [has |-> o.store[p][i].has, hd |-> ToSet(o.store[p][i].hd), del |-> o.store[p][i].del]]]
ObsTasks(o) == {[f |-> t.f, t |-> t.t, i |-> t.i, k |-> t.k] : t \in ToSet(o.tasks)}
ObsOnline(o) == [p \in Peers |-> o.online[p]]
RndProj(r)  == [st |-> r.st, cur |-> r.cur, nreq |-> IF r.st = "idle" THEN 0 ELSE r.nreq]
ObsRnd(o)   == [p \in Peers |-> RndProj(o.rnd[p])]

ResetAll ==
    /\ store'  = [p \in Peers |-> [i \in Ids |-> [has |-> i \in Special /\ p \notin NoSpace, hd |-> {}, del |-> "none"]]]
    /\ idx'    = [p \in Peers |-> [i \in Ids |-> ViewE(store'[p][i], i)]]
    /\ space'  = [p \in Peers |-> p \notin NoSpace]
    /\ phash'  = idx'
    /\ pend'   = [p \in Peers |-> <<>>]
    /\ online' = [p \in Peers |-> TRUE]
    /\ rnd'    = [p \in Peers |-> IdleRound]
    /\ tasks'  = {}
    /\ budget' = Budget
    /\ clean'  = [p \in Peers |-> "no"]

TrAct ==
    /\ phase = "act" /\ l <= Len(Trace)
    /\ LET e == Trace[l] IN
         CASE e.a = "Reset"        -> ResetAll
           [] e.a = "Create"       -> Create(e.p, e.i)
           [] e.a = "Edit"         -> Edit(e.p, e.i, e.c)
           [] e.a = "Delete"       -> Delete(e.p, e.i)
           [] e.a = "DeleteFinish" -> DeleteFinish(e.p, e.i)
           [] e.a = "Flip"         -> Flip(e.p)
           [] e.a = "Restart"      -> Restart(e.p)
           [] e.a = "RestartEdit"  -> RestartEdit(e.p, e.i, e.c)
           [] e.a = "IndexApply"   -> IndexApply(e.p) /\ Head(pend[e.p]).id = e.i
           [] e.a = "RoundBegin"   -> RoundBegin(e.p)
           [] e.a = "RoundCheck"   -> RoundCheck(e.p)
           [] e.a = "RoundPush"    -> RoundPush(e.p)
           [] e.a = "RoundDiff"    -> RoundDiff(e.p)
           [] e.a = "RoundApply"   -> RoundApply(e.p)
           [] e.a = "TreeSync"     -> TreeSync([f |-> e.p, t |-> e.q, i |-> e.i, k |-> e.c])
    /\ phase' = "cmp" /\ UNCHANGED <<l, drift>>

TrCmp ==
    /\ phase = "cmp"
    /\ LET o == Trace[l].obs
           same == /\ idx = ObsIdx(o) /\ store = ObsStore(o) /\ tasks = ObsTasks(o)
                   /\ [p \in Peers |-> RndProj(rnd[p])] = ObsRnd(o)
                   /\ \A p \in Peers : o.hashok[p]
       IN  /\ \A p \in Peers : Len(pend[p]) = o.pendn[p]       \* the queue contents cannot be adopted: reject
           /\ online = ObsOnline(o) /\ space = [p \in Peers |-> o.space[p]]
           /\ drift' = IF same THEN drift ELSE drift + 1
           /\ idx'   = ObsIdx(o)
           /\ phash' = [p \in Peers |-> IF o.hashok[p] THEN idx'[p] ELSE [i \in Ids |-> {"stale"}]]
           /\ store' = ObsStore(o)
           /\ tasks' = ObsTasks(o)
           /\ rnd'   = [p \in Peers |-> IF RndProj(rnd[p]) = ObsRnd(o)[p] THEN rnd[p]
                                        ELSE [IdleRound EXCEPT !.st = o.rnd[p].st, !.cur = o.rnd[p].cur, !.nreq = o.rnd[p].nreq]]
    /\ phase' = "act" /\ l' = l + 1
    /\ UNCHANGED <<pend, online, space, budget, clean>>

TraceInit == Init /\ l = 1 /\ phase = "act" /\ drift = 0
TraceNext == TrAct \/ TrCmp
TraceSpec == TraceInit /\ [][TraceNext]_tvars

(* ---- property predicates on observed states / logged calls ---- *)
Observed == phase = "act"          \* the state after a cmp step (and the initial one)
ObsIdxFollowsStore     == Observed => IdxFollowsStore
ObsHashPersisted       == Observed => HashPersisted
ObsNoSpecial           == Observed => NoSpecialToTreeSyncer
ObsCleanRoundConverges == Observed => CleanRoundConverges
ObsTombstoneKept == [][phase = "cmp" => \A p \in Peers, i \in Ids : Tomb(p, i) =>
                          /\ Tomb(p, i)'
                          /\ (store'[p][i].has => store[p][i].has)
                          /\ (idx[p][i] = Absent => idx'[p][i] = Absent)]_tvars
Call == Trace[l].out
ObsDeletedNeverRequested == (phase = "cmp" /\ Trace[l].a = "RoundApply") => Call.tombhit = <<>>
ObsEqualHashNoTraffic    == (phase = "cmp" /\ Trace[l].a = "RoundApply" /\ Call.nreq = 1) =>
                               (Call.missing = <<>> /\ Call.existing = <<>> /\ ~Call.acl /\ ~Call.kv)
ObsCheckSound == (phase = "cmp" /\ Trace[l].a = "RoundCheck" /\ Call.res \in {"equal", "differs"}) =>
                    \* the state is still the prediction: rnd says what equal / different indexes imply
                    (Call.res = "equal") = (rnd[Trace[l].p].st = "apply")

Mark == HwMark(l) /\ TLCSet(4, drift)
TraceAccepted == PrintT(<<"TRACE-DRIFT", TLCGet(4)>>) /\ HwAccepted(Len(Trace))
=============================================================================
