---------------------------- MODULE HeadSyncConsts ----------------------------
(* Constant definitions for the TLC configurations of HeadSync (no symmetry sets: TLC evaluates every *)
(* constant definition at start-up, and Permutations of a recorded id set would not terminate).       *)
EXTENDS HeadSync

\* every peer is responsible for every other one (some fixed order)
PSAll == [p \in Peers |-> CHOOSE s \in [1..(Cardinality(Peers) - 1) -> Peers \ {p}] :
                                   \A a, b \in DOMAIN s : a # b => s[a] # s[b]]
\* string-valued constants for generation / trace validation
P2    == {"p1", "p2"}
P3    == {"p1", "p2", "p3"}
PS2   == "p1" :> <<"p2">> @@ "p2" :> <<"p1">>
PS3   == "p1" :> <<"p2", "p3">> @@ "p2" :> <<"p1", "p3">> @@ "p3" :> <<"p1", "p2">>
None  == {}
NS2   == {"p2"}
AclS  == {"acl"}
KvS   == {"kv"}
T1    == {"t1"}
T2    == {"t1", "t2"}
T3    == {"t1", "t2", "t3"}
C1    == {"c1"}
C2    == {"c1", "c2"}

B(cr, ed, de, fl, rs) == [cr |-> cr, ed |-> ed, de |-> de, fl |-> fl, rs |-> rs]
Bq   == B(1, 1, 1, 1, 1)
Bdev == B(1, 2, 1, 1, 1)
Bt   == B(2, 2, 1, 1, 1)
Bt2  == B(2, 2, 1, 0, 0)
Bs   == B(1, 2, 0, 1, 0)
Bl   == B(1, 1, 1, 0, 0)
Bp3  == B(1, 1, 0, 1, 0)
Bp3d == B(1, 1, 1, 0, 0)
Blt  == B(1, 2, 1, 1, 0)
Bpushq == B(1, 1, 1, 0, 0)
Bpush == B(1, 2, 1, 1, 0)
Bg   == B(3, 4, 1, 2, 1)
Bg3  == B(4, 5, 2, 2, 1)
DevExists   == {"NoExistsCheck"}
DevFilter   == {"NoFilter"}
DevRemoved  == {"NoRemovedPush"}
DevObserver == {"NoObserver"}
DevFill     == {"FillBeforeSubscribe"}
=============================================================================
