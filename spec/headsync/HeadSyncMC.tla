----------------------------- MODULE HeadSyncMC -----------------------------
(* Constant definitions for the TLC configurations of HeadSync. *)
EXTENDS HeadSync

P2   == {"p1", "p2"}
PS2  == "p1" :> <<"p2">> @@ "p2" :> <<"p1">>
P3   == {"p1", "p2", "p3"}
PS3  == "p1" :> <<"p2", "p3">> @@ "p2" :> <<"p1", "p3">> @@ "p3" :> <<"p1", "p2">>
\* a client with two nodes that do not talk to each other through this component
PS3c == "p1" :> <<"p2", "p3">> @@ "p2" :> <<"p1">> @@ "p3" :> <<"p1">>

None  == {}
AclS  == {"acl"}
KvS   == {"kv"}
T1    == {"t1"}
T2    == {"t1", "t2"}
T3    == {"t1", "t2", "t3"}
C1    == {"c1"}
C2    == {"c1", "c2"}

B(cr, ed, de, fl, rs) == [cr |-> cr, ed |-> ed, de |-> de, fl |-> fl, rs |-> rs]
Bq  == B(2, 2, 1, 1, 1)
Bt  == B(3, 3, 1, 2, 1)
Bl  == B(1, 2, 1, 1, 0)
=============================================================================
