----------------------------- MODULE HeadSyncMC -----------------------------
(* Root module of the exhaustive configurations: the constants plus the symmetry set. *)
EXTENDS HeadSyncConsts
Sym  == Permutations(Trees) \cup Permutations(Changes) \cup Permutations(Peers)
SymTC == Permutations(Trees) \cup Permutations(Changes)
=============================================================================
