SPECIFICATION GenSpec
CONSTANTS
  Peers <- P2
  PeerSeq <- PS2
  Trees <- T2
  Acl <- AclS
  Kv <- KvS
  Changes <- C2
  MaxPend = 3
  NoSpace <- NS2
  Dev <- None
  Budget <- Bg
  GenDepth = 40
INVARIANT Emit
CHECK_DEADLOCK FALSE
