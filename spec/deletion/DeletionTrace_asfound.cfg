INIT TraceInit
NEXT TraceNext
CONSTANTS
  Ids <- MCIds3
  Parent <- MCParent
  NoParent = "nil"
  MaxObs = 99
  FIX_TombRecheck = FALSE
  M_NoFetchCheck = FALSE
  M_ReAdd = FALSE
  M_NoLateChild = FALSE
  M_NoOrphanScan = FALSE
  M_NoExists = FALSE
CONSTRAINT Mark
POSTCONDITION TraceAccepted
CHECK_DEADLOCK FALSE
