---------------------------- MODULE DeletionTrace ----------------------------
(* Trace validation for C15: an NDJSON log recorded by the in-package harness  *)
(* (one event per executed action of a real space: action, id, id set, result, *)
(* the observable state afterwards and the call the deletion worker is parked  *)
(* at) must be a behaviour of Deletion; every invariant and every step         *)
(* property of Deletion is evaluated on the recorded states.  A "Reset" event  *)
(* starts the next case.                                                       *)
EXTENDS DeletionMC, VerifEmit

VARIABLE l
tvars == <<vars, l>>

Trace == ndJsonDeserialize(TraceFileName)
ASSUME HwReset

SetOf(seq) == {seq[k] : k \in 1..Len(seq)}

(* the head-storage notifications not yet handed to the head updater, per id *)
ObsOf(e, i) ==
  LET sel == SelectSeq(e.post.obsq, LAMBDA x : x[1] = i)
  IN [k \in 1..Len(sel) |-> <<sel[k][2], sel[k][3]>>]

WorkerView ==
  IF dpc = "idle" THEN <<"idle", "-">>
  ELSE IF dpc \in {"ts", "del", "mark", "kids"} THEN <<dpc, dcur>>
  ELSE <<CASE dpc = "kts" -> "ts" [] dpc = "kdel" -> "del" [] dpc = "kmark" -> "mark", dk>>

PostOK(e) ==
  /\ status' = e.post.status /\ stored' = e.post.stored
  /\ pset' = e.post.pset /\ content' = e.post.content
  /\ indexed' = SetOf(e.post.indexed)
  /\ memQ' = SetOf(e.post.memQ) /\ memD' = SetOf(e.post.memD)
  /\ \A i \in Ids : obsq'[i] = ObsOf(e, i)
  /\ WorkerView' = e.wk
  /\ last'.r = e.r /\ last'.i = e.i

Step(e) ==
  CASE e.a = "SettingsArrive" -> SettingsArrive(SetOf(e.s))
    [] e.a = "DeleteLocal"    -> DeleteLocal(e.i)
    [] e.a = "PutStart"       -> PutStart(e.i)
    [] e.a = "PutFinish"      -> PutFinish(e.i)
    [] e.a = "FetchStart"     -> FetchStart(e.i)
    [] e.a = "FetchFinish"    -> FetchFinish(e.i)
    [] e.a = "HeadUpdate"     -> HeadUpdate(e.i)
    [] e.a = "HeadObserver"   -> HeadObserver(e.i)
    [] e.a = "DTs"            -> DTs \/ DKTs
    [] e.a = "DDel"           -> DDel \/ DKDel
    [] e.a = "DMark"          -> DMark \/ DKMark
    [] e.a = "DKids"          -> DKids
    [] e.a = "Restart"        -> Restart
    [] e.a = "CrashAfterDeleteTree" -> CrashAfterDeleteTree
    [] OTHER -> FALSE

ResetAll ==
  /\ status' = [i \in Ids |-> "none"] /\ stored' = [i \in Ids |-> FALSE]
  /\ pset' = [i \in Ids |-> FALSE] /\ content' = [i \in Ids |-> FALSE]
  /\ logged' = {} /\ memQ' = {} /\ memD' = {} /\ sstate' = {} /\ indexed' = {}
  /\ obsq' = [i \in Ids |-> <<>>]
  /\ dpc' = "idle" /\ dq' = {} /\ dcur' = None /\ dkids' = {} /\ dk' = None /\ notified' = FALSE
  /\ pend' = [i \in Ids |-> "no"]
  /\ last' = [a |-> "Init", i |-> None, r |-> "ok", s |-> {}]

IsReset == l <= Len(Trace) /\ Trace[l].a = "Reset"

TraceInit == Init /\ l = 1
TraceNext ==
  /\ l <= Len(Trace)
  /\ l' = l + 1
  /\ IF Trace[l].a = "Reset" THEN ResetAll ELSE Step(Trace[l]) /\ PostOK(Trace[l])

TraceSpec == TraceInit /\ [][TraceNext]_tvars

Mark == HwMark(l)
TraceAccepted == HwAccepted(Len(Trace))

(* the step properties of Deletion on the recorded steps (a Reset starts a new case) *)
T_StatusMonotone     == [][IsReset \/ StepStatusMonotone]_tvars
T_NoStorageReappears == [][IsReset \/ StepNoStorageReappears]_tvars
T_AttemptsFail       == [][IsReset \/ StepAttemptsFail]_tvars
T_NeverReAdded       == [][IsReset \/ StepNeverReAdded]_tvars
T_ChildrenFollowLate == [][IsReset \/ StepChildrenFollowLate]_tvars
T_SurvivesRestart    == [][IsReset \/ StepSurvivesRestart]_tvars
T_DeletedIdsGrowOnly == [][IsReset \/ StepDeletedIdsGrowOnly]_tvars
T_KidsHandled        == [][IsReset \/ StepKidsHandled]_tvars
=============================================================================
