INIT LInit
NEXT LNext
CONSTANTS
  Ids = {"1", "2"}
  Authors = {"a", "b"}
  MaxRec = 4
VIEW lview
INVARIANTS LTypeOK SnapshotSound AuthorsClosed ObserverClosed IncrementalEqualsScratch
PROPERTIES DeletedIdsGrowOnly
CHECK_DEADLOCK FALSE
