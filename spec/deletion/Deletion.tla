------------------------------ MODULE Deletion ------------------------------
(***************************************************************************)
(* Property C15 - deletion is permanent.                                   *)
(*                                                                         *)
(* One space replica ("local") of any-sync, seen through the state that    *)
(* decides whether an object is deleted:                                   *)
(*                                                                         *)
(*   durable (any-store)                                                   *)
(*     status[i]  heads entry of object i: none (no entry) / live /        *)
(*                queued / deleted     headstorage.DeletedStatus           *)
(*     stored[i]  the changes collection holds the tree (root change)      *)
(*     pset[i]    the heads entry carries the parent id / derived flag     *)
(*                (written only by objecttree.CreateStorageTx)             *)
(*     content[i] heads # [root]  (empty trees are never advertised)       *)
(*     logged     ids with a delete record in the local settings tree      *)
(*   in memory (lost by Restart)                                           *)
(*     memQ, memD deletionstate.objectDeletionState.queued / deleted       *)
(*     sstate     settingsObject.state.DeletedIds                          *)
(*     indexed    ids in the advertised head index (ldiff of DiffManager)  *)
(*     obsq[i]    head-storage notifications not yet processed by the      *)
(*                asynchronous headUpdater (FIFO; kept per id: updates of  *)
(*                different ids commute)                                   *)
(*     dpc, ...   the deletion worker (deletionmanager.deleter.Delete),    *)
(*                one action per call it makes into storage / tree manager *)
(*     pend[i]    a PutSyncTree / remote fetch that passed its tombstone   *)
(*                check and has not yet created the storage                *)
(*                                                                         *)
(* One action per critical section of the implementation; every action     *)
(* records what the caller observed in `last` (history variable, hidden    *)
(* by VIEW in exhaustive runs).                                            *)
(*                                                                         *)
(* Named deviations / switches (CONSTANTS):                                *)
(*   FIX_TombRecheck  TRUE  = storage creation re-checks the tombstone     *)
(*                            inside its transaction (the repaired code);  *)
(*                    FALSE = the code as found: check and creation are    *)
(*                            separate (Dev_ behaviour, violates           *)
(*                            NoResurrection - see design.d/C15.md)        *)
(*   M_NoFetchCheck, M_ReAdd, M_NoLateChild, M_NoOrphanScan, M_NoExists    *)
(*                    acceptance mutants, all FALSE for the real code      *)
(***************************************************************************)
EXTENDS Naturals, Sequences, FiniteSets, TLC

CONSTANTS Ids,            \* object ids
          Parent,         \* [Ids -> Ids \cup {NoParent}]  bound (derived) children; depth 1:
                          \* objecttree.ErrDerivedParent forbids a derived object as parent
          NoParent,
          MaxObs,         \* bound on pending notifications per id (model bound only)
          FIX_TombRecheck,
          M_NoFetchCheck, M_ReAdd, M_NoLateChild, M_NoOrphanScan, M_NoExists

ASSUME \A i \in Ids : Parent[i] = NoParent \/ (Parent[i] \in Ids /\ Parent[Parent[i]] = NoParent)

VARIABLES status, stored, pset, content, logged,
          memQ, memD, sstate, indexed, obsq,
          dpc, dq, dcur, dkids, dk, notified,
          pend, last

durable == <<status, stored, pset, content, logged>>
worker  == <<dpc, dq, dcur, dkids, dk, notified>>
vars    == <<status, stored, pset, content, logged, memQ, memD, sstate, indexed, obsq,
             dpc, dq, dcur, dkids, dk, notified, pend, last>>
view    == <<status, stored, pset, content, logged, memQ, memD, sstate, indexed, obsq,
             dpc, dq, dcur, dkids, dk, notified, pend>>

None == "-"
Tomb == {"queued", "deleted"}
Rank(s) == CASE s = "none" -> 0 [] s = "live" -> 1 [] s = "queued" -> 2 [] s = "deleted" -> 3
Children(p) == {c \in Ids : Parent[c] = p}
IsChild(i) == Parent[i] # NoParent

TypeOK ==
  /\ status \in [Ids -> {"none", "live", "queued", "deleted"}]
  /\ stored \in [Ids -> BOOLEAN] /\ pset \in [Ids -> BOOLEAN] /\ content \in [Ids -> BOOLEAN]
  /\ logged \subseteq Ids /\ memQ \subseteq Ids /\ memD \subseteq Ids /\ sstate \subseteq Ids
  /\ indexed \subseteq Ids
  /\ \A i \in Ids : \A k \in 1..Len(obsq[i]) : obsq[i][k] \in {"live", "queued", "deleted"} \X BOOLEAN
  /\ dpc \in {"idle", "ts", "del", "mark", "kids", "kts", "kdel", "kmark"}
  /\ dq \subseteq Ids /\ dkids \subseteq Ids /\ dcur \in Ids \cup {None} /\ dk \in Ids \cup {None}
  /\ notified \in BOOLEAN
  /\ pend \in [Ids -> {"no", "put", "fetch"}]

Init ==
  /\ status = [i \in Ids |-> "none"] /\ stored = [i \in Ids |-> FALSE]
  /\ pset = [i \in Ids |-> FALSE] /\ content = [i \in Ids |-> FALSE]
  /\ logged = {} /\ memQ = {} /\ memD = {} /\ sstate = {} /\ indexed = {}
  /\ obsq = [i \in Ids |-> <<>>]
  /\ dpc = "idle" /\ dq = {} /\ dcur = None /\ dkids = {} /\ dk = None /\ notified = FALSE
  /\ pend = [i \in Ids |-> "no"]
  /\ last = [a |-> "Init", i |-> None, r |-> "ok", s |-> {}]

Res(a, i, r) == last' = [a |-> a, i |-> i, r |-> r, s |-> {}]

(* ---------------------------------------------------------------------- *)
(* headstorage.UpdateEntry notifies the observers only when the document   *)
(* changed; the notification carries the resulting entry.                  *)
Note(q, changed, st, nr) == IF changed THEN Append(q, <<st, nr>>) ELSE q

(* ---------------------------------------------------------------------- *)
(* The deletion worker: deleteLoop runs deleter.Delete when notified (and  *)
(* once at start-up).  Delete() takes a snapshot of the queued set and     *)
(* handles the ids in map order (arbitrary).  A run over an empty snapshot *)
(* has no effect and is not represented.                                   *)
(* Advance: the worker finished an id; rest = unhandled ids of this run,   *)
(* mq = queued set afterwards, ntf = a notification is pending.            *)
Advance(rest, mq, ntf) ==
  IF rest # {}
  THEN \E n \in rest : dcur' = n /\ dq' = rest \ {n} /\ dpc' = "ts" /\ notified' = ntf
  ELSE IF ntf /\ mq # {}
  THEN \E n \in mq : dcur' = n /\ dq' = mq \ {n} /\ dpc' = "ts" /\ notified' = FALSE
  ELSE dpc' = "idle" /\ dcur' = None /\ dq' = {} /\ notified' = FALSE

(* deletionState.Add calls its observers -> deleteLoop.notify().            *)
Notify(mq) ==
  IF dpc = "idle"
  THEN /\ Advance({}, mq, TRUE) /\ dkids' = {} /\ dk' = None
  ELSE /\ notified' = TRUE /\ UNCHANGED <<dpc, dq, dcur, dkids, dk>>

(* deletionState.Add(ids): every id that is in neither in-memory set gets   *)
(* DeletedStatus = queued written (upsert: creates the entry if missing).   *)
AddNew(S) == {i \in S : i \notin memQ /\ i \notin memD}
AddEffect(S) ==
  LET new == AddNew(S) IN
  /\ status' = [i \in Ids |-> IF i \in new THEN "queued" ELSE status[i]]
  /\ memQ' = memQ \cup new
  /\ obsq' = [i \in Ids |-> IF i \in new THEN Note(obsq[i], status[i] # "queued", "queued", content[i]) ELSE obsq[i]]
  /\ Notify(memQ \cup new)
  /\ UNCHANGED memD

(* ---------------------------------------------------------------------- *)
(* settings: a delete record authored elsewhere arrives through the         *)
(* object-sync handler of the settings tree (Update / Rebuild ->            *)
(* deletionManager.UpdateState(state) -> Add(state.DeletedIds)).            *)
SettingsArrive(S) ==
  /\ S # {}
  /\ logged' = logged \cup S /\ sstate' = sstate \cup S
  /\ AddEffect(sstate \cup S)
  /\ last' = [a |-> "SettingsArrive", i |-> None, r |-> "ok", s |-> S]
  /\ UNCHANGED <<stored, pset, content, indexed, pend>>

(* settingsObject.DeleteObject *)
DeleteLocal(i) ==
  LET ids == {i} \cup {c \in Children(i) : pset[c] /\ status[c] = "live"} IN
  IF i \in sstate THEN Res("DeleteLocal", i, "alreadydeleted") /\ UNCHANGED view
  ELSE IF status[i] = "none" THEN Res("DeleteLocal", i, "noentry") /\ UNCHANGED view
  ELSE IF IsChild(i) /\ pset[i] THEN Res("DeleteLocal", i, "derived") /\ UNCHANGED view
  ELSE /\ logged' = logged \cup ids /\ sstate' = sstate \cup ids
       /\ AddEffect(sstate \cup ids)
       /\ Res("DeleteLocal", i, "ok")
       /\ UNCHANGED <<stored, pset, content, indexed, pend>>

(* ---------------------------------------------------------------------- *)
(* objecttree.CreateStorageTx (one write transaction): insert the root,     *)
(* upsert the heads entry (heads = [root], parent id), late-child check.    *)
(* withContent: the remote-fetch variant adds the fetched changes in the    *)
(* same transaction (storageDeferredCreation).                              *)
CreateOutcome(i) ==
  IF stored[i] THEN "exists"
  ELSE IF FIX_TombRecheck /\ status[i] \in Tomb THEN "deleted"
  ELSE IF IsChild(i) /\ status[Parent[i]] = "none" THEN "noparent"
  ELSE "ok"

CreateEffect(i, withContent) ==
  LET st1  == IF status[i] = "none" THEN "live" ELSE status[i]
      late == IsChild(i) /\ status[Parent[i]] \in Tomb /\ ~M_NoLateChild
      st2  == IF late THEN "queued" ELSE st1
      q1   == Append(obsq[i], <<st1, FALSE>>)
      q2   == Note(q1, late /\ st1 # "queued", "queued", FALSE)
      q3   == IF withContent THEN Append(q2, <<st2, TRUE>>) ELSE q2
  IN /\ stored' = [stored EXCEPT ![i] = TRUE]
     /\ pset' = [pset EXCEPT ![i] = IsChild(i)]
     /\ content' = [content EXCEPT ![i] = withContent]
     /\ status' = [status EXCEPT ![i] = st2]
     /\ obsq' = [obsq EXCEPT ![i] = q3]

(* synctree.PutSyncTree: checkTreeDeleted, then SpaceStorage.CreateTreeStorage *)
PutStart(i) ==
  /\ pend[i] = "no"
  /\ IF status[i] \in Tomb
     THEN Res("PutStart", i, "deleted") /\ UNCHANGED view
     ELSE /\ pend' = [pend EXCEPT ![i] = "put"] /\ Res("PutStart", i, "pending")
          /\ UNCHANGED <<durable, memQ, memD, sstate, indexed, obsq, worker>>

PutFinish(i) ==
  /\ pend[i] = "put"
  /\ pend' = [pend EXCEPT ![i] = "no"]
  /\ Res("PutFinish", i, CreateOutcome(i))
  /\ IF CreateOutcome(i) = "ok" THEN CreateEffect(i, FALSE) ELSE UNCHANGED <<status, stored, pset, content, obsq>>
  /\ UNCHANGED <<logged, memQ, memD, sstate, indexed, worker>>

(* synctree.BuildSyncTreeOrGetRemote with a peer in the context              *)
(* (treeRemoteGetter.getTree): existing local storage is opened without      *)
(* looking at the tombstone (scope note of C15: the worker itself relies on  *)
(* it); otherwise checkTreeDeleted, then the request to the peer.            *)
FetchStart(i) ==
  /\ pend[i] = "no"
  /\ IF stored[i] THEN Res("FetchStart", i, "ok") /\ UNCHANGED view
     ELSE IF status[i] \in Tomb /\ ~M_NoFetchCheck THEN Res("FetchStart", i, "deleted") /\ UNCHANGED view
     ELSE /\ pend' = [pend EXCEPT ![i] = "fetch"] /\ Res("FetchStart", i, "pending")
          /\ UNCHANGED <<durable, memQ, memD, sstate, indexed, obsq, worker>>

(* the peer answered: fullResponseCollector -> validator -> deferred storage *)
FetchFinish(i) ==
  /\ pend[i] = "fetch"
  /\ pend' = [pend EXCEPT ![i] = "no"]
  /\ Res("FetchFinish", i, CreateOutcome(i))
  /\ IF CreateOutcome(i) = "ok" THEN CreateEffect(i, TRUE) ELSE UNCHANGED <<status, stored, pset, content, obsq>>
  /\ UNCHANGED <<logged, memQ, memD, sstate, indexed, worker>>

(* A (stale) head update for object i arrives through objectsync:            *)
(* stored -> the tree takes the changes (storage.AddAll updates the heads    *)
(* entry); not stored -> follow-up request = unsplit fetch.                  *)
HeadUpdate(i) ==
  /\ pend[i] = "no"
  /\ IF stored[i]
     THEN /\ content' = [content EXCEPT ![i] = TRUE]
          \* a tree without content misses the predecessors of the announced change: the batch
          \* is not attachable, AddAll only bumps the add-sequence of the heads entry (a
          \* notification with unchanged heads), the follow-up full sync then brings everything
          /\ obsq' = [obsq EXCEPT ![i] = IF content[i] THEN Append(@, <<status[i], TRUE>>)
                                        ELSE Append(Append(@, <<status[i], FALSE>>), <<status[i], TRUE>>)]
          /\ Res("HeadUpdate", i, "applied")
          /\ UNCHANGED <<status, stored, pset, logged, memQ, memD, sstate, indexed, worker, pend>>
     ELSE IF status[i] \in Tomb /\ ~M_NoFetchCheck
     THEN Res("HeadUpdate", i, "deleted") /\ UNCHANGED view
     ELSE /\ Res("HeadUpdate", i, CreateOutcome(i))
          /\ IF CreateOutcome(i) = "ok" THEN CreateEffect(i, TRUE) ELSE UNCHANGED <<status, stored, pset, content, obsq>>
          /\ UNCHANGED <<logged, memQ, memD, sstate, indexed, worker, pend>>

(* ---------------------------------------------------------------------- *)
(* headUpdater goroutine -> DiffManager.UpdateHeads(entry)                  *)
HeadObserver(i) ==
  /\ obsq[i] # <<>>
  /\ LET e == Head(obsq[i]) st == e[1] nr == e[2] IN
     /\ obsq' = [obsq EXCEPT ![i] = Tail(@)]
     /\ indexed' = IF st # "live" /\ ~M_ReAdd THEN indexed \ {i}
                   ELSE IF (i \in memQ \cup memD) /\ ~M_NoExists THEN indexed
                   ELSE IF ~nr THEN indexed
                   ELSE indexed \cup {i}
  /\ Res("HeadObserver", i, "ok")
  /\ UNCHANGED <<durable, memQ, memD, sstate, worker, pend>>

(* ---------------------------------------------------------------------- *)
(* deleter.Delete, per id:  tryMarkDeleted (SpaceStorage.TreeStorage),       *)
(* TreeManager.DeleteTree | MarkTreeDeleted, deletionState.Delete,           *)
(* deleteBoundChildren (HeadStorage.GetEntriesByParentId, then the same      *)
(* three steps per child; no recursion).                                     *)
StateDelete(i) ==       \* deletionState.Delete: memory first, then the durable write
  /\ memQ' = memQ \ {i} /\ memD' = memD \cup {i}
  /\ status' = [status EXCEPT ![i] = "deleted"]
  /\ obsq' = [obsq EXCEPT ![i] = Note(@, status[i] # "deleted", "deleted", content[i])]

DTs ==
  /\ dpc = "ts"
  /\ dpc' = IF stored[dcur] THEN "del" ELSE "mark"
  /\ Res("DTs", dcur, IF stored[dcur] THEN "stored" ELSE "unknown")
  /\ UNCHANGED <<durable, memQ, memD, sstate, indexed, obsq, dq, dcur, dkids, dk, notified, pend>>

DDel ==                 \* DeleteTree (opens the local storage, Delete()) + state.Delete
  /\ dpc = "del"
  /\ stored' = [stored EXCEPT ![dcur] = FALSE]
  /\ StateDelete(dcur)
  /\ dpc' = "kids" /\ Res("DDel", dcur, "ok")
  /\ UNCHANGED <<pset, content, logged, sstate, indexed, dq, dcur, dkids, dk, notified, pend>>

DMark ==                \* MarkTreeDeleted + state.Delete (storage was unknown at DTs)
  /\ dpc = "mark"
  /\ StateDelete(dcur)
  /\ dpc' = "kids" /\ Res("DMark", dcur, "ok")
  /\ UNCHANGED <<stored, pset, content, logged, sstate, indexed, dq, dcur, dkids, dk, notified, pend>>

DKids ==
  /\ dpc = "kids"
  /\ LET kids == {c \in Children(dcur) : pset[c] /\ status[c] \in {"live", "queued"}} IN
     IF kids # {}
     THEN /\ \E k \in kids : dk' = k /\ dkids' = kids \ {k}
          /\ dpc' = "kts" /\ UNCHANGED <<dq, dcur, notified>>
     ELSE /\ Advance(dq, memQ, notified) /\ dkids' = {} /\ dk' = None
  /\ Res("DKids", dcur, "ok")
  /\ UNCHANGED <<durable, memQ, memD, sstate, indexed, obsq, pend>>

DKTs ==
  /\ dpc = "kts"
  /\ dpc' = IF stored[dk] THEN "kdel" ELSE "kmark"
  /\ Res("DTs", dk, IF stored[dk] THEN "stored" ELSE "unknown")
  /\ UNCHANGED <<durable, memQ, memD, sstate, indexed, obsq, dq, dcur, dkids, dk, notified, pend>>

NextKid(mq) ==
  IF dkids # {}
  THEN /\ \E k \in dkids : dk' = k /\ dkids' = dkids \ {k}
       /\ dpc' = "kts" /\ UNCHANGED <<dq, dcur, notified>>
  ELSE /\ Advance(dq, mq, notified) /\ dkids' = {} /\ dk' = None

DKDel ==
  /\ dpc = "kdel"
  /\ stored' = [stored EXCEPT ![dk] = FALSE]
  /\ StateDelete(dk)
  /\ NextKid(memQ \ {dk})
  /\ Res("DDel", dk, "ok")
  /\ UNCHANGED <<pset, content, logged, sstate, indexed, pend>>

DKMark ==
  /\ dpc = "kmark"
  /\ StateDelete(dk)
  /\ NextKid(memQ \ {dk})
  /\ Res("DMark", dk, "ok")
  /\ UNCHANGED <<stored, pset, content, logged, sstate, indexed, pend>>

(* ---------------------------------------------------------------------- *)
(* Restart (close + reopen on the same store, or a crash: the worker's      *)
(* steps are single durable writes, so a crash between two of them is a     *)
(* Restart in that state).  Start-up order of the space components:         *)
(* deletionstate.Run (load both sets, queue orphaned children of deleted    *)
(* parents), deletionmanager.Run (first worker run), settings.Run (rebuild   *)
(* the state from the log, Add), headsync.Run (FillDiff).                    *)
RestartEffect(st0, sto) ==    \* st0 / sto: durable status / stored at the moment of the restart
  LET dead    == {i \in Ids : st0[i] = "deleted"}
      orphans == IF M_NoOrphanScan THEN {} ELSE {c \in Ids : IsChild(c) /\ Parent[c] \in dead /\ pset[c] /\ st0[c] = "live"}
      st1     == [i \in Ids |-> IF i \in orphans THEN "queued" ELSE st0[i]]
      q1      == {i \in Ids : st1[i] = "queued"}
      new     == {i \in logged : i \notin q1 /\ i \notin dead}
      st2     == [i \in Ids |-> IF i \in new THEN "queued" ELSE st1[i]]
      q2      == q1 \cup new
  IN /\ status' = st2 /\ stored' = sto
     /\ memQ' = q2 /\ memD' = dead /\ sstate' = logged
     /\ indexed' = {i \in Ids : st2[i] = "live" /\ content[i]}
     /\ obsq' = [i \in Ids |-> <<>>]
     /\ pend' = [i \in Ids |-> "no"]
     /\ dkids' = {} /\ dk' = None
     /\ IF q1 # {}
        THEN \E n \in q1 : dcur' = n /\ dq' = q1 \ {n} /\ dpc' = "ts" /\ notified' = TRUE
        ELSE Advance({}, q2, TRUE)
     /\ UNCHANGED <<pset, content, logged>>

Restart ==
  /\ RestartEffect(status, stored)
  /\ Res("Restart", None, "ok")

(* crash after TreeManager.DeleteTree removed the storage, before state.Delete *)
CrashAfterDeleteTree ==
  /\ dpc \in {"del", "kdel"}
  /\ LET x == IF dpc = "del" THEN dcur ELSE dk IN
     /\ RestartEffect(status, [stored EXCEPT ![x] = FALSE])
     /\ Res("CrashAfterDeleteTree", x, "ok")

(* ---------------------------------------------------------------------- *)
WorkerStep == DTs \/ DDel \/ DMark \/ DKids \/ DKTs \/ DKDel \/ DKMark

Next ==
  \/ \E S \in SUBSET Ids : SettingsArrive(S)
  \/ \E i \in Ids : DeleteLocal(i) \/ PutStart(i) \/ PutFinish(i) \/ FetchStart(i) \/ FetchFinish(i)
                    \/ HeadUpdate(i) \/ HeadObserver(i)
  \/ WorkerStep
  \/ Restart
  \/ CrashAfterDeleteTree

Spec == Init /\ [][Next]_vars

(* model bounds: notifications pending per id; (3-object configuration) one put / fetch in flight *)
ObsBound == \A i \in Ids : Len(obsq[i]) <= MaxObs
OnePending == Cardinality({i \in Ids : pend[i] # "no"}) <= 1

(* ====================================================================== *)
(* Properties                                                              *)

(* the durable tombstone never goes back *)
StepStatusMonotone == \A i \in Ids : Rank(status'[i]) >= Rank(status[i])
StatusMonotone == [][StepStatusMonotone]_vars

(* once a deletion is recorded no storage for the id is created again, and  *)
(* put / fetch / head update of such an id fail as already deleted           *)
StepNoStorageReappears == \A i \in Ids : status[i] \in Tomb => (stored'[i] => stored[i])
NoStorageReappears == [][StepNoStorageReappears]_vars
StepAttemptsFail ==
  /\ (last'.a = "PutStart" /\ status[last'.i] \in Tomb) => last'.r = "deleted"
  /\ (last'.a \in {"PutFinish", "FetchFinish", "FetchStart", "HeadUpdate"}
        /\ status[last'.i] \in Tomb /\ ~stored[last'.i]) => last'.r = "deleted"
AttemptsFail == [][StepAttemptsFail]_vars
DeletedHasNoStorage == \A i \in Ids : status[i] = "deleted" => ~stored[i]
NoResurrection == NoStorageReappears /\ AttemptsFail

(* the id leaves the advertised index once the observer has drained and is   *)
(* never (re-)added while tombstoned                                         *)
NotIndexedOnceDeleted == \A i \in Ids : (status[i] \in Tomb /\ obsq[i] = <<>>) => i \notin indexed
StepNeverReAdded == \A i \in Ids : status[i] \in Tomb => (i \in indexed' => i \in indexed)
NeverReAdded == [][StepNeverReAdded]_vars

(* bound children: one created while its parent is tombstoned is queued at   *)
(* once; when the worker is done with a deleted parent all its children are  *)
(* at least queued (also after a restart in the middle: orphan scan)         *)
StepChildrenFollowLate ==
  \A c \in Ids : (IsChild(c) /\ ~stored[c] /\ stored'[c] /\ status[Parent[c]] \in Tomb) => status'[c] \in Tomb
ChildrenFollowLate == [][StepChildrenFollowLate]_vars
WorkerOn(p) == dcur = p /\ dpc \in {"kids", "kts", "kdel", "kmark"}
ChildrenFollowDone ==
  \A c \in Ids : (IsChild(c) /\ pset[c] /\ status[Parent[c]] = "deleted" /\ ~WorkerOn(Parent[c])) => status[c] \in Tomb

(* the worker's children list: every bound child that is not yet deleted -   *)
(* live, or queued (a child created while the parent was tombstoned is       *)
(* queued in the head storage only and is in no in-memory queue, so nothing  *)
(* else deletes it in this session) - is taken, and each taken child is      *)
(* deleted before the worker goes on                                         *)
StepKidsHandled ==
  /\ (last'.a = "DKids" /\ dpc = "kids") =>
        \A c \in Children(dcur) : (pset[c] /\ status[c] \in {"live", "queued"}) => (dk' = c \/ c \in dkids')
  /\ (dpc \in {"kdel", "kmark"} /\ dk # None /\ last'.a \in {"DDel", "DMark"} /\ last'.i = dk) => status'[dk] = "deleted"
KidsHandled == [][StepKidsHandled]_vars

(* restart keeps every tombstone, reloads both in-memory sets from it and     *)
(* does not advertise a tombstoned id                                         *)
StepSurvivesRestart ==
  last'.a \in {"Restart", "CrashAfterDeleteTree"} =>
       \A i \in Ids : /\ Rank(status'[i]) >= Rank(status[i])
                      /\ (status[i] = "deleted" => i \in memD')
                      /\ (status[i] = "queued" => i \in memQ')
                      /\ (status'[i] \in Tomb => i \notin indexed')
SurvivesRestart == [][StepSurvivesRestart]_vars
MirrorSound == memD = {i \in Ids : status[i] = "deleted"} /\ memQ \subseteq {i \in Ids : status[i] = "queued"}

(* the settings-derived set only grows (also across restarts)                *)
StepDeletedIdsGrowOnly == sstate \subseteq sstate'
DeletedIdsGrowOnly == [][StepDeletedIdsGrowOnly]_vars
LoggedTombstoned == \A i \in logged : status[i] \in Tomb

(* nothing is deleted that was not recorded (itself or its parent)           *)
NoOverDelete == \A i \in Ids : status[i] \in Tomb => (i \in logged \/ (IsChild(i) /\ status[Parent[i]] \in Tomb))
LiveStored == \A i \in Ids : status[i] = "live" => stored[i]

(* every queued id the worker knows is eventually deleted (worker fairness)  *)
FairSpec == Spec /\ WF_vars(WorkerStep)
QueuedGetsDeleted == \A i \in Ids : (i \in memQ) ~> (status[i] = "deleted")
=============================================================================
