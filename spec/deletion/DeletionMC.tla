----------------------------- MODULE DeletionMC -----------------------------
(* Model-checking instance of Deletion: a parent p with a bound child c and  *)
(* an unrelated object x (optionally a second child d).                      *)
EXTENDS Deletion
MCIds3 == {"p", "c", "x"}
MCIds2 == {"p", "c"}
MCIds4 == {"p", "c", "d", "x"}
MCParent == [i \in Ids |-> IF i \in {"c", "d"} THEN "p" ELSE NoParent]
=============================================================================
