INIT TraceInit
NEXT TraceNext
CONSTANTS
  Ids <- MCIds3
  Parent <- MCParent
  NoParent = "nil"
  MaxObs = 99
  FIX_TombRecheck = TRUE
  M_NoFetchCheck = FALSE
  M_ReAdd = FALSE
  M_NoLateChild = FALSE
  M_NoOrphanScan = FALSE
  M_NoExists = FALSE
CONSTRAINT Mark
POSTCONDITION TraceAccepted
INVARIANTS TypeOK DeletedHasNoStorage NotIndexedOnceDeleted ChildrenFollowDone MirrorSound LoggedTombstoned NoOverDelete LiveStored
PROPERTIES T_StatusMonotone T_NoStorageReappears T_AttemptsFail T_NeverReAdded T_ChildrenFollowLate T_SurvivesRestart T_DeletedIdsGrowOnly T_KidsHandled
CHECK_DEADLOCK FALSE
