INIT LInit
NEXT LNext
CONSTANTS
  Ids = {"1", "2", "3"}
  Authors = {"a", "b"}
  MaxRec = 5
INVARIANT EmitSim
CHECK_DEADLOCK FALSE
