SPECIFICATION Spec
CONSTANTS
  Ids <- MCIds2
  Parent <- MCParent
  NoParent = "nil"
  MaxObs = 3
  FIX_TombRecheck = TRUE
  M_NoFetchCheck = FALSE
  M_ReAdd = FALSE
  M_NoLateChild = FALSE
  M_NoOrphanScan = FALSE
  M_NoExists = FALSE
VIEW view
CONSTRAINT ObsBound
INVARIANTS TypeOK DeletedHasNoStorage NotIndexedOnceDeleted ChildrenFollowDone MirrorSound LoggedTombstoned NoOverDelete LiveStored
PROPERTIES StatusMonotone NoStorageReappears AttemptsFail NeverReAdded ChildrenFollowLate SurvivesRestart DeletedIdsGrowOnly KidsHandled
CHECK_DEADLOCK FALSE
